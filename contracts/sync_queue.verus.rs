// Unit sync_queue (C18, the queue clause, FUNCTION-LOCAL necessary conditions only): the two loops the head thread of
// sync42::WorkCoalescingQueue::do_work runs, extracted as regions of the real function.
//   * the stealing loop: walking the wait list from its own ticket, the head batches each input it takes exactly once, in
//     ticket order, marks that ticket Stolen at once, takes the first ticket it walks (its own) whatever the core says, and
//     stops at the first input the core declines -- so what it has taken is a PREFIX of the tickets it walked: `taken`
//     consecutive tickets starting with its own;
//   * the distributing loop: the k-th output of the core's work() is stored into the k-th of those same tickets, in order,
//     and that waiter is notified; at most `taken` tickets are touched;
//   * leaving (the waiting loop, and the tail of do_work): every way out unlinks the caller's guard and then notifies the new
//     head; the head clears doing_work before that notification.
// Together with the core's contract (the k-th output belongs to the k-th batched input: unit log_cores for the log's two
// cores) the ticket that was batched k-th is handed the k-th output, and no input is batched twice by one head.
// NOT decided here (the queue's protocol over all threads): that no other thread batches or answers the same ticket, that
// the tickets the head walks all hold inputs (the panic! arm of the stealing loop is unreachable only under a global
// invariant: stated as the assumption on load() below), that every caller eventually returns.
// Extraction rules: X13 `for mut w in waiter.iter()` is `while let Some(mut w) = it.next()` over the same iterator;
// X27 `for (mut w, out) in std::iter::zip(waiter.iter().take(taken), outputs)` is read as: up to `taken` times, take the
// next of each, stop when either ends (the definition of zip and take); X24 the wait list a guard writes through is an
// explicit ghost parameter (`marks`).
use vstd::prelude::*;
verus! {
global size_of usize == 8;

#[verifier::external_body]
struct In { _p: u8 }
impl Clone for In { #[verifier::external_body] fn clone(&self) -> Self { unimplemented!() } }
#[verifier::external_body]
struct Out { _p: u8 }
impl Clone for Out { #[verifier::external_body] fn clone(&self) -> Self { unimplemented!() } }
#[verifier::external_body]
struct Acc { _p: u8 }
//@ extract sync42/src/work_coalescing_queue.rs | enum WaitState
//@ end
// the input the caller holding ticket t linked itself with
uninterp spec fn input_of(t: nat) -> In;
// what the head writes through the guards it is handed: (ticket, what)
enum Mark { Stolen, Answered(Out), Notified }
struct Marks { log: Seq<(nat, Mark)> }

#[verifier::external_body]
struct WaitGuard { _p: u8 }
impl WaitGuard {
    uninterp spec fn ticket(&self) -> nat;
    // ASSUMED (the protocol's invariant, not decided): a ticket the head walks holds its caller's input
    #[verifier::external_body]
    fn load(&mut self) -> (r: WaitState<In, Out>)
        ensures final(self).ticket() == old(self).ticket(), r is Input, r->Input_0 == input_of(old(self).ticket()),
    { unimplemented!() }
    #[verifier::external_body]
    fn store(&mut self, v: WaitState<In, Out>, Tracked(m): Tracked<&mut Marks>)
        requires !(v is Input),
        ensures final(self).ticket() == old(self).ticket(),
            final(m).log == old(m).log.push((old(self).ticket(), if v is Stolen { Mark::Stolen } else { Mark::Answered(v->Output_0) })),
    { unimplemented!() }
    #[verifier::external_body]
    fn notify(&self, Tracked(m): Tracked<&mut Marks>)
        ensures final(m).log == old(m).log.push((self.ticket(), Mark::Notified)),
    { unimplemented!() }
    // the iterator over the wait list from this guard's own ticket on (unit sync_waitlist: tickets in order, one by one)
    #[verifier::external_body]
    fn iter(&self) -> (r: WaitIter) ensures r.pos() == self.ticket(), r.pos() <= 0x7fff_ffff_ffff_ffff { unimplemented!() }
}
#[verifier::external_body]
struct WaitIter { _p: u8 }
impl WaitIter {
    uninterp spec fn pos(&self) -> nat;
    #[verifier::external_body]
    fn next(&mut self) -> (r: Option<WaitGuard>)
        ensures r is Some ==> r->Some_0.ticket() == old(self).pos() && final(self).pos() == old(self).pos() + 1,
            r is None ==> final(self).pos() == old(self).pos(),
            // ASSUMED (machine arithmetic): fewer than 2^63 tickets
            final(self).pos() <= 0x7fff_ffff_ffff_ffff,
    { unimplemented!() }
}
// the core behind its mutex: what it has been asked to batch, in order
#[verifier::external_body]
struct Core { _p: u8 }
impl Core {
    uninterp spec fn batched(&self) -> Seq<In>;
    #[verifier::external_body]
    fn can_batch(&self, acc: &Acc, other: &In) -> (r: bool) { unimplemented!() }
    #[verifier::external_body]
    fn batch(&mut self, acc: Acc, other: In) -> (r: Acc) ensures final(self).batched() == old(self).batched().push(other) { unimplemented!() }
}
// the iterator work() hands back
#[verifier::external_body]
struct Outputs { _p: u8 }
impl Outputs {
    uninterp spec fn rest(&self) -> Seq<Out>;
    #[verifier::external_body]
    fn next(&mut self) -> (r: Option<Out>)
        ensures r is Some ==> old(self).rest().len() > 0 && r->Some_0 == old(self).rest()[0] && final(self).rest() == old(self).rest().drop_first(),
            r is None ==> old(self).rest().len() == 0 && final(self).rest() == old(self).rest(),
    { unimplemented!() }
}

// what the stealing loop is to leave behind for n consecutive tickets from `first`
spec fn stolen_marks(first: nat, n: nat) -> Seq<(nat, Mark)> { Seq::new(n, |k: int| ((first + k) as nat, Mark::Stolen)) }
spec fn inputs_from(first: nat, n: nat) -> Seq<In> { Seq::new(n, |k: int| input_of((first + k) as nat)) }
// what the distributing loop is to leave behind for the first n outputs
spec fn answer_marks(first: nat, outs: Seq<Out>, n: nat) -> Seq<(nat, Mark)>
    decreases n
{
    if n == 0 { Seq::empty() } else { answer_marks(first, outs, (n - 1) as nat).push(((first + n - 1) as nat, Mark::Answered(outs[n - 1]))).push(((first + n - 1) as nat, Mark::Notified)) }
}

//@ extract sync42/src/work_coalescing_queue.rs | impl WorkCoalescingQueue<I, O, C> :: fn do_work
//@ region `let mut it = waiter.iter(); 'waiters: while let Some(mut w) = it.next() {`
//@ region-sig <<
#[verifier::exec_allows_no_decreases_clause]
fn steal(waiter: &WaitGuard, core: &mut Core, mut work: Acc, Tracked(marks): Tracked<&mut Marks>) -> (r: (Acc, usize))
//@ >>
//@ region-tail <<
    (work, taken)
//@ >>
//@ rewrite X13 `'waiters: for mut w in waiter.iter() {` => `let mut it = waiter.iter(); 'waiters: while let Some(mut w) = it.next() {`
//@ rewrite-re X24 `\bw\.store\((.+)\);` => `w.store(\1, Tracked(marks));`
//@ bodystart <<
    let mut taken: usize = 0;
    let ghost first = waiter.ticket();
    proof {
        assert(stolen_marks(first, 0) =~= Seq::<(nat, Mark)>::empty());
        assert(inputs_from(first, 0) =~= Seq::<In>::empty());
        assert(marks.log + stolen_marks(first, 0) =~= marks.log);
        assert(core.batched() + inputs_from(first, 0) =~= core.batched());
    }
//@ >>
//@ post <<
        // `taken` consecutive tickets from the head's own: each batched once, in order, and marked Stolen
        final(marks).log == old(marks).log + stolen_marks(waiter.ticket(), r.1 as nat),
        final(core).batched() == old(core).batched() + inputs_from(waiter.ticket(), r.1 as nat),
//@ >>
//@ loop 0 <<
        invariant_except_break
            /* contract-inv */ it.pos() == first + taken,
        invariant it.pos() <= 0x7fff_ffff_ffff_ffff, first == waiter.ticket(),
            // the first ticket walked -- the head's own -- is taken whatever the core says
            /* contract-inv */ taken == 0 ==> it.pos() == first,
            /* contract-inv */ marks.log == old(marks).log + stolen_marks(first, taken as nat),
            /* contract-inv */ core.batched() == old(core).batched() + inputs_from(first, taken as nat),
        ensures
            marks.log == old(marks).log + stolen_marks(first, taken as nat),
            core.batched() == old(core).batched() + inputs_from(first, taken as nat),
//@ >>
//@ before `taken += 1;` <<
                    proof {
                        let n = taken as nat;
                        assert(stolen_marks(first, n + 1) =~= stolen_marks(first, n).push(((first + n) as nat, Mark::Stolen)));
                        assert(inputs_from(first, n + 1) =~= inputs_from(first, n).push(input_of((first + n) as nat)));
                        assert(old(marks).log + stolen_marks(first, n + 1) =~= (old(marks).log + stolen_marks(first, n)).push(((first + n) as nat, Mark::Stolen)));
                        assert(old(core).batched() + inputs_from(first, n + 1) =~= (old(core).batched() + inputs_from(first, n)).push(input_of((first + n) as nat)));
                    }
//@ >>
//@ end

//@ extract sync42/src/work_coalescing_queue.rs | impl WorkCoalescingQueue<I, O, C> :: fn do_work
//@ region `let mut k: usize = 0; while k <`
//@ region-sig <<
#[verifier::exec_allows_no_decreases_clause]
fn distribute(waiter: &WaitGuard, taken: usize, mut outputs: Outputs, Tracked(marks): Tracked<&mut Marks>) -> (r: usize)
//@ >>
//@ region-tail <<
    k
//@ >>
//@ rewrite-re X27 `for \(mut w, out\) in std::iter::zip\((.+?)\.take\((.+?)\), outputs\) \{` => `let mut it = \1; let mut k: usize = 0; while k < \2 { let mut w = match it.next() { Some(w) => w, None => break }; let out = match outputs.next() { Some(o) => o, None => break }; k += 1;`
//@ rewrite-re X24 `\bw\.store\((.+)\);` => `w.store(\1, Tracked(marks));`
//@ rewrite-re? X24 `\bw\.notify\(\);` => `w.notify(Tracked(marks));`
//@ bodystart <<
    let ghost first = waiter.ticket();
    let ghost outs = outputs.rest();
    proof { assert(marks.log + answer_marks(first, outs, 0) =~= marks.log); }
//@ >>
//@ post <<
        // the k-th output goes to the k-th ticket from the head's own, which is then notified; never more than `taken`
        r <= taken, r <= outputs.rest().len(),
        final(marks).log == old(marks).log + answer_marks(waiter.ticket(), outputs.rest(), r as nat),
//@ >>
//@ loop 0 <<
        invariant_except_break
            /* contract-inv */ it.pos() == first + k,
            outputs.rest() == outs.subrange(k as int, outs.len() as int),
        invariant /* contract-inv */ k <= taken, it.pos() <= 0x7fff_ffff_ffff_ffff, first == waiter.ticket(), k <= outs.len(),
            /* contract-inv */ marks.log == old(marks).log + answer_marks(first, outs, k as nat),
        ensures
            k <= taken, k <= outs.len(), marks.log == old(marks).log + answer_marks(first, outs, k as nat),
//@ >>
//@ endloop 0 <<
        proof {
            let n = (k - 1) as nat;
            assert(outs.subrange(n as int, outs.len() as int).drop_first() =~= outs.subrange(k as int, outs.len() as int));
            assert(old(marks).log + answer_marks(first, outs, k as nat) =~= (old(marks).log + answer_marks(first, outs, n)).push(((first + n) as nat, Mark::Answered(outs[n as int]))).push(((first + n) as nat, Mark::Notified)));
        }
//@ >>
//@ end


// ---------------------------------------------------------------- leaving the queue: every way out unlinks, then notifies
// Necessary conditions for "no call blocks forever while other calls keep completing" that are local to do_work: whichever
// way a caller leaves -- having found its output while waiting, or as the head after distributing -- it unlinks its own guard
// and THEN notifies the new head of the wait list; the head clears `doing_work` before that notification, so the thread it
// wakes can become the next head.  (That these wake-ups suffice is not decided.)
// notified_idle: a notification went out at a moment when this caller was unlinked AND nobody was working -- only such a
// notification lets the thread it wakes become the next head
struct Exit { unlinked: bool, notified_after_unlink: bool, notified_idle: bool, doing_work: bool }
#[verifier::external_body]
struct QGuard { _p: u8 }
impl QGuard {
    #[verifier::external_body]
    fn is_head(&mut self) -> (r: bool) { unimplemented!() }
    // the value cell of this caller's own ticket
    #[verifier::external_body]
    fn load(&mut self) -> (r: WaitState<In, Out>) { unimplemented!() }
    // ASSUMED for the head after distributing (unit above: the first ticket answered is the head's own, when the core
    // produced at least one output): its own cell holds an output
    #[verifier::external_body]
    fn load_answered(&mut self) -> (r: WaitState<In, Out>) ensures r is Output { unimplemented!() }
    // `state = waiter.naked_wait(state)`: the mutex is released and re-acquired; other threads may have flipped doing_work
    #[verifier::external_body]
    fn naked_wait(&self, Tracked(x): Tracked<&mut Exit>)
        ensures final(x).unlinked == old(x).unlinked, final(x).notified_after_unlink == old(x).notified_after_unlink,
    { unimplemented!() }
}
#[verifier::external_body]
struct QList { _p: u8 }
impl QList {
    #[verifier::external_body]
    fn unlink(&self, g: QGuard, Tracked(x): Tracked<&mut Exit>)
        requires !old(x).unlinked,
        ensures final(x).unlinked, !final(x).notified_after_unlink, !final(x).notified_idle, final(x).doing_work == old(x).doing_work,
    { unimplemented!() }
    #[verifier::external_body]
    fn notify_head(&self, Tracked(x): Tracked<&mut Exit>)
        ensures final(x).unlinked == old(x).unlinked, final(x).notified_after_unlink == old(x).unlinked, final(x).doing_work == old(x).doing_work,
            final(x).notified_idle == (old(x).unlinked && !old(x).doing_work),
    { unimplemented!() }
}
struct Queue { wait_list: QList }
// `state.doing_work` read under the queue's state mutex
#[verifier::external_body]
fn doing_work(Tracked(x): Tracked<&mut Exit>) -> (r: bool) ensures r == old(x).doing_work, *final(x) == *old(x) { unimplemented!() }
// `{ let mut state = self.state.lock().unwrap(); state.doing_work = false; }`
#[verifier::external_body]
fn clear_doing_work(Tracked(x): Tracked<&mut Exit>) ensures !final(x).doing_work, final(x).unlinked == old(x).unlinked, final(x).notified_after_unlink == old(x).notified_after_unlink, final(x).notified_idle == old(x).notified_idle { unimplemented!() }

// the waiting loop: a caller that finds its output leaves properly; one that falls through is head and nobody is working
//@ extract sync42/src/work_coalescing_queue.rs | impl WorkCoalescingQueue<I, O, C> :: fn do_work
//@ region `while doing_work(Tracked(x))`
//@ region-sig <<
#[verifier::exec_allows_no_decreases_clause]
fn wait_for_turn(q: &Queue, mut waiter: QGuard, Tracked(x): Tracked<&mut Exit>) -> (r: (Option<Out>, Option<QGuard>))
//@ >>
//@ region-tail <<
    (None, Some(waiter))
//@ >>
//@ rewrite-re X18 `\bself\.` => `q.`
//@ rewrite-re X23 `\bstate\.doing_work\b` => `doing_work(Tracked(x))`
//@ rewrite-re X23 `state = waiter\.naked_wait\(state\);` => `waiter.naked_wait(Tracked(x));`
//@ rewrite-re X24 `q\.wait_list\.unlink\(waiter\);` => `q.wait_list.unlink(waiter, Tracked(x));`
//@ rewrite-re X24 `q\.wait_list\.notify_head\(\);` => `q.wait_list.notify_head(Tracked(x));`
//@ rewrite-re X16 `return o;` => `return (Some(o), None);`
//@ pre <<
        !old(x).unlinked,
//@ >>
//@ post <<
        // left with an output: unlinked, and the new head was notified after that
        r.0 is Some ==> final(x).unlinked && final(x).notified_after_unlink,
        // still queued: nothing unlinked, this caller is at the head and nobody is working
        r.0 is None ==> !final(x).unlinked && !final(x).doing_work && r.1 is Some,
//@ >>
//@ loop 0 <<
            invariant !x.unlinked,
            ensures !x.unlinked, /* contract-inv */ !x.doing_work,
//@ >>
//@ end

// the head's way out after distributing the outputs
//@ extract sync42/src/work_coalescing_queue.rs | impl WorkCoalescingQueue<I, O, C> :: fn do_work
//@ region `if let WaitState::Output(o) = waiter.load_answered() {` ..$
//@ region-sig <<
fn head_leaves(q: &Queue, mut waiter: QGuard, Tracked(x): Tracked<&mut Exit>) -> (r: Out)
//@ >>
//@ region-tail <<
//@ >>
//@ rewrite-re X18 `\bself\.` => `q.`
//@ rewrite X7 `if let WaitState::Output(o) = waiter.load() {` => `if let WaitState::Output(o) = waiter.load_answered() {`
//@ rewrite-re X23 `(?s)\{\s*let mut state = q\.state\.lock\(\)\.unwrap\(\);\s*state\.doing_work = false;\s*\}` => `clear_doing_work(Tracked(x));`
//@ rewrite-re X24 `q\.wait_list\.unlink\(waiter\);` => `q.wait_list.unlink(waiter, Tracked(x));`
//@ rewrite-re X24 `q\.wait_list\.notify_head\(\);` => `q.wait_list.notify_head(Tracked(x));`
//@ pre <<
        !old(x).unlinked, old(x).doing_work,
//@ >>
//@ post <<
        // unlinked, no longer working, and the new head notified after both
        final(x).unlinked && !final(x).doing_work && final(x).notified_after_unlink && final(x).notified_idle,
//@ >>
//@ end

//@ min-verified 4
} // verus!
fn main() {}
