// Unit sst_kernels (C10): key order, dividing keys, successor keys, builder bookkeeping.
use vstd::prelude::*;
use std::cmp::Ordering;
verus! {
global size_of usize == 8;

// ---------- prelude: byte-lexicographic order (rule X9) ----------
spec fn lex_cmp(a: Seq<u8>, b: Seq<u8>) -> Ordering
    decreases a.len()
{
    if a.len() == 0 { if b.len() == 0 { Ordering::Equal } else { Ordering::Less } }
    else if b.len() == 0 { Ordering::Greater }
    else if a[0] < b[0] { Ordering::Less }
    else if a[0] > b[0] { Ordering::Greater }
    else { lex_cmp(a.skip(1), b.skip(1)) }
}
// characterisation used by the proofs: first difference decides
proof fn lemma_lex_cmp_common(a: Seq<u8>, b: Seq<u8>, n: int)
    requires 0 <= n <= a.len(), n <= b.len(), forall|i: int| 0 <= i < n ==> a[i] == b[i]
    ensures lex_cmp(a, b) == lex_cmp(a.skip(n), b.skip(n))
    decreases n
{
    if n == 0 {
        assert(a.skip(0) =~= a); assert(b.skip(0) =~= b);
    } else {
        assert(a[0] == b[0]);
        lemma_lex_cmp_common(a.skip(1), b.skip(1), n - 1);
        assert(a.skip(1).skip(n - 1) =~= a.skip(n));
        assert(b.skip(1).skip(n - 1) =~= b.skip(n));
    }
}
proof fn lemma_lex_cmp_refl(a: Seq<u8>)
    ensures lex_cmp(a, a) == Ordering::Equal
    decreases a.len()
{ if a.len() > 0 { lemma_lex_cmp_refl(a.skip(1)); } }

proof fn lemma_lex_cmp_equal(a: Seq<u8>, b: Seq<u8>)
    requires lex_cmp(a, b) == Ordering::Equal
    ensures a =~= b
    decreases a.len()
{
    if a.len() > 0 && b.len() > 0 {
        lemma_lex_cmp_equal(a.skip(1), b.skip(1));
        assert(a =~= seq![a[0]] + a.skip(1));
        assert(b =~= seq![b[0]] + b.skip(1));
    }
}

// exec comparison of byte strings, verified against lex_cmp; the code's `a.cmp(b)` on &[u8] is
// rewritten to this (X9) because Verus cannot attach a spec to the generic `impl Ord for [T]`.
fn bytes_cmp(a: &[u8], b: &[u8]) -> (r: Ordering)
    ensures r == lex_cmp(a@, b@)
{
    let mut i: usize = 0;
    while i < a.len() && i < b.len()
        invariant
            i <= a.len(), i <= b.len(),
            forall|j: int| 0 <= j < i ==> a@[j] == b@[j],
        decreases a.len() - i
    {
        if a[i] < b[i] {
            proof { lemma_lex_cmp_common(a@, b@, i as int); }
            return Ordering::Less;
        }
        if a[i] > b[i] {
            proof { lemma_lex_cmp_common(a@, b@, i as int); }
            return Ordering::Greater;
        }
        i += 1;
    }
    proof { lemma_lex_cmp_common(a@, b@, i as int); }
    if a.len() < b.len() { Ordering::Less } else if a.len() > b.len() { Ordering::Greater } else { Ordering::Equal }
}
fn min_usize(a: usize, b: usize) -> (r: usize)
    ensures r == (if a <= b { a } else { b })
{ if a <= b { a } else { b } }

// ---------- assumed contracts on std (rule X7) ----------
pub assume_specification [core::cmp::Ordering::then] (a: Ordering, b: Ordering) -> (r: Ordering)
    ensures r == (if a == Ordering::Equal { b } else { a });
pub assume_specification [core::cmp::Ordering::reverse] (a: Ordering) -> (r: Ordering)
    ensures r == (match a { Ordering::Less => Ordering::Greater, Ordering::Equal => Ordering::Equal, Ordering::Greater => Ordering::Less });
pub assume_specification [<Ordering as PartialEq>::eq] (a: &Ordering, b: &Ordering) -> (r: bool)
    ensures r == (*a == *b);
pub assume_specification<T: Clone> [<[T]>::to_vec] (s: &[T]) -> (r: Vec<T>)
    ensures r@ == s@;

// ---------- the entry order: key ascending, then timestamp DESCENDING ----------
spec fn rev(o: Ordering) -> Ordering {
    match o { Ordering::Less => Ordering::Greater, Ordering::Equal => Ordering::Equal, Ordering::Greater => Ordering::Less }
}
spec fn ts_cmp(a: u64, b: u64) -> Ordering {
    if a < b { Ordering::Less } else if a > b { Ordering::Greater } else { Ordering::Equal }
}
spec fn entry_cmp(k1: Seq<u8>, t1: u64, k2: Seq<u8>, t2: u64) -> Ordering {
    if lex_cmp(k1, k2) == Ordering::Equal { rev(ts_cmp(t1, t2)) } else { lex_cmp(k1, k2) }
}
spec fn entry_lt(k1: Seq<u8>, t1: u64, k2: Seq<u8>, t2: u64) -> bool { entry_cmp(k1, t1, k2, t2) == Ordering::Less }
spec fn entry_le(k1: Seq<u8>, t1: u64, k2: Seq<u8>, t2: u64) -> bool { entry_cmp(k1, t1, k2, t2) != Ordering::Greater }

//@ extract sst/src/lib.rs | struct KeyRef
//@ end

impl<'a> KeyRef<'a> {
//@ extract sst/src/lib.rs | impl KeyRef<'a> :: fn new
//@ ret r
//@ post <<
        r.key@ == key@, r.timestamp == timestamp,
//@ >>
//@ end

// X10: `impl Ord for KeyRef` :: cmp re-homed as an inherent method (Verus forbids contracts on trait impls)
//@ extract sst/src/lib.rs | impl Ord for KeyRef<'_> :: fn cmp
//@ ret r
//@ rewrite-re X9 `self\.key\s*\.cmp\(rhs\.key\)` => `bytes_cmp(self.key, rhs.key)`
//@ post <<
        r == entry_cmp(self.key@, self.timestamp, rhs.key@, rhs.timestamp),
//@ >>
//@ end
}

// ---------- divide_keys: last key of a block <= divider < first key of the next ----------
//@ extract sst/src/lib.rs | fn divide_keys
//@ ret ret
//@ rewrite X4 `cmp::min(` => `min_usize(`
//@ rewrite X5 `d_key[shared] = key_lhs[shared] + 1;` => `d_key.set(shared, key_lhs[shared] + 1);`
//@ pre <<
        entry_lt(key_lhs@, timestamp_lhs, key_rhs@, timestamp_rhs),
        key_lhs@.len() < usize::MAX,
//@ >>
//@ post <<
        entry_le(key_lhs@, timestamp_lhs, ret.0@, ret.1),
        entry_lt(ret.0@, ret.1, key_rhs@, timestamp_rhs),
        ret.0@.len() <= key_lhs@.len(),
//@ >>
//@ loop 0 <<
        invariant
            shared <= max_shared, max_shared <= key_lhs@.len(), max_shared <= key_rhs@.len(),
            forall|j: int| 0 <= j < shared ==> key_lhs@[j] == key_rhs@[j],
        decreases max_shared - shared
//@ >>
//@ afterloop 0 <<
    proof {
        lemma_lex_cmp_common(key_lhs@, key_rhs@, shared as int);
        // at the first difference lhs < rhs (from the precondition), or lhs is exhausted
        if shared < max_shared {
            assert(key_lhs@.skip(shared as int)[0] == key_lhs@[shared as int]);
            assert(key_rhs@.skip(shared as int)[0] == key_rhs@[shared as int]);
        }
    }
//@ >>
//@ after `d_timestamp = 0;` <<
        proof {
            let d = d_key@;
            assert(d.len() == shared + 1);
            assert forall|j: int| 0 <= j < shared implies d[j] == key_lhs@[j] by { }
            lemma_lex_cmp_common(key_lhs@, d, shared as int);
            assert(key_lhs@.skip(shared as int)[0] == key_lhs@[shared as int]);
            assert(d.skip(shared as int)[0] == d[shared as int]);
            lemma_lex_cmp_common(d, key_rhs@, shared as int);
            assert(key_rhs@.skip(shared as int)[0] == key_rhs@[shared as int]);
        }
//@ >>
//@ after `d_timestamp = timestamp_lhs;` <<
        proof {
            assert(d_key@ =~= key_lhs@);
            lemma_lex_cmp_refl(key_lhs@);
        }
//@ >>
//@ end

// ---------- minimal_successor_key: strictly greater than its argument ----------
//@ extract sst/src/lib.rs | fn minimal_successor_key
//@ ret ret
//@ post <<
        entry_lt(key@, timestamp, ret.0@, ret.1),
        ret.0@.len() <= key@.len() + 1,
//@ >>
//@ after `key.push(0);` <<
        proof {
            let k0 = old_key;
            assert(key@ =~= k0 + seq![0u8]);
            lemma_lex_cmp_common(k0, key@, k0.len() as int);
            assert(k0.skip(k0.len() as int).len() == 0);
            assert(key@.skip(k0.len() as int).len() == 1);
        }
//@ >>
//@ after `let mut key = key.to_vec();` <<
    let ghost old_key = key@;
    proof { lemma_lex_cmp_refl(key@); }
//@ >>
//@ end


// ---------- limits: reject instead of writing ----------
// X8: foreign error type, payload never inspected
#[verifier::external_body]
struct SError { _p: u8 }
//@ stubs sst/src/lib.rs -> SError

// "published limits" obligations: 16 KiB keys, 32 KiB values, 1 GiB - 64 MiB tables
//@ extract sst/src/lib.rs | const MAX_KEY_LEN
//@ post <<
        MAX_KEY_LEN == 16384,
//@ >>
//@ bodystart <<
    proof { assert(1usize << 14 == 16384) by (bit_vector); }
//@ >>
//@ end
//@ extract sst/src/lib.rs | const MAX_VALUE_LEN
//@ post <<
        MAX_VALUE_LEN == 32768,
//@ >>
//@ bodystart <<
    proof { assert(1usize << 15 == 32768) by (bit_vector); }
//@ >>
//@ end
//@ extract sst/src/lib.rs | const TABLE_FULL_SIZE
//@ post <<
        TABLE_FULL_SIZE == 1006632960,
//@ >>
//@ bodystart <<
    proof {
        assert((1usize << 30) == 1073741824) by (bit_vector);
        assert((1usize << 26) == 67108864) by (bit_vector);
    }
//@ >>
//@ end
//@ extract sst/src/lib.rs | fn key_too_large
//@ external-body
//@ end
//@ extract sst/src/lib.rs | fn value_too_large
//@ external-body
//@ end
//@ extract sst/src/lib.rs | fn table_full
//@ external-body
//@ end
//@ extract sst/src/lib.rs | fn sort_order
//@ external-body
//@ end

//@ extract sst/src/lib.rs | fn check_key_len
//@ ret r
//@ post <<
        r is Ok <==> key@.len() <= 16384,
//@ >>
//@ end
//@ extract sst/src/lib.rs | fn check_value_len
//@ ret r
//@ post <<
        r is Ok <==> value@.len() <= 32768,
//@ >>
//@ end
//@ extract sst/src/lib.rs | fn check_table_size
//@ ret r
//@ post <<
        r is Ok <==> size < 1006632960,
//@ >>
//@ end

// ---------- BlockBuilder kernels ----------
//@ extract sst/src/block.rs | struct BlockBuilderOptions
//@ end
//@ extract sst/src/block.rs | struct BlockBuilder
//@ end

spec fn lcp(a: Seq<u8>, b: Seq<u8>) -> nat
    decreases a.len()
{
    if a.len() == 0 || b.len() == 0 || a[0] != b[0] { 0 } else { 1 + lcp(a.skip(1), b.skip(1)) }
}
proof fn lemma_lcp(a: Seq<u8>, b: Seq<u8>, n: int)
    requires 0 <= n <= a.len(), n <= b.len(), forall|i: int| 0 <= i < n ==> a[i] == b[i],
             n == a.len() || n == b.len() || a[n] != b[n]
    ensures lcp(a, b) == n
    decreases n
{
    if n > 0 {
        assert(a[0] == b[0]);
        lemma_lcp(a.skip(1), b.skip(1), n - 1);
    } else if a.len() > 0 && b.len() > 0 { assert(a[0] != b[0]); }
}

impl BlockBuilder {
    // the restart table under construction: starts with 0, strictly increasing offsets into the buffer, and the last
    // one lies strictly below the end of the buffer as soon as an entry has been appended since it was recorded
    spec fn restarts_ok(&self) -> bool {
        &&& self.restarts@.len() >= 1 && self.restarts@[0] == 0 && self.buffer@.len() <= 0xffff_ffff
        &&& forall|i: int, j: int| 0 <= i < j < self.restarts@.len() ==> self.restarts@[i] < self.restarts@[j]
        &&& self.restarts@.last() <= self.buffer@.len()
        &&& self.key_value_pairs_since_restart > 0 ==> self.restarts@.last() < self.buffer@.len()
    }

// a restart may only be announced when at least one entry lies between the last restart point and the end of the
// buffer: two restart points at the same offset make the block unreadable (BlockCursor::next would not advance)
//@ extract sst/src/block.rs | impl BlockBuilder :: fn should_restart
//@ ret r
//@ pre <<
        self.restarts_ok(),
//@ >>
//@ post <<
        r ==> self.restarts@.last() < self.buffer@.len(),
//@ >>
//@ end

// prefix compression: the fragment is the key without its first `shared` bytes and those bytes are shared with the
// previous key (so the reader's `last_key[..shared] ++ fragment` is the key); a restart stores the whole key and
// records exactly the current end of the buffer as the new restart point, keeping the table strictly increasing.
// frame: last_key, last_timestamp, buffer untouched.
//@ extract sst/src/block.rs | impl BlockBuilder :: fn compute_key_frag
//@ ret r
//@ rewrite X4 `cmp::min(` => `min_usize(`
//@ pre <<
        old(self).restarts_ok(),
//@ >>
//@ post <<
        final(self).last_key@ == old(self).last_key@,
        final(self).last_timestamp == old(self).last_timestamp,
        final(self).buffer@ == old(self).buffer@,
        final(self).options == old(self).options,
        r.0 <= key@.len(), r.1@ == key@.skip(r.0 as int),
        r.0 <= lcp(key@, old(self).last_key@),
        final(self).restarts@ == old(self).restarts@
            || (r.0 == 0 && final(self).restarts@ == old(self).restarts@.push(old(self).buffer@.len() as u32) && final(self).key_value_pairs_since_restart == 0),
        forall|i: int, j: int| 0 <= i < j < final(self).restarts@.len() ==> final(self).restarts@[i] < final(self).restarts@[j],
        final(self).restarts@[0] == 0 && final(self).restarts@.last() <= final(self).buffer@.len(),
//@ >>
//@ loop 0 <<
                invariant
                    shared <= max_shared, max_shared <= key@.len(), max_shared <= self.last_key@.len(),
                    forall|j: int| 0 <= j < shared ==> key@[j] == self.last_key@[j],
                decreases max_shared - shared
//@ >>
//@ afterloop 0 <<
            proof { lemma_lcp(key@, self.last_key@, shared as int); }
//@ >>
//@ end

// Ok <=> the new entry is strictly greater than the last one (builders reject out-of-order input)
//@ extract sst/src/block.rs | impl BlockBuilder :: fn enforce_sort_order
//@ ret r
//@ post <<
        r is Ok <==> entry_lt(self.last_key@, self.last_timestamp, key@, timestamp),
//@ >>
//@ end

}

// ---------- SstBuilder: sort-order guard and the metadata it accumulates ----------
#[verifier::external_body]
struct SstBuilderRest { _p: u8 }
// only the fields the two kernels touch (the real struct also owns the output file, the open block, ...)
struct SstBuilder { last_key: Vec<u8>, last_timestamp: u64, smallest_timestamp: u64, biggest_timestamp: u64, rest: SstBuilderRest }

impl SstBuilder {
// builders reject out-of-order input with an error instead of writing it
//@ extract sst/src/lib.rs | impl SstBuilder :: fn enforce_sort_order
//@ ret r
//@ post <<
        r is Ok <==> entry_lt(old(self).last_key@, old(self).last_timestamp, key@, timestamp),
        final(self).last_key == old(self).last_key, final(self).last_timestamp == old(self).last_timestamp,
        final(self).smallest_timestamp == old(self).smallest_timestamp, final(self).biggest_timestamp == old(self).biggest_timestamp,
//@ >>
//@ end

// metadata clause: smallest/biggest timestamp are the running min/max of every timestamp accepted;
// the last key/timestamp are exactly the entry just accepted
//@ extract sst/src/lib.rs | impl SstBuilder :: fn assign_last_key
//@ post <<
        final(self).last_key@ == key@, final(self).last_timestamp == timestamp,
        final(self).smallest_timestamp == (if old(self).smallest_timestamp > timestamp { timestamp } else { old(self).smallest_timestamp }),
        final(self).biggest_timestamp == (if old(self).biggest_timestamp < timestamp { timestamp } else { old(self).biggest_timestamp }),
//@ >>
//@ end
}

} // verus!
fn main() {}
