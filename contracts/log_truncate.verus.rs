// Unit log_truncate (C12 "a torn tail loses only the tail", the repair side): sst::log::truncate_final_partial_frame -- the
// function behind the log-truncate-final-partial-frame tool -- extracted entire.  It walks the frames of a log and answers
// where to cut.  The frames the iterator hands out are a ghost sequence (discriminant, file offset just after the payload);
// LogIterator::next_frame is seen through a contract: it hands out the next frame of that sequence and leaves the reader
// just after it, or reports that there is none, or fails (any time: a frame cut in the middle is an error of read_exact,
// and then this function fails too and names no cut).  Proved, for any sequence of frames:
//   * None exactly when the log is empty or its last frame closes a record (WHOLE or SECOND): nothing to cut;
//   * Some(offset) exactly when the last frame leaves a record open, and offset is then the end of the LAST frame that
//     closed a record (0 if there is none): cutting there removes only frames after the last complete record -- no
//     complete record before the tail is lost, and no frame of an incomplete record is kept.
// ASSUMED: next_frame as described (its header / padding arithmetic on arbitrary bytes is unit log_reader; that a record
// is WHOLE or FIRST + SECOND is unit log_writer); stream_position reports where the reader stands.  The iterator keeps
// every payload it has read in its buffer (memory proportional to the file: noted under C09).
use vstd::prelude::*;
verus! {
global size_of usize == 8;

#[verifier::external_body]
struct SError { _p: u8 }
#[verifier::external_body]
struct IoError { _p: u8 }
#[verifier::external_body]
struct LogOptions { _p: u8 }
#[verifier::external_body]
struct LogPath { _p: u8 }
#[verifier::external_body]
fn io_result<T>(result: Result<T, IoError>) -> (r: Result<T, SError>)
    ensures (r is Ok) == (result is Ok), r is Ok ==> r->Ok_0 == result->Ok_0,
{ unimplemented!() }

//@ extract sst/src/log.rs | const HEADER_WHOLE
//@ end
//@ extract sst/src/log.rs | const HEADER_FIRST
//@ end
//@ extract sst/src/log.rs | const HEADER_SECOND
//@ end

struct Header { size: u64, discriminant: u32, crc32c: u32 }
struct Frame { disc: u32, end: u64 }
spec fn closes(d: u32) -> bool { d == HEADER_SECOND || d == HEADER_WHOLE }
// the end of the last frame that closes a record; 0 when no frame does
spec fn last_closed(f: Seq<Frame>) -> u64
    decreases f.len()
{
    if f.len() == 0 { 0 } else if closes(f.last().disc) { f.last().end } else { last_closed(f.drop_last()) }
}

#[verifier::external_body]
struct Input { _p: u8 }
impl Input {
    uninterp spec fn at(&self) -> u64;
    #[verifier::external_body]
    fn stream_position(&mut self) -> (r: Result<u64, IoError>)
        ensures r is Ok ==> r->Ok_0 == old(self).at(), final(self).at() == old(self).at(),
    { unimplemented!() }
}
struct LogIterator { input: Input, frames: Ghost<Seq<Frame>>, seen: Ghost<int> }
impl LogIterator {
    #[verifier::external_body]
    fn open(log_options: LogOptions, log_path: &LogPath, Ghost(frames): Ghost<Seq<Frame>>) -> (r: Result<LogIterator, SError>)
        ensures r is Ok ==> r->Ok_0.seen@ == 0 && r->Ok_0.frames@ == frames,
    { unimplemented!() }
    #[verifier::external_body]
    fn next_frame(&mut self) -> (r: Result<Option<Header>, SError>)
        requires 0 <= old(self).seen@ <= old(self).frames@.len(),
        ensures final(self).frames@ == old(self).frames@,
            r is Ok && r->Ok_0 is Some ==> old(self).seen@ < old(self).frames@.len() && final(self).seen@ == old(self).seen@ + 1
                && r->Ok_0->Some_0.discriminant == old(self).frames@[old(self).seen@].disc
                && final(self).input.at() == old(self).frames@[old(self).seen@].end,
            r is Ok && r->Ok_0 is None ==> old(self).seen@ == old(self).frames@.len() && final(self).seen@ == old(self).seen@,
    { unimplemented!() }
}

//@ extract sst/src/log.rs | fn truncate_final_partial_frame
//@ prefix #[verifier::exec_allows_no_decreases_clause]
//@ ret r
//@ rewrite-re X4 `<P: AsRef<Path>>` => ``
//@ rewrite-re X4 `log_path: P,` => `log_path: &LogPath, Ghost(frames): Ghost<Seq<Frame>>,`
//@ rewrite X7 `LogIterator::new(log_options, log_path)?` => `LogIterator::open(log_options, log_path, Ghost(frames))?`
//@ rewrite-re? X4 `let mut offset = 0;` => `let mut offset: u64 = 0;`
//@ post <<
        // (frames: the frames the file holds, as the iterator delivers them)
        r is Ok ==> (r->Ok_0 is None <==> frames.len() == 0 || closes(frames.last().disc))
            && (r->Ok_0 is Some ==> r->Ok_0->Some_0 == last_closed(frames)),
//@ >>
//@ loop 0 <<
        invariant iter.frames@ == frames, 0 <= iter.seen@ <= frames.len(),
            last_was_valid <==> (iter.seen@ == 0 || closes(frames[iter.seen@ - 1].disc)), /* contract-inv */
            offset == last_closed(frames.take(iter.seen@)), /* contract-inv */
        ensures iter.frames@ == frames, iter.seen@ == frames.len(),
            last_was_valid <==> (iter.seen@ == 0 || closes(frames[iter.seen@ - 1].disc)),
            offset == last_closed(frames.take(iter.seen@)),
//@ >>
//@ before `while let` <<
    proof { assert(frames.take(0) =~= Seq::<Frame>::empty()); }
//@ >>
//@ endloop 0 <<
        proof {
            let k = iter.seen@;
            assert(frames.take(k).drop_last() =~= frames.take(k - 1));
            assert(frames.take(k).last() == frames[k - 1]);
        }
//@ >>
//@ afterloop 0 <<
    proof { assert(frames.take(frames.len() as int) =~= frames); }
//@ >>
//@ end

//@ min-verified 1
} // verus!
fn main() {}
