// Unit cur_merging (C11): the heap kernel of MergingCursor<C>, for ANY number of children.
//   Comparator::is_less is the stated order on the children's current entries (a child with no current
//   entry sorts last in either direction);  percolate_down(i) turns "heap everywhere below i" into "heap
//   from i on";  heapify builds a heap;  both only PERMUTE the children;  in a heap the root is least.
// (The cursor-level statement "behaves as the sorted union" rests on this kernel; it is checked, bounded in
//  table size, by the Kani unit of the same name.)
use vstd::prelude::*;
verus! {
global size_of usize == 8;

//@ include cursor_spec.inc.rs

proof fn lemma_kt_trans(k1: Seq<u8>, t1: u64, k2: Seq<u8>, t2: u64, k3: Seq<u8>, t3: u64)
    requires kt_lt(k1, t1, k2, t2), kt_lt(k2, t2, k3, t3)
    ensures kt_lt(k1, t1, k3, t3)
{
    lemma_lex_order_total();
    lemma_lex_trans(k1, k2, k3);
    if k1 == k3 { lemma_lex_antisym(k1, k2); }
}
// negative transitivity: the order is total on distinct (key, timestamp) pairs
proof fn lemma_kt_total(k1: Seq<u8>, t1: u64, k2: Seq<u8>, t2: u64)
    ensures kt_lt(k1, t1, k2, t2) || kt_lt(k2, t2, k1, t1) || (k1 == k2 && t1 == t2)
{
    lemma_lex_order_total();
}

// `a < b` on KeyRef (PartialOrd through Ord::cmp; KeyRef::cmp == the entry order is PROVED in unit sst_kernels)
fn keyref_lt(a: &KeyRef, b: &KeyRef) -> (r: bool)
    ensures r == kt_lt(a.key@, a.timestamp, b.key@, b.timestamp)
{
    if bytes_lt(a.key, b.key) { true } else if bytes_eq(a.key, b.key) { a.timestamp > b.timestamp } else { false }
}

//@ extract sst/src/merging_cursor.rs | enum Comparator
//@ prefix #[derive(Eq, PartialEq, Structural)]
//@ end

type OK = Option<(Seq<u8>, u64)>;
// the order the heap is kept in: current entries ascending (Forward) / descending (Reverse); no entry = last
spec fn lessk(cmp: Comparator, a: OK, b: OK) -> bool {
    match (a, b) {
        (Some(x), Some(y)) => match cmp { Comparator::Forward => kt_lt(x.0, x.1, y.0, y.1), Comparator::Reverse => kt_lt(y.0, y.1, x.0, x.1) },
        (Some(_), None) => true,
        (None, _) => false,
    }
}
proof fn lemma_lessk_order(cmp: Comparator, a: OK, b: OK, c: OK)
    ensures
        !lessk(cmp, a, a),
        lessk(cmp, a, b) && lessk(cmp, b, c) ==> lessk(cmp, a, c),
        !lessk(cmp, a, b) && !lessk(cmp, b, c) ==> !lessk(cmp, a, c),
{
    if a is Some && b is Some && c is Some {
        let x = a->Some_0; let y = b->Some_0; let z = c->Some_0;
        lemma_kt_total(x.0, x.1, y.0, y.1); lemma_kt_total(y.0, y.1, z.0, z.1); lemma_kt_total(x.0, x.1, z.0, z.1);
        if kt_lt(x.0, x.1, y.0, y.1) && kt_lt(y.0, y.1, z.0, z.1) { lemma_kt_trans(x.0, x.1, y.0, y.1, z.0, z.1); }
        if kt_lt(z.0, z.1, y.0, y.1) && kt_lt(y.0, y.1, x.0, x.1) { lemma_kt_trans(z.0, z.1, y.0, y.1, x.0, x.1); }
        if kt_lt(x.0, x.1, z.0, z.1) && kt_lt(z.0, z.1, y.0, y.1) { lemma_kt_trans(x.0, x.1, z.0, z.1, y.0, y.1); }
        if kt_lt(y.0, y.1, x.0, x.1) && kt_lt(x.0, x.1, z.0, z.1) { lemma_kt_trans(y.0, y.1, x.0, x.1, z.0, z.1); }
        if kt_lt(z.0, z.1, x.0, x.1) && kt_lt(x.0, x.1, y.0, y.1) { lemma_kt_trans(z.0, z.1, x.0, x.1, y.0, y.1); }
        if kt_lt(y.0, y.1, z.0, z.1) && kt_lt(z.0, z.1, x.0, x.1) { lemma_kt_trans(y.0, y.1, z.0, z.1, x.0, x.1); }
    }
    lemma_lex_order_total();
}

impl Comparator {
//@ extract sst/src/merging_cursor.rs | impl Comparator :: fn is_less
//@ ret r
//@ rewrite-re? X9 `=> lhs < rhs,` => `=> keyref_lt(&lhs, &rhs),`
//@ rewrite-re? X9 `=> lhs > rhs,` => `=> keyref_lt(&rhs, &lhs),`
//@ rewrite-re? X9 `=> lhs <= rhs,` => `=> !keyref_lt(&rhs, &lhs),`
//@ rewrite-re? X9 `=> lhs >= rhs,` => `=> !keyref_lt(&lhs, &rhs),`
//@ pre <<
        lhs.wf_base(), rhs.wf_base(),
//@ >>
//@ post <<
        r == lessk(*self, lhs.key_spec(), rhs.key_spec()),
//@ >>
//@ end
}

//@ extract sst/src/merging_cursor.rs | struct MergingCursor
//@ end

spec fn keyof<C: Cursor>(cs: Seq<C>, i: int) -> OK { cs[i].key_spec() }
// every node from `from` on is not below its parent, as far as the parent is itself >= `from`
spec fn heap_from<C: Cursor>(cs: Seq<C>, cmp: Comparator, from: int) -> bool {
    forall|j: int| from < j < cs.len() && (j - 1) / 2 >= from ==> !lessk(cmp, keyof(cs, j), #[trigger] keyof(cs, (j - 1) / 2))
}
spec fn all_base<C: Cursor>(cs: Seq<C>) -> bool { forall|i: int| 0 <= i < cs.len() ==> (#[trigger] cs[i]).wf_base() }

// what a permutation of the children cannot change: any sum over the children, any property of all children
spec fn sumf<C>(cs: Seq<C>, f: spec_fn(C) -> int) -> int
    decreases cs.len()
{
    if cs.len() == 0 { 0 } else { sumf(cs.drop_last(), f) + f(cs.last()) }
}
spec fn allq<C>(cs: Seq<C>, q: spec_fn(C) -> bool) -> bool { forall|i: int| 0 <= i < cs.len() ==> q(#[trigger] cs[i]) }
spec fn same_family<C>(a: Seq<C>, b: Seq<C>) -> bool {
    &&& a.len() == b.len()
    &&& forall|f: spec_fn(C) -> int| #[trigger] sumf(a, f) == sumf(b, f)
    &&& forall|q: spec_fn(C) -> bool| allq(b, q) == #[trigger] allq(a, q)
}
proof fn lemma_sum_update<C>(cs: Seq<C>, i: int, x: C, f: spec_fn(C) -> int)
    requires 0 <= i < cs.len()
    ensures sumf(cs.update(i, x), f) == sumf(cs, f) - f(cs[i]) + f(x)
    decreases cs.len()
{
    let u = cs.update(i, x);
    if i == cs.len() - 1 {
        assert(u.drop_last() =~= cs.drop_last());
    } else {
        assert(u.drop_last() =~= cs.drop_last().update(i, x));
        lemma_sum_update(cs.drop_last(), i, x, f);
    }
}
proof fn lemma_swap_same_family<C>(cs: Seq<C>, i: int, j: int)
    requires 0 <= i < cs.len(), 0 <= j < cs.len()
    ensures same_family(cs.update(i, cs[j]).update(j, cs[i]), cs)
{
    let ns = cs.update(i, cs[j]).update(j, cs[i]);
    assert forall|f: spec_fn(C) -> int| #[trigger] sumf(ns, f) == sumf(cs, f) by {
        lemma_sum_update(cs, i, cs[j], f);
        lemma_sum_update(cs.update(i, cs[j]), j, cs[i], f);
    }
    assert forall|q: spec_fn(C) -> bool| allq(cs, q) == #[trigger] allq(ns, q) by {
        if allq(cs, q) {
            assert forall|k: int| 0 <= k < ns.len() implies q(#[trigger] ns[k]) by {
                if k == j { assert(q(cs[i])); } else if k == i { assert(q(cs[j])); } else { assert(q(cs[k])); }
            }
        }
        if allq(ns, q) {
            assert forall|k: int| 0 <= k < cs.len() implies q(#[trigger] cs[k]) by {
                if k == j { assert(q(ns[i])); } else if k == i { assert(q(ns[j])); } else { assert(q(ns[k])); }
            }
        }
    }
}
proof fn lemma_same_family_trans<C>(a: Seq<C>, b: Seq<C>, c: Seq<C>)
    requires same_family(a, b), same_family(b, c)
    ensures same_family(a, c)
{
    assert forall|f: spec_fn(C) -> int| #[trigger] sumf(a, f) == sumf(c, f) by { assert(sumf(a, f) == sumf(b, f)); assert(sumf(b, f) == sumf(c, f)); }
    assert forall|q: spec_fn(C) -> bool| allq(c, q) == #[trigger] allq(a, q) by { assert(allq(b, q) == allq(a, q)); assert(allq(c, q) == allq(b, q)); }
}
proof fn lemma_same_family_refl<C>(a: Seq<C>)
    ensures same_family(a, a)
{
}

// in a heap the root is least
proof fn lemma_root_least<C: Cursor>(cs: Seq<C>, cmp: Comparator, j: int)
    requires heap_from(cs, cmp, 0), 0 <= j < cs.len()
    ensures !lessk(cmp, keyof(cs, j), keyof(cs, 0))
    decreases j
{
    if j == 0 { lemma_lessk_order(cmp, keyof(cs, 0), keyof(cs, 0), keyof(cs, 0)); }
    else {
        let p = (j - 1) / 2;
        lemma_root_least(cs, cmp, p);
        assert(!lessk(cmp, keyof(cs, j), keyof(cs, p)));
        lemma_lessk_order(cmp, keyof(cs, j), keyof(cs, p), keyof(cs, 0));
    }
}


// ================================================================ the sorted union of a family of tables
// (everything here is invariant under permuting the family: it only uses sums / for-all over the children)

// number of entries of a sorted table that are below (k, t)
spec fn is_clt(s: Seq<Ent>, k: Seq<u8>, t: u64, p: int) -> bool {
    &&& 0 <= p <= s.len()
    &&& forall|i: int| 0 <= i < p ==> kt_lt(#[trigger] s[i].key, s[i].ts, k, t)
    &&& forall|i: int| p <= i < s.len() ==> !kt_lt(#[trigger] s[i].key, s[i].ts, k, t)
}
spec fn clt(s: Seq<Ent>, k: Seq<u8>, t: u64) -> int { choose|p: int| is_clt(s, k, t, p) }
proof fn scan_clt(s: Seq<Ent>, k: Seq<u8>, t: u64, c: int) -> (p: int)
    requires sorted(s), 0 <= c <= s.len(), forall|i: int| 0 <= i < c ==> kt_lt(#[trigger] s[i].key, s[i].ts, k, t)
    ensures is_clt(s, k, t, p)
    decreases s.len() - c
{
    if c == s.len() { c }
    else if !kt_lt(s[c].key, s[c].ts, k, t) {
        assert forall|i: int| c <= i < s.len() implies !kt_lt(#[trigger] s[i].key, s[i].ts, k, t) by {
            if i > c && kt_lt(s[i].key, s[i].ts, k, t) { lemma_kt_trans(s[c].key, s[c].ts, s[i].key, s[i].ts, k, t); }
        }
        c
    } else { scan_clt(s, k, t, c + 1) }
}
proof fn lemma_clt(s: Seq<Ent>, k: Seq<u8>, t: u64)
    requires sorted(s)
    ensures is_clt(s, k, t, clt(s, k, t))
{
    let p = scan_clt(s, k, t, 0);
}
proof fn lemma_clt_unique(s: Seq<Ent>, k: Seq<u8>, t: u64, p: int)
    requires sorted(s), is_clt(s, k, t, p)
    ensures p == clt(s, k, t)
{
    lemma_clt(s, k, t);
    let q = clt(s, k, t);
    if p < q { assert(kt_lt(s[p].key, s[p].ts, k, t)); } else if q < p { assert(kt_lt(s[q].key, s[q].ts, k, t)); }
}

proof fn lemma_sum_le<C>(cs: Seq<C>, f: spec_fn(C) -> int, g: spec_fn(C) -> int)
    requires forall|i: int| 0 <= i < cs.len() ==> f(#[trigger] cs[i]) <= g(cs[i])
    ensures sumf(cs, f) <= sumf(cs, g)
    decreases cs.len()
{
    if cs.len() > 0 {
        assert forall|i: int| 0 <= i < cs.drop_last().len() implies f(#[trigger] cs.drop_last()[i]) <= g(cs.drop_last()[i]) by { assert(cs.drop_last()[i] == cs[i]); }
        lemma_sum_le(cs.drop_last(), f, g);
        assert(cs.last() == cs[cs.len() - 1]);
    }
}
proof fn lemma_sum_lt<C>(cs: Seq<C>, f: spec_fn(C) -> int, g: spec_fn(C) -> int, w: int)
    requires forall|i: int| 0 <= i < cs.len() ==> f(#[trigger] cs[i]) <= g(cs[i]), 0 <= w < cs.len(), f(cs[w]) < g(cs[w])
    ensures sumf(cs, f) < sumf(cs, g)
    decreases cs.len()
{
    assert forall|i: int| 0 <= i < cs.drop_last().len() implies f(#[trigger] cs.drop_last()[i]) <= g(cs.drop_last()[i]) by { assert(cs.drop_last()[i] == cs[i]); }
    assert(cs.last() == cs[cs.len() - 1]);
    if w == cs.len() - 1 { lemma_sum_le(cs.drop_last(), f, g); }
    else { assert(cs.drop_last()[w] == cs[w]); lemma_sum_lt(cs.drop_last(), f, g, w); }
}
proof fn lemma_sum_eq<C>(cs: Seq<C>, f: spec_fn(C) -> int, g: spec_fn(C) -> int)
    requires forall|i: int| 0 <= i < cs.len() ==> f(#[trigger] cs[i]) == g(cs[i])
    ensures sumf(cs, f) == sumf(cs, g)
{
    lemma_sum_le(cs, f, g); lemma_sum_le(cs, g, f);
}

spec fn total<C: Cursor>(cs: Seq<C>) -> int { sumf(cs, |c: C| c.ents().len() as int) }
spec fn grank<C: Cursor>(cs: Seq<C>, k: Seq<u8>, t: u64) -> int { sumf(cs, |c: C| clt(c.ents(), k, t)) }
spec fn member<C: Cursor>(cs: Seq<C>, e: Ent) -> bool { exists|i: int, j: int| 0 <= i < cs.len() && 0 <= j < cs[i].ents().len() && #[trigger] cs[i].ents()[j] == e }
spec fn all_sorted<C: Cursor>(cs: Seq<C>) -> bool { forall|i: int| 0 <= i < cs.len() ==> sorted(#[trigger] cs[i].ents()) }
// (key, timestamp) pairs are unique across the family (timestamps are unique in the store)
spec fn distinct<C: Cursor>(cs: Seq<C>) -> bool {
    forall|i1: int, j1: int, i2: int, j2: int| 0 <= i1 < cs.len() && 0 <= j1 < cs[i1].ents().len() && 0 <= i2 < cs.len() && 0 <= j2 < cs[i2].ents().len()
        && #[trigger] cs[i1].ents()[j1].key == #[trigger] cs[i2].ents()[j2].key && cs[i1].ents()[j1].ts == cs[i2].ents()[j2].ts ==> i1 == i2 && j1 == j2
}

// the rank of an entry grows strictly with the entry
proof fn lemma_rank_mono<C: Cursor>(cs: Seq<C>, i: int, j: int, k2: Seq<u8>, t2: u64)
    requires all_sorted(cs), 0 <= i < cs.len(), 0 <= j < cs[i].ents().len(), kt_lt(cs[i].ents()[j].key, cs[i].ents()[j].ts, k2, t2)
    ensures grank(cs, cs[i].ents()[j].key, cs[i].ents()[j].ts) < grank(cs, k2, t2)
{
    let e = cs[i].ents()[j];
    let f = |c: C| clt(c.ents(), e.key, e.ts);
    let g = |c: C| clt(c.ents(), k2, t2);
    assert forall|x: int| 0 <= x < cs.len() implies f(#[trigger] cs[x]) <= g(cs[x]) by {
        let s = cs[x].ents();
        lemma_clt(s, e.key, e.ts); lemma_clt(s, k2, t2);
        let a = clt(s, e.key, e.ts); let b = clt(s, k2, t2);
        if b < a { assert(kt_lt(s[b].key, s[b].ts, e.key, e.ts)); lemma_kt_trans(s[b].key, s[b].ts, e.key, e.ts, k2, t2); }
    }
    // strict in the child that holds e: e itself is below (k2, t2) but not below itself
    let s = cs[i].ents();
    lemma_clt(s, e.key, e.ts); lemma_clt(s, k2, t2);
    let a = clt(s, e.key, e.ts); let b = clt(s, k2, t2);
    assert(!kt_lt(e.key, e.ts, e.key, e.ts));
    assert(a <= j) by { if j < a { assert(kt_lt(s[j].key, s[j].ts, e.key, e.ts)); } }
    assert(j < b) by { if b <= j { assert(!kt_lt(s[j].key, s[j].ts, k2, t2)); } }
    lemma_sum_lt(cs, f, g, i);
}

// the merged sequence: position r holds the entry of global rank r
spec fn ent_at<C: Cursor>(cs: Seq<C>, r: int) -> Ent { choose|e: Ent| member(cs, e) && grank(cs, e.key, e.ts) == r }
spec fn merged<C: Cursor>(cs: Seq<C>) -> Seq<Ent> { Seq::new(total(cs) as nat, |r: int| ent_at(cs, r)) }
// the precondition of the combinator: sorted children with pairwise distinct (key, timestamp) pairs
// (the last clause -- every rank below the total is taken -- is a counting fact that follows from the first
//  two; it is carried as part of the precondition here rather than proved)
spec fn mergeable<C: Cursor>(cs: Seq<C>) -> bool {
    &&& all_sorted(cs) && distinct(cs) && total(cs) >= 0
    &&& forall|r: int| 0 <= r < total(cs) ==> #[trigger] has_rank(cs, r)
}
spec fn has_rank<C: Cursor>(cs: Seq<C>, r: int) -> bool { exists|e: Ent| member(cs, e) && #[trigger] grank(cs, e.key, e.ts) == r }
proof fn lemma_same_rank_same_entry<C: Cursor>(cs: Seq<C>, e1: Ent, e2: Ent)
    requires all_sorted(cs), distinct(cs), member(cs, e1), member(cs, e2), grank(cs, e1.key, e1.ts) == grank(cs, e2.key, e2.ts)
    ensures e1 == e2
{
    let (i1, j1) = choose|i: int, j: int| 0 <= i < cs.len() && 0 <= j < cs[i].ents().len() && #[trigger] cs[i].ents()[j] == e1;
    let (i2, j2) = choose|i: int, j: int| 0 <= i < cs.len() && 0 <= j < cs[i].ents().len() && #[trigger] cs[i].ents()[j] == e2;
    lemma_kt_total(e1.key, e1.ts, e2.key, e2.ts);
    if kt_lt(e1.key, e1.ts, e2.key, e2.ts) { lemma_rank_mono(cs, i1, j1, e2.key, e2.ts); }
    else if kt_lt(e2.key, e2.ts, e1.key, e1.ts) { lemma_rank_mono(cs, i2, j2, e1.key, e1.ts); }
    else { assert(cs[i1].ents()[j1].key == cs[i2].ents()[j2].key); }
}
proof fn lemma_member_rank<C: Cursor>(cs: Seq<C>, i: int, j: int)
    requires mergeable(cs), 0 <= i < cs.len(), 0 <= j < cs[i].ents().len()
    ensures
        member(cs, cs[i].ents()[j]),
        0 <= grank(cs, cs[i].ents()[j].key, cs[i].ents()[j].ts) < total(cs),
        merged(cs)[grank(cs, cs[i].ents()[j].key, cs[i].ents()[j].ts)] == cs[i].ents()[j],
{
    let e = cs[i].ents()[j];
    let f = |c: C| clt(c.ents(), e.key, e.ts);
    let g = |c: C| c.ents().len() as int;
    let z = |c: C| 0int;
    assert forall|x: int| 0 <= x < cs.len() implies f(#[trigger] cs[x]) <= g(cs[x]) && z(cs[x]) <= f(cs[x]) by { lemma_clt(cs[x].ents(), e.key, e.ts); }
    let s = cs[i].ents();
    lemma_clt(s, e.key, e.ts);
    assert(clt(s, e.key, e.ts) <= j) by { if j < clt(s, e.key, e.ts) { assert(kt_lt(s[j].key, s[j].ts, e.key, e.ts)); } }
    lemma_sum_lt(cs, f, g, i);
    lemma_sum_le(cs, z, f);
    lemma_sum_zero(cs);
    let r = grank(cs, e.key, e.ts);
    let e2 = ent_at(cs, r);
    assert(member(cs, e) && grank(cs, e.key, e.ts) == r);
    lemma_same_rank_same_entry(cs, e, e2);
}
proof fn lemma_sum_zero<C>(cs: Seq<C>)
    ensures sumf(cs, |c: C| 0int) == 0
    decreases cs.len()
{
    if cs.len() > 0 { lemma_sum_zero(cs.drop_last()); }
}
proof fn lemma_merged_entry<C: Cursor>(cs: Seq<C>, r: int)
    requires mergeable(cs), 0 <= r < total(cs)
    ensures member(cs, merged(cs)[r]), grank(cs, merged(cs)[r].key, merged(cs)[r].ts) == r
{
    assert(has_rank(cs, r));
    let w = choose|e: Ent| member(cs, e) && #[trigger] grank(cs, e.key, e.ts) == r;
    assert(member(cs, w) && grank(cs, w.key, w.ts) == r);
}
proof fn lemma_merged_sorted<C: Cursor>(cs: Seq<C>)
    requires mergeable(cs)
    ensures sorted(merged(cs)), merged(cs).len() == total(cs)
{
    let m = merged(cs);
    assert forall|x: int, y: int| 0 <= x < y < m.len() implies kt_lt(m[x].key, m[x].ts, m[y].key, m[y].ts) by {
        lemma_merged_entry(cs, x); lemma_merged_entry(cs, y);
        let e1 = m[x]; let e2 = m[y];
        let (i2, j2) = choose|i: int, j: int| 0 <= i < cs.len() && 0 <= j < cs[i].ents().len() && #[trigger] cs[i].ents()[j] == e2;
        lemma_kt_total(e1.key, e1.ts, e2.key, e2.ts);
        if kt_lt(e2.key, e2.ts, e1.key, e1.ts) { lemma_rank_mono(cs, i2, j2, e1.key, e1.ts); }
        else if !kt_lt(e1.key, e1.ts, e2.key, e2.ts) { lemma_same_rank_same_entry_kt(cs, e1, e2); }
    }
}
// two members with the same (key, timestamp) are the same entry, hence have the same rank
proof fn lemma_same_rank_same_entry_kt<C: Cursor>(cs: Seq<C>, e1: Ent, e2: Ent)
    requires distinct(cs), member(cs, e1), member(cs, e2), e1.key == e2.key, e1.ts == e2.ts
    ensures e1 == e2
{
    let (i1, j1) = choose|i: int, j: int| 0 <= i < cs.len() && 0 <= j < cs[i].ents().len() && #[trigger] cs[i].ents()[j] == e1;
    let (i2, j2) = choose|i: int, j: int| 0 <= i < cs.len() && 0 <= j < cs[i].ents().len() && #[trigger] cs[i].ents()[j] == e2;
    assert(cs[i1].ents()[j1].key == cs[i2].ents()[j2].key);
}

// ---------------------------------------------------------------- every rank below the total is taken (counting)
// position in a table just above an optional entry (None = before everything)
spec fn above(s: Seq<Ent>, oe: OK) -> int { match oe { None => 0, Some(e) => cle(s, e.0, e.1) } }
spec fn sum_above<C: Cursor>(cs: Seq<C>, oe: OK) -> int { sumf(cs, |c: C| above(c.ents(), oe)) }
// among the children below index k, the one whose first entry above `oe` is least (if any has one)
proof fn find_min_above<C: Cursor>(cs: Seq<C>, oe: OK, k: int) -> (r: Option<int>)
    requires all_sorted(cs), 0 <= k <= cs.len()
    ensures match r {
        Some(i) => 0 <= i < k && above(cs[i].ents(), oe) < cs[i].ents().len()
            && forall|x: int| 0 <= x < k && above(cs[x].ents(), oe) < cs[x].ents().len()
                ==> !kt_lt(#[trigger] cs[x].ents()[above(cs[x].ents(), oe)].key, cs[x].ents()[above(cs[x].ents(), oe)].ts,
                           cs[i].ents()[above(cs[i].ents(), oe)].key, cs[i].ents()[above(cs[i].ents(), oe)].ts),
        None => forall|x: int| 0 <= x < k ==> above(#[trigger] cs[x].ents(), oe) >= cs[x].ents().len(),
    }
    decreases k
{
    if k == 0 { None }
    else {
        let prev = find_min_above(cs, oe, k - 1);
        let s = cs[k - 1].ents(); let p = above(s, oe);
        if p >= s.len() { prev }
        else {
            match prev {
                None => Some(k - 1),
                Some(i) => {
                    let a = cs[i].ents()[above(cs[i].ents(), oe)]; let b = s[p];
                    if kt_lt(b.key, b.ts, a.key, a.ts) {
                        assert forall|x: int| 0 <= x < k && above(cs[x].ents(), oe) < cs[x].ents().len()
                            implies !kt_lt(#[trigger] cs[x].ents()[above(cs[x].ents(), oe)].key, cs[x].ents()[above(cs[x].ents(), oe)].ts, b.key, b.ts) by {
                            let c = cs[x].ents()[above(cs[x].ents(), oe)];
                            if x < k - 1 && kt_lt(c.key, c.ts, b.key, b.ts) { lemma_kt_trans(c.key, c.ts, b.key, b.ts, a.key, a.ts); }
                        }
                        Some(k - 1)
                    } else { Some(i) }
                }
            }
        }
    }
}
proof fn lemma_above_bounds(s: Seq<Ent>, oe: OK)
    requires sorted(s)
    ensures 0 <= above(s, oe) <= s.len(),
        forall|i: int| 0 <= i < above(s, oe) ==> oe is Some && !kt_lt(oe->Some_0.0, oe->Some_0.1, #[trigger] s[i].key, s[i].ts),
        forall|i: int| above(s, oe) <= i < s.len() ==> oe is Some ==> kt_lt(oe->Some_0.0, oe->Some_0.1, #[trigger] s[i].key, s[i].ts),
{
    if oe is Some { lemma_cle(s, oe->Some_0.0, oe->Some_0.1); }
}
// if the children sit just above `oe` and not all are exhausted, the least of their current entries has rank = the sum of the positions
proof fn lemma_rank_exists_above<C: Cursor>(cs: Seq<C>, oe: OK)
    requires all_sorted(cs), distinct(cs), sum_above(cs, oe) < total(cs)
    ensures has_rank(cs, sum_above(cs, oe))
{
    let r = find_min_above(cs, oe, cs.len() as int);
    match r {
        None => {
            assert forall|x: int| 0 <= x < cs.len() implies (|c: C| c.ents().len() as int)(#[trigger] cs[x]) <= (|c: C| above(c.ents(), oe))(cs[x]) by { }
            lemma_sum_le(cs, |c: C| c.ents().len() as int, |c: C| above(c.ents(), oe));
        }
        Some(i) => {
            let e2 = cs[i].ents()[above(cs[i].ents(), oe)];
            lemma_above_bounds(cs[i].ents(), oe);
            assert(0 <= i < cs.len() && 0 <= above(cs[i].ents(), oe) < cs[i].ents().len() && cs[i].ents()[above(cs[i].ents(), oe)] == e2);
            assert(member(cs, e2));
            assert forall|x: int| 0 <= x < cs.len() implies (|c: C| clt(c.ents(), e2.key, e2.ts))(#[trigger] cs[x]) == (|c: C| above(c.ents(), oe))(cs[x]) by {
                let s = cs[x].ents(); let p = above(s, oe);
                lemma_above_bounds(s, oe); lemma_above_bounds(cs[i].ents(), oe);
                assert forall|y: int| 0 <= y < p implies kt_lt(#[trigger] s[y].key, s[y].ts, e2.key, e2.ts) by {
                    // s[y] <= oe < e2
                    let o = oe->Some_0;
                    lemma_kt_total(s[y].key, s[y].ts, o.0, o.1);
                    if kt_lt(s[y].key, s[y].ts, o.0, o.1) { lemma_kt_trans(s[y].key, s[y].ts, o.0, o.1, e2.key, e2.ts); }
                }
                assert forall|y: int| p <= y < s.len() implies !kt_lt(#[trigger] s[y].key, s[y].ts, e2.key, e2.ts) by {
                    let cur = s[p];
                    assert(!kt_lt(cur.key, cur.ts, e2.key, e2.ts));
                    if y > p && kt_lt(s[y].key, s[y].ts, e2.key, e2.ts) { assert(kt_lt(cur.key, cur.ts, s[y].key, s[y].ts)); lemma_kt_trans(cur.key, cur.ts, s[y].key, s[y].ts, e2.key, e2.ts); }
                }
                lemma_clt_unique(s, e2.key, e2.ts, p);
            }
            lemma_sum_eq(cs, |c: C| clt(c.ents(), e2.key, e2.ts), |c: C| above(c.ents(), oe));
            assert(grank(cs, e2.key, e2.ts) == sum_above(cs, oe));
        }
    }
}
proof fn lemma_all_ranks<C: Cursor>(cs: Seq<C>, r: int)
    requires all_sorted(cs), distinct(cs), 0 <= r < total(cs)
    ensures has_rank(cs, r)
    decreases r
{
    if r == 0 {
        lemma_sum_zero(cs);
        assert(sum_above(cs, None) == 0) by { lemma_sum_eq(cs, |c: C| above(c.ents(), None), |c: C| 0int); }
        lemma_rank_exists_above(cs, None);
    } else {
        lemma_all_ranks(cs, r - 1);
        let e = choose|e: Ent| member(cs, e) && #[trigger] grank(cs, e.key, e.ts) == r - 1;
        let (w, j) = choose|i: int, j: int| 0 <= i < cs.len() && 0 <= j < cs[i].ents().len() && #[trigger] cs[i].ents()[j] == e;
        lemma_sum_cle_weak(cs, w, j);
        assert(sum_above(cs, Some((e.key, e.ts))) == r) by {
            lemma_sum_eq(cs, |c: C| above(c.ents(), Some((e.key, e.ts))), |c: C| cle(c.ents(), e.key, e.ts));
        }
        lemma_rank_exists_above(cs, Some((e.key, e.ts)));
    }
}
// the counting fact for an entry of the family, from sortedness and distinctness alone
proof fn lemma_sum_cle_weak<C: Cursor>(cs: Seq<C>, w: int, j: int)
    requires all_sorted(cs), distinct(cs), 0 <= w < cs.len(), 0 <= j < cs[w].ents().len()
    ensures sumf(cs, |c: C| cle(c.ents(), cs[w].ents()[j].key, cs[w].ents()[j].ts)) == grank(cs, cs[w].ents()[j].key, cs[w].ents()[j].ts) + 1
{
    let e = cs[w].ents()[j];
    let f = |c: C| cle(c.ents(), e.key, e.ts);
    let g = |c: C| clt(c.ents(), e.key, e.ts);
    assert forall|i: int| 0 <= i < cs.len() implies f(#[trigger] cs[i]) == g(cs[i]) + (if i == w { 1int } else { 0int }) by {
        let s = cs[i].ents();
        lemma_cle_clt(s, e.key, e.ts);
        if i == w { assert(s[j].key == e.key && s[j].ts == e.ts); }
        else if exists|y: int| 0 <= y < s.len() && #[trigger] s[y].key == e.key && s[y].ts == e.ts {
            let y = choose|y: int| 0 <= y < s.len() && #[trigger] s[y].key == e.key && s[y].ts == e.ts;
            assert(cs[i].ents()[y].key == cs[w].ents()[j].key);
        }
    }
    lemma_sum_indicator(cs, f, g, w);
}
// mergeable follows from sorted + distinct
proof fn lemma_mergeable<C: Cursor>(cs: Seq<C>)
    requires all_sorted(cs), distinct(cs)
    ensures mergeable(cs)
{
    assert(total(cs) >= 0) by {
        lemma_sum_zero(cs);
        lemma_sum_le(cs, |c: C| 0int, |c: C| c.ents().len() as int);
    }
    assert forall|r: int| 0 <= r < total(cs) implies #[trigger] has_rank(cs, r) by { lemma_all_ranks(cs, r); }
}

// ---------------------------------------------------------------- permuting the family changes none of the above
proof fn lemma_member_as_allq<C: Cursor>(cs: Seq<C>, e: Ent)
    ensures member(cs, e) == !allq(cs, |c: C| !c.ents().contains(e))
{
    let q = |c: C| !c.ents().contains(e);
    if member(cs, e) {
        let (i, j) = choose|i: int, j: int| 0 <= i < cs.len() && 0 <= j < cs[i].ents().len() && #[trigger] cs[i].ents()[j] == e;
        assert(cs[i].ents().contains(e));
        assert(!q(cs[i]));
    }
    if !allq(cs, q) {
        let i = choose|i: int| 0 <= i < cs.len() && !q(#[trigger] cs[i]);
        let j = choose|j: int| 0 <= j < cs[i].ents().len() && cs[i].ents()[j] == e;
        assert(cs[i].ents()[j] == e);
    }
}
proof fn lemma_family_invariants<C: Cursor>(a: Seq<C>, b: Seq<C>)
    requires same_family(a, b)
    ensures
        total(a) == total(b),
        forall|k: Seq<u8>, t: u64| #[trigger] grank(a, k, t) == grank(b, k, t),
        forall|e: Ent| #[trigger] member(a, e) == member(b, e),
        all_sorted(a) == all_sorted(b),
{
    assert(sumf(a, |c: C| c.ents().len() as int) == sumf(b, |c: C| c.ents().len() as int));
    assert forall|k: Seq<u8>, t: u64| #[trigger] grank(a, k, t) == grank(b, k, t) by {
        assert(sumf(a, |c: C| clt(c.ents(), k, t)) == sumf(b, |c: C| clt(c.ents(), k, t)));
    }
    assert forall|e: Ent| #[trigger] member(a, e) == member(b, e) by {
        lemma_member_as_allq(a, e); lemma_member_as_allq(b, e);
        assert(allq(a, |c: C| !c.ents().contains(e)) == allq(b, |c: C| !c.ents().contains(e)));
    }
    let qs = |c: C| sorted(c.ents());
    assert(allq(a, qs) == allq(b, qs));
    assert(all_sorted(a) == allq(a, qs));
    assert(all_sorted(b) == allq(b, qs));
}
// two arrangements of one mergeable family have the same merged sequence
proof fn lemma_family_merged<C: Cursor>(a: Seq<C>, b: Seq<C>)
    requires same_family(a, b), mergeable(a), all_sorted(b), distinct(b)
    ensures mergeable(b), merged(a) == merged(b)
{
    lemma_family_invariants(a, b);
    assert forall|r: int| 0 <= r < total(b) implies #[trigger] has_rank(b, r) by {
        assert(has_rank(a, r));
        let w = choose|e: Ent| member(a, e) && #[trigger] grank(a, e.key, e.ts) == r;
        assert(member(b, w) && grank(b, w.key, w.ts) == r);
    }
    assert forall|r: int| 0 <= r < total(a) implies merged(a)[r] == merged(b)[r] by {
        lemma_merged_entry(a, r); lemma_merged_entry(b, r);
        let ea = merged(a)[r]; let eb = merged(b)[r];
        assert(member(b, ea) && grank(b, ea.key, ea.ts) == r);
        lemma_same_rank_same_entry(b, ea, eb);
    }
    assert(merged(a) =~= merged(b));
}
// swapping two children keeps (key, timestamp) pairs distinct
proof fn lemma_swap_distinct<C: Cursor>(cs: Seq<C>, x: int, y: int)
    requires distinct(cs), 0 <= x < cs.len(), 0 <= y < cs.len()
    ensures distinct(cs.update(x, cs[y]).update(y, cs[x]))
{
    let ns = cs.update(x, cs[y]).update(y, cs[x]);
    let m = |i: int| if i == x { y } else if i == y { x } else { i };
    assert forall|i1: int, j1: int, i2: int, j2: int| 0 <= i1 < ns.len() && 0 <= j1 < ns[i1].ents().len() && 0 <= i2 < ns.len() && 0 <= j2 < ns[i2].ents().len()
        && #[trigger] ns[i1].ents()[j1].key == #[trigger] ns[i2].ents()[j2].key && ns[i1].ents()[j1].ts == ns[i2].ents()[j2].ts implies i1 == i2 && j1 == j2 by {
        assert(ns[i1] == cs[m(i1)] && ns[i2] == cs[m(i2)]);
        assert(cs[m(i1)].ents()[j1].key == cs[m(i2)].ents()[j2].key);
    }
}

// ================================================================ from "every child sits at a cut" to a rest state
// A cut: child c sits at position c.pos(), everything before it is `low`, nothing from it on is.
spec fn at_cut<C: Cursor>(c: C, low: spec_fn(Ent) -> bool) -> bool {
    &&& c.wf() && 0 <= c.pos() <= c.ents().len()
    &&& forall|i: int| 0 <= i < c.pos() ==> low(#[trigger] c.ents()[i])
    &&& forall|i: int| c.pos() <= i < c.ents().len() ==> !low(#[trigger] c.ents()[i])
}
// `low` is closed downwards in the entry order
spec fn down_closed(low: spec_fn(Ent) -> bool) -> bool {
    forall|x: Ent, y: Ent| #[trigger] low(y) && !kt_lt(y.key, y.ts, x.key, x.ts) ==> #[trigger] low(x)
}
spec fn key_of_child<C: Cursor>(c: C) -> OK { key_at(c.ents(), c.pos()) }

// Forward: all children at one cut + heap  ==>  every child sits at its first entry >= the root's entry
proof fn lemma_heap_top_fwd<C: Cursor>(cs: Seq<C>, low: spec_fn(Ent) -> bool)
    requires
        cs.len() >= 1, all_sorted(cs), down_closed(low),
        allq(cs, |c: C| at_cut(c, low)),
        forall|i: int| 0 <= i < cs.len() ==> (#[trigger] cs[i]).key_spec() == key_of_child(cs[i]),
        heap_from(cs, Comparator::Forward, 0),
    ensures
        match key_of_child(cs[0]) {
            Some(e) => allq(cs, |c: C| c.pos() == clt(c.ents(), e.0, e.1)) && !low(cs[0].ents()[cs[0].pos()]),
            None => allq(cs, |c: C| c.pos() == c.ents().len()),
        },
{
    let q = |c: C| at_cut(c, low);
    assert(q(cs[0]));
    match key_of_child(cs[0]) {
        Some(e) => {
            let r = cs[0]; let er = r.ents()[r.pos()];
            assert(!low(er));
            assert forall|i: int| 0 <= i < cs.len() implies (#[trigger] cs[i]).pos() == clt(cs[i].ents(), e.0, e.1) by {
                let c = cs[i]; let s = c.ents();
                assert(q(c));
                lemma_root_least(cs, Comparator::Forward, i);
                assert forall|x: int| 0 <= x < c.pos() implies kt_lt(#[trigger] s[x].key, s[x].ts, e.0, e.1) by {
                    // s[x] is low, the root's entry is not: were s[x] not below it, down-closure would make it low
                    if !kt_lt(s[x].key, s[x].ts, e.0, e.1) { assert(low(s[x]) && !kt_lt(s[x].key, s[x].ts, er.key, er.ts)); assert(low(er)); }
                }
                assert forall|x: int| c.pos() <= x < s.len() implies !kt_lt(#[trigger] s[x].key, s[x].ts, e.0, e.1) by {
                    // the child's current entry is not below the root's, and s[x] is not below the child's current entry
                    let cur = s[c.pos()];
                    assert(!kt_lt(cur.key, cur.ts, e.0, e.1));
                    if x > c.pos() && kt_lt(s[x].key, s[x].ts, e.0, e.1) {
                        assert(kt_lt(cur.key, cur.ts, s[x].key, s[x].ts));
                        lemma_kt_trans(cur.key, cur.ts, s[x].key, s[x].ts, e.0, e.1);
                    }
                }
                lemma_clt_unique(s, e.0, e.1, c.pos());
            }
        }
        None => {
            assert forall|i: int| 0 <= i < cs.len() implies (#[trigger] cs[i]).pos() == cs[i].ents().len() by {
                assert(q(cs[i]));
                lemma_root_least(cs, Comparator::Forward, i);
            }
        }
    }
}

// ---------------------------------------------------------------- moving children does not change the tables
spec fn same_tables<C: Cursor>(a: Seq<C>, b: Seq<C>) -> bool {
    a.len() == b.len() && forall|i: int| 0 <= i < a.len() ==> (#[trigger] a[i]).ents() == b[i].ents()
}
proof fn lemma_same_tables<C: Cursor>(a: Seq<C>, b: Seq<C>)
    requires same_tables(a, b), mergeable(b)
    ensures mergeable(a), merged(a) == merged(b)
{
    lemma_sum_eq2(a, b, |c: C| c.ents().len() as int);
    assert forall|k: Seq<u8>, t: u64| #[trigger] grank(a, k, t) == grank(b, k, t) by { lemma_sum_eq2(a, b, |c: C| clt(c.ents(), k, t)); }
    assert forall|e: Ent| #[trigger] member(a, e) == member(b, e) by {
        if member(a, e) { let (i, j) = choose|i: int, j: int| 0 <= i < a.len() && 0 <= j < a[i].ents().len() && #[trigger] a[i].ents()[j] == e; assert(b[i].ents()[j] == e); }
        if member(b, e) { let (i, j) = choose|i: int, j: int| 0 <= i < b.len() && 0 <= j < b[i].ents().len() && #[trigger] b[i].ents()[j] == e; assert(a[i].ents()[j] == e); }
    }
    assert(all_sorted(a)) by { assert forall|i: int| 0 <= i < a.len() implies sorted(#[trigger] a[i].ents()) by { assert(sorted(b[i].ents())); } }
    assert(distinct(a)) by {
        assert forall|i1: int, j1: int, i2: int, j2: int| 0 <= i1 < a.len() && 0 <= j1 < a[i1].ents().len() && 0 <= i2 < a.len() && 0 <= j2 < a[i2].ents().len()
            && #[trigger] a[i1].ents()[j1].key == #[trigger] a[i2].ents()[j2].key && a[i1].ents()[j1].ts == a[i2].ents()[j2].ts implies i1 == i2 && j1 == j2 by {
            assert(b[i1].ents()[j1].key == b[i2].ents()[j2].key);
        }
    }
    assert forall|r: int| 0 <= r < total(a) implies #[trigger] has_rank(a, r) by {
        assert(has_rank(b, r));
        let w = choose|e: Ent| member(b, e) && #[trigger] grank(b, e.key, e.ts) == r;
        assert(member(a, w) && grank(a, w.key, w.ts) == r);
    }
    assert forall|r: int| 0 <= r < total(a) implies merged(a)[r] == merged(b)[r] by {
        lemma_merged_entry(a, r); lemma_merged_entry(b, r);
        let ea = merged(a)[r]; let eb = merged(b)[r];
        assert(member(b, ea) && grank(b, ea.key, ea.ts) == r);
        lemma_same_rank_same_entry(b, ea, eb);
    }
    assert(merged(a) =~= merged(b));
}
proof fn lemma_sum_eq2<C>(a: Seq<C>, b: Seq<C>, f: spec_fn(C) -> int)
    requires a.len() == b.len(), forall|i: int| 0 <= i < a.len() ==> f(#[trigger] a[i]) == f(b[i])
    ensures sumf(a, f) == sumf(b, f)
    decreases a.len()
{
    if a.len() > 0 {
        assert forall|i: int| 0 <= i < a.drop_last().len() implies f(#[trigger] a.drop_last()[i]) == f(b.drop_last()[i]) by { assert(a.drop_last()[i] == a[i]); assert(b.drop_last()[i] == b[i]); }
        lemma_sum_eq2(a.drop_last(), b.drop_last(), f);
        assert(a.last() == a[a.len() - 1] && b.last() == b[b.len() - 1]);
    }
}
// rank is monotone (not necessarily strictly) in the probe
proof fn lemma_rank_le<C: Cursor>(cs: Seq<C>, k1: Seq<u8>, t1: u64, k2: Seq<u8>, t2: u64)
    requires all_sorted(cs), !kt_lt(k2, t2, k1, t1)
    ensures grank(cs, k1, t1) <= grank(cs, k2, t2)
{
    let f = |c: C| clt(c.ents(), k1, t1);
    let g = |c: C| clt(c.ents(), k2, t2);
    assert forall|x: int| 0 <= x < cs.len() implies f(#[trigger] cs[x]) <= g(cs[x]) by {
        let s = cs[x].ents();
        lemma_clt(s, k1, t1); lemma_clt(s, k2, t2);
        let a = clt(s, k1, t1); let b = clt(s, k2, t2);
        if b < a {
            assert(kt_lt(s[b].key, s[b].ts, k1, t1));
            lemma_kt_total(k1, t1, k2, t2);
            if kt_lt(k1, t1, k2, t2) { lemma_kt_trans(s[b].key, s[b].ts, k1, t1, k2, t2); }
        }
    }
    lemma_sum_le(cs, f, g);
}
// Forward rest state A + every child at its lower bound for k  ==>  the merged position is the lower bound for k
spec fn key_below(k: Seq<u8>) -> spec_fn(Ent) -> bool { |x: Ent| lex_lt(x.key, k) }
proof fn lemma_key_below_closed(k: Seq<u8>)
    ensures down_closed(key_below(k))
{
    lemma_lex_order_total();
    assert forall|x: Ent, y: Ent| #[trigger] key_below(k)(y) && !kt_lt(y.key, y.ts, x.key, x.ts) implies #[trigger] key_below(k)(x) by {
        // x <= y in the entry order, so x.key <= y.key < k
        lemma_lex_total(x.key, y.key);
        if !lex_le(x.key, y.key) { assert(lex_lt(y.key, x.key)); }
        lemma_lex_trans(x.key, y.key, k);
        if x.key == k { lemma_lex_antisym(k, y.key); }
    }
}
proof fn lemma_seek_lower_bound<C: Cursor>(cs: Seq<C>, k: Seq<u8>)
    requires
        cs.len() >= 1, mergeable(cs), allq(cs, |c: C| at_cut(c, key_below(k))),
        match key_of_child(cs[0]) {
            Some(e) => allq(cs, |c: C| c.pos() == clt(c.ents(), e.0, e.1)) && !key_below(k)(cs[0].ents()[cs[0].pos()]),
            None => allq(cs, |c: C| c.pos() == c.ents().len()),
        },
    ensures is_lower_bound(merged(cs), k, sumf(cs, |c: C| c.pos()))
{
    let m = merged(cs); let p = sumf(cs, |c: C| c.pos());
    let q = |c: C| at_cut(c, key_below(k));
    lemma_merged_sorted(cs);
    lemma_lex_order_total();
    assert(q(cs[0]));
    match key_of_child(cs[0]) {
        Some(e) => {
            let er = cs[0].ents()[cs[0].pos()];
            lemma_sum_eq(cs, |c: C| c.pos(), |c: C| clt(c.ents(), e.0, e.1));
            lemma_member_rank(cs, 0, cs[0].pos());
            assert forall|r: int| 0 <= r < p implies lex_lt(#[trigger] m[r].key, k) by {
                lemma_merged_entry(cs, r);
                let x = m[r];
                let (i, j) = choose|i: int, j: int| 0 <= i < cs.len() && 0 <= j < cs[i].ents().len() && #[trigger] cs[i].ents()[j] == x;
                assert(q(cs[i]));
                // rank(x) = r < rank(e): x is below e, hence before the cut of its child
                if !kt_lt(x.key, x.ts, e.0, e.1) { lemma_rank_le(cs, e.0, e.1, x.key, x.ts); }
                lemma_clt(cs[i].ents(), e.0, e.1);
                assert(cs[i].pos() == clt(cs[i].ents(), e.0, e.1));
                assert(j < cs[i].pos()) by { if j >= cs[i].pos() { assert(!kt_lt(cs[i].ents()[j].key, cs[i].ents()[j].ts, e.0, e.1)); } }
            }
            assert forall|r: int| p <= r < m.len() implies lex_le(k, #[trigger] m[r].key) by {
                lemma_merged_entry(cs, r);
                let x = m[r];
                // rank(x) >= rank(e): x is not below e; e's key is >= k
                if kt_lt(x.key, x.ts, e.0, e.1) {
                    let (i, j) = choose|i: int, j: int| 0 <= i < cs.len() && 0 <= j < cs[i].ents().len() && #[trigger] cs[i].ents()[j] == x;
                    lemma_rank_mono(cs, i, j, e.0, e.1);
                }
                lemma_lex_total(e.0, x.key);
                if !lex_le(e.0, x.key) { assert(lex_lt(x.key, e.0)); }
                lemma_lex_trans(k, e.0, x.key);
            }
        }
        None => {
            lemma_sum_eq(cs, |c: C| c.pos(), |c: C| c.ents().len() as int);
            assert forall|r: int| 0 <= r < p implies lex_lt(#[trigger] m[r].key, k) by {
                lemma_merged_entry(cs, r);
                let x = m[r];
                let (i, j) = choose|i: int, j: int| 0 <= i < cs.len() && 0 <= j < cs[i].ents().len() && #[trigger] cs[i].ents()[j] == x;
                assert(q(cs[i]));
                assert(cs[i].pos() == cs[i].ents().len());
            }
        }
    }
}

// ---------------------------------------------------------------- the Reverse mirror
// number of entries of a sorted table that are at or below (k, t)
spec fn is_cle(s: Seq<Ent>, k: Seq<u8>, t: u64, p: int) -> bool {
    &&& 0 <= p <= s.len()
    &&& forall|i: int| 0 <= i < p ==> !kt_lt(k, t, #[trigger] s[i].key, s[i].ts)
    &&& forall|i: int| p <= i < s.len() ==> kt_lt(k, t, #[trigger] s[i].key, s[i].ts)
}
spec fn cle(s: Seq<Ent>, k: Seq<u8>, t: u64) -> int { choose|p: int| is_cle(s, k, t, p) }
proof fn scan_cle(s: Seq<Ent>, k: Seq<u8>, t: u64, c: int) -> (p: int)
    requires sorted(s), 0 <= c <= s.len(), forall|i: int| 0 <= i < c ==> !kt_lt(k, t, #[trigger] s[i].key, s[i].ts)
    ensures is_cle(s, k, t, p)
    decreases s.len() - c
{
    if c == s.len() { c }
    else if kt_lt(k, t, s[c].key, s[c].ts) {
        assert forall|i: int| c <= i < s.len() implies kt_lt(k, t, #[trigger] s[i].key, s[i].ts) by {
            if i > c { lemma_kt_trans(k, t, s[c].key, s[c].ts, s[i].key, s[i].ts); }
        }
        c
    } else { scan_cle(s, k, t, c + 1) }
}
proof fn lemma_cle(s: Seq<Ent>, k: Seq<u8>, t: u64)
    requires sorted(s)
    ensures is_cle(s, k, t, cle(s, k, t))
{
    let p = scan_cle(s, k, t, 0);
}
proof fn lemma_cle_unique(s: Seq<Ent>, k: Seq<u8>, t: u64, p: int)
    requires sorted(s), is_cle(s, k, t, p)
    ensures p == cle(s, k, t)
{
    lemma_cle(s, k, t);
    let q = cle(s, k, t);
    if p < q { assert(kt_lt(k, t, s[p].key, s[p].ts)); } else if q < p { assert(kt_lt(k, t, s[q].key, s[q].ts)); }
}
// cle = clt, plus one exactly in the table that holds (k, t)
proof fn lemma_cle_clt(s: Seq<Ent>, k: Seq<u8>, t: u64)
    requires sorted(s)
    ensures
        clt(s, k, t) <= cle(s, k, t) <= clt(s, k, t) + 1,
        cle(s, k, t) == clt(s, k, t) + 1 <==> (exists|j: int| 0 <= j < s.len() && #[trigger] s[j].key == k && s[j].ts == t),
{
    lemma_clt(s, k, t); lemma_cle(s, k, t);
    let a = clt(s, k, t); let b = cle(s, k, t);
    if b < a { assert(kt_lt(s[b].key, s[b].ts, k, t)); assert(kt_lt(k, t, s[b].key, s[b].ts)); lemma_kt_trans(k, t, s[b].key, s[b].ts, k, t); }
    if b > a + 1 {
        // two entries that are neither below nor above (k, t) would both equal it
        lemma_kt_total(s[a].key, s[a].ts, k, t); lemma_kt_total(s[a + 1].key, s[a + 1].ts, k, t);
        assert(kt_lt(s[a].key, s[a].ts, s[a + 1].key, s[a + 1].ts));
    }
    if b == a + 1 { lemma_kt_total(s[a].key, s[a].ts, k, t); assert(s[a].key == k && s[a].ts == t); }
    if exists|j: int| 0 <= j < s.len() && #[trigger] s[j].key == k && s[j].ts == t {
        let j = choose|j: int| 0 <= j < s.len() && #[trigger] s[j].key == k && s[j].ts == t;
        assert(a <= j) by { if j < a { assert(kt_lt(s[j].key, s[j].ts, k, t)); } }
        assert(j < b) by { if b <= j { assert(kt_lt(k, t, s[j].key, s[j].ts)); } }
    }
}
proof fn lemma_sum_root_others<C>(cs: Seq<C>, f: spec_fn(C) -> int, g: spec_fn(C) -> int, a: int, b: int)
    requires cs.len() >= 1, f(cs[0]) == g(cs[0]) + a, forall|i: int| 1 <= i < cs.len() ==> f(#[trigger] cs[i]) == g(cs[i]) + b
    ensures sumf(cs, f) == sumf(cs, g) + a + b * (cs.len() - 1)
    decreases cs.len()
{
    if cs.len() > 1 {
        assert forall|i: int| 1 <= i < cs.drop_last().len() implies f(#[trigger] cs.drop_last()[i]) == g(cs.drop_last()[i]) + b by { assert(cs.drop_last()[i] == cs[i]); }
        assert(cs.drop_last()[0] == cs[0]);
        lemma_sum_root_others(cs.drop_last(), f, g, a, b);
        assert(cs.last() == cs[cs.len() - 1]);
        assert(b * (cs.len() - 1) == b * (cs.len() - 2) + b) by (nonlinear_arith);
    } else {
        assert(sumf(cs.drop_last(), f) == 0 && sumf(cs.drop_last(), g) == 0);
        assert(cs.last() == cs[0]);
    }
}
// a Reverse cut: child c sits at position c.pos(), everything after it is `high`, nothing up to it is
spec fn at_cut_rev<C: Cursor>(c: C, high: spec_fn(Ent) -> bool) -> bool {
    &&& c.wf() && -1 <= c.pos() < c.ents().len()
    &&& forall|i: int| 0 <= i <= c.pos() ==> !high(#[trigger] c.ents()[i])
    &&& forall|i: int| c.pos() < i < c.ents().len() ==> high(#[trigger] c.ents()[i])
}
spec fn up_closed(high: spec_fn(Ent) -> bool) -> bool {
    forall|x: Ent, y: Ent| #[trigger] high(y) && !kt_lt(x.key, x.ts, y.key, y.ts) ==> #[trigger] high(x)
}
proof fn lemma_heap_top_rev<C: Cursor>(cs: Seq<C>, high: spec_fn(Ent) -> bool)
    requires
        cs.len() >= 1, all_sorted(cs), up_closed(high),
        allq(cs, |c: C| at_cut_rev(c, high)),
        forall|i: int| 0 <= i < cs.len() ==> (#[trigger] cs[i]).key_spec() == key_of_child(cs[i]),
        heap_from(cs, Comparator::Reverse, 0),
    ensures
        match key_of_child(cs[0]) {
            Some(e) => allq(cs, |c: C| c.pos() == cle(c.ents(), e.0, e.1) - 1) && !high(cs[0].ents()[cs[0].pos()]),
            None => allq(cs, |c: C| c.pos() == -1),
        },
{
    let q = |c: C| at_cut_rev(c, high);
    assert(q(cs[0]));
    match key_of_child(cs[0]) {
        Some(e) => {
            let r = cs[0]; let er = r.ents()[r.pos()];
            assert forall|i: int| 0 <= i < cs.len() implies (#[trigger] cs[i]).pos() == cle(cs[i].ents(), e.0, e.1) - 1 by {
                let c = cs[i]; let s = c.ents();
                assert(q(c));
                lemma_root_least(cs, Comparator::Reverse, i);
                assert forall|x: int| c.pos() < x < s.len() implies kt_lt(e.0, e.1, #[trigger] s[x].key, s[x].ts) by {
                    if !kt_lt(e.0, e.1, s[x].key, s[x].ts) { assert(high(s[x]) && !kt_lt(er.key, er.ts, s[x].key, s[x].ts)); assert(high(er)); }
                }
                assert forall|x: int| 0 <= x <= c.pos() implies !kt_lt(e.0, e.1, #[trigger] s[x].key, s[x].ts) by {
                    let cur = s[c.pos()];
                    assert(!kt_lt(e.0, e.1, cur.key, cur.ts));
                    if x < c.pos() && kt_lt(e.0, e.1, s[x].key, s[x].ts) {
                        assert(kt_lt(s[x].key, s[x].ts, cur.key, cur.ts));
                        lemma_kt_trans(e.0, e.1, s[x].key, s[x].ts, cur.key, cur.ts);
                    }
                }
                lemma_cle_unique(s, e.0, e.1, c.pos() + 1);
            }
        }
        None => {
            assert forall|i: int| 0 <= i < cs.len() implies (#[trigger] cs[i]).pos() == -1 by {
                assert(q(cs[i]));
                lemma_root_least(cs, Comparator::Reverse, i);
            }
        }
    }
}
// for an entry of the family, the sum of cle's is its rank plus one
proof fn lemma_sum_cle<C: Cursor>(cs: Seq<C>, w: int, j: int)
    requires mergeable(cs), 0 <= w < cs.len(), 0 <= j < cs[w].ents().len()
    ensures sumf(cs, |c: C| cle(c.ents(), cs[w].ents()[j].key, cs[w].ents()[j].ts)) == grank(cs, cs[w].ents()[j].key, cs[w].ents()[j].ts) + 1
{
    let e = cs[w].ents()[j];
    let f = |c: C| cle(c.ents(), e.key, e.ts);
    let g = |c: C| clt(c.ents(), e.key, e.ts);
    lemma_sum_diff_one(cs, f, g, w, e);
}
proof fn lemma_sum_diff_one<C: Cursor>(cs: Seq<C>, f: spec_fn(C) -> int, g: spec_fn(C) -> int, w: int, e: Ent)
    requires
        mergeable(cs), 0 <= w < cs.len(), cs[w].ents().contains(e),
        f == (|c: C| cle(c.ents(), e.key, e.ts)), g == (|c: C| clt(c.ents(), e.key, e.ts)),
    ensures sumf(cs, f) == sumf(cs, g) + 1
{
    let jw = choose|j: int| 0 <= j < cs[w].ents().len() && cs[w].ents()[j] == e;
    assert forall|i: int| 0 <= i < cs.len() implies f(#[trigger] cs[i]) == g(cs[i]) + (if i == w { 1int } else { 0int }) by {
        let s = cs[i].ents();
        lemma_cle_clt(s, e.key, e.ts);
        if i == w { assert(s[jw].key == e.key && s[jw].ts == e.ts); }
        else if exists|j: int| 0 <= j < s.len() && #[trigger] s[j].key == e.key && s[j].ts == e.ts {
            let j = choose|j: int| 0 <= j < s.len() && #[trigger] s[j].key == e.key && s[j].ts == e.ts;
            assert(cs[i].ents()[j].key == cs[w].ents()[jw].key);
        }
    }
    lemma_sum_indicator(cs, f, g, w);
}
proof fn lemma_sum_indicator<C>(cs: Seq<C>, f: spec_fn(C) -> int, g: spec_fn(C) -> int, w: int)
    requires 0 <= w < cs.len(), forall|i: int| 0 <= i < cs.len() ==> f(#[trigger] cs[i]) == g(cs[i]) + (if i == w { 1int } else { 0int })
    ensures sumf(cs, f) == sumf(cs, g) + 1
    decreases cs.len()
{
    assert(cs.last() == cs[cs.len() - 1]);
    if w == cs.len() - 1 {
        assert forall|i: int| 0 <= i < cs.drop_last().len() implies f(#[trigger] cs.drop_last()[i]) == g(cs.drop_last()[i]) by { assert(cs.drop_last()[i] == cs[i]); }
        lemma_sum_eq(cs.drop_last(), f, g);
    } else {
        assert forall|i: int| 0 <= i < cs.drop_last().len() implies f(#[trigger] cs.drop_last()[i]) == g(cs.drop_last()[i]) + (if i == w { 1int } else { 0int }) by { assert(cs.drop_last()[i] == cs[i]); }
        lemma_sum_indicator(cs.drop_last(), f, g, w);
    }
}

// ---------------------------------------------------------------- stepping: which cut the children sit at after a move
spec fn le_ent(k: Seq<u8>, t: u64) -> spec_fn(Ent) -> bool { |x: Ent| !kt_lt(k, t, x.key, x.ts) }   // x <= (k, t)
spec fn ge_ent(k: Seq<u8>, t: u64) -> spec_fn(Ent) -> bool { |x: Ent| !kt_lt(x.key, x.ts, k, t) }   // x >= (k, t)
proof fn lemma_le_closed(k: Seq<u8>, t: u64)
    ensures down_closed(le_ent(k, t)), up_closed(ge_ent(k, t)),
        down_closed(|x: Ent| true), down_closed(|x: Ent| false), up_closed(|x: Ent| true), up_closed(|x: Ent| false),
{
    assert forall|x: Ent, y: Ent| #[trigger] le_ent(k, t)(y) && !kt_lt(y.key, y.ts, x.key, x.ts) implies #[trigger] le_ent(k, t)(x) by {
        if kt_lt(k, t, x.key, x.ts) {
            lemma_kt_total(x.key, x.ts, y.key, y.ts);
            if kt_lt(x.key, x.ts, y.key, y.ts) { lemma_kt_trans(k, t, x.key, x.ts, y.key, y.ts); }
        }
    }
    assert forall|x: Ent, y: Ent| #[trigger] ge_ent(k, t)(y) && !kt_lt(x.key, x.ts, y.key, y.ts) implies #[trigger] ge_ent(k, t)(x) by {
        if kt_lt(x.key, x.ts, k, t) {
            lemma_kt_total(x.key, x.ts, y.key, y.ts);
            if kt_lt(y.key, y.ts, x.key, x.ts) { lemma_kt_trans(y.key, y.ts, x.key, x.ts, k, t); }
        }
    }
}
proof fn lemma_sum_pointwise<C>(a: Seq<C>, f: spec_fn(C) -> int, b: Seq<C>, g: spec_fn(C) -> int)
    requires a.len() == b.len(), forall|i: int| 0 <= i < a.len() ==> f(#[trigger] a[i]) == g(b[i])
    ensures sumf(a, f) == sumf(b, g)
    decreases a.len()
{
    if a.len() > 0 {
        assert forall|i: int| 0 <= i < a.drop_last().len() implies f(#[trigger] a.drop_last()[i]) == g(b.drop_last()[i]) by { assert(a.drop_last()[i] == a[i]); assert(b.drop_last()[i] == b[i]); }
        lemma_sum_pointwise(a.drop_last(), f, b.drop_last(), g);
        assert(a.last() == a[a.len() - 1] && b.last() == b[b.len() - 1]);
    }
}

// std contract of slice::swap (ASSUMED)
pub assume_specification<T> [<[T]>::swap] (s: &mut [T], a: usize, b: usize)
    requires a < old(s)@.len(), b < old(s)@.len(),
    ensures final(s)@ == old(s)@.update(a as int, old(s)@[b as int]).update(b as int, old(s)@[a as int]);

impl<C: Cursor> MergingCursor<C> {
//@ extract sst/src/merging_cursor.rs | impl MergingCursor<C> :: fn percolate_down
//@ pre <<
        all_base(old(self).cursors@), index < old(self).cursors@.len(), old(self).cursors@.len() <= 0x3fff_ffff_ffff_ffff,
        heap_from(old(self).cursors@, old(self).comparator, index as int + 1),
//@ >>
//@ post <<
        final(self).comparator == old(self).comparator, final(self).cursors@.len() == old(self).cursors@.len(),
        same_family(final(self).cursors@, old(self).cursors@), all_base(final(self).cursors@),
        heap_from(final(self).cursors@, final(self).comparator, index as int),
        forall|j: int| 0 <= j < index ==> final(self).cursors@[j] == old(self).cursors@[j],
        distinct(old(self).cursors@) ==> distinct(final(self).cursors@),
//@ >>
//@ bodystart <<
        let ghost i0 = index as int;
        let ghost cmp = self.comparator;
        proof { lemma_same_family_refl(self.cursors@); }
//@ >>
//@ before `if self` <<
            let ghost cs = self.cursors@;
            let ghost ix = index as int; let ghost ch = child as int;
            let ghost other = if ch == 2 * ix + 1 { 2 * ix + 2 } else { 2 * ix + 1 };
            proof {
                // the chosen child is not above its sibling
                if other < cs.len() {
                    lemma_lessk_order(cmp, keyof(cs, ch), keyof(cs, other), keyof(cs, ch));
                    assert(!lessk(cmp, keyof(cs, other), keyof(cs, ch)));
                }
            }
//@ >>
//@ before#2 `break;` <<
                proof {
                    lemma_lessk_order(cmp, keyof(cs, ix), keyof(cs, ch), keyof(cs, ix));
                    assert(!lessk(cmp, keyof(cs, ch), keyof(cs, ix)));
                    if other < cs.len() {
                        assert(!lessk(cmp, keyof(cs, other), keyof(cs, ix))) by {
                            if lessk(cmp, keyof(cs, other), keyof(cs, ix)) { lemma_lessk_order(cmp, keyof(cs, other), keyof(cs, ix), keyof(cs, ch)); }
                        }
                    }
                    assert forall|j: int| i0 < j < cs.len() && (j - 1) / 2 >= i0 implies !lessk(cmp, keyof(cs, j), #[trigger] keyof(cs, (j - 1) / 2)) by {
                        if (j - 1) / 2 == ix { assert(j == ch || j == other); }
                    }
                }
//@ >>
//@ after `self.cursors.swap(index, child);` <<
                proof {
                    let ns = self.cursors@;
                    assert(ns =~= cs.update(ix, cs[ch]).update(ch, cs[ix]));
                    lemma_swap_same_family(cs, ix, ch);
                    if distinct(cs) { lemma_swap_distinct(cs, ix, ch); }
                    lemma_same_family_trans(ns, cs, old(self).cursors@);
                    assert(all_base(ns)) by { assert forall|k: int| 0 <= k < ns.len() implies (#[trigger] ns[k]).wf_base() by { if k == ch { assert(cs[ix].wf_base()); } else if k == ix { assert(cs[ch].wf_base()); } else { assert(cs[k].wf_base()); } } }
                    assert forall|j: int| i0 < j < ns.len() && (j - 1) / 2 >= i0 && (j - 1) / 2 != ch
                        implies !lessk(cmp, keyof(ns, j), #[trigger] keyof(ns, (j - 1) / 2)) by {
                        let pj = (j - 1) / 2;
                        if pj == ix { assert(j == ch || j == other); }
                        else if j == ix { assert(ix > i0); }
                        else { assert(keyof(ns, j) == keyof(cs, j)); assert(keyof(ns, pj) == keyof(cs, pj)); }
                    }
                    assert forall|c: int| (c == 2 * ch + 1 || c == 2 * ch + 2) && c < ns.len()
                        implies !lessk(cmp, #[trigger] keyof(ns, c), keyof(ns, (ch - 1) / 2)) by {
                        assert(keyof(ns, c) == keyof(cs, c));
                        assert((c - 1) / 2 == ch);
                        assert(!lessk(cmp, keyof(cs, c), keyof(cs, ch)));
                    }
                }
//@ >>
// the sift-down invariant: every heap edge holds except the two below the hole `index`, and the hole's
// children are not below the hole's parent
//@ loop 0 <<
            invariant
                self.comparator == cmp, cmp == old(self).comparator, self.cursors@.len() == old(self).cursors@.len(),
                self.cursors@.len() <= 0x3fff_ffff_ffff_ffff,
                same_family(self.cursors@, old(self).cursors@), all_base(self.cursors@),
                i0 <= index < self.cursors@.len(),
                forall|j: int| 0 <= j < i0 ==> self.cursors@[j] == old(self).cursors@[j],
                distinct(old(self).cursors@) ==> distinct(self.cursors@),
                forall|j: int| i0 < j < self.cursors@.len() && (j - 1) / 2 >= i0 && (j - 1) / 2 != index
                    ==> !lessk(cmp, keyof(self.cursors@, j), #[trigger] keyof(self.cursors@, (j - 1) / 2)),
                index > i0 ==> forall|c: int| (c == 2 * index + 1 || c == 2 * index + 2) && c < self.cursors@.len()
                    ==> !lessk(cmp, #[trigger] keyof(self.cursors@, c), keyof(self.cursors@, (index as int - 1) / 2)),
            ensures
                self.comparator == cmp, self.cursors@.len() == old(self).cursors@.len(),
                same_family(self.cursors@, old(self).cursors@), all_base(self.cursors@),
                heap_from(self.cursors@, cmp, i0),
                forall|j: int| 0 <= j < i0 ==> self.cursors@[j] == old(self).cursors@[j],
                distinct(old(self).cursors@) ==> distinct(self.cursors@),
            decreases self.cursors@.len() - index,
//@ >>
//@ end

//@ extract sst/src/merging_cursor.rs | impl MergingCursor<C> :: fn heapify
//@ pre <<
        all_base(old(self).cursors@), old(self).cursors@.len() <= 0x3fff_ffff_ffff_ffff,
//@ >>
//@ post <<
        final(self).comparator == old(self).comparator, final(self).cursors@.len() == old(self).cursors@.len(),
        same_family(final(self).cursors@, old(self).cursors@), all_base(final(self).cursors@),
        heap_from(final(self).cursors@, final(self).comparator, 0),
        distinct(old(self).cursors@) ==> distinct(final(self).cursors@),
//@ >>
//@ bodystart <<
        proof { lemma_same_family_refl(self.cursors@); }
//@ >>
//@ loop 0 <<
            invariant
                self.comparator == old(self).comparator, self.cursors@.len() == old(self).cursors@.len(),
                self.cursors@.len() <= 0x3fff_ffff_ffff_ffff,
                same_family(self.cursors@, old(self).cursors@), all_base(self.cursors@),
                distinct(old(self).cursors@) ==> distinct(self.cursors@),
                heap_from(self.cursors@, self.comparator, self.cursors@.len() - i),
//@ >>
//@ startloop 0 <<
            let ghost before = self.cursors@;
//@ >>
//@ endloop 0 <<
            proof { lemma_same_family_trans(self.cursors@, before, old(self).cursors@); }
//@ >>
//@ end
}

// ================================================================ the cursor
proof fn lemma_total_is_len<C: Cursor>(cs: Seq<C>)
    requires mergeable(cs)
    ensures merged(cs).len() == total(cs), total(cs) >= 0
{
}

proof fn lemma_sum_only_root<C>(cs: Seq<C>, f: spec_fn(C) -> int)
    requires cs.len() >= 1, forall|i: int| 1 <= i < cs.len() ==> f(#[trigger] cs[i]) == 0
    ensures sumf(cs, f) == f(cs[0])
    decreases cs.len()
{
    if cs.len() > 1 {
        assert forall|i: int| 1 <= i < cs.drop_last().len() implies f(#[trigger] cs.drop_last()[i]) == 0 by { assert(cs.drop_last()[i] == cs[i]); }
        lemma_sum_only_root(cs.drop_last(), f);
        assert(cs.drop_last()[0] == cs[0]);
        assert(cs.last() == cs[cs.len() - 1]);
        assert(f(cs[cs.len() - 1]) == 0);
    } else {
        assert(cs.drop_last().len() == 0);
        assert(sumf(cs.drop_last(), f) == 0);
        assert(cs.last() == cs[0]);
    }
}

impl<C: Cursor> MergingCursor<C> {
    spec fn n(&self) -> int { self.cursors@.len() as int }
    spec fn sumpos(&self) -> int { sumf(self.cursors@, |c: C| c.pos()) }
    spec fn kids_wf(&self) -> bool { allq(self.cursors@, |c: C| c.wf()) }
    // ASSUMED of every use: at least one child (with none the combinator is observationally the empty
    // cursor but cannot tell before-first from after-last), fewer than 2^62 children, sorted tables with
    // pairwise distinct (key, timestamp) pairs
    spec fn base(&self) -> bool { 1 <= self.n() <= 0x3fff_ffff_ffff_ffff && all_base(self.cursors@) && mergeable(self.cursors@) }
    // the precondition proper: mergeable() follows from it (lemma_mergeable)
    spec fn pre_base(&self) -> bool { 1 <= self.n() <= 0x3fff_ffff_ffff_ffff && all_base(self.cursors@) && all_sorted(self.cursors@) && distinct(self.cursors@) }
    // Forward rest states: (A) a heap whose children all sit at their first entry >= the root's entry (or all
    // at their end); (B) just after seek_to_first: root rewound to before-first, the others on their first entry
    spec fn fwd_a(&self) -> bool {
        let cs = self.cursors@;
        &&& heap_from(cs, Comparator::Forward, 0)
        &&& match key_of_child(cs[0]) {
            Some(e) => allq(cs, |c: C| c.pos() == clt(c.ents(), e.0, e.1)),
            None => allq(cs, |c: C| c.pos() == c.ents().len()),
        }
    }
    // Reverse rest states, mirrored: (A) every child at its last entry <= the root's entry (or all before-first);
    // (B) just after seek_to_last: root parked after-last, the others on their last entry
    spec fn rev_a(&self) -> bool {
        let cs = self.cursors@;
        &&& heap_from(cs, Comparator::Reverse, 0)
        &&& match key_of_child(cs[0]) {
            Some(e) => allq(cs, |c: C| c.pos() == cle(c.ents(), e.0, e.1) - 1),
            None => allq(cs, |c: C| c.pos() == -1),
        }
    }
    spec fn rev_b(&self) -> bool {
        let cs = self.cursors@;
        &&& cs[0].pos() == cs[0].ents().len()
        &&& forall|i: int| 1 <= i < cs.len() ==> (#[trigger] cs[i]).pos() == cs[i].ents().len() - 1
        &&& heap_from(cs, Comparator::Reverse, 1)
        &&& forall|i: int| 1 <= i < cs.len() ==> !lessk(Comparator::Reverse, key_at((#[trigger] cs[i]).ents(), cs[i].ents().len() - 1), key_at(cs[0].ents(), cs[0].ents().len() - 1))
    }
    spec fn fwd_b(&self) -> bool {
        let cs = self.cursors@;
        &&& cs[0].pos() == -1
        &&& forall|i: int| 1 <= i < cs.len() ==> (#[trigger] cs[i]).pos() == 0
        &&& heap_from(cs, Comparator::Forward, 1)
        &&& forall|i: int| 1 <= i < cs.len() ==> !lessk(Comparator::Forward, key_at((#[trigger] cs[i]).ents(), 0), key_at(cs[0].ents(), 0))
    }
}

impl<C: Cursor> MergingCursor<C> {
    // the cut the children sit at once every child has stepped forward out of a Reverse rest state
    spec fn low_rev(&self) -> spec_fn(Ent) -> bool {
        if self.rev_b() { |x: Ent| true } else { match key_of_child(self.cursors@[0]) { Some(e) => le_ent(e.0, e.1), None => |x: Ent| false } }
    }
    // ... and once the root has stepped forward out of a Forward rest state
    spec fn low_fwd(&self) -> spec_fn(Ent) -> bool {
        if self.fwd_b() { |x: Ent| false } else { match key_of_child(self.cursors@[0]) { Some(e) => le_ent(e.0, e.1), None => |x: Ent| true } }
    }
    spec fn stepped_fwd(c2: C, c: C) -> bool {
        c2.wf() && c2.ents() == c.ents() && c2.pos() == (if c.pos() < c.ents().len() { c.pos() + 1 } else { c.pos() })
    }
    proof fn lemma_child_wf(&self, i: int)
        requires self.wf(), 0 <= i < self.n()
        ensures self.cursors@[i].wf(), sorted(self.cursors@[i].ents()), -1 <= self.cursors@[i].pos() <= self.cursors@[i].ents().len(),
            self.cursors@[i].key_spec() == key_of_child(self.cursors@[i]),
    {
        assert(allq(self.cursors@, |c: C| c.wf()));
        self.cursors@[i].lemma_cursor_laws();
    }
    // Reverse -> Forward: child i after its next()
    proof fn lemma_switch_rf(&self, i: int, c2: C)
        requires self.wf(), self.comparator == Comparator::Reverse, 0 <= i < self.n(), Self::stepped_fwd(c2, self.cursors@[i])
        ensures at_cut(c2, self.low_rev())
    {
        let cs = self.cursors@; let c = cs[i]; let s = c.ents();
        self.lemma_child_wf(i); self.lemma_child_wf(0);
        if self.rev_b() {
        } else {
            match key_of_child(cs[0]) {
                Some(e) => {
                    assert((|c: C| c.pos() == cle(c.ents(), e.0, e.1) - 1)(c));
                    lemma_cle(s, e.0, e.1);
                }
                None => { assert((|c: C| c.pos() == -1)(c)); }
            }
        }
    }
    proof fn lemma_switch_rf_pos(&self, f1: Seq<C>)
        requires self.wf(), self.comparator == Comparator::Reverse, f1.len() == self.n(),
            forall|i: int| 0 <= i < f1.len() ==> Self::stepped_fwd(#[trigger] f1[i], self.cursors@[i]),
        ensures sumf(f1, |c: C| c.pos()) == (if self.pos() < self.ents().len() { self.pos() + 1 } else { self.pos() })
    {
        let cs = self.cursors@;
        self.lemma_cursor_laws();
        lemma_total_is_len(cs);
        self.lemma_child_wf(0);
        if self.rev_b() {
            assert forall|i: int| 0 <= i < f1.len() implies (|c: C| c.pos())(#[trigger] f1[i]) == (|c: C| c.ents().len() as int)(cs[i]) by { self.lemma_child_wf(i); }
            lemma_sum_pointwise(f1, |c: C| c.pos(), cs, |c: C| c.ents().len() as int);
            lemma_sum_root_others(cs, |c: C| c.pos(), |c: C| c.ents().len() as int, 0, -1);
        } else {
            match key_of_child(cs[0]) {
                Some(e) => {
                    assert forall|i: int| 0 <= i < f1.len() implies (|c: C| c.pos())(#[trigger] f1[i]) == (|c: C| cle(c.ents(), e.0, e.1))(cs[i]) by {
                        self.lemma_child_wf(i);
                        assert((|c: C| c.pos() == cle(c.ents(), e.0, e.1) - 1)(cs[i]));
                        lemma_cle(cs[i].ents(), e.0, e.1);
                    }
                    lemma_sum_pointwise(f1, |c: C| c.pos(), cs, |c: C| cle(c.ents(), e.0, e.1));
                    lemma_sum_cle(cs, 0, cs[0].pos());
                    lemma_sum_root_others(cs, |c: C| c.pos(), |c: C| cle(c.ents(), e.0, e.1), -1, -1);
                    lemma_member_rank(cs, 0, cs[0].pos());
                }
                None => {
                    assert forall|i: int| 0 <= i < f1.len() implies (|c: C| c.pos())(#[trigger] f1[i]) == (|c: C| 0int)(cs[i]) by {
                        self.lemma_child_wf(i);
                        assert((|c: C| c.pos() == -1)(cs[i]));
                    }
                    lemma_sum_pointwise(f1, |c: C| c.pos(), cs, |c: C| 0int);
                    lemma_sum_zero(cs);
                    lemma_sum_root_others(cs, |c: C| c.pos(), |c: C| 0int, -1, -1);
                }
            }
        }
    }

    // Forward step: the root has stepped forward, everyone else stands still
    proof fn lemma_step_f(&self, i: int, c2: C)
        requires self.wf(), self.comparator == Comparator::Forward, 0 <= i < self.n(),
            i == 0 ==> Self::stepped_fwd(c2, self.cursors@[0]), i > 0 ==> c2 == self.cursors@[i],
        ensures at_cut(c2, self.low_fwd())
    {
        let cs = self.cursors@; let c = cs[i]; let s = c.ents();
        self.lemma_child_wf(i); self.lemma_child_wf(0);
        if self.fwd_b() {
        } else {
            match key_of_child(cs[0]) {
                Some(e) => {
                    assert((|c: C| c.pos() == clt(c.ents(), e.0, e.1))(c));
                    lemma_cle(s, e.0, e.1); lemma_clt(s, e.0, e.1); lemma_cle_clt(s, e.0, e.1);
                    let er = cs[0].ents()[cs[0].pos()];
                    if i == 0 {
                        assert(s[c.pos()].key == e.0 && s[c.pos()].ts == e.1);
                    } else if exists|j: int| 0 <= j < s.len() && #[trigger] s[j].key == e.0 && s[j].ts == e.1 {
                        let j = choose|j: int| 0 <= j < s.len() && #[trigger] s[j].key == e.0 && s[j].ts == e.1;
                        assert(cs[i].ents()[j].key == cs[0].ents()[cs[0].pos()].key);
                    }
                }
                None => { assert((|c: C| c.pos() == c.ents().len())(c)); }
            }
        }
    }
    proof fn lemma_step_f_pos(&self, f1: Seq<C>)
        requires self.wf(), self.comparator == Comparator::Forward, f1.len() == self.n(),
            Self::stepped_fwd(f1[0], self.cursors@[0]), forall|i: int| 1 <= i < f1.len() ==> #[trigger] f1[i] == self.cursors@[i],
        ensures sumf(f1, |c: C| c.pos()) == (if self.pos() < self.ents().len() { self.pos() + 1 } else { self.pos() })
    {
        let cs = self.cursors@;
        self.lemma_cursor_laws();
        lemma_total_is_len(cs);
        self.lemma_child_wf(0);
        assert(f1 =~= cs.update(0, f1[0]));
        lemma_sum_update(cs, 0, f1[0], |c: C| c.pos());
        if self.fwd_b() {
            lemma_sum_only_root(cs, |c: C| c.pos());
        } else {
            match key_of_child(cs[0]) {
                Some(e) => { lemma_sum_eq(cs, |c: C| c.pos(), |c: C| clt(c.ents(), e.0, e.1)); lemma_member_rank(cs, 0, cs[0].pos()); }
                None => { assert((|c: C| c.pos() == c.ents().len())(cs[0])); lemma_sum_eq(cs, |c: C| c.pos(), |c: C| c.ents().len() as int); }
            }
        }
    }
    proof fn lemma_step_f_heap(&self, f1: Seq<C>)
        requires self.wf(), self.comparator == Comparator::Forward, f1.len() == self.n(), forall|i: int| 1 <= i < f1.len() ==> #[trigger] f1[i] == self.cursors@[i],
        ensures heap_from(f1, Comparator::Forward, 1)
    {
        let cs = self.cursors@;
        assert forall|j: int| 1 < j < f1.len() && (j - 1) / 2 >= 1 implies !lessk(Comparator::Forward, keyof(f1, j), #[trigger] keyof(f1, (j - 1) / 2)) by {
            assert(f1[j] == cs[j] && f1[(j - 1) / 2] == cs[(j - 1) / 2]);
            assert(!lessk(Comparator::Forward, keyof(cs, j), keyof(cs, (j - 1) / 2)));
        }
    }
    // what every move ends with: the children sit at one cut and form a Forward heap again
    proof fn lemma_land_fwd(&self, low: spec_fn(Ent) -> bool)
        requires self.base(), self.comparator == Comparator::Forward, down_closed(low),
            allq(self.cursors@, |c: C| at_cut(c, low)), heap_from(self.cursors@, Comparator::Forward, 0),
        ensures self.wf(), self.fwd_a()
    {
        let f2 = self.cursors@;
        assert(allq(f2, |c: C| c.wf())) by { assert forall|i: int| 0 <= i < f2.len() implies (#[trigger] f2[i]).wf() by { assert((|c: C| at_cut(c, low))(f2[i])); } }
        assert forall|i: int| 0 <= i < f2.len() implies (#[trigger] f2[i]).key_spec() == key_of_child(f2[i]) by { assert((|c: C| at_cut(c, low))(f2[i])); f2[i].lemma_cursor_laws(); }
        lemma_heap_top_fwd(f2, low);
    }

    // ---- the mirror for prev
    spec fn high_fwd(&self) -> spec_fn(Ent) -> bool {
        if self.fwd_b() { |x: Ent| true } else { match key_of_child(self.cursors@[0]) { Some(e) => ge_ent(e.0, e.1), None => |x: Ent| false } }
    }
    spec fn high_rev(&self) -> spec_fn(Ent) -> bool {
        if self.rev_b() { |x: Ent| false } else { match key_of_child(self.cursors@[0]) { Some(e) => ge_ent(e.0, e.1), None => |x: Ent| true } }
    }
    spec fn stepped_back(c2: C, c: C) -> bool {
        c2.wf() && c2.ents() == c.ents() && c2.pos() == (if c.pos() > -1 { c.pos() - 1 } else { -1 })
    }
    proof fn lemma_switch_fr(&self, i: int, c2: C)
        requires self.wf(), self.comparator == Comparator::Forward, 0 <= i < self.n(), Self::stepped_back(c2, self.cursors@[i])
        ensures at_cut_rev(c2, self.high_fwd())
    {
        let cs = self.cursors@; let c = cs[i]; let s = c.ents();
        self.lemma_child_wf(i); self.lemma_child_wf(0);
        if self.fwd_b() {
        } else {
            match key_of_child(cs[0]) {
                Some(e) => { assert((|c: C| c.pos() == clt(c.ents(), e.0, e.1))(c)); lemma_clt(s, e.0, e.1); }
                None => { assert((|c: C| c.pos() == c.ents().len())(c)); }
            }
        }
    }
    proof fn lemma_switch_fr_pos(&self, f1: Seq<C>)
        requires self.wf(), self.comparator == Comparator::Forward, f1.len() == self.n(),
            forall|i: int| 0 <= i < f1.len() ==> Self::stepped_back(#[trigger] f1[i], self.cursors@[i]),
        ensures sumf(f1, |c: C| c.pos()) + self.n() - 1 == (if self.pos() > -1 { self.pos() - 1 } else { -1 })
    {
        let cs = self.cursors@;
        self.lemma_cursor_laws();
        lemma_total_is_len(cs);
        self.lemma_child_wf(0);
        if self.fwd_b() {
            assert forall|i: int| 0 <= i < f1.len() implies (|c: C| c.pos())(#[trigger] f1[i]) == (|c: C| -1int)(cs[i]) by { self.lemma_child_wf(i); }
            lemma_sum_pointwise(f1, |c: C| c.pos(), cs, |c: C| -1int);
            lemma_sum_root_others(cs, |c: C| -1int, |c: C| 0int, -1, -1);
            lemma_sum_zero(cs);
            lemma_sum_only_root(cs, |c: C| c.pos());
        } else {
            match key_of_child(cs[0]) {
                Some(e) => {
                    assert forall|i: int| 0 <= i < f1.len() implies (|c: C| c.pos())(#[trigger] f1[i]) == (|c: C| clt(c.ents(), e.0, e.1) - 1)(cs[i]) by {
                        self.lemma_child_wf(i);
                        assert((|c: C| c.pos() == clt(c.ents(), e.0, e.1))(cs[i]));
                        lemma_clt(cs[i].ents(), e.0, e.1);
                    }
                    lemma_sum_pointwise(f1, |c: C| c.pos(), cs, |c: C| clt(c.ents(), e.0, e.1) - 1);
                    lemma_sum_root_others(cs, |c: C| clt(c.ents(), e.0, e.1) - 1, |c: C| clt(c.ents(), e.0, e.1), -1, -1);
                    lemma_sum_eq(cs, |c: C| c.pos(), |c: C| clt(c.ents(), e.0, e.1));
                    lemma_member_rank(cs, 0, cs[0].pos());
                }
                None => {
                    assert forall|i: int| 0 <= i < f1.len() implies (|c: C| c.pos())(#[trigger] f1[i]) == (|c: C| c.ents().len() as int - 1)(cs[i]) by {
                        self.lemma_child_wf(i);
                        assert((|c: C| c.pos() == c.ents().len())(cs[i]));
                    }
                    lemma_sum_pointwise(f1, |c: C| c.pos(), cs, |c: C| c.ents().len() as int - 1);
                    lemma_sum_root_others(cs, |c: C| c.ents().len() as int - 1, |c: C| c.ents().len() as int, -1, -1);
                    lemma_sum_eq(cs, |c: C| c.pos(), |c: C| c.ents().len() as int);
                }
            }
        }
    }
    proof fn lemma_step_r(&self, i: int, c2: C)
        requires self.wf(), self.comparator == Comparator::Reverse, 0 <= i < self.n(),
            i == 0 ==> Self::stepped_back(c2, self.cursors@[0]), i > 0 ==> c2 == self.cursors@[i],
        ensures at_cut_rev(c2, self.high_rev())
    {
        let cs = self.cursors@; let c = cs[i]; let s = c.ents();
        self.lemma_child_wf(i); self.lemma_child_wf(0);
        if self.rev_b() {
        } else {
            match key_of_child(cs[0]) {
                Some(e) => {
                    assert((|c: C| c.pos() == cle(c.ents(), e.0, e.1) - 1)(c));
                    lemma_cle(s, e.0, e.1); lemma_clt(s, e.0, e.1); lemma_cle_clt(s, e.0, e.1);
                    if i == 0 {
                        assert(s[c.pos()].key == e.0 && s[c.pos()].ts == e.1);
                    } else if exists|j: int| 0 <= j < s.len() && #[trigger] s[j].key == e.0 && s[j].ts == e.1 {
                        let j = choose|j: int| 0 <= j < s.len() && #[trigger] s[j].key == e.0 && s[j].ts == e.1;
                        assert(cs[i].ents()[j].key == cs[0].ents()[cs[0].pos()].key);
                    }
                }
                None => { assert((|c: C| c.pos() == -1)(c)); }
            }
        }
    }
    proof fn lemma_step_r_pos(&self, f1: Seq<C>)
        requires self.wf(), self.comparator == Comparator::Reverse, f1.len() == self.n(),
            Self::stepped_back(f1[0], self.cursors@[0]), forall|i: int| 1 <= i < f1.len() ==> #[trigger] f1[i] == self.cursors@[i],
        ensures sumf(f1, |c: C| c.pos()) + self.n() - 1 == (if self.pos() > -1 { self.pos() - 1 } else { -1 })
    {
        let cs = self.cursors@;
        self.lemma_cursor_laws();
        lemma_total_is_len(cs);
        self.lemma_child_wf(0);
        assert(f1 =~= cs.update(0, f1[0]));
        lemma_sum_update(cs, 0, f1[0], |c: C| c.pos());
        if self.rev_b() {
            lemma_sum_root_others(cs, |c: C| c.pos(), |c: C| c.ents().len() as int, 0, -1);
        } else {
            match key_of_child(cs[0]) {
                Some(e) => {
                    lemma_sum_cle(cs, 0, cs[0].pos());
                    lemma_sum_root_others(cs, |c: C| c.pos(), |c: C| cle(c.ents(), e.0, e.1), -1, -1);
                    lemma_member_rank(cs, 0, cs[0].pos());
                }
                None => {
                    assert((|c: C| c.pos() == -1)(cs[0]));
                    lemma_sum_root_others(cs, |c: C| c.pos(), |c: C| 0int, -1, -1);
                    lemma_sum_zero(cs);
                }
            }
        }
    }
    proof fn lemma_step_r_heap(&self, f1: Seq<C>)
        requires self.wf(), self.comparator == Comparator::Reverse, f1.len() == self.n(), forall|i: int| 1 <= i < f1.len() ==> #[trigger] f1[i] == self.cursors@[i],
        ensures heap_from(f1, Comparator::Reverse, 1)
    {
        let cs = self.cursors@;
        assert forall|j: int| 1 < j < f1.len() && (j - 1) / 2 >= 1 implies !lessk(Comparator::Reverse, keyof(f1, j), #[trigger] keyof(f1, (j - 1) / 2)) by {
            assert(f1[j] == cs[j] && f1[(j - 1) / 2] == cs[(j - 1) / 2]);
            assert(!lessk(Comparator::Reverse, keyof(cs, j), keyof(cs, (j - 1) / 2)));
        }
    }
    proof fn lemma_land_rev(&self, high: spec_fn(Ent) -> bool)
        requires self.base(), self.comparator == Comparator::Reverse, up_closed(high),
            allq(self.cursors@, |c: C| at_cut_rev(c, high)), heap_from(self.cursors@, Comparator::Reverse, 0),
        ensures self.wf(), self.rev_a()
    {
        let f2 = self.cursors@;
        assert(allq(f2, |c: C| c.wf())) by { assert forall|i: int| 0 <= i < f2.len() implies (#[trigger] f2[i]).wf() by { assert((|c: C| at_cut_rev(c, high))(f2[i])); } }
        assert forall|i: int| 0 <= i < f2.len() implies (#[trigger] f2[i]).key_spec() == key_of_child(f2[i]) by { assert((|c: C| at_cut_rev(c, high))(f2[i])); f2[i].lemma_cursor_laws(); }
        lemma_heap_top_rev(f2, high);
    }
}

impl<C: Cursor> MergingCursor<C> {
//@ extract sst/src/merging_cursor.rs | impl MergingCursor<C> :: fn new
//@ ret r
//@ pre <<
        1 <= cursors@.len() <= 0x3fff_ffff_ffff_ffff, all_base(cursors@), all_sorted(cursors@), distinct(cursors@),
//@ >>
//@ post <<
        r is Ok ==> r->Ok_0.wf() && r->Ok_0.pos() == -1 && r->Ok_0.ents() == merged(cursors@),
//@ >>
//@ end
}

impl<C: Cursor> Cursor for MergingCursor<C> {
    spec fn ents(&self) -> Seq<Ent> { merged(self.cursors@) }
    spec fn pos(&self) -> int {
        match self.comparator { Comparator::Forward => self.sumpos(), Comparator::Reverse => self.sumpos() + self.n() - 1 }
    }
    spec fn wf_base(&self) -> bool { self.pre_base() }
    spec fn wf(&self) -> bool {
        &&& self.base() && self.kids_wf()
        &&& match self.comparator { Comparator::Forward => self.fwd_a() || self.fwd_b(), Comparator::Reverse => self.rev_a() || self.rev_b() }
    }
    spec fn key_spec(&self) -> Option<(Seq<u8>, u64)> { if self.n() > 0 { self.cursors@[0].key_spec() } else { None } }
    spec fn val_spec(&self) -> Option<Seq<u8>> { if self.n() > 0 { self.cursors@[0].val_spec() } else { None } }

    proof fn lemma_cursor_laws(&self) {
        let cs = self.cursors@;
        if self.pre_base() {
            lemma_mergeable(cs);
            lemma_merged_sorted(cs);
        }
        if self.wf() {
            assert forall|i: int| 0 <= i < cs.len() implies (#[trigger] cs[i]).wf() by { assert(allq(cs, |c: C| c.wf())); }
            cs[0].lemma_cursor_laws();
            lemma_total_is_len(cs);
            if self.comparator == Comparator::Reverse {
                if self.rev_b() {
                    lemma_sum_root_others(cs, |c: C| c.pos(), |c: C| c.ents().len() as int, 0, -1);
                } else {
                    match key_of_child(cs[0]) {
                        Some(e) => {
                            lemma_sum_cle(cs, 0, cs[0].pos());
                            lemma_sum_root_others(cs, |c: C| c.pos(), |c: C| cle(c.ents(), e.0, e.1), -1, -1);
                            lemma_member_rank(cs, 0, cs[0].pos());
                        }
                        None => {
                            lemma_sum_root_others(cs, |c: C| c.pos(), |c: C| 0int, -1, -1);
                            lemma_sum_zero(cs);
                        }
                    }
                }
            } else if self.fwd_b() {
                lemma_sum_only_root(cs, |c: C| c.pos());
            } else {
                match key_of_child(cs[0]) {
                    Some(e) => {
                        lemma_sum_eq(cs, |c: C| c.pos(), |c: C| clt(c.ents(), e.0, e.1));
                        lemma_member_rank(cs, 0, cs[0].pos());
                    }
                    None => {
                        lemma_sum_eq(cs, |c: C| c.pos(), |c: C| c.ents().len() as int);
                    }
                }
            }
        }
    }


// X13: `for x in self.cursors.iter_mut() { x.m()?; }`  ->  index loop over the same vector, same calls in the same order
//@ extract sst/src/merging_cursor.rs | impl Cursor for MergingCursor<C> :: fn seek
//@ rewrite X13 `for cursor in self.cursors.iter_mut() {` => `for idx in 0..self.cursors.len() {`
//@ rewrite X13 `cursor.seek(key)?;` => `self.cursors[idx].seek(key)?;`
//@ bodystart <<
        let ghost low = key_below(key@);
        proof { lemma_key_below_closed(key@); lemma_lex_order_total(); lemma_mergeable(self.cursors@); }
//@ >>
//@ loop 0 <<
            invariant
                self.comparator == Comparator::Forward, self.cursors@.len() == old(self).cursors@.len(),
                old(self).base(), all_base(self.cursors@), same_tables(self.cursors@, old(self).cursors@), low == key_below(key@),
                forall|j: int| 0 <= j < idx ==> at_cut(#[trigger] self.cursors@[j], low),
                forall|j: int| idx <= j < self.cursors@.len() ==> self.cursors@[j] == old(self).cursors@[j],
//@ >>
//@ startloop 0 <<
            let ghost pre = self.cursors@;
            proof { assert(pre[idx as int].wf_base()); }
//@ >>
//@ endloop 0 <<
            proof {
                let c = self.cursors@[idx as int];
                c.lemma_cursor_laws();
                lemma_lex_order_total();
                assert(low == key_below(key@));
                assert forall|i: int| 0 <= i < c.pos() implies low(#[trigger] c.ents()[i]) by { }
                assert forall|i: int| c.pos() <= i < c.ents().len() implies !low(#[trigger] c.ents()[i]) by { }
                assert(at_cut(c, low));
                assert forall|j: int| 0 <= j < idx + 1 implies at_cut(#[trigger] self.cursors@[j], low) by { if j < idx { assert(self.cursors@[j] == pre[j]); } }
            }
//@ >>
//@ before `self.heapify();` <<
        let ghost f1 = self.cursors@;
        proof { lemma_same_tables(f1, old(self).cursors@); }
//@ >>
//@ after? `self.heapify();` <<
        proof {
            let f2 = self.cursors@;
            lemma_family_invariants(f2, f1);
            lemma_family_merged(f1, f2);
            assert(allq(f1, |c: C| at_cut(c, low)));
            assert(allq(f2, |c: C| at_cut(c, low)));
            assert(allq(f2, |c: C| c.wf())) by { assert forall|i: int| 0 <= i < f2.len() implies (#[trigger] f2[i]).wf() by { assert(at_cut(f2[i], low)); } }
            assert forall|i: int| 0 <= i < f2.len() implies (#[trigger] f2[i]).key_spec() == key_of_child(f2[i]) by { assert(at_cut(f2[i], low)); f2[i].lemma_cursor_laws(); }
            lemma_heap_top_fwd(f2, low);
            lemma_seek_lower_bound(f2, key@);
        }
//@ >>
//@ end

//@ extract sst/src/merging_cursor.rs | impl Cursor for MergingCursor<C> :: fn seek_to_first
//@ rewrite X13 `for cursor in self.cursors.iter_mut() {` => `for idx in 0..self.cursors.len() {`
//@ rewrite X13 `cursor.seek_to_first()?;` => `self.cursors[idx].seek_to_first()?;`
//@ rewrite X13 `cursor.next()?;` => `self.cursors[idx].next()?;`
//@ bodystart <<
        let ghost low = |x: Ent| false;
        proof { lemma_mergeable(self.cursors@); }
//@ >>
//@ loop 0 <<
            invariant
                self.comparator == Comparator::Forward, self.cursors@.len() == old(self).cursors@.len(),
                old(self).base(), all_base(self.cursors@), same_tables(self.cursors@, old(self).cursors@), low == (|x: Ent| false),
                forall|j: int| 0 <= j < idx ==> at_cut(#[trigger] self.cursors@[j], low),
                forall|j: int| idx <= j < self.cursors@.len() ==> self.cursors@[j] == old(self).cursors@[j],
//@ >>
//@ startloop 0 <<
            let ghost pre = self.cursors@;
            proof { assert(pre[idx as int].wf_base()); }
//@ >>
//@ endloop 0 <<
            proof {
                let c = self.cursors@[idx as int];
                c.lemma_cursor_laws();
                assert(at_cut(c, low));
                assert forall|j: int| 0 <= j < idx + 1 implies at_cut(#[trigger] self.cursors@[j], low) by { if j < idx { assert(self.cursors@[j] == pre[j]); } }
            }
//@ >>
//@ before `self.heapify();` <<
        let ghost f1 = self.cursors@;
        proof { lemma_same_tables(f1, old(self).cursors@); }
//@ >>
//@ after? `self.heapify();` <<
        let ghost f2 = self.cursors@;
        proof {
            assert(heap_from(f2, Comparator::Forward, 0));
            lemma_family_invariants(f2, f1);
            lemma_family_merged(f1, f2);
            assert(allq(f1, |c: C| at_cut(c, low)));
            assert(allq(f2, |c: C| at_cut(c, low)));
            assert forall|i: int| 0 <= i < f2.len() implies (#[trigger] f2[i]).key_spec() == key_of_child(f2[i]) && f2[i].pos() == 0 && f2[i].wf() by {
                assert(at_cut(f2[i], low)); f2[i].lemma_cursor_laws();
                if f2[i].pos() > 0 { assert(low(f2[i].ents()[0])); }
            }
            assert forall|i: int| 1 <= i < f2.len() implies !lessk(Comparator::Forward, key_at((#[trigger] f2[i]).ents(), 0), key_at(f2[0].ents(), 0)) by {
                lemma_root_least(f2, Comparator::Forward, i);
            }
        }
//@ >>
//@ after `self.cursors[0].seek_to_first()?;` <<
            proof {
                let f3 = self.cursors@;
                assert(same_tables(f3, f2)) by { assert forall|i: int| 0 <= i < f3.len() implies (#[trigger] f3[i]).ents() == f2[i].ents() by { if i > 0 { assert(f3[i] == f2[i]); } } }
                lemma_same_tables(f3, f2);
                assert(all_base(f3)) by { assert forall|i: int| 0 <= i < f3.len() implies (#[trigger] f3[i]).wf_base() by { if i > 0 { assert(f3[i] == f2[i]); } } }
                assert(allq(f3, |c: C| c.wf())) by { assert forall|i: int| 0 <= i < f3.len() implies (#[trigger] f3[i]).wf() by { if i > 0 { assert(f3[i] == f2[i]); } } }
                assert forall|j: int| 1 < j < f3.len() && (j - 1) / 2 >= 1 implies !lessk(Comparator::Forward, keyof(f3, j), #[trigger] keyof(f3, (j - 1) / 2)) by {
                    assert(f3[j] == f2[j] && f3[(j - 1) / 2] == f2[(j - 1) / 2]);
                    assert(!lessk(Comparator::Forward, keyof(f2, j), keyof(f2, (j - 1) / 2)));
                }
                assert forall|i: int| 1 <= i < f3.len() implies (#[trigger] f3[i]).pos() == 0
                    && !lessk(Comparator::Forward, key_at(f3[i].ents(), 0), key_at(f3[0].ents(), 0)) by { assert(f3[i] == f2[i]); }
                assert(self.fwd_b());
                lemma_sum_only_root(f3, |c: C| c.pos());
            }
//@ >>
//@ end
//@ extract sst/src/merging_cursor.rs | impl Cursor for MergingCursor<C> :: fn seek_to_last
//@ rewrite X13 `for cursor in self.cursors.iter_mut() {` => `for idx in 0..self.cursors.len() {`
//@ rewrite X13 `cursor.seek_to_last()?;` => `self.cursors[idx].seek_to_last()?;`
//@ rewrite X13 `cursor.prev()?;` => `self.cursors[idx].prev()?;`
//@ bodystart <<
        let ghost high = |x: Ent| false;
        proof { lemma_mergeable(self.cursors@); }
//@ >>
//@ loop 0 <<
            invariant
                self.comparator == Comparator::Reverse, self.cursors@.len() == old(self).cursors@.len(),
                old(self).base(), all_base(self.cursors@), same_tables(self.cursors@, old(self).cursors@), high == (|x: Ent| false),
                forall|j: int| 0 <= j < idx ==> at_cut_rev(#[trigger] self.cursors@[j], high),
                forall|j: int| idx <= j < self.cursors@.len() ==> self.cursors@[j] == old(self).cursors@[j],
//@ >>
//@ startloop 0 <<
            let ghost pre = self.cursors@;
            proof { assert(pre[idx as int].wf_base()); }
//@ >>
//@ endloop 0 <<
            proof {
                let c = self.cursors@[idx as int];
                c.lemma_cursor_laws();
                assert(at_cut_rev(c, high));
                assert forall|j: int| 0 <= j < idx + 1 implies at_cut_rev(#[trigger] self.cursors@[j], high) by { if j < idx { assert(self.cursors@[j] == pre[j]); } }
            }
//@ >>
//@ before `self.heapify();` <<
        let ghost f1 = self.cursors@;
        proof { lemma_same_tables(f1, old(self).cursors@); }
//@ >>
//@ after? `self.heapify();` <<
        let ghost f2 = self.cursors@;
        proof {
            assert(heap_from(f2, Comparator::Reverse, 0));
            lemma_family_invariants(f2, f1);
            lemma_family_merged(f1, f2);
            assert(allq(f1, |c: C| at_cut_rev(c, high)));
            assert(allq(f2, |c: C| at_cut_rev(c, high)));
            assert forall|i: int| 0 <= i < f2.len() implies (#[trigger] f2[i]).key_spec() == key_of_child(f2[i]) && f2[i].pos() == f2[i].ents().len() - 1 && f2[i].wf() by {
                assert(at_cut_rev(f2[i], high)); f2[i].lemma_cursor_laws();
                if f2[i].pos() < f2[i].ents().len() - 1 { assert(high(f2[i].ents()[f2[i].pos() + 1])); }
            }
            assert forall|i: int| 1 <= i < f2.len() implies !lessk(Comparator::Reverse, key_at((#[trigger] f2[i]).ents(), f2[i].ents().len() - 1), key_at(f2[0].ents(), f2[0].ents().len() - 1)) by {
                lemma_root_least(f2, Comparator::Reverse, i);
            }
        }
//@ >>
//@ after `self.cursors[0].seek_to_last()?;` <<
            proof {
                let f3 = self.cursors@;
                assert(same_tables(f3, f2)) by { assert forall|i: int| 0 <= i < f3.len() implies (#[trigger] f3[i]).ents() == f2[i].ents() by { if i > 0 { assert(f3[i] == f2[i]); } } }
                lemma_same_tables(f3, f2);
                assert(all_base(f3)) by { assert forall|i: int| 0 <= i < f3.len() implies (#[trigger] f3[i]).wf_base() by { if i > 0 { assert(f3[i] == f2[i]); } } }
                assert(allq(f3, |c: C| c.wf())) by { assert forall|i: int| 0 <= i < f3.len() implies (#[trigger] f3[i]).wf() by { if i > 0 { assert(f3[i] == f2[i]); } } }
                assert forall|j: int| 1 < j < f3.len() && (j - 1) / 2 >= 1 implies !lessk(Comparator::Reverse, keyof(f3, j), #[trigger] keyof(f3, (j - 1) / 2)) by {
                    assert(f3[j] == f2[j] && f3[(j - 1) / 2] == f2[(j - 1) / 2]);
                    assert(!lessk(Comparator::Reverse, keyof(f2, j), keyof(f2, (j - 1) / 2)));
                }
                assert forall|i: int| 1 <= i < f3.len() implies (#[trigger] f3[i]).pos() == f3[i].ents().len() - 1
                    && !lessk(Comparator::Reverse, key_at(f3[i].ents(), f3[i].ents().len() - 1), key_at(f3[0].ents(), f3[0].ents().len() - 1)) by { assert(f3[i] == f2[i]); }
                assert(self.rev_b());
                lemma_sum_root_others(f3, |c: C| c.pos(), |c: C| c.ents().len() as int, 0, -1);
                lemma_total_is_len(f3);
            }
//@ >>
//@ end
//@ extract sst/src/merging_cursor.rs | impl Cursor for MergingCursor<C> :: fn prev
//@ rewrite X13 `for c in self.cursors.iter_mut() {` => `for idx in 0..self.cursors.len() {`
//@ rewrite X13 `c.prev()?;` => `self.cursors[idx].prev()?;`
//@ bodystart <<
        let ghost high = if self.comparator == Comparator::Forward { self.high_fwd() } else { self.high_rev() };
        proof {
            self.lemma_child_wf(0);
            match key_of_child(self.cursors@[0]) { Some(e) => { lemma_le_closed(e.0, e.1); } None => { lemma_le_closed(Seq::<u8>::empty(), 0); } }
            assert(up_closed(high));
        }
//@ >>
//@ loop 0 <<
                invariant
                    self.comparator == Comparator::Forward, self.cursors@.len() == old(self).cursors@.len(),
                    old(self).wf(), old(self).comparator == Comparator::Forward, all_base(self.cursors@), same_tables(self.cursors@, old(self).cursors@),
                    high == old(self).high_fwd(),
                    forall|j: int| 0 <= j < idx ==> Self::stepped_back(#[trigger] self.cursors@[j], old(self).cursors@[j]),
                    forall|j: int| idx <= j < self.cursors@.len() ==> self.cursors@[j] == old(self).cursors@[j],
//@ >>
//@ startloop 0 <<
                let ghost pre = self.cursors@;
                proof { old(self).lemma_child_wf(idx as int); }
//@ >>
//@ endloop 0 <<
                proof {
                    assert forall|j: int| 0 <= j < idx + 1 implies Self::stepped_back(#[trigger] self.cursors@[j], old(self).cursors@[j]) by { if j < idx { assert(self.cursors@[j] == pre[j]); } }
                }
//@ >>
//@ before `self.comparator = Comparator::Reverse;` <<
            let ghost f1 = self.cursors@;
            proof {
                lemma_same_tables(f1, old(self).cursors@);
                assert forall|i: int| 0 <= i < f1.len() implies at_cut_rev(#[trigger] f1[i], high) by { old(self).lemma_switch_fr(i, f1[i]); }
                old(self).lemma_switch_fr_pos(f1);
            }
//@ >>
//@ after? `self.heapify();` <<
            proof {
                let f2 = self.cursors@;
                lemma_family_invariants(f2, f1);
                lemma_family_merged(f1, f2);
                assert(allq(f1, |c: C| at_cut_rev(c, high)));
                assert(allq(f2, |c: C| at_cut_rev(c, high)));
                self.lemma_land_rev(high);
                assert(sumf(f2, |c: C| c.pos()) == sumf(f1, |c: C| c.pos()));
            }
//@ >>
//@ after `self.cursors[0].prev()?;` <<
            let ghost f1 = self.cursors@;
            proof {
                assert(same_tables(f1, old(self).cursors@)) by { assert forall|i: int| 0 <= i < f1.len() implies (#[trigger] f1[i]).ents() == old(self).cursors@[i].ents() by { if i > 0 { assert(f1[i] == old(self).cursors@[i]); } } }
                lemma_same_tables(f1, old(self).cursors@);
                assert(all_base(f1)) by { assert forall|i: int| 0 <= i < f1.len() implies (#[trigger] f1[i]).wf_base() by { if i > 0 { assert(f1[i] == old(self).cursors@[i]); } } }
                assert forall|i: int| 0 <= i < f1.len() implies at_cut_rev(#[trigger] f1[i], high) by { if i > 0 { assert(f1[i] == old(self).cursors@[i]); } old(self).lemma_step_r(i, f1[i]); }
                old(self).lemma_step_r_pos(f1);
                old(self).lemma_step_r_heap(f1);
            }
//@ >>
//@ after? `self.percolate_down(0);` <<
            proof {
                let f2 = self.cursors@;
                lemma_family_invariants(f2, f1);
                lemma_family_merged(f1, f2);
                assert(allq(f1, |c: C| at_cut_rev(c, high)));
                assert(allq(f2, |c: C| at_cut_rev(c, high)));
                self.lemma_land_rev(high);
                assert(sumf(f2, |c: C| c.pos()) == sumf(f1, |c: C| c.pos()));
            }
//@ >>
//@ end
//@ extract sst/src/merging_cursor.rs | impl Cursor for MergingCursor<C> :: fn next
//@ rewrite X13 `for c in self.cursors.iter_mut() {` => `for idx in 0..self.cursors.len() {`
//@ rewrite X13 `c.next()?;` => `self.cursors[idx].next()?;`
//@ bodystart <<
        let ghost low = if self.comparator == Comparator::Reverse { self.low_rev() } else { self.low_fwd() };
        let ghost tgt = if self.pos() < self.ents().len() { self.pos() + 1 } else { self.pos() };
        proof {
            self.lemma_child_wf(0);
            match key_of_child(self.cursors@[0]) { Some(e) => { lemma_le_closed(e.0, e.1); } None => { lemma_le_closed(Seq::<u8>::empty(), 0); } }
            assert(down_closed(low));
        }
//@ >>
//@ loop 0 <<
                invariant
                    self.comparator == Comparator::Reverse, self.cursors@.len() == old(self).cursors@.len(),
                    old(self).wf(), old(self).comparator == Comparator::Reverse, all_base(self.cursors@), same_tables(self.cursors@, old(self).cursors@),
                    low == old(self).low_rev(),
                    forall|j: int| 0 <= j < idx ==> Self::stepped_fwd(#[trigger] self.cursors@[j], old(self).cursors@[j]),
                    forall|j: int| idx <= j < self.cursors@.len() ==> self.cursors@[j] == old(self).cursors@[j],
//@ >>
//@ startloop 0 <<
                let ghost pre = self.cursors@;
                proof { old(self).lemma_child_wf(idx as int); }
//@ >>
//@ endloop 0 <<
                proof {
                    assert forall|j: int| 0 <= j < idx + 1 implies Self::stepped_fwd(#[trigger] self.cursors@[j], old(self).cursors@[j]) by { if j < idx { assert(self.cursors@[j] == pre[j]); } }
                }
//@ >>
//@ before `self.comparator = Comparator::Forward;` <<
            let ghost f1 = self.cursors@;
            proof {
                lemma_same_tables(f1, old(self).cursors@);
                assert forall|i: int| 0 <= i < f1.len() implies at_cut(#[trigger] f1[i], low) by { old(self).lemma_switch_rf(i, f1[i]); }
                old(self).lemma_switch_rf_pos(f1);
            }
//@ >>
//@ after? `self.heapify();` <<
            proof {
                let f2 = self.cursors@;
                lemma_family_invariants(f2, f1);
                lemma_family_merged(f1, f2);
                assert(allq(f1, |c: C| at_cut(c, low)));
                assert(allq(f2, |c: C| at_cut(c, low)));
                self.lemma_land_fwd(low);
                assert(sumf(f2, |c: C| c.pos()) == sumf(f1, |c: C| c.pos()));
            }
//@ >>
//@ after `self.cursors[0].next()?;` <<
            let ghost f1 = self.cursors@;
            proof {
                assert(same_tables(f1, old(self).cursors@)) by { assert forall|i: int| 0 <= i < f1.len() implies (#[trigger] f1[i]).ents() == old(self).cursors@[i].ents() by { if i > 0 { assert(f1[i] == old(self).cursors@[i]); } } }
                lemma_same_tables(f1, old(self).cursors@);
                assert(all_base(f1)) by { assert forall|i: int| 0 <= i < f1.len() implies (#[trigger] f1[i]).wf_base() by { if i > 0 { assert(f1[i] == old(self).cursors@[i]); } } }
                assert forall|i: int| 0 <= i < f1.len() implies at_cut(#[trigger] f1[i], low) by { if i > 0 { assert(f1[i] == old(self).cursors@[i]); } old(self).lemma_step_f(i, f1[i]); }
                old(self).lemma_step_f_pos(f1);
                old(self).lemma_step_f_heap(f1);
            }
//@ >>
//@ after? `self.percolate_down(0);` <<
            proof {
                let f2 = self.cursors@;
                lemma_family_invariants(f2, f1);
                lemma_family_merged(f1, f2);
                assert(allq(f1, |c: C| at_cut(c, low)));
                assert(allq(f2, |c: C| at_cut(c, low)));
                self.lemma_land_fwd(low);
                assert(sumf(f2, |c: C| c.pos()) == sumf(f1, |c: C| c.pos()));
            }
//@ >>
//@ end

//@ extract sst/src/merging_cursor.rs | impl Cursor for MergingCursor<C> :: fn key
//@ bodystart <<
        proof { self.lemma_cursor_laws(); }
//@ >>
//@ end
//@ extract sst/src/merging_cursor.rs | impl Cursor for MergingCursor<C> :: fn value
//@ bodystart <<
        proof { self.lemma_cursor_laws(); }
//@ >>
//@ end
}

//@ min-verified 70
} // verus!
fn main() {}
