//@ package setsum
//@ modfile setsum/src/lib.rs
//@ flags --lib
//@ attr setsum/src/lib.rs | fn add_state <<
#[cfg_attr(kani, kani::requires(crate::__verif_setsum::weak(&lhs) && crate::__verif_setsum::weak(&rhs) && (crate::__verif_setsum::canon(&lhs) || crate::__verif_setsum::canon(&rhs))))]
#[cfg_attr(kani, kani::ensures(|ret: &[u32; 8]| crate::__verif_setsum::canon(ret) && crate::__verif_setsum::is_add(&lhs, &rhs, ret)))]
//@ >>
//@ attr setsum/src/lib.rs | fn invert_state <<
#[cfg_attr(kani, kani::requires(crate::__verif_setsum::canon(&state)))]
#[cfg_attr(kani, kani::ensures(|ret: &[u32; 8]| crate::__verif_setsum::weak(ret) && crate::__verif_setsum::is_neg(&state, ret)))]
//@ >>

#[cfg(kani)]
pub(crate) mod __verif_setsum {
    use super::*;

    // The published definition, written independently of the crate's constants.
    pub const P: [u64; 8] = [
        4294967291, 4294967279, 4294967231, 4294967197, 4294967189, 4294967161, 4294967143, 4294967111,
    ];
    pub fn canon(s: &[u32; 8]) -> bool {
        let mut ok = true;
        let mut i = 0;
        while i < 8 { ok = ok & ((s[i] as u64) < P[i]); i += 1; }
        ok
    }
    pub fn weak(s: &[u32; 8]) -> bool {
        let mut ok = true;
        let mut i = 0;
        while i < 8 { ok = ok & ((s[i] as u64) <= P[i]); i += 1; }
        ok
    }
    pub fn is_add(a: &[u32; 8], b: &[u32; 8], r: &[u32; 8]) -> bool {
        let mut ok = true;
        let mut i = 0;
        while i < 8 { ok = ok & ((r[i] as u64) == (a[i] as u64 + b[i] as u64) % P[i]); i += 1; }
        ok
    }
    pub fn is_neg(a: &[u32; 8], r: &[u32; 8]) -> bool {
        let mut ok = true;
        let mut i = 0;
        while i < 8 { ok = ok & ((r[i] as u64) == P[i] - a[i] as u64); i += 1; }
        ok
    }
    fn le32(d: &[u8; 32], i: usize) -> u64 {
        (d[4 * i] as u64) | ((d[4 * i + 1] as u64) << 8) | ((d[4 * i + 2] as u64) << 16) | ((d[4 * i + 3] as u64) << 24)
    }
    fn any_canon() -> [u32; 8] {
        let s: [u32; 8] = kani::any();
        kani::assume(canon(&s));
        s
    }
    fn same(a: &[u32; 8], b: &[u32; 8]) -> bool {
        let mut ok = true;
        let mut i = 0;
        while i < 8 { ok = ok & (a[i] == b[i]); i += 1; }
        ok
    }

    //@ H kind=complete tier=quick timeout=300 oblig="setsum::constants::published"
    #[kani::proof]
    #[kani::unwind(9)]
    fn constants_published() {
        assert!(SETSUM_BYTES == 32 && SETSUM_BYTES_PER_COLUMN == 4 && SETSUM_COLUMNS == 8);
        let mut i = 0;
        while i < 8 { assert!(SETSUM_PRIMES[i] as u64 == P[i]); i += 1; }
        kani::cover!(true);
    }

    //@ H kind=complete tier=quick timeout=300 native=no oblig="setsum::add_state::kani-contract"
    #[kani::proof_for_contract(add_state)]
    #[kani::unwind(9)]
    fn contract_add_state() {
        let a: [u32; 8] = kani::any();
        let b: [u32; 8] = kani::any();
        let _ = add_state(a, b);
    }

    //@ H kind=complete tier=quick timeout=300 native=no oblig="setsum::invert_state::kani-contract"
    #[kani::proof_for_contract(invert_state)]
    #[kani::unwind(9)]
    fn contract_invert_state() {
        let a: [u32; 8] = kani::any();
        let _ = invert_state(a);
    }

    // the same two contracts as plain assume/assert harnesses: natively replayable (contract attributes
    // are erased outside Kani)
    //@ H kind=complete tier=quick timeout=300 oblig="setsum::add_state::post"
    #[kani::proof]
    #[kani::unwind(9)]
    fn plain_add_state() {
        let a: [u32; 8] = kani::any();
        let b: [u32; 8] = kani::any();
        kani::assume(weak(&a) && weak(&b) && (canon(&a) || canon(&b)));
        let r = add_state(a, b);
        assert!(canon(&r) && is_add(&a, &b, &r));
        kani::cover!(true);
    }

    //@ H kind=complete tier=quick timeout=300 oblig="setsum::invert_state::post"
    #[kani::proof]
    #[kani::unwind(9)]
    fn plain_invert_state() {
        let a = any_canon();
        let r = invert_state(a);
        assert!(weak(&r) && is_neg(&a, &r));
        kani::cover!(true);
    }

    // hash_to_state(h)[i] == le32(h[4i..4i+4]) mod P[i]  for every 32-byte hash (the published definition)
    //@ H kind=complete tier=quick timeout=300 oblig="setsum::hash_to_state::definition"
    #[kani::proof]
    #[kani::unwind(9)]
    fn hash_to_state_matches_definition() {
        let h: [u8; 32] = kani::any();
        let s = hash_to_state(&h);
        let mut i = 0;
        while i < 8 { assert!(s[i] as u64 == le32(&h, i) % P[i]); i += 1; }
        assert!(canon(&s));
        kani::cover!(true);
    }

    // digest is the little-endian column layout; from_digest inverts it on every canonical state
    //@ H kind=complete tier=quick timeout=300 oblig="setsum::digest::layout+roundtrip"
    #[kani::proof]
    #[kani::unwind(33)]
    fn digest_layout_and_roundtrip() {
        let s = Setsum { state: any_canon() };
        let d = s.digest();
        let mut i = 0;
        while i < 8 { assert!(le32(&d, i) == s.state[i] as u64); i += 1; }
        let back = Setsum::from_digest(d);
        assert!(same(&back.state, &s.state));
        kani::cover!(true);
    }

    // type invariant at the constructor: from_digest of ANY 32 bytes is a canonical state congruent to
    // the digest's columns, and digest(from_digest(d)) == d when d is canonical.
    //@ H kind=complete tier=quick timeout=300 oblig="setsum::from_digest::type-invariant"
    #[kani::proof]
    #[kani::unwind(33)]
    fn from_digest_establishes_invariant() {
        let d: [u8; 32] = kani::any();
        let s = Setsum::from_digest(d);
        assert!(canon(&s.state));
        let mut i = 0;
        let mut dcanon = true;
        while i < 8 {
            assert!(s.state[i] as u64 == le32(&d, i) % P[i]);
            dcanon = dcanon & (le32(&d, i) < P[i]);
            i += 1;
        }
        if dcanon {
            let d2 = s.digest();
            let mut j = 0;
            while j < 32 { assert!(d2[j] == d[j]); j += 1; }
        }
        kani::cover!(dcanon);
        kani::cover!(!dcanon);
    }

    //@ H kind=complete tier=quick timeout=300 oblig="setsum::default::zero"
    #[kani::proof]
    #[kani::unwind(9)]
    fn default_is_zero() {
        let z = Setsum::default();
        let mut i = 0;
        while i < 8 { assert!(z.state[i] == 0); i += 1; }
        kani::cover!(true);
    }

    // Total harness: NO canonicity assumption; every Setsum obtainable through the public API
    // (from_digest of arbitrary bytes) must obey the laws and never panic.
    //@ H kind=complete tier=quick timeout=600 oblig="setsum::ops::laws-total"
    #[kani::proof]
    #[kani::unwind(33)]
    fn ops_laws_total() {
        let a = Setsum::from_digest(kani::any());
        let b = Setsum::from_digest(kani::any());
        let z = Setsum::default();
        assert!(a + b == b + a);
        assert!((a + b) - b == a);
        assert!((a - b) + b == a);
        assert!(a + z == a);
        assert!(a - z == a);
        assert!(a - a == z);
        assert!(z - a + a == z);
        let mut c = a; c += b; assert!(c == a + b);
        let mut d = a; d -= b; assert!(d == a - b);
        kani::cover!(true);
    }

    // operators against the definition, column by column
    //@ H kind=complete tier=quick timeout=600 oblig="setsum::ops::definition"
    #[kani::proof]
    #[kani::unwind(9)]
    fn ops_match_definition() {
        let a = Setsum { state: any_canon() };
        let b = Setsum { state: any_canon() };
        let s = a + b;
        let t = a - b;
        let mut i = 0;
        while i < 8 {
            assert!(s.state[i] as u64 == (a.state[i] as u64 + b.state[i] as u64) % P[i]);
            assert!(t.state[i] as u64 == (a.state[i] as u64 + P[i] - b.state[i] as u64) % P[i]);
            i += 1;
        }
        assert!(canon(&s.state) && canon(&t.state));
        kani::cover!(true);
    }

    //@ H kind=complete tier=thorough timeout=1800 oblig="setsum::ops::associative"
    #[kani::proof]
    #[kani::unwind(33)]
    fn ops_associative() {
        let a = Setsum { state: any_canon() };
        let b = Setsum { state: any_canon() };
        let c = Setsum { state: any_canon() };
        assert!((a + b) + c == a + (b + c));
        assert!((a + b) - c == a + (b - c));
        kani::cover!(true);
    }

    // insert/remove with the hash abstracted to an arbitrary (but fixed per item) canonical state:
    // removing undoes inserting in both orders and keeps the state canonical.
    static mut ITEM: [u32; 8] = [0; 8];
    fn stub_item(_item: &[&[u8]]) -> [u32; SETSUM_COLUMNS] { unsafe { ITEM } }

    //@ H kind=complete tier=quick timeout=600 native=no oblig="setsum::insert-remove::inverse"
    #[kani::proof]
    #[kani::unwind(33)]
    #[kani::stub(item_vectored_to_state, stub_item)]
    fn insert_remove_inverse() {
        let it = any_canon();
        unsafe { ITEM = it; }
        let s0 = Setsum { state: any_canon() };
        let x: [u8; 2] = kani::any();
        let mut s = s0;
        s.insert(&x);
        assert!(canon(&s.state));
        assert!(is_add(&s0.state, &it, &s.state));
        s.remove(&x);
        assert!(s == s0);
        s.remove_vectored(&[&x[..1], &x[1..]]);
        assert!(canon(&s.state));
        s.insert_vectored(&[&x[..1], &x[1..]]);
        assert!(s == s0);
        kani::cover!(true);
    }
}
