// ---- shared by the Verus cursor units: entries, the entry order, and the Cursor trait WITH ITS CONTRACT.
// The trait declaration is the repository's (extracted: sst/src/lib.rs `trait Cursor`); the clauses are
// the Cursor contract of sst/src/reference.rs::ReferenceCursor / the trait's documentation:
//   a cursor denotes a strictly sorted sequence `ents()` and a position `pos()` in -1 ..= len;
//   seek_to_first -> -1, seek_to_last -> len, next/prev saturate, seek(k) -> first entry with key >= k,
//   key()/value() = entry at pos (None at either end; value None also for a tombstone).
// `wf_base` is what must hold for the re-positioning calls (seek*), `wf` for the relative ones; after an
// Err nothing is promised (callers propagate with `?`).

#[verifier::external_body]
struct SError { _p: u8 }
//@ stubs sst/src/lib.rs -> SError

struct Ent { key: Seq<u8>, ts: u64, val: Option<Seq<u8>> }

spec fn lex_le(a: Seq<u8>, b: Seq<u8>) -> bool
    decreases a.len()
{
    if a.len() == 0 { true }
    else if b.len() == 0 { false }
    else if a[0] < b[0] { true }
    else if a[0] > b[0] { false }
    else { lex_le(a.subrange(1, a.len() as int), b.subrange(1, b.len() as int)) }
}
spec fn lex_lt(a: Seq<u8>, b: Seq<u8>) -> bool { lex_le(a, b) && a != b }
proof fn lemma_lex_trans(a: Seq<u8>, b: Seq<u8>, c: Seq<u8>)
    requires lex_le(a, b), lex_le(b, c)
    ensures lex_le(a, c)
    decreases a.len()
{
    if a.len() == 0 { } else if b.len() == 0 { } else if c.len() == 0 { } else if a[0] < b[0] { } else if b[0] < c[0] { } else {
        lemma_lex_trans(a.subrange(1, a.len() as int), b.subrange(1, b.len() as int), c.subrange(1, c.len() as int));
    }
}
proof fn lemma_lex_antisym(a: Seq<u8>, b: Seq<u8>)
    requires lex_le(a, b), lex_le(b, a)
    ensures a == b
    decreases a.len()
{
    if a.len() == 0 { assert(b.len() == 0); assert(a =~= b); } else if b.len() == 0 { } else {
        let a1 = a.subrange(1, a.len() as int); let b1 = b.subrange(1, b.len() as int);
        lemma_lex_antisym(a1, b1);
        assert(a =~= seq![a[0]] + a1);
        assert(b =~= seq![b[0]] + b1);
    }
}
proof fn lemma_lex_total(a: Seq<u8>, b: Seq<u8>)
    ensures lex_le(a, b) || lex_le(b, a)
    decreases a.len()
{
    if a.len() == 0 { } else if b.len() == 0 { } else if a[0] != b[0] { } else {
        lemma_lex_total(a.subrange(1, a.len() as int), b.subrange(1, b.len() as int));
    }
}
proof fn lemma_lex_refl(a: Seq<u8>)
    ensures lex_le(a, a)
    decreases a.len()
{
    if a.len() != 0 { lemma_lex_refl(a.subrange(1, a.len() as int)); }
}

// the order is total: not (a <= b)  <==>  b < a
proof fn lemma_lex_order_total()
    ensures forall|a: Seq<u8>, b: Seq<u8>| #![trigger lex_le(a, b)] !lex_le(a, b) <==> lex_lt(b, a)
{
    assert forall|a: Seq<u8>, b: Seq<u8>| #![trigger lex_le(a, b)] !lex_le(a, b) <==> lex_lt(b, a) by {
        lemma_lex_total(a, b);
        if lex_le(a, b) && lex_le(b, a) { lemma_lex_antisym(a, b); }
        if a == b { lemma_lex_refl(a); }
    }
}

// verified replacements for comparisons of byte strings (rule X9)
fn bytes_le(a: &[u8], b: &[u8]) -> (r: bool)
    ensures r == lex_le(a@, b@)
{
    let mut i: usize = 0;
    proof { assert(a@.subrange(0, a@.len() as int) =~= a@); assert(b@.subrange(0, b@.len() as int) =~= b@); }
    while i < a.len() && i < b.len()
        invariant
            i <= a.len(), i <= b.len(),
            lex_le(a@, b@) == lex_le(a@.subrange(i as int, a@.len() as int), b@.subrange(i as int, b@.len() as int)),
        decreases a.len() - i,
    {
        let ghost sa = a@.subrange(i as int, a@.len() as int);
        let ghost sb = b@.subrange(i as int, b@.len() as int);
        assert(sa[0] == a@[i as int] && sb[0] == b@[i as int]);
        if a[i] < b[i] { return true; }
        if a[i] > b[i] { return false; }
        assert(sa.subrange(1, sa.len() as int) =~= a@.subrange(i as int + 1, a@.len() as int));
        assert(sb.subrange(1, sb.len() as int) =~= b@.subrange(i as int + 1, b@.len() as int));
        i += 1;
    }
    assert(a@.subrange(i as int, a@.len() as int).len() == a@.len() - i);
    i == a.len()
}
fn bytes_lt(a: &[u8], b: &[u8]) -> (r: bool)
    ensures r == lex_lt(a@, b@)
{
    let le = bytes_le(a, b);
    if !le { return false; }
    let ge = bytes_le(b, a);
    proof { if ge { lemma_lex_antisym(a@, b@); } else { assert(a@ != b@) by { if a@ == b@ { lemma_lex_refl(a@); } } } }
    !ge
}
fn bytes_eq(a: &[u8], b: &[u8]) -> (r: bool)
    ensures r == (a@ == b@)
{
    let le = bytes_le(a, b);
    let ge = bytes_le(b, a);
    proof { if le && ge { lemma_lex_antisym(a@, b@); } if a@ == b@ { lemma_lex_refl(a@); } }
    le && ge
}

// the entry order: key ascending, then timestamp DESCENDING
spec fn kt_lt(k1: Seq<u8>, t1: u64, k2: Seq<u8>, t2: u64) -> bool { lex_lt(k1, k2) || (k1 == k2 && t1 > t2) }
spec fn sorted(s: Seq<Ent>) -> bool { forall|i: int, j: int| 0 <= i < j < s.len() ==> kt_lt(s[i].key, s[i].ts, s[j].key, s[j].ts) }
// keys are non-decreasing along a sorted table
proof fn lemma_sorted_keys(s: Seq<Ent>, i: int, j: int)
    requires sorted(s), 0 <= i <= j < s.len()
    ensures lex_le(s[i].key, s[j].key)
{
    if i == j { lemma_lex_refl(s[i].key); }
    else { assert(kt_lt(s[i].key, s[i].ts, s[j].key, s[j].ts)); if s[i].key == s[j].key { lemma_lex_refl(s[i].key); } }
}
// first index whose key is >= k  (what Cursor::seek(k) positions at)
spec fn is_lower_bound(s: Seq<Ent>, k: Seq<u8>, p: int) -> bool {
    &&& 0 <= p <= s.len()
    &&& forall|i: int| 0 <= i < p ==> lex_lt(#[trigger] s[i].key, k)
    &&& forall|i: int| p <= i < s.len() ==> lex_le(k, #[trigger] s[i].key)
}

//@ extract sst/src/lib.rs | struct KeyRef
//@ prefix #[derive(Clone, Copy)]
//@ end
//@ extract sst/src/lib.rs | struct KeyValueRef
//@ end

spec fn key_at(s: Seq<Ent>, p: int) -> Option<(Seq<u8>, u64)> { if 0 <= p < s.len() { Some((s[p].key, s[p].ts)) } else { None } }
spec fn val_at(s: Seq<Ent>, p: int) -> Option<Seq<u8>> { if 0 <= p < s.len() { s[p].val } else { None } }
spec fn keyref_is(r: Option<KeyRef<'_>>, k: Option<(Seq<u8>, u64)>) -> bool {
    match (r, k) { (Some(a), Some(b)) => a.key@ == b.0 && a.timestamp == b.1, (None, None) => true, _ => false }
}
spec fn slice_is(r: Option<&[u8]>, v: Option<Seq<u8>>) -> bool {
    match (r, v) { (Some(a), Some(b)) => a@ == b, (None, None) => true, _ => false }
}

// what Cursor::key_value() returns at position p of table s
spec fn kvref_is(r: Option<KeyValueRef<'_>>, s: Seq<Ent>, p: int) -> bool {
    if 0 <= p < s.len() {
        r is Some && r->Some_0.key@ == s[p].key && r->Some_0.timestamp == s[p].ts
            && (r->Some_0.value is Some) == (s[p].val is Some)
            && (s[p].val is Some ==> r->Some_0.value->Some_0@ == s[p].val->Some_0)
    } else { r is None }
}

trait Cursor {
    // ---- abstract state (specification only)
    spec fn ents(&self) -> Seq<Ent>;
    spec fn pos(&self) -> int;
    spec fn wf_base(&self) -> bool;
    spec fn wf(&self) -> bool;
    // what key()/value() return in any wf_base state (at a rest state: the entry at pos)
    spec fn key_spec(&self) -> Option<(Seq<u8>, u64)>;
    spec fn val_spec(&self) -> Option<Seq<u8>>;
    proof fn lemma_cursor_laws(&self)
        ensures
            self.wf() ==> self.wf_base() && sorted(self.ents()) && -1 <= self.pos() <= self.ents().len()
                && self.key_spec() == key_at(self.ents(), self.pos()) && self.val_spec() == val_at(self.ents(), self.pos()),
            self.wf_base() ==> sorted(self.ents()),
    ;

//@ extract sst/src/lib.rs | trait Cursor :: fn seek_to_first
//@ ret r
//@ pre <<
        old(self).wf_base(),
//@ >>
//@ post <<
        r is Ok ==> final(self).wf() && final(self).wf_base() && final(self).ents() == old(self).ents() && final(self).pos() == -1,
//@ >>
//@ end

//@ extract sst/src/lib.rs | trait Cursor :: fn seek_to_last
//@ ret r
//@ pre <<
        old(self).wf_base(),
//@ >>
//@ post <<
        r is Ok ==> final(self).wf() && final(self).wf_base() && final(self).ents() == old(self).ents() && final(self).pos() == final(self).ents().len(),
//@ >>
//@ end

//@ extract sst/src/lib.rs | trait Cursor :: fn seek
//@ ret r
//@ pre <<
        old(self).wf_base(),
//@ >>
//@ post <<
        r is Ok ==> final(self).wf() && final(self).wf_base() && final(self).ents() == old(self).ents() && is_lower_bound(final(self).ents(), key@, final(self).pos()),
//@ >>
//@ end

//@ extract sst/src/lib.rs | trait Cursor :: fn prev
//@ ret r
//@ pre <<
        old(self).wf(),
//@ >>
//@ post <<
        r is Ok ==> final(self).wf() && final(self).wf_base() && final(self).ents() == old(self).ents()
            && final(self).pos() == (if old(self).pos() > -1 { old(self).pos() - 1 } else { -1 }),
//@ >>
//@ end

//@ extract sst/src/lib.rs | trait Cursor :: fn next
//@ ret r
//@ pre <<
        old(self).wf(),
//@ >>
//@ post <<
        r is Ok ==> final(self).wf() && final(self).wf_base() && final(self).ents() == old(self).ents()
            && final(self).pos() == (if old(self).pos() < old(self).ents().len() { old(self).pos() + 1 } else { old(self).pos() }),
//@ >>
//@ end

//@ extract sst/src/lib.rs | trait Cursor :: fn key
//@ ret r
//@ pre <<
        self.wf_base(),
//@ >>
//@ post <<
        keyref_is(r, self.key_spec()),
        self.wf() ==> keyref_is(r, key_at(self.ents(), self.pos())),
//@ >>
//@ end

//@ extract sst/src/lib.rs | trait Cursor :: fn value
//@ ret r
//@ pre <<
        self.wf_base(),
//@ >>
//@ post <<
        slice_is(r, self.val_spec()),
        self.wf() ==> slice_is(r, val_at(self.ents(), self.pos())),
//@ >>
//@ end

//@ extract sst/src/lib.rs | trait Cursor :: fn key_value
//@ ret r
//@ pre <<
        self.wf_base(),
//@ >>
//@ post <<
        self.wf() ==> kvref_is(r, self.ents(), self.pos()),
//@ >>
//@ end
}
