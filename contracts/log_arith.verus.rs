// Unit log_arith (C12): block-boundary arithmetic of sst/src/log.rs.
use vstd::prelude::*;
verus! {
global size_of usize == 8;

#[verifier::external_body]
struct SError { _p: u8 }

//@ extract sst/src/log.rs | const BLOCK_BITS
//@ end
//@ extract sst/src/log.rs | const BLOCK_SIZE
//@ post <<
        BLOCK_SIZE == 1048576,
//@ >>
//@ bodystart <<
    proof { assert(1u64 << 20 == 1048576) by (bit_vector); }
//@ >>
//@ end
//@ extract sst/src/log.rs | const HEADER_MAX_SIZE
//@ post <<
        HEADER_MAX_SIZE == 19,
//@ >>
//@ end
//@ extract sst/src/log.rs | const MAX_BATCH_SIZE
//@ post <<
        MAX_BATCH_SIZE == 1048576 - 38,
//@ >>
//@ end

spec fn is_boundary(x: int) -> bool { x % 1048576 == 0 }

proof fn lemma_shift(offset: u64)
    ensures
        (offset >> 20) as int == offset as int / 1048576,
        (offset >> 20) < 0x1000_0000_0000,
        offset <= 0x7fff_ffff_ffff_ffff ==> (offset >> 20) < 0x800_0000_0000,
{
    assert((offset >> 20) == offset / 1048576) by (bit_vector);
    assert((offset >> 20) < 0x1000_0000_0000) by (bit_vector);
    assert(offset <= 0x7fff_ffff_ffff_ffff ==> (offset >> 20) < 0x800_0000_0000) by (bit_vector);
}
proof fn lemma_shl(k: u64)
    requires k < 0x1000_0000_0000
    ensures (k << 20) as int == k as int * 1048576
{
    assert(k < 0x1000_0000_0000 ==> (k << 20) == k * 1048576) by (bit_vector);
}

//@ extract sst/src/log.rs | fn block_offset
//@ ret r
//@ post <<
        r as int == offset as int / 1048576,
        r < 0x1000_0000_0000,
//@ >>
//@ bodystart <<
    proof { lemma_shift(offset); }
//@ >>
//@ end

// next_boundary: the first multiple of 2^20 strictly greater than offset
//@ extract sst/src/log.rs | fn next_boundary
//@ ret r
//@ pre <<
        offset <= 0x7fff_ffff_ffff_ffff,   // every caller passes a file offset (i64-representable)
//@ >>
//@ post <<
        (r as int) > (offset as int), (r as int) - (offset as int) <= 1048576, is_boundary(r as int),
        r as int == (offset as int / 1048576 + 1) * 1048576,
//@ >>
//@ bodystart <<
    proof {
        lemma_shift(offset);
        lemma_shl(((offset >> 20) + 1) as u64);
        let q = offset as int / 1048576;
        assert(offset as int == q * 1048576 + offset as int % 1048576) by {
            vstd::arithmetic::div_mod::lemma_fundamental_div_mod(offset as int, 1048576);
        }
        assert(((q + 1) * 1048576) % 1048576 == 0) by {
            vstd::arithmetic::div_mod::lemma_mod_multiples_basic(q + 1, 1048576);
        }
        assert((q + 1) * 1048576 == q * 1048576 + 1048576) by (nonlinear_arith);
    }
//@ >>
//@ end

// compute_true_up: offset itself when aligned, else the next boundary; never more than 2^20-1 away
//@ extract sst/src/log.rs | fn compute_true_up
//@ ret r
//@ pre <<
        offset <= 0x7fff_ffff_ffff_ffff,
//@ >>
//@ post <<
        r >= offset, is_boundary(r as int), (r as int) - (offset as int) < 1048576,
        is_boundary(offset as int) ==> r == offset,
//@ >>
//@ bodystart <<
    proof {
        lemma_shift(offset);
        lemma_shl((offset >> 20) as u64);
        let q = offset as int / 1048576;
        vstd::arithmetic::div_mod::lemma_fundamental_div_mod(offset as int, 1048576);
        vstd::arithmetic::div_mod::lemma_mod_multiples_basic(q, 1048576);
        assert(offset as int == 1048576 * q + offset as int % 1048576);
        assert(1048576 * q == q * 1048576) by (nonlinear_arith);
    }
//@ >>
//@ end

//@ extract sst/src/lib.rs | fn table_full
//@ external-body
//@ end

// batches larger than one block are rejected
//@ extract sst/src/log.rs | fn check_batch_size
//@ ret r
//@ post <<
        r is Ok <==> size <= 1048576,
//@ >>
//@ end

} // verus!
fn main() {}
