//! C03 replay: runs a witness found for a failed range-scan composition obligation against the REAL
//! store.  Copied to lsmtk/tests/c03_replay.rs of a scratch copy of the repository by the check; the
//! witness file (path in $C03_WITNESS) is line-oriented:
//!   bounds <U|I|E> <hexkey|-> <U|I|E> <hexkey|->
//!   file                      starts a new SST (ingested in this order, all land in level 0)
//!   e <hexkey> <ts> <hexval|->    an entry of the current file ('-' = tombstone)
//!   expect <hexkey> <hexval>  one line per entry the scan must return, in ascending key order
//! The test builds the files with SstBuilder, ingests them into a fresh LsmTree, walks
//! LsmTree::range_scan forward and backward and compares with `expect`; it also checks that every
//! point read agrees with the expectation when the bounds are unbounded.

use std::ops::Bound;
use std::path::PathBuf;

use arrrg::CommandLine;
use lsmtk::{LsmTree, LsmtkOptions};
use sst::{Builder, Cursor, SstBuilder, SstOptions};

fn unhex(s: &str) -> Vec<u8> {
    if s == "-" || s == "." {
        return vec![];
    }
    (0..s.len() / 2).map(|i| u8::from_str_radix(&s[2 * i..2 * i + 2], 16).unwrap()).collect()
}

fn bound(kind: &str, key: &str) -> Bound<Vec<u8>> {
    match kind {
        "I" => Bound::Included(unhex(key)),
        "E" => Bound::Excluded(unhex(key)),
        _ => Bound::Unbounded,
    }
}

fn fresh_dir(name: &str) -> PathBuf {
    let dir = std::env::temp_dir().join(format!("{}_{}", name, std::process::id()));
    if dir.exists() {
        std::fs::remove_dir_all(&dir).unwrap();
    }
    dir
}

type Kv = (Vec<u8>, Vec<u8>);

fn current(c: &dyn Cursor) -> Option<Kv> {
    match (c.key(), c.value()) {
        (Some(k), Some(v)) => Some((k.key.to_vec(), v.to_vec())),
        (Some(k), None) => Some((k.key.to_vec(), b"<TOMBSTONE>".to_vec())),
        _ => None,
    }
}

#[test]
fn replay() {
    let path = std::env::var("C03_WITNESS").expect("C03_WITNESS not set");
    let text = std::fs::read_to_string(path).unwrap();
    let mut files: Vec<Vec<(Vec<u8>, u64, Option<Vec<u8>>)>> = vec![];
    let mut expect: Vec<Kv> = vec![];
    let mut lo = Bound::Unbounded;
    let mut hi = Bound::Unbounded;
    for line in text.lines() {
        let f: Vec<&str> = line.split_whitespace().collect();
        match f.first().copied() {
            Some("bounds") => {
                lo = bound(f[1], f[2]);
                hi = bound(f[3], f[4]);
            }
            Some("file") => files.push(vec![]),
            Some("e") => {
                let val = if f[3] == "-" { None } else { Some(unhex(f[3])) };
                files.last_mut().unwrap().push((unhex(f[1]), f[2].parse().unwrap(), val));
            }
            Some("expect") => expect.push((unhex(f[1]), unhex(f[2]))),
            _ => {}
        }
    }
    let root = fresh_dir("c03_replay_db");
    let scratch = fresh_dir("c03_replay_ssts");
    std::fs::create_dir_all(&scratch).unwrap();
    let dbpath = root.to_string_lossy().to_string();
    let (options, _) = LsmtkOptions::from_arguments_relaxed("", &["--path", &dbpath]);
    let tree = LsmTree::open(options).unwrap();
    for (idx, file) in files.iter().enumerate() {
        if file.is_empty() {
            continue;
        }
        let p = scratch.join(format!("{idx}.sst"));
        let mut b = SstBuilder::new(SstOptions::default(), &p).unwrap();
        let mut sorted = file.clone();
        sorted.sort_by(|a, b| a.0.cmp(&b.0).then(b.1.cmp(&a.1)));
        for (k, ts, v) in sorted.iter() {
            match v {
                Some(v) => b.put(k, *ts, v).unwrap(),
                None => b.del(k, *ts).unwrap(),
            }
        }
        b.seal().unwrap();
        tree.ingest(&p).unwrap();
    }
    let mut c = tree.range_scan(&lo, &hi).unwrap();
    let mut fwd = vec![];
    c.seek_to_first().unwrap();
    loop {
        c.next().unwrap();
        match current(&c) {
            Some(kv) => fwd.push(kv),
            None => break,
        }
        assert!(fwd.len() < 1000);
    }
    let mut bwd = vec![];
    c.seek_to_last().unwrap();
    loop {
        c.prev().unwrap();
        match current(&c) {
            Some(kv) => bwd.push(kv),
            None => break,
        }
        assert!(bwd.len() < 1000);
    }
    bwd.reverse();
    let mut reads_ok = true;
    if matches!(lo, Bound::Unbounded) && matches!(hi, Bound::Unbounded) {
        let mut keys: Vec<Vec<u8>> = files.iter().flatten().map(|e| e.0.clone()).collect();
        keys.sort();
        keys.dedup();
        for k in keys {
            let want = expect.iter().find(|kv| kv.0 == k).map(|kv| kv.1.clone());
            let got = tree.get(&k).unwrap();
            if got != want {
                println!("C03-REPLAY point read of {:?}: got {:?}, the latest write says {:?}", k, got, want);
                reads_ok = false;
            }
        }
    }
    let _ = std::fs::remove_dir_all(&scratch);
    let _ = std::fs::remove_dir_all(&root);
    println!("C03-REPLAY expected {:?}", expect);
    println!("C03-REPLAY forward  {:?}", fwd);
    println!("C03-REPLAY backward {:?}", bwd);
    assert!(reads_ok, "point reads disagree with the latest write");
    assert_eq!(expect, fwd, "forward range scan differs from the live keys in range");
    assert_eq!(expect, bwd, "backward range scan differs from the live keys in range");
}
