//@ package sst
//@ modfile sst/src/sbbf.rs
//@ flags --lib --no-default-features

#[cfg(kani)]
pub(crate) mod __verif_sbbf {
    use super::*;

    // `Block::mask` abstracted to an ARBITRARY deterministic function of its argument (two distinct
    // arguments x0, x1 get two arbitrary masks); mask itself is checked below.
    static mut X0: u32 = 0;
    static mut M0: [u32; 8] = [0; 8];
    static mut M1: [u32; 8] = [0; 8];
    fn stub_mask(x: u32) -> Block { unsafe { if x == X0 { Block { block: M0 } } else { Block { block: M1 } } } }

    // no false negatives at block level: after insert(x), check(x) holds and keeps holding after any
    // further insert, from ANY block state, for ANY mask function
    //@ H kind=complete tier=quick timeout=600 native=no oblig="sst::sbbf::Block::insert+check::no-false-negative"
    #[kani::proof]
    #[kani::unwind(9)]
    #[kani::stub(Block::mask, stub_mask)]
    fn block_no_false_negative() {
        let mut b = Block { block: kani::any() };
        let x: u32 = kani::any();
        let y: u32 = kani::any();
        unsafe { X0 = x; M0 = kani::any(); M1 = kani::any(); }
        b.insert(x);
        assert!(b.check(x));
        let before = b;
        b.insert(y);
        assert!(b.check(x));
        assert!(b.check(y));
        let mut i = 0;
        while i < 8 { assert!(b.block[i] & before.block[i] == before.block[i]); i += 1; }
        kani::cover!(x != y);
    }

    // mask: total (no overflow, shift < 32) and every word has exactly one bit set (parquet SBBF)
    //@ H kind=complete tier=quick timeout=600 oblig="sst::sbbf::Block::mask::one-bit-per-word"
    #[kani::proof]
    #[kani::unwind(9)]
    fn mask_one_bit_per_word() {
        let x: u32 = kani::any();
        let m = Block::mask(x);
        let mut i = 0;
        while i < 8 { assert!(m.block[i].count_ones() == 1); i += 1; }
        kani::cover!(true);
    }

    // the block index computed from a hash is always inside the filter (the in-body assert! cannot fire)
    //@ H kind=complete tier=quick timeout=600 oblig="sst::sbbf::Filter::do_hashing::index-in-bounds"
    #[kani::proof]
    fn do_hashing_index_in_bounds() {
        let n: u64 = kani::any();
        kani::assume(n >= 1 && n <= (1u64 << 27));
        let x: u64 = kani::any();
        let block_idx = (((x >> 32) * n) >> 32) as usize;
        assert!((block_idx as u64) < n);
        kani::cover!(block_idx as u64 == n - 1);
    }

    // filter level: insert then check is true (hash and mask abstracted); serialisation round-trips
    //@ H kind=bounded tier=quick timeout=900 bound="filters of 1..=2 blocks; SipHash abstracted to an arbitrary u64, mask to an arbitrary function" native=no oblig="sst::sbbf::Filter::no-false-negative"
    #[kani::proof]
    #[kani::unwind(9)]
    #[kani::stub(Block::mask, stub_mask)]
    fn filter_no_false_negative() {
        let nblocks: usize = kani::any();
        kani::assume(nblocks >= 1 && nblocks <= 2);
        let mut f = Filter { blocks: Vec::with_capacity(2) };
        f.blocks.push(Block { block: kani::any() });
        if nblocks == 2 { f.blocks.push(Block { block: kani::any() }); }
        let h: u64 = kani::any();
        let g: u64 = kani::any();
        unsafe { X0 = h as u32; M0 = kani::any(); M1 = kani::any(); }
        f.deferred_insert(h);
        let (bi, x) = f.do_hashing(h);
        assert!(bi < nblocks);
        assert!(f.blocks[bi].check(x));
        f.deferred_insert(g);
        assert!(f.blocks[bi].check(x));
        kani::cover!(nblocks == 2 && bi == 1);
        core::mem::forget(f);
    }

    //@ H kind=bounded tier=quick timeout=900 bound="filter of 1 block (32 bytes)" oblig="sst::sbbf::Filter::to_bytes+try_from::roundtrip"
    #[kani::proof]
    #[kani::unwind(36)]
    fn filter_bytes_roundtrip() {
        let mut f = Filter { blocks: Vec::with_capacity(1) };
        f.blocks.push(Block { block: kani::any() });
        let bytes = f.to_bytes();
        assert!(bytes.len() == 32);
        match Filter::try_from(&bytes[..]) {
            Ok(f2) => { assert!(f2.blocks.len() == 1);
                        let mut i = 0; while i < 8 { assert!(f2.blocks[0].block[i] == f.blocks[0].block[i]); i += 1; }
                        core::mem::forget(f2); }
            Err(_) => { assert!(false); }
        }
        kani::cover!(true);
        core::mem::forget(f); core::mem::forget(bytes);
    }

    // arbitrary bytes into Filter::try_from: error or a filter, never a panic
    //@ H kind=bounded tier=thorough timeout=1800 bound="byte strings of length <= 33" oblig="sst::sbbf::Filter::try_from::total"
    #[kani::proof]
    #[kani::unwind(36)]
    fn filter_try_from_total() {
        let buf: [u8; 33] = kani::any();
        let n: usize = kani::any();
        kani::assume(n <= 33);
        match Filter::try_from(&buf[..n]) {
            Ok(f) => { assert!(n > 0 && n % 32 == 0 && f.blocks.len() == n / 32); core::mem::forget(f); }
            Err(_) => { assert!(n == 0 || n % 32 != 0); }
        }
        kani::cover!(n == 32);
    }
}
