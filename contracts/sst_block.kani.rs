//@ package sst
//@ modfile sst/src/block.rs
//@ flags --lib --no-default-features

#[cfg(kani)]
pub(crate) mod __verif_block {
    use super::*;

    fn mk() -> SError { SError::from(handled::SExpr::Atom(String::new())) }
    fn stub_2usize(_a: usize, _b: usize) -> SError { mk() }
    fn stub_bt(_e: buffertk::SError) -> SError { mk() }

    // Block::new on ANY byte string: an error or a block whose footer offsets lie inside the bytes --
    // never an arithmetic underflow or a later out-of-bounds restart table.
    //@ H kind=bounded tier=quick timeout=900 bound="byte strings of length <= 12 (the footer arithmetic does not depend on the body)" oblig="sst::Block::new::total"
    #[kani::proof]
    #[kani::unwind(14)]
    #[kani::stub(crate::block_too_small, stub_2usize)]
    #[kani::stub(crate::unpack_block_restarts, stub_bt)]
    #[kani::stub(buffertk::buffer_too_short, stub_2usize)]
    fn block_new_total() {
        let buf: [u8; 12] = kani::any();
        let n: usize = kani::any();
        kani::assume(n <= 12);
        let mut v: Vec<u8> = Vec::with_capacity(12);
        let mut i = 0; while i < 12 { if i < n { v.push(buf[i]); } i += 1; }
        match Block::new(v) {
            Ok(b) => {
                assert!(b.restarts_boundary <= b.restarts_idx);
                assert!(b.restarts_idx + 4 * b.num_restarts + 5 == n);
                core::mem::forget(b);
            }
            Err(e) => { core::mem::forget(e); }
        }
        kani::cover!(n == 12);
    }
}
