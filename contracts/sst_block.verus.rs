// Unit sst_block (C10, and the base case of C11): BlockCursor, the cursor over the bytes of one data block, against
// the Cursor contract -- blocks of EVERY size, any number of restart points, any restart interval.
//   The block is a chain of prefix-compressed entries followed by a table of restart offsets.  What one entry
//   decodes to (derive-generated KeyValueEntry::unpack) is an uninterpreted function entry_at(bytes, offset); the
//   table of entries, their keys (prefix of the previous key + fragment, restarting from the empty key at every
//   restart point) and the well-formedness of a block (chain reaches the boundary exactly, restart points are
//   entry offsets in increasing order starting at 0, entries strictly sorted) are DEFINED from it.
//   Proved: restart_point (little-endian u32 load, in bounds), seek_restart, next, prev (incl. the reverse cache),
//   seek (binary search over the restart points + forward scan), key, value, seek_to_first/last.
use vstd::prelude::*;
use std::cmp::Ordering;
verus! {
global size_of usize == 8;

//@ include cursor_spec.inc.rs

pub assume_specification<T: Default> [core::mem::take::<T>] (dest: &mut T) -> (r: T)
    ensures r == *old(dest);

//@ include block_spec.inc.rs

// ---------------------------------------------------------------- the cursor
//@ extract sst/src/block.rs | enum CursorPosition
//@ end
//@ extract sst/src/block.rs | struct RestartCache
//@ end
//@ extract sst/src/block.rs | struct BlockCursor
//@ end

//@ extract sst/src/lib.rs | fn logic_error_restart_idx_exceeds_num_restarts
//@ external-body
//@ end
//@ extract sst/src/lib.rs | fn corruption_offset_exceeds_restarts_boundary
//@ external-body
//@ end
//@ extract sst/src/lib.rs | fn logic_error_next_not_positioned
//@ external-body
//@ end
//@ extract sst/src/lib.rs | fn corruption_block_with_zero_restarts
//@ external-body
//@ end
//@ extract sst/src/lib.rs | fn corruption_restart_point_no_key_value_pair
//@ external-body
//@ end
//@ extract sst/src/lib.rs | fn corruption_binary_search_left_ne_right
//@ external-body
//@ end
//@ extract sst/src/lib.rs | fn logic_error_tried_taking_negative_restart_idx
//@ external-body
//@ end

// `value.map(|(offset, len)| &bytes[offset..offset + len])`
fn value_slice(bytes: &Vec<u8>, value: Option<(usize, usize)>) -> (r: Option<&[u8]>)
    requires value is Some ==> value->Some_0.0 + value->Some_0.1 <= bytes@.len(),
    ensures match value { Some(v) => r is Some && r->Some_0@ == bytes@.subrange(v.0 as int, v.0 + v.1), None => r is None },
{
    let n = bytes.len();
    match value {
        Some(v) => Some(vstd::slice::slice_subrange(bytes.as_slice(), v.0, v.0 + v.1)),
        None => None,
    }
}
spec fn val_is(v: Option<(usize, usize)>, e: Option<(int, int)>) -> bool {
    match (v, e) { (Some(a), Some(b)) => a.0 == b.0 && a.1 == b.1, (None, None) => true, _ => false }
}

impl Block {
//@ extract sst/src/block.rs | impl Block :: fn restart_point
//@ ret r
//@ pre <<
        self.layout(), restart_idx < self.num_restarts,
//@ >>
//@ post <<
        r as int == self.rp(restart_idx as int),
//@ >>
//@ rewrite X7 `u32::from_le_bytes(restart) as usize` => `u32_from_le_bytes(restart) as usize`
//@ rewrite X7 `let mut restart: [u8; 4] = <[u8; 4]>::default();` => `let mut restart: [u8; 4] = [0u8; 4];`
//@ loop 0 <<
            invariant
                self.layout(), restart_idx < self.num_restarts, bytes@ == self.bytes@,
                forall|k: int| 0 <= k < i ==> restart@[k] == self.bytes@[self.restarts_idx + restart_idx * 4 + k],
//@ >>
//@ end
}

impl CursorPosition {
//@ extract sst/src/block.rs | impl CursorPosition :: fn is_positioned
//@ ret r
//@ post <<
        r == (self is Positioned),
//@ >>
//@ end
}

// the position record p describes the j-th entry of block b
spec fn pos_is(b: Block, p: CursorPosition, j: int) -> bool {
    &&& p is Positioned && 0 <= j < b.n()
    &&& p->offset == b.off_at(j) && p->next_offset == b.off_at(j + 1)
    &&& p->key@ == b.key_j(j) && p->timestamp == b.ev(j).ts && val_is(p->value, b.ev(j).val)
    &&& p->restart_idx < b.num_restarts && b.rp(p->restart_idx as int) <= b.off_at(j)
    &&& p->restart_idx + 1 < b.num_restarts ==> b.off_at(j) < b.rp(p->restart_idx + 1)
}
// entry index where restart interval r ends (exclusive)
spec fn interval_end(b: Block, r: int) -> int { if r + 1 < b.num_restarts { b.idx_of(b.rp(r + 1)) } else { b.n() } }
// the reverse cache holds exactly the position records of one restart interval, in order
spec fn cache_is_ok(b: Block, c: Option<RestartCache>) -> bool {
    c is Some ==> {
        let r = c->Some_0.restart_idx as int; let first = b.idx_of(b.rp(r));
        &&& r < b.num_restarts
        &&& c->Some_0.positions@.len() == interval_end(b, r) - first
        &&& forall|i: int| 0 <= i < c->Some_0.positions@.len() ==> pos_is(b, #[trigger] c->Some_0.positions@[i], first + i)
    }
}

// `self.reverse_cache.as_ref().is_some_and(|cache| cache.restart_idx == restart_idx)`
#[verifier::external_body]
fn cache_is(cache: &Option<RestartCache>, restart_idx: usize) -> (r: bool)
    ensures r == (cache is Some && cache->Some_0.restart_idx == restart_idx),
{ unimplemented!() }
// ASSUMED (std iterators): `cache.as_ref().and_then(|c| c.positions.iter().rev().find(pred))` with
// pred = "is Positioned with next_offset == target" returns the LAST cached position satisfying pred, if any
#[verifier::external_body]
fn find_cached(cache: &Option<RestartCache>, target: usize) -> (r: Option<&CursorPosition>)
    ensures
        r is Some ==> cache is Some && exists|i: int| 0 <= i < cache->Some_0.positions@.len() && *r->Some_0 == #[trigger] cache->Some_0.positions@[i]
            && r->Some_0 is Positioned && r->Some_0->next_offset == target,
        r is None ==> cache is None || forall|i: int| 0 <= i < cache->Some_0.positions@.len() ==>
            !((#[trigger] cache->Some_0.positions@[i]) is Positioned && cache->Some_0.positions@[i]->next_offset == target),
{ unimplemented!() }
// `position.clone()` (derive(Clone))
#[verifier::external_body]
fn clone_position(p: &CursorPosition) -> (r: CursorPosition)
    ensures r == *p
{ unimplemented!() }
// `position_key.clone()`
#[verifier::external_body]
fn clone_key(k: &Vec<u8>) -> (r: Vec<u8>)
    ensures r@ == k@
{ unimplemented!() }

// the entries of one restart interval: walking from its restart point with the key chain
proof fn lemma_interval_step(b: Block, r: int, first: int, m: int)
    requires b.wf(), b.n() >= 1, 0 <= r < b.num_restarts, first == b.idx_of(b.rp(r)), 0 <= m, first + m < b.n(),
        r + 1 < b.num_restarts ==> b.off_at(first + m) < b.rp(r + 1),
    ensures
        b.rp(r) <= b.off_at(first + m),
        entry_at(b.bytes@, b.off_at(first + m), b.bnd()) is Some,
        b.off_at(first + m + 1) == b.ev(first + m).next,
        b.key_j(first + m) == trunc(if m == 0 { Seq::<u8>::empty() } else { b.key_j(first + m - 1) }, b.ev(first + m).shared) + b.ev(first + m).frag,
        first + m < interval_end(b, r),
{
    assert(b.is_off(b.rp(r)));
    if m > 0 {
        lemma_off_mono(b, first, first + m);
        if m > 1 { lemma_off_mono(b, first, first + m - 1); }
        lemma_step_same(b, first + m - 1, r);
        lemma_off_mono(b, first + m - 1, first + m);
    } else {
        assert(b.is_rp(b.off_at(first)));
    }
    if r + 1 < b.num_restarts {
        assert(b.is_off(b.rp(r + 1)));
        let e = b.idx_of(b.rp(r + 1));
        if e <= first + m { if e < first + m { lemma_off_mono(b, e, first + m); } }
    }
}
// the interval ends where the walk reaches the limit offset
proof fn lemma_interval_done(b: Block, r: int, first: int, m: int)
    requires b.wf(), b.n() >= 1, 0 <= r < b.num_restarts, first == b.idx_of(b.rp(r)), 0 <= m, first + m <= b.n(),
        m > 0 ==> first + m - 1 < interval_end(b, r),
        b.off_at(first + m) >= (if r + 1 < b.num_restarts { b.rp(r + 1) } else { b.bnd() }),
    ensures first + m == interval_end(b, r)
{
    assert(b.is_off(b.rp(r)));
    if r + 1 < b.num_restarts {
        assert(b.is_off(b.rp(r + 1)));
        let e = b.idx_of(b.rp(r + 1));
        lemma_rp_mono(b, r, r + 1);
        if first + m < e { lemma_off_mono(b, first + m, e); }
        if m == 0 { if e < first { lemma_off_mono(b, e, first); } }
    } else {
        if first + m < b.n() { assert(b.off_at(first + m) < b.bnd()); }
    }
}

// the restart interval prev() picks contains the entry before entry j (j == n for the end position)
proof fn lemma_prev_interval(b: Block, j: int, cur_ri: int, chosen: int)
    requires b.wf(), 0 < j <= b.n(), b.off_at(j) != 0,
        j == b.n() ==> cur_ri == b.num_restarts,
        j < b.n() ==> 0 <= cur_ri < b.num_restarts && b.rp(cur_ri) <= b.off_at(j) && (cur_ri + 1 < b.num_restarts ==> b.off_at(j) < b.rp(cur_ri + 1)),
        chosen == (if cur_ri >= b.num_restarts || b.off_at(j) <= b.rp(cur_ri) { cur_ri - 1 } else { cur_ri }),
    ensures 0 <= chosen < b.num_restarts, b.idx_of(b.rp(chosen)) <= j - 1 < interval_end(b, chosen)
{
    if j == b.n() {
        assert(b.is_off(b.rp(chosen)));
    } else if b.off_at(j) <= b.rp(cur_ri) {
        // entry j opens interval cur_ri; cur_ri > 0 because interval 0 opens at offset 0
        if cur_ri == 0 { assert(b.rp(0) == 0); }
        assert(b.is_off(b.rp(cur_ri))); assert(b.is_off(b.rp(chosen)));
        lemma_off_inj(b, b.idx_of(b.rp(cur_ri)), j);
        lemma_rp_mono(b, chosen, cur_ri);
        let f = b.idx_of(b.rp(chosen));
        if f >= j { if f > j { lemma_off_mono(b, j, f); } }
    } else {
        assert(b.is_off(b.rp(chosen)));
        let f = b.idx_of(b.rp(chosen));
        if f >= j { if f > j { lemma_off_mono(b, j, f); } }
        if chosen + 1 < b.num_restarts {
            assert(b.is_off(b.rp(chosen + 1)));
            let e = b.idx_of(b.rp(chosen + 1));
            if e <= j { if e < j { lemma_off_mono(b, e, j); } }
        }
    }
}

impl BlockCursor {
    spec fn b(&self) -> Block { self.block }
    // the position is the j-th entry of the block
    #[verifier::opaque]
    spec fn at(&self, j: int) -> bool { pos_is(self.block, self.position, j) }
    spec fn cache_ok(&self) -> bool { cache_is_ok(self.block, self.reverse_cache) }
    // whatever the position holds, its value range lies inside the block (so value() cannot slice out of bounds)
    spec fn pos_safe(&self) -> bool {
        self.position is Positioned && self.position->value is Some ==> self.position->value->Some_0.0 + self.position->value->Some_0.1 <= self.block.bytes@.len()
    }
    spec fn rep(&self) -> bool {
        &&& self.block.wf() && self.cache_ok() && self.pos_safe()
        &&& self.position is Positioned ==> exists|j: int| self.at(j)
    }
    spec fn idx(&self) -> int {
        match self.position { CursorPosition::First => -1, CursorPosition::Last => self.block.n(), CursorPosition::Positioned { offset, .. } => self.block.idx_of(offset as int) }
    }
    proof fn lemma_at(&self, j: int)
        requires self.block.wf(), self.at(j)
        ensures self.idx() == j, self.at_open(j)
    { reveal(BlockCursor::at); lemma_idx_of(self.block, j); }
    // after seek_restart(r) the position's key is the first key of interval r
    proof fn lemma_probe(&self, r: int)
        requires self.block.wf(), self.at(self.block.idx_of(self.block.rp(r)))
        ensures self.position is Positioned, self.position->key@ == self.block.fk(r)
    { reveal(BlockCursor::at); reveal(Block::fk); }
    proof fn lemma_at_intro(&self, j: int)
        requires self.at_open(j)
        ensures self.at(j)
    { reveal(BlockCursor::at); }
    spec fn at_open(&self, j: int) -> bool { pos_is(self.block, self.position, j) }

//@ extract sst/src/block.rs | impl BlockCursor :: fn new
//@ ret r
//@ pre <<
        block.wf(),
//@ >>
//@ post <<
        r.wf(), r.ents() == block.ents(), r.pos() == -1,
//@ >>
//@ end
//@ extract sst/src/block.rs | impl BlockCursor :: fn offset
//@ ret r
//@ post <<
        r == (match self.position { CursorPosition::First => 0usize, CursorPosition::Last => self.block.restarts_boundary, CursorPosition::Positioned { offset, .. } => offset }),
//@ >>
//@ end
//@ extract sst/src/block.rs | impl BlockCursor :: fn next_offset
//@ ret r
//@ post <<
        r == (match self.position { CursorPosition::First => 0usize, CursorPosition::Last => self.block.restarts_boundary, CursorPosition::Positioned { next_offset, .. } => next_offset }),
//@ >>
//@ end
//@ extract sst/src/block.rs | impl BlockCursor :: fn restart_idx
//@ ret r
//@ post <<
        r == (match self.position { CursorPosition::First => 0usize, CursorPosition::Last => self.block.num_restarts, CursorPosition::Positioned { restart_idx, .. } => restart_idx }),
//@ >>
//@ end

    // ASSUMED: decoding one entry (derive-generated KeyValueEntry::unpack through buffertk::Unpacker, the value's
    // position recovered by pointer arithmetic) yields what entry_at says, appended to the first `shared` bytes of
    // the key passed in
//@ extract sst/src/block.rs | impl BlockCursor :: fn extract_key
//@ ret r
//@ pre <<
        block.layout(),
//@ >>
//@ post <<
        offset >= block.restarts_boundary ==> r is Ok && r->Ok_0 is Last,
        offset < block.restarts_boundary ==> (r is Ok) == (entry_at(block.bytes@, offset as int, block.bnd()) is Some),
        offset < block.restarts_boundary && r is Ok ==> ({
            let e = entry_at(block.bytes@, offset as int, block.bnd())->Some_0; let p = r->Ok_0;
            &&& p is Positioned && p->restart_idx == restart_idx && p->offset == offset && p->next_offset == e.next
            &&& p->key@ == trunc(key@, e.shared) + e.frag && p->timestamp == e.ts && val_is(p->value, e.val)
        }),
//@ >>
//@ external-body
//@ end

//@ extract sst/src/block.rs | impl BlockCursor :: fn key_ref
//@ ret r
//@ post <<
        r is Ok, match self.position { CursorPosition::Positioned { key, timestamp, .. } => r->Ok_0 is Some && r->Ok_0->Some_0.key@ == key@ && r->Ok_0->Some_0.timestamp == timestamp, _ => r->Ok_0 is None },
//@ >>
//@ end

//@ extract sst/src/block.rs | impl BlockCursor :: fn cache_restart
//@ ret r
//@ rewrite-re X12 `self\s*\.reverse_cache\s*\.as_ref\(\)\s*\.is_some_and\(\|cache\| cache\.restart_idx == restart_idx\)` => `cache_is(&self.reverse_cache, restart_idx)`
//@ rewrite X12 `key = position_key.clone();` => `key = clone_key(position_key);`
//@ pre <<
        old(self).block.wf(), old(self).block.n() >= 1, old(self).cache_ok(), restart_idx < old(self).block.num_restarts,
//@ >>
//@ post <<
        final(self).block == old(self).block, final(self).position == old(self).position,
        r is Ok ==> final(self).cache_ok() && final(self).reverse_cache is Some && final(self).reverse_cache->Some_0.restart_idx == restart_idx,
//@ >>
//@ bodystart <<
        let ghost b = self.block;
        let ghost ri = restart_idx as int;
        let ghost first = b.idx_of(b.rp(ri));
        proof { assert(b.is_off(b.rp(ri))); if ri + 1 < b.num_restarts { assert(b.is_off(b.rp(ri + 1))); lemma_rp_mono(b, ri, ri + 1); } }
//@ >>
//@ before? `let mut key = Vec::new();` <<
        proof { if ri + 1 < b.num_restarts { let e = b.idx_of(b.rp(ri + 1)); assert(b.off_at(e) < b.bnd()); } }
//@ >>
//@ loop 0 <<
            invariant
                self.block == b, b.wf(), ri == restart_idx, 0 <= ri < b.num_restarts, first == b.idx_of(b.rp(ri)),
                limit == (if ri + 1 < b.num_restarts { b.rp(ri + 1) } else { b.bnd() }),
                first + positions@.len() <= b.n(),
                offset == b.off_at(first + positions@.len()),
                key@ == (if positions@.len() == 0 { Seq::<u8>::empty() } else { b.key_j(first + positions@.len() - 1) }),
                forall|i: int| 0 <= i < positions@.len() ==> pos_is(b, #[trigger] positions@[i], first + i),
                positions@.len() > 0 ==> first + positions@.len() - 1 < interval_end(b, ri),
                limit <= b.bnd(),
            ensures
                offset >= limit,
            decreases b.n() - first - positions@.len(),
//@ >>
//@ before `let position = BlockCursor::extract_key(&self.block, restart_idx, offset, key)?;` <<
            let ghost m = positions@.len() as int;
            proof {
                if first + m >= b.n() { assert(b.off_at(b.n()) == b.bnd()); if ri + 1 < b.num_restarts { assert(b.rp(ri + 1) < b.bnd()) by { assert(b.is_off(b.rp(ri + 1))); } } }
                lemma_interval_step(b, ri, first, m);
                axiom_entry(b.bytes@, b.off_at(first + m), b.bnd());
            }
//@ >>
//@ before? `positions.push(position);` <<
                    proof { assert(pos_is(b, position, first + m)); }
//@ >>
//@ before? `self.reverse_cache = Some(RestartCache {` <<
        proof { lemma_interval_done(b, ri, first, positions@.len() as int); }
//@ >>
//@ end

    // position at the first entry of restart interval `restart_idx`
//@ extract sst/src/block.rs | impl BlockCursor :: fn seek_restart
//@ ret r
//@ pre <<
        old(self).block.wf(), old(self).block.n() >= 1, old(self).cache_ok(),
//@ >>
//@ post <<
        final(self).block == old(self).block, final(self).reverse_cache == old(self).reverse_cache,
        r is Ok ==> restart_idx < old(self).block.num_restarts && final(self).rep()
            && final(self).at(old(self).block.idx_of(old(self).block.rp(restart_idx as int)))
            && final(self).position->restart_idx == restart_idx && final(self).position->offset == old(self).block.rp(restart_idx as int)
            && r->Ok_0 is Some && r->Ok_0->Some_0.key@ == final(self).position->key@ && r->Ok_0->Some_0.timestamp == final(self).position->timestamp,
        restart_idx < old(self).block.num_restarts ==> r is Ok,
//@ >>
//@ before `let prev_key = match self.position {` <<
        let ghost b = self.block;
        proof { assert(b.is_off(b.rp(restart_idx as int))); }
        let ghost j = b.idx_of(b.rp(restart_idx as int));
        proof {
            assert(b.off_at(j) == offset);
            assert(entry_at(b.bytes@, b.off_at(j), b.bnd()) is Some);
        }
//@ >>
//@ after? `self.position = BlockCursor::extract_key(&self.block, restart_idx, offset, prev_key)?;` <<
        proof {
            assert(prev_key@ =~= Seq::<u8>::empty());
            assert(b.is_rp(b.off_at(j)));
            assert(b.key_j(j) == trunc(Seq::<u8>::empty(), b.ev(j).shared) + b.ev(j).frag);
            assert(b.off_at(j + 1) == b.ev(j).next);
            axiom_entry(b.bytes@, b.off_at(j), b.bnd());
            self.lemma_at_intro(j);
        }
//@ >>
//@ end
}

fn bytes_cmp3(a: &[u8], b: &[u8]) -> (r: Ordering)
    ensures r == Ordering::Less <==> lex_lt(a@, b@), r == Ordering::Equal <==> a@ == b@, r == Ordering::Greater <==> lex_lt(b@, a@),
{
    proof { lemma_lex_order_total(); }
    if bytes_lt(a, b) { Ordering::Less } else if bytes_eq(a, b) { Ordering::Equal } else { Ordering::Greater }
}
// `(x).div_ceil(2)`
fn div_ceil2(x: usize) -> (r: usize)
    ensures r as int == (x as int + 1) / 2
{ x / 2 + x % 2 }

impl Block {
    // the first key of restart interval r
    #[verifier::opaque]
    spec fn fk(&self, r: int) -> Seq<u8> { self.key_j(self.idx_of(self.rp(r))) }
}
// keys do not decrease along the block
proof fn lemma_keys_mono(b: Block, i: int, j: int)
    requires b.wf(), 0 <= i <= j < b.n()
    ensures lex_le(b.key_j(i), b.key_j(j))
{
    reveal(Block::sorted_ok);
    lemma_ents_index(b, i); lemma_ents_index(b, j);
    lemma_sorted_keys(b.ents(), i, j);
}
// restart intervals start at increasing entries, so first keys do not decrease
proof fn lemma_fk_mono(b: Block, r1: int, r2: int)
    requires b.wf(), b.n() >= 1, 0 <= r1 <= r2 < b.num_restarts
    ensures lex_le(b.fk(r1), b.fk(r2)), b.idx_of(b.rp(r1)) <= b.idx_of(b.rp(r2))
{
    reveal(Block::fk);
    assert(b.is_off(b.rp(r1))); assert(b.is_off(b.rp(r2)));
    let j1 = b.idx_of(b.rp(r1)); let j2 = b.idx_of(b.rp(r2));
    if r1 < r2 { lemma_rp_mono(b, r1, r2); if j2 < j1 { lemma_off_mono(b, j2, j1); } }
    lemma_keys_mono(b, j1, j2);
}
// once the first key of interval m is >= k, so is the first key of every later interval
proof fn lemma_fk_above(b: Block, m: int, k: Seq<u8>)
    requires b.wf(), b.n() >= 1, 0 <= m < b.num_restarts, lex_le(k, b.fk(m))
    ensures forall|r: int| m <= r < b.num_restarts ==> lex_le(k, #[trigger] b.fk(r))
{
    assert forall|r: int| m <= r < b.num_restarts implies lex_le(k, #[trigger] b.fk(r)) by {
        lemma_fk_mono(b, m, r);
        lemma_lex_trans(k, b.fk(m), b.fk(r));
    }
}

// every entry before the first entry of interval r has a key not above that interval's first key
proof fn lemma_before_interval(b: Block, r: int, k: Seq<u8>)
    requires b.wf(), 0 < r < b.num_restarts, lex_lt(b.fk(r), k)
    ensures forall|i: int| 0 <= i < b.idx_of(b.rp(r)) ==> lex_lt(#[trigger] b.key_j(i), k)
{
    reveal(Block::fk);
    assert(b.is_off(b.rp(r)));
    let jr = b.idx_of(b.rp(r));
    assert forall|i: int| 0 <= i < jr implies lex_lt(#[trigger] b.key_j(i), k) by {
        lemma_keys_mono(b, i, jr);
        lemma_lex_trans(b.key_j(i), b.fk(r), k);
        if b.key_j(i) == k { lemma_lex_antisym(b.fk(r), k); }
    }
}

impl Cursor for BlockCursor {
    spec fn ents(&self) -> Seq<Ent> { self.block.ents() }
    spec fn pos(&self) -> int { self.idx() }
    spec fn wf_base(&self) -> bool { self.block.wf() && self.cache_ok() && self.pos_safe() }
    spec fn wf(&self) -> bool { self.rep() }
    spec fn key_spec(&self) -> Option<(Seq<u8>, u64)> {
        match self.position { CursorPosition::Positioned { key, timestamp, .. } => Some((key@, timestamp)), _ => None }
    }
    spec fn val_spec(&self) -> Option<Seq<u8>> {
        match self.position { CursorPosition::Positioned { value, .. } => match value { Some(v) => Some(self.block.bytes@.subrange(v.0 as int, v.0 + v.1)), None => None }, _ => None }
    }
    proof fn lemma_cursor_laws(&self) {
        if self.block.wf() { reveal(Block::sorted_ok); }
        if self.rep() {
            if self.position is Positioned {
                let j = choose|j: int| self.at(j);
                self.lemma_at(j);
                lemma_ents_index(self.block, j);
            }
        }
    }

//@ extract sst/src/block.rs | impl Cursor for BlockCursor :: fn seek_to_first
//@ end
//@ extract sst/src/block.rs | impl Cursor for BlockCursor :: fn seek_to_last
//@ end
//@ extract sst/src/block.rs | impl Cursor for BlockCursor :: fn seek
//@ rewrite-re X9 `match key\.cmp\(kvp\.key\) \{` => `match bytes_cmp3(key, kvp.key) {`
//@ rewrite-re? X9 `if key > x\.key \{` => `if bytes_lt(x.key, key) {`
//@ rewrite-re? X9 `if key >= x\.key \{` => `if bytes_le(x.key, key) {`
//@ rewrite-re X7 `\(right - left\)\.div_ceil\(2\)` => `div_ceil2(right - left)`
//@ rewrite-re X15 `let kref = match self\.seek_restart\(left\)\? \{\s*Some\(x\) => x,` => `match self.seek_restart(left)? { Some(_) => (),`
//@ rewrite-re X15 `let mut kref = Some\(kref\);` => `let mut kref = self.key_ref()?;`
//@ bodystart <<
        let ghost b = self.block;
        let ghost k = key@;
        let ghost ee = self.block.ents();
        proof { lemma_empty_block(b); }
//@ >>
//@ loop 0 <<
            invariant
                self.block == b, b.wf(), b.n() >= 1, self.cache_ok(), self.pos_safe(), k == key@,
                left <= right < b.num_restarts,
                left == 0 || lex_lt(b.fk(left as int), k),
                forall|r: int| right < r < b.num_restarts ==> lex_le(k, #[trigger] b.fk(r)),
            decreases right - left,
//@ >>
//@ before `match bytes_cmp3(key, kvp.key) {` <<
            let ghost kk = kvp.key@;
//@ >>
//@ after#1? `right = mid - 1;` <<
                    proof {
                        assert(lex_lt(k, kk));
                        self.lemma_probe(mid as int);
                        assert(kk == b.fk(mid as int));
                        assert(lex_le(k, b.fk(mid as int)));
                        lemma_fk_above(b, mid as int, k);
                    }
//@ >>
//@ after#2? `right = mid - 1;` <<
                    proof {
                        assert(k == kk);
                        self.lemma_probe(mid as int);
                        assert(kk == b.fk(mid as int));
                        lemma_lex_refl(k);
                        assert(lex_le(k, b.fk(mid as int)));
                        lemma_fk_above(b, mid as int, k);
                    }
//@ >>
//@ after? `left = mid;` <<
                    proof {
                        assert(lex_lt(kk, k));
                        self.lemma_probe(mid as int);
                        assert(kk == b.fk(mid as int));
                        assert(lex_lt(b.fk(mid as int), k));
                    }
//@ >>
//@ before? `let mut kref = self.key_ref()?;` <<
        proof {
            let jl = b.idx_of(b.rp(left as int));
            self.lemma_at(jl);
            self.lemma_cursor_laws();
            if left > 0 { lemma_before_interval(b, left as int, k); } else { assert(b.off_at(0) == 0); lemma_idx_of(b, 0); }
            assert forall|i: int| 0 <= i < jl implies lex_lt(#[trigger] ee[i].key, k) by { lemma_ents_index(b, i); }
        }
//@ >>
//@ loop 1 <<
            invariant
                self.wf(), self.ents() == ee, 0 <= self.pos() <= ee.len(), k == key@, b.n() >= 1,
                kref is None ==> self.pos() == ee.len(),
                kref is Some ==> self.pos() < ee.len() && kref->Some_0.key@ == ee[self.pos()].key,
                forall|i: int| 0 <= i < self.pos() ==> lex_lt(#[trigger] ee[i].key, k),
            ensures
                self.pos() < ee.len() ==> lex_le(k, ee[self.pos()].key),
            decreases ee.len() - self.pos(),
//@ >>
//@ before? `break;` <<
                proof {
                    assert(x.key@ == ee[self.pos()].key);
                    assert(!lex_lt(x.key@, k));
                    lemma_lex_order_total();
                    assert(lex_le(k, ee[self.pos()].key));
                }
//@ >>
//@ before `self.next()?;` <<
                let ghost p0 = self.pos();
                proof { assert(x.key@ == ee[p0].key); assert(lex_lt(ee[p0].key, k)); }
//@ >>
//@ after#2? `kref = self.key_ref()?;` <<
                proof {
                    assert(self.pos() == p0 + 1);
                    self.lemma_cursor_laws();
                    assert(self.key_spec() == key_at(ee, self.pos()));
                }
//@ >>
//@ before#2? `Ok(())` <<
        proof {
            self.lemma_cursor_laws();
            let p = self.pos();
            assert forall|i: int| p <= i < ee.len() implies lex_le(k, #[trigger] ee[i].key) by {
                lemma_sorted_keys(ee, p, i);
                lemma_lex_trans(k, ee[p].key, ee[i].key);
            }
        }
//@ >>
//@ end

//@ extract sst/src/block.rs | impl Cursor for BlockCursor :: fn prev
//@ rewrite-re X12 `(?s)self\.reverse_cache\.as_ref\(\)\.and_then\(\|cache\| \{.*?\n        \}\) \{` => `find_cached(&self.reverse_cache, target_next_offset) {`
//@ rewrite X12 `self.position = position.clone();` => `self.position = clone_position(position);`
//@ bodystart <<
        let ghost b = self.block;
        let ghost j0 = self.idx();
        proof { if self.position is Positioned { let j = choose|j: int| self.at(j); self.lemma_at(j); } }
//@ >>
//@ before? `if target_next_offset == 0 {` <<
        proof { assert(target_next_offset == b.off_at(j0)); assert(b.off_at(0) == 0); if j0 > 0 { lemma_off_mono(b, 0, j0); } }
//@ >>
//@ before? `self.cache_restart(restart_idx)?;` <<
        proof { lemma_prev_interval(b, j0, current_restart_idx as int, restart_idx as int); }
//@ >>
//@ after `self.cache_restart(restart_idx)?;` <<
        let ghost first = b.idx_of(b.rp(restart_idx as int));
        let ghost cpos = self.reverse_cache->Some_0.positions@;
        proof { assert(pos_is(b, cpos[j0 - 1 - first], j0 - 1)); }
//@ >>
//@ before? `self.position = clone_position(position);` <<
            proof {
                let i = choose|i: int| 0 <= i < cpos.len() && *position == #[trigger] cpos[i] && position is Positioned && position->next_offset == target_next_offset;
                assert(pos_is(b, cpos[i], first + i));
                lemma_off_inj(b, first + i + 1, j0);
            }
//@ >>
//@ after? `self.position = clone_position(position);` <<
            proof {
                axiom_entry(b.bytes@, b.off_at(j0 - 1), b.bnd());
                self.lemma_at_intro(j0 - 1);
                self.lemma_at(j0 - 1);
            }
//@ >>
//@ before? `self.seek_restart(restart_idx)?;` <<
            // the cached interval always holds the entry looked for: the fall-back scan below is not reachable for a
            // well-formed block (it is still compiled code; its loop is given the invariant `false`)
            proof { assert(false); }
//@ >>
//@ loop 0 <<
                invariant false,
                decreases 0int,
//@ >>
//@ end

//@ extract sst/src/block.rs | impl Cursor for BlockCursor :: fn next
//@ bodystart <<
        let ghost b = self.block;
        let ghost j0 = self.idx();
        let ghost ri0: int = if self.position is Positioned { self.position->restart_idx as int } else { 0 };
        proof { if self.position is Positioned { let j = choose|j: int| self.at(j); self.lemma_at(j); } }
//@ >>
//@ before? `self.seek_restart(0)?;` <<
            proof { lemma_empty_block(b); }
//@ >>
//@ after? `self.seek_restart(0)?;` <<
            proof {
                assert(b.off_at(0) == 0);
                lemma_idx_of(b, 0);
                self.lemma_at(0);
            }
//@ >>
//@ after? `let offset = self.next_offset();` <<
        proof {
            assert(offset == b.off_at(j0 + 1));
            if offset >= b.bnd() { if j0 + 1 < b.n() { assert(b.off_at(j0 + 1) < b.bnd()); } }
            else { if j0 + 1 >= b.n() { assert(b.off_at(b.n()) == b.bnd()); } }
        }
//@ >>
//@ after? `self.seek_restart(self.restart_idx() + 1)?;` <<
            proof {
                lemma_step_restart(b, j0, ri0);
                self.lemma_at(j0 + 1);
            }
//@ >>
//@ after? `self.position = BlockCursor::extract_key(&self.block, restart_idx, offset, prev_key)?;` <<
        proof {
            lemma_step_same(b, j0, ri0);
            lemma_off_mono(b, j0, j0 + 1);
            axiom_entry(b.bytes@, b.off_at(j0 + 1), b.bnd());
            self.lemma_at_intro(j0 + 1);
            self.lemma_at(j0 + 1);
        }
//@ >>
//@ end

//@ extract sst/src/block.rs | impl Cursor for BlockCursor :: fn key
//@ bodystart <<
        proof {
            if self.position is Positioned && self.rep() {
                let j = choose|j: int| self.at(j);
                self.lemma_at(j);
                lemma_ents_index(self.block, j);
            }
        }
//@ >>
//@ end
//@ extract sst/src/block.rs | impl Cursor for BlockCursor :: fn value
//@ rewrite-re X12 `value\.map\(\|\(offset, len\)\| &self\.block\.bytes\[offset\.\.offset \+ len\]\)` => `value_slice(&self.block.bytes, *value)`
//@ bodystart <<
        proof {
            if self.position is Positioned && self.rep() {
                let j = choose|j: int| self.at(j);
                self.lemma_at(j);
                axiom_entry(self.block.bytes@, self.block.off_at(j), self.block.bnd());
                lemma_ents_index(self.block, j);
            }
        }
//@ >>
//@ end
}

//@ min-verified 5
} // verus!
fn main() {}
