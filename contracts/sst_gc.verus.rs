// Unit sst_gc (C05, GC half): GarbageCollector::{next, return_key} over ANY child cursor obeying the Cursor
// contract and ANY Determiner, tables of EVERY size.
//   The determiner is abstract: it owns a ghost log of the questions it was asked and the answers it gave.
//   The contract of `next` says, for the sorted table s the child cursor ranges over and the position p0 it is at:
//     * the collector consults the determiner exactly once per VALUE entry, in table order, with the entry's key,
//       its timestamp, and the timestamps of the run of same-key tombstones directly above it (newest first);
//     * it stops at the first value entry the determiner retains and emits the OLDEST tombstone of that run (when
//       there is one) and then, on the following call, the value -- both under the entry's key;
//     * it emits nothing else: entries the determiner rejects, the newer tombstones of a run, and tombstones not
//       followed by a value of the same key are dropped, and when the table is exhausted it returns None;
//     * the child cursor only moves forward and nothing is emitted that is not in the table.
//   VersionsDeterminer::retain and ExpiresDeterminer::retain are proved against the reading of the policy text.
use vstd::prelude::*;
verus! {
global size_of usize == 8;

//@ include cursor_spec.inc.rs

//@ extract sst/src/lib.rs | struct KeyValuePair
//@ end

// `KeyValuePair::from(kvr)`: owned copy of the borrowed triple (Vec::from(&[u8]) / Option::map)
#[verifier::external_body]
fn kvp_from(kvr: KeyValueRef<'_>) -> (r: KeyValuePair)
    ensures r.key@ == kvr.key@, r.timestamp == kvr.timestamp,
        (r.value is Some) == (kvr.value is Some), r.value is Some ==> r.value->Some_0@ == kvr.value->Some_0@,
{ unimplemented!() }

// `dst.resize(src.len(), 0); dst.copy_from_slice(src);`
#[verifier::external_body]
fn assign_bytes(dst: &mut Vec<u8>, src: &Vec<u8>)
    ensures final(dst)@ == src@,
{ unimplemented!() }

// ---------------------------------------------------------------- the determiner, with its ghost log
struct Call { key: Seq<u8>, tombs: Seq<u64>, exists: u64 }

trait Determiner {
    spec fn calls(&self) -> Seq<Call>;
    spec fn answers(&self) -> Seq<bool>;
//@ extract sst/src/gc.rs | trait Determiner :: fn retain
//@ ret r
//@ post <<
        final(self).calls() == old(self).calls().push(Call { key: key@, tombs: tombstones@, exists: exists }),
        final(self).answers() == old(self).answers().push(r),
//@ >>
//@ end
}

// ---------------------------------------------------------------- what the policy text says is asked
// timestamps of the run of same-key tombstones directly above entry i (not reaching above lo), newest first
spec fn tomb_run(s: Seq<Ent>, lo: int, i: int) -> Seq<u64>
    decreases i - lo
{
    if i <= lo || i >= s.len() || s[i - 1].val is Some || s[i - 1].key != s[i].key { Seq::<u64>::empty() }
    else { tomb_run(s, lo, i - 1).push(s[i - 1].ts) }
}
// the questions for the value entries in [lo, hi)
spec fn questions(s: Seq<Ent>, lo: int, hi: int) -> Seq<Call>
    decreases hi - lo
{
    if hi <= lo { Seq::<Call>::empty() }
    else if s[hi - 1].val is Some {
        questions(s, lo, hi - 1).push(Call { key: s[hi - 1].key, tombs: tomb_run(s, lo, hi - 1), exists: s[hi - 1].ts })
    } else { questions(s, lo, hi - 1) }
}
spec fn all_false(a: Seq<bool>) -> bool { forall|i: int| 0 <= i < a.len() ==> !a[i] }


// position q is not in the middle of a run of same-key tombstones (as seen from lo)
spec fn boundary(s: Seq<Ent>, lo: int, q: int) -> bool {
    q <= lo || q >= s.len() || s[q - 1].val is Some || s[q - 1].key != s[q].key
}
spec fn ts_seq(s: Seq<Ent>, q: int, p: int) -> Seq<u64> { Seq::new((p - q) as nat, |j: int| s[q + j].ts) }
// the run above p is exactly the tombstones consumed since the boundary q
proof fn lemma_run(s: Seq<Ent>, lo: int, q: int, p: int)
    requires lo <= q <= p < s.len(), 0 <= lo, boundary(s, lo, q),
        forall|j: int| q <= j < p ==> s[j].val is None && s[j].key == s[p].key,
    ensures tomb_run(s, lo, p) == ts_seq(s, q, p)
    decreases p - q
{
    if p == q { assert(ts_seq(s, q, p) =~= Seq::<u64>::empty()); }
    else {
        lemma_run_k(s, lo, q, p - 1, s[p].key);
        assert(tomb_run(s, lo, p) =~= ts_seq(s, q, p));
    }
}
// same, phrased for a run that has not met its value yet: the entries q..=m are tombstones of key k
proof fn lemma_run_k(s: Seq<Ent>, lo: int, q: int, m: int, k: Seq<u8>)
    requires lo <= q <= m < s.len(), 0 <= lo, boundary(s, lo, q),
        forall|j: int| q <= j <= m ==> s[j].val is None && s[j].key == k,
    ensures tomb_run(s, lo, m).push(s[m].ts) == ts_seq(s, q, m + 1)
    decreases m - q
{
    if m == q { assert(tomb_run(s, lo, m) =~= Seq::<u64>::empty()); assert(tomb_run(s, lo, m).push(s[m].ts) =~= ts_seq(s, q, m + 1)); }
    else {
        lemma_run_k(s, lo, q, m - 1, k);
        assert(tomb_run(s, lo, m) == tomb_run(s, lo, m - 1).push(s[m - 1].ts));
        assert(tomb_run(s, lo, m).push(s[m].ts) =~= ts_seq(s, q, m + 1));
    }
}
// runs do not depend on where the walk started, as long as it started at a boundary
proof fn lemma_run_rebase(s: Seq<Ent>, lo: int, i: int)
    requires 0 <= lo <= i < s.len(), boundary(s, 0, lo)
    ensures tomb_run(s, lo, i) == tomb_run(s, 0, i)
    decreases i - lo
{
    if i > lo && !(s[i - 1].val is Some) && s[i - 1].key == s[i].key { lemma_run_rebase(s, lo, i - 1); }
}

spec fn return_key_post<C: Cursor, D: Determiner>(pre: GarbageCollector<C, D>, post: GarbageCollector<C, D>, kvp: KeyValuePair, tombs: Seq<u64>, r: Option<KeyRef<'_>>) -> bool {
    &&& post.cursor == pre.cursor && post.determiner == pre.determiner && post.key_backing == pre.key_backing
    &&& r is Some && r->Some_0.key@ == kvp.key@
    &&& tombs.len() == 0 ==> r->Some_0.timestamp == kvp.timestamp && post.key_return is None
    &&& tombs.len() > 0 ==> r->Some_0.timestamp == tombs.last() && post.key_return == Some(kvp.timestamp)
}

// what one call of next() may do, from table position p0, given the log before
spec fn next_post<C: Cursor, D: Determiner>(pre: GarbageCollector<C, D>, post: GarbageCollector<C, D>, r: Option<KeyRef<'_>>) -> bool {
    let s = pre.cursor.ents();
    let p0 = pre.cursor.pos();
    let p1 = post.cursor.pos();
    let q = questions(s, p0, p1);
    &&& post.wf() && post.cursor.ents() == s
    &&& pre.key_return is Some ==> {
        &&& r is Some && r->Some_0.key@ == pre.key_backing@ && r->Some_0.timestamp == pre.key_return->Some_0
        &&& p1 == p0 && post.determiner.calls() == pre.determiner.calls() && post.determiner.answers() == pre.determiner.answers()
        &&& post.key_return is None && post.key_backing@ == pre.key_backing@
    }
    &&& pre.key_return is None ==> {
        &&& p0 <= p1 <= s.len()
        &&& post.determiner.calls() == pre.determiner.calls() + q
        &&& post.determiner.answers().len() == pre.determiner.answers().len() + q.len()
        &&& post.determiner.answers().subrange(0, pre.determiner.answers().len() as int) == pre.determiner.answers()
        &&& forall|i: int| pre.determiner.answers().len() <= i < post.determiner.answers().len() - 1 ==> !post.determiner.answers()[i]
        &&& r is None ==> {
            &&& p1 == s.len() && post.key_return is None
            &&& forall|i: int| pre.determiner.answers().len() <= i < post.determiner.answers().len() ==> !post.determiner.answers()[i]
        }
        &&& r is Some ==> {
            let run = tomb_run(s, p0, p1 - 1);
            &&& p1 > p0 && s[p1 - 1].val is Some && q.len() > 0 && post.determiner.answers().last()
            &&& r->Some_0.key@ == s[p1 - 1].key && post.key_backing@ == s[p1 - 1].key
            &&& run.len() == 0 ==> r->Some_0.timestamp == s[p1 - 1].ts && post.key_return is None
            &&& run.len() > 0 ==> r->Some_0.timestamp == run.last() && post.key_return == Some(s[p1 - 1].ts)
        }
    }
}

struct GarbageCollector<C: Cursor, D: Determiner> {
    cursor: C,
    determiner: D,
    key_backing: Vec<u8>,
    key_return: Option<u64>,
}

impl<C: Cursor, D: Determiner> GarbageCollector<C, D> {
    spec fn wf(&self) -> bool {
        &&& self.cursor.wf()
        &&& 0 <= self.cursor.pos()
    }


//@ extract sst/src/gc.rs | impl GarbageCollector :: fn next
//@ ret r
//@ prefix #[verifier::loop_isolation(false)]
//@ rewrite-re X7 `KeyValuePair::from\(kvr\)` => `kvp_from(kvr)`
//@ rewrite-re X9 `while self\.key_backing == kvp\.key` => `while bytes_eq(self.key_backing.as_slice(), kvp.key.as_slice())`
//@ rewrite-re X7 `self\.key_backing\.resize\(kvp\.key\.len\(\), 0\);\s*self\.key_backing\.copy_from_slice\(&kvp\.key\);` => `assign_bytes(&mut self.key_backing, &kvp.key);`
//@ pre <<
        old(self).wf(),
//@ >>
//@ post <<
        r is Ok ==> next_post(*old(self), *final(self), r->Ok_0),
//@ >>
//@ bodystart <<
    let ghost s = self.cursor.ents();
    let ghost p0 = self.cursor.pos();
    let ghost lg0 = self.determiner.calls();
    let ghost an0 = self.determiner.answers();
    let ghost pre = *self;
    proof { self.cursor.lemma_cursor_laws(); }
//@ >>
//@ before `'iterating: loop` <<
        proof { assert(lg0 + questions(s, p0, p0) =~= lg0); }
//@ >>
//@ after `let mut tombstones = vec![];` <<
            let ghost q0 = self.cursor.pos();
            let ghost kb0 = self.key_backing@;
//@ >>
//@ before? `let mut kvp = match self.cursor.key_value() {` <<
            proof { self.cursor.lemma_cursor_laws(); }
//@ >>
//@ before? `kvp = match self.cursor.key_value() {` <<
                proof { self.cursor.lemma_cursor_laws(); }
//@ >>
//@ before? `if self.determiner.retain(&kvp.key, &tombstones, kvp.timestamp) {` <<
                    let ghost pv = self.cursor.pos() - 1;
                    proof {
                        lemma_run(s, p0, q0, pv);
                        assert(questions(s, p0, pv + 1) == questions(s, p0, pv).push(Call { key: s[pv].key, tombs: tomb_run(s, p0, pv), exists: s[pv].ts }));
                    }
//@ >>
//@ before? `return self.return_key(kvp, tombstones);` <<
                        proof {
                            assert(self.determiner.calls() =~= lg0 + questions(s, p0, pv + 1));
                            let cur = *self;
                            /* tail-post */ assert forall|post: GarbageCollector<C, D>, rr: Option<KeyRef<'_>>|
                                return_key_post(cur, post, kvp, tombstones@, rr) implies next_post(pre, post, rr) by {
                                assert(post.cursor.pos() == pv + 1);
                                assert(post.determiner.answers().last());
                                assert(post.determiner.answers().subrange(0, an0.len() as int) =~= an0);
                                assert(post.wf() && post.cursor.ents() == s);
                                assert(tomb_run(s, p0, pv) == tombstones@);
                                assert(post.key_backing@ == s[pv].key);
                                assert(rr->Some_0.key@ == s[pv].key);
                                assert(post.determiner.calls() == pre.determiner.calls() + questions(s, p0, pv + 1));
                                assert(post.determiner.answers().len() == pre.determiner.answers().len() + questions(s, p0, pv + 1).len());
                                assert(forall|i: int| pre.determiner.answers().len() <= i < post.determiner.answers().len() - 1 ==> !post.determiner.answers()[i]);
                            }
                        }
//@ >>
//@ before? `continue 'iterating;` <<
                        proof { assert(self.determiner.calls() =~= lg0 + questions(s, p0, pv + 1)); }
//@ >>
//@ loop 0 <<
            invariant
                self.cursor.wf(), self.cursor.ents() == s, p0 <= self.cursor.pos() <= s.len(), 0 <= p0,
                boundary(s, p0, self.cursor.pos()),
                self.key_return is None,
                self.determiner.calls() == lg0 + questions(s, p0, self.cursor.pos()),
                self.determiner.answers().len() == an0.len() + questions(s, p0, self.cursor.pos()).len(),
                self.determiner.answers().subrange(0, an0.len() as int) == an0,
                forall|i: int| an0.len() <= i < self.determiner.answers().len() ==> !self.determiner.answers()[i],
                pre.key_return is None, pre.cursor.ents() == s, pre.cursor.pos() == p0, pre.determiner.calls() == lg0, pre.determiner.answers() == an0,
            decreases s.len() - self.cursor.pos(), (if self.cursor.pos() < s.len() && self.key_backing@ != s[self.cursor.pos()].key { 1int } else { 0int }),
//@ >>
//@ loop 1 <<
                invariant
                    self.cursor.wf(), self.cursor.ents() == s, 0 <= p0 <= q0 <= self.cursor.pos() < s.len(),
                    boundary(s, p0, q0),
                    self.key_return is None,
                    kvp.key@ == s[self.cursor.pos()].key, kvp.timestamp == s[self.cursor.pos()].ts,
                    (kvp.value is Some) == (s[self.cursor.pos()].val is Some),
                    forall|j: int| q0 <= j < self.cursor.pos() ==> s[j].val is None && s[j].key == self.key_backing@,
                    tombstones@ == ts_seq(s, q0, self.cursor.pos()),
                    self.determiner.calls() == lg0 + questions(s, p0, self.cursor.pos()),
                    self.determiner.answers().len() == an0.len() + questions(s, p0, self.cursor.pos()).len(),
                    self.determiner.answers().subrange(0, an0.len() as int) == an0,
                    forall|i: int| an0.len() <= i < self.determiner.answers().len() ==> !self.determiner.answers()[i],
                    pre.key_return is None, pre.cursor.ents() == s, pre.cursor.pos() == p0, pre.determiner.calls() == lg0, pre.determiner.answers() == an0,
                    q0 < self.cursor.pos() || self.key_backing@ == kb0,
                decreases s.len() - self.cursor.pos(),
//@ >>
//@ end

//@ extract sst/src/gc.rs | impl GarbageCollector :: fn return_key
//@ ret r
//@ pre <<
        old(self).key_backing@ == kvp.key@,
//@ >>
//@ post <<
        r is Ok && return_key_post(*old(self), *final(self), kvp, tombstones@, r->Ok_0),
//@ >>
//@ end

}

//@ min-verified 5
} // verus!
fn main() {}
