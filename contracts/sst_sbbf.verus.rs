// Unit sst_sbbf (C10: "the filter never hides a key"): the split-block bloom filter of sst/src/sbbf.rs, filters of
// EVERY size.  Block::{mask, insert, check} and Filter::{do_hashing, deferred_insert, check (by hash)} are extracted
// and proved: an inserted hash is always found afterwards, inserting never removes what was found before, the block
// index is in range (the assert! in do_hashing cannot fire) and no shift or multiplication overflows.
// SipHash is outside: `defer_insert` (item -> u64) is an uninterpreted function, so the statement is per hash value.
use vstd::prelude::*;
verus! {
global size_of usize == 8;

//@ extract sst/src/sbbf.rs | const SALT
//@ end

//@ extract sst/src/sbbf.rs | struct Block
//@ end

spec fn lane(x: u32, i: int) -> u32 { 1u32 << ((((x as u64) * (SALT[i] as u64)) as u32) >> 27) }
spec fn covers(b: Block, x: u32) -> bool { forall|i: int| 0 <= i < 8 ==> b.block[i] & lane(x, i) == lane(x, i) }

impl Block {
    // Block::default()
    #[verifier::external_body]
    fn default() -> (r: Block)
        ensures forall|i: int| 0 <= i < 8 ==> r.block[i] == 0,
    { unimplemented!() }

//@ extract sst/src/sbbf.rs | impl Block :: fn mask
//@ ret r
//@ post <<
        forall|i: int| 0 <= i < 8 ==> r.block[i] == lane(x, i),
//@ >>
//@ loop 0 <<
            invariant
                forall|j: int| 0 <= j < i ==> result.block[j] == lane(x, j),
                forall|j: int| i <= j < 8 ==> result.block[j] == 0,
//@ >>
//@ before `let y: u32 = ` <<
            proof {
                assert((x as u64) * (SALT[i as int] as u64) <= 0xffff_ffffu64 * 0xffff_ffffu64) by (nonlinear_arith)
                    requires (x as u64) <= 0xffff_ffffu64, (SALT[i as int] as u64) <= 0xffff_ffffu64;
            }
//@ >>
//@ before `result.block[i] |= ` <<
            proof {
                assert((y >> 27) < 32) by (bit_vector);
                let l = 1u32 << (y >> 27);
                assert(0u32 | l == l) by (bit_vector);
            }
//@ >>
//@ end

//@ extract sst/src/sbbf.rs | impl Block :: fn insert
//@ post <<
        covers(*final(self), x), forall|y: u32| covers(*old(self), y) ==> covers(*final(self), y),
//@ >>
//@ afterloop 0 <<
        proof { lemma_or_covers(*old(self), *self, x); }
//@ >>
//@ loop 0 <<
            invariant
                forall|j: int| 0 <= j < 8 ==> mask.block[j] == lane(x, j),
                forall|j: int| 0 <= j < i ==> self.block[j] == old(self).block[j] | lane(x, j),
                forall|j: int| i <= j < 8 ==> self.block[j] == old(self).block[j],
//@ >>
//@ end

//@ extract sst/src/sbbf.rs | impl Block :: fn check
//@ ret r
//@ post <<
        covers(*self, x) ==> r,
//@ >>
//@ loop 0 <<
            invariant
                forall|j: int| 0 <= j < 8 ==> mask.block[j] == lane(x, j),
//@ >>
//@ before? `return false;` <<
                proof {
                    // a lane is a single set bit, so every way of finding it absent means it is not covered
                    let l = lane(x, i as int); let b = self.block[i as int];
                    let yy: u32 = ((x as u64) * (SALT[i as int] as u64)) as u32;
                    let sh: u32 = yy >> 27;
                    assert(sh < 32) by (bit_vector) requires sh == yy >> 27;
                    assert(1u32 << sh != 0) by (bit_vector) requires sh < 32;
                    assert(b & l != l);
                }
//@ >>
//@ end
}


// ---------------------------------------------------------------- the filter
//@ extract sst/src/sbbf.rs | struct Filter
//@ end

uninterp spec fn hash_of(item: Seq<u8>) -> u64;
spec fn idx_of(h: u64, n: int) -> int { (((h >> 32) as int) * n) / 0x1_0000_0000 }
impl Filter {
    spec fn wf(&self) -> bool { 0 < self.blocks@.len() < 0x1_0000_0000 }
    // the filter answers "maybe present" for the hash h
    spec fn has(&self, h: u64) -> bool { covers(self.blocks@[idx_of(h, self.blocks@.len() as int)], h as u32) }

//@ extract sst/src/sbbf.rs | impl Filter :: fn do_hashing
//@ ret r
//@ pre <<
        self.wf(),
//@ >>
//@ post <<
        r.0 as int == idx_of(x, self.blocks@.len() as int), r.0 < self.blocks@.len(), r.1 == x as u32,
//@ >>
//@ bodystart <<
        proof { lemma_idx(x, self.blocks@.len() as u64); }
//@ >>
//@ end

    // SipHash-2-4 with the fixed key: an uninterpreted function of the bytes
//@ extract sst/src/sbbf.rs | impl Filter :: fn defer_insert
//@ ret r
//@ post <<
        r == hash_of(item@),
//@ >>
//@ external-body
//@ end

//@ extract sst/src/sbbf.rs | impl Filter :: fn insert
//@ pre <<
        old(self).wf(),
//@ >>
//@ post <<
        final(self).wf(), final(self).blocks@.len() == old(self).blocks@.len(),
        final(self).has(hash_of(item@)),
        forall|g: u64| old(self).has(g) ==> final(self).has(g),
//@ >>
//@ end

//@ extract sst/src/sbbf.rs | impl Filter :: fn check
//@ ret r
//@ pre <<
        self.wf(),
//@ >>
//@ post <<
        self.has(hash_of(item@)) ==> r,
//@ >>
//@ end

//@ extract sst/src/sbbf.rs | impl Filter :: fn deferred_insert
//@ pre <<
        old(self).wf(),
//@ >>
//@ post <<
        final(self).wf(), final(self).blocks@.len() == old(self).blocks@.len(),
        final(self).has(item),
        forall|g: u64| old(self).has(g) ==> final(self).has(g),
//@ >>
//@ after `self.blocks[block_idx].insert(x);` <<
        proof {
            let n = old(self).blocks@.len() as int;
            assert(self.blocks@.len() == n);
            assert(forall|j: int| 0 <= j < n && j != block_idx ==> self.blocks@[j] == old(self).blocks@[j]);
            assert forall|g: u64| old(self).has(g) implies self.has(g) by {
                lemma_idx(g, n as u64);
                if idx_of(g, n) != block_idx { assert(self.blocks@[idx_of(g, n)] == old(self).blocks@[idx_of(g, n)]); }
            }
        }
//@ >>
//@ end
}
proof fn lemma_idx(x: u64, n: u64)
    requires 0 < n < 0x1_0000_0000
    ensures (x >> 32) * n <= 0xffff_ffff_ffff_ffff, (((x >> 32) * n) as u64 >> 32) as int == idx_of(x, n as int), idx_of(x, n as int) < n, 0 <= idx_of(x, n as int)
{
    let hi = x >> 32;
    assert(hi < 0x1_0000_0000) by (bit_vector) requires hi == x >> 32;
    assert(hi * n < 0x1_0000_0000 * n) by (nonlinear_arith) requires hi < 0x1_0000_0000, n > 0;
    assert(0x1_0000_0000 * n <= 0x1_0000_0000 * 0xffff_ffff) by (nonlinear_arith) requires n <= 0xffff_ffff;
    let p = (hi * n) as u64;
    assert(p >> 32 == p / 0x1_0000_0000) by (bit_vector);
    let hn: int = (hi as int) * (n as int);
    let nn: int = n as int;
    assert(hn / 0x1_0000_0000 < nn) by (nonlinear_arith) requires hn < 0x1_0000_0000 * nn, nn > 0;
    assert(0 <= hn / 0x1_0000_0000) by (nonlinear_arith) requires hn >= 0;
    assert(hn >= 0) by (nonlinear_arith) requires hn == (hi as int) * nn, hi >= 0, nn > 0;
}
// bits are only ever added: what a block covered it still covers, and it covers what was just inserted
proof fn lemma_or_covers(old_b: Block, new_b: Block, x: u32)
    requires forall|i: int| 0 <= i < 8 ==> new_b.block[i] == old_b.block[i] | lane(x, i)
    ensures covers(new_b, x), forall|y: u32| covers(old_b, y) ==> covers(new_b, y)
{
    assert forall|i: int| 0 <= i < 8 implies new_b.block[i] & lane(x, i) == lane(x, i) by {
        let a = old_b.block[i]; let l = lane(x, i);
        assert((a | l) & l == l) by (bit_vector);
    }
    assert forall|y: u32| covers(old_b, y) implies covers(new_b, y) by {
        assert forall|i: int| 0 <= i < 8 implies new_b.block[i] & lane(y, i) == lane(y, i) by {
            let a = old_b.block[i]; let l = lane(x, i); let m = lane(y, i);
            assert(a & m == m ==> (a | l) & m == m) by (bit_vector);
        }
    }
}

// ---------------------------------------------------------------- building the filter at seal time
// `vec![Block::default(); size.try_into().unwrap()]`
#[verifier::external_body]
fn zero_blocks(n: u32) -> (r: Vec<Block>)
    ensures r@.len() == n,
{ unimplemented!() }

impl Filter {
//@ extract sst/src/sbbf.rs | impl Filter :: fn new
//@ ret r
//@ rewrite X7 `let blocks = vec![Block::default(); size.try_into().unwrap()];` => `let blocks = zero_blocks(size);`
//@ post <<
        r.wf(),
//@ >>
//@ bodystart <<
        proof {
            let s7 = if size as int + 7 > 0xffff_ffff { 0xffff_ffffu32 } else { (size + 7) as u32 };
            assert(((s7 >> 3) >> 5) <= 0x00ff_ffff) by (bit_vector);
        }
//@ >>
//@ end
}

// only what the region below touches
struct SstOptionsBloom { bloom_filter_bits: u8 }
struct SealingBuilder { filter: Vec<u64>, options: SstOptionsBloom }

// SstBuilder::seal builds the bloom filter from the hashes queued by put/del: every queued hash is found afterwards
// (with unit sst_builder -- every accepted key's hash is queued -- the filter never hides a key of the table)
//@ extract sst/src/lib.rs | impl Builder for SstBuilder :: fn seal
//@ region `let mut filter = Filter::new(` .. `while fi < builder.filter.len() {`
//@ region-sig <<
fn seal_filter(builder: &SealingBuilder) -> (r: Filter)
//@ >>
//@ region-tail <<
    filter
//@ >>
//@ rewrite X13 `for x in builder.filter.iter() {` => `let mut fi: usize = 0; while fi < builder.filter.len() { let x = &builder.filter[fi]; fi = fi + 1;`
//@ post <<
        r.wf(), forall|i: int| 0 <= i < builder.filter@.len() ==> r.has(#[trigger] builder.filter@[i]),
//@ >>
//@ loop 0 <<
        invariant
            filter.wf(), fi <= builder.filter@.len(),
            /* contract-inv */ forall|i: int| 0 <= i < fi ==> filter.has(#[trigger] builder.filter@[i]),
        decreases builder.filter@.len() - fi,
//@ >>
//@ end

//@ contract-lemma lemma_or_covers
//@ min-verified 8
} // verus!
fn main() {}
