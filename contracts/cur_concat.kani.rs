//@ package sst
//@ modfile sst/src/concat_cursor.rs
//@ flags --lib --no-default-features

#[cfg(kani)]
pub(crate) mod __verif_concat {
    use super::*;
//@ include arrcursor.inc.rs

    const NC: usize = 3;
    const CN: usize = 2; // entries per child in this unit
    // key-disjoint, ordered children (the precondition of ConcatenatingCursor): every key of child i is
    // below every key of child i+1 (children may be empty)
    fn any_children() -> [ArrCursor; NC] {
        let cs = [ArrCursor::any_sorted(), ArrCursor::any_sorted(), ArrCursor::any_sorted()];
        kani::assume(cs[0].n <= CN && cs[1].n <= CN && cs[2].n <= CN);
        let mut i = 0;
        while i < NC {
            let mut j = i + 1;
            while j < NC {
                if cs[i].n > 0 && cs[j].n > 0 {
                    kani::assume(cs[i].keys[cs[i].n - 1][0] < cs[j].keys[0][0]);
                }
                j += 1;
            }
            i += 1;
        }
        cs
    }
    fn total(cs: &[ArrCursor; NC]) -> usize { cs[0].n + cs[1].n + cs[2].n }
    fn off(cs: &[ArrCursor; NC], p: usize) -> usize { let mut s = 0; let mut i = 0; while i < NC { if i < p { s += cs[i].n; } i += 1; } s }
    // entry #g of the concatenation -> (child, index)
    fn locate(cs: &[ArrCursor; NC], g: usize) -> (usize, usize) {
        if g < cs[0].n { (0, g) } else if g < cs[0].n + cs[1].n { (1, g - cs[0].n) } else { (2, g - cs[0].n - cs[1].n) }
    }
    // abstraction function: -1 | 0..total-1 | total ; None when the state is not a rest state
    fn view(cc: &ConcatenatingCursor<ArrCursor>, cs_n: &[usize; NC]) -> Option<isize> {
        let p = cc.position;
        if p >= NC { return None; }
        let c = cc.cursors[p].pos;
        let n = cs_n[p] as isize;
        let mut o = 0isize; let mut i = 0; while i < NC { if i < p { o += cs_n[i] as isize; } i += 1; }
        if c >= 0 && c < n { Some(o + c) }
        else if c == -1 && o == 0 { Some(-1) }                 // nothing before us
        else if c == n && p == NC - 1 { Some(o + n) }
        else if c == n && { let mut rest = 0; let mut i = 0; while i < NC { if i > p { rest += cs_n[i]; } i += 1; } rest == 0 } { Some(o + n) }
        else { None }
    }
    // a symbolic rest state: ANY (position, child positions) on which the abstraction function is defined
    fn any_state(cs: [ArrCursor; NC]) -> (ConcatenatingCursor<ArrCursor>, isize) {
        let mut v: Vec<ArrCursor> = Vec::with_capacity(NC);
        let mut cs = cs;
        let mut i = 0; while i < NC { let q: isize = kani::any(); kani::assume(q >= -1 && q <= cs[i].n as isize); cs[i].pos = q; i += 1; }
        let position: usize = kani::any();
        kani::assume(position < NC);
        v.push(cs[0]); v.push(cs[1]); v.push(cs[2]);
        let cc = ConcatenatingCursor { cursors: v, position };
        let ns = [cs[0].n, cs[1].n, cs[2].n];
        let g = match view(&cc, &ns) { Some(g) => g, None => { kani::assume(false); 0 } };
        (cc, g)
    }
    fn check_at(cc: &ConcatenatingCursor<ArrCursor>, cs: &[ArrCursor; NC], g: isize) {
        let ns = [cs[0].n, cs[1].n, cs[2].n];
        let tot = total(cs) as isize;
        if g >= 0 && g < tot {
            let (p, c) = locate(cs, g as usize);
            match cc.key() { Some(k) => { assert!(k.key[0] == cs[p].keys[c][0] && k.timestamp == cs[p].ts[c]); } None => { assert!(false); } }
            match cc.value() { Some(v) => { assert!(cs[p].has_val[c] && v[0] == cs[p].vals[c][0]); } None => { assert!(!cs[p].has_val[c]); } }
        } else {
            assert!(cc.key().is_none());
            assert!(cc.value().is_none());
            // and the end states are the canonical ones, so the next call starts from a rest state
            assert!(view(cc, &ns) == Some(g));
        }
    }

    //@ H kind=bounded tier=quick timeout=1800 bound="3 children x <=2 entries, 1-byte keys 0..=5, ts 0..=7; every rest state" oblig="sst::ConcatenatingCursor::next==concat.next"
    #[kani::proof]
    #[kani::unwind(5)]
    fn concat_next() {
        let cs = any_children();
        let (mut cc, g) = any_state(cs);
        let tot = total(&cs) as isize;
        match cc.next() { Ok(()) => {}, Err(e) => { core::mem::forget(e); assert!(false); } }
        let want = if g < tot { g + 1 } else { tot };
        check_at(&cc, &cs, want);
        kani::cover!(g >= 0 && want < tot && !cs[locate(&cs, want as usize).0].has_val[locate(&cs, want as usize).1]);
        core::mem::forget(cc);
    }

    //@ H kind=bounded tier=quick timeout=1800 bound="3 children x <=2 entries, 1-byte keys 0..=5, ts 0..=7; every rest state" oblig="sst::ConcatenatingCursor::prev==concat.prev"
    #[kani::proof]
    #[kani::unwind(5)]
    fn concat_prev() {
        let cs = any_children();
        let (mut cc, g) = any_state(cs);
        match cc.prev() { Ok(()) => {}, Err(e) => { core::mem::forget(e); assert!(false); } }
        let want = if g > -1 { g - 1 } else { -1 };
        check_at(&cc, &cs, want);
        kani::cover!(want >= 0);
        core::mem::forget(cc);
    }

    //@ H kind=bounded tier=quick timeout=1800 bound="3 children x <=2 entries, 1-byte keys 0..=5, ts 0..=7; every rest state" oblig="sst::ConcatenatingCursor::seek==concat.seek"
    #[kani::proof]
    #[kani::unwind(5)]
    fn concat_seek() {
        let cs = any_children();
        let (mut cc, _g) = any_state(cs);
        let k: [u8; 1] = kani::any();
        kani::assume(k[0] <= 6);
        match cc.seek(&k[..]) { Ok(()) => {}, Err(e) => { core::mem::forget(e); assert!(false); } }
        // first entry of the concatenation whose key is >= k (children are ordered and key-disjoint)
        let tot = total(&cs);
        let mut want = tot; let mut a = NC;
        while a > 0 {
            a -= 1;
            let mut i = CN;
            while i > 0 { i -= 1; if i < cs[a].n && cs[a].keys[i][0] >= k[0] { want = off(&cs, a) + i; } }
        }
        let tot_i = tot as isize;
        if (want as isize) < tot_i { check_at(&cc, &cs, want as isize); } else { assert!(cc.key().is_none()); }
        kani::cover!(want < tot && locate(&cs, want).0 == 2);
        kani::cover!(want < tot && locate(&cs, want).0 == 1 && cs[0].n > 0);
        core::mem::forget(cc);
    }

    //@ H kind=bounded tier=quick timeout=1800 bound="3 children x <=2 entries; every rest state" oblig="sst::ConcatenatingCursor::seek_to_first/last+new"
    #[kani::proof]
    #[kani::unwind(5)]
    fn concat_ends_and_new() {
        let cs = any_children();
        let (mut cc, _g) = any_state(cs);
        let tot = total(&cs) as isize;
        if kani::any() {
            match cc.seek_to_first() { Ok(()) => {}, Err(e) => { core::mem::forget(e); assert!(false); } }
            check_at(&cc, &cs, -1);
        } else {
            match cc.seek_to_last() { Ok(()) => {}, Err(e) => { core::mem::forget(e); assert!(false); } }
            check_at(&cc, &cs, tot);
        }
        core::mem::forget(cc);
        let mut v: Vec<ArrCursor> = Vec::with_capacity(NC);
        v.push(cs[0]); v.push(cs[1]); v.push(cs[2]);
        match ConcatenatingCursor::new(v) { Ok(c2) => { check_at(&c2, &cs, -1); core::mem::forget(c2); } Err(e) => { core::mem::forget(e); assert!(false); } }
        kani::cover!(tot > 0);
    }
}
