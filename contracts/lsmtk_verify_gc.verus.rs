// Unit lsmtk_verify_gc (C04, "the offline verifier rejects a history in which a transaction's discarded data was altered";
// the checking side of C05): the walk of LsmVerifier::verify_gc (lsmtk/src/verifier.rs) over the merged inputs, the merged
// outputs and the garbage collector of a GC transaction, extracted as a REGION (from `let mut gc_next = gc.next()?;` to the
// end of the trailing loop) and proved over ANY cursors obeying the Cursor contract and tables of every size:
// when the walk returns Ok,
//   * the recomputed discard is exactly the input entries that have no counterpart (same key and timestamp) in the output,
//     and every output entry has been matched, in order, with an input entry;
//   * NO DATA LOSS: every (key, timestamp) the collector retains is present in the output.
// ASSUMED: the collector's next() hands out its retained keys one by one (contract proved in unit sst_gc); the
// three-statement setsum update is read as `computed_discard += setsum(entry)`; KeyRef ordering as proved in sst_kernels.
use vstd::prelude::*;
use std::cmp::Ordering;
verus! {
global size_of usize == 8;

//@ include cursor_spec.inc.rs

spec fn ent_of(kvr: KeyValueRef<'_>) -> Ent {
    Ent { key: kvr.key@, ts: kvr.timestamp, val: match kvr.value { Some(v) => Some(v@), None => None } }
}
proof fn lemma_kvref(kvr: KeyValueRef<'_>, s: Seq<Ent>, p: int)
    requires kvref_is(Some(kvr), s, p)
    ensures 0 <= p < s.len(), ent_of(kvr) == s[p]
{ }
#[verifier::external_body]
fn verify_error() -> (r: SError) { unimplemented!() }

// the collector (sst::gc::GarbageCollector, contract of its next() proved in unit sst_gc): what it will still emit
#[verifier::external_body]
struct Gc { _p: u8 }
type KT = (Seq<u8>, u64);
impl Gc {
    uninterp spec fn rest(&self) -> Seq<KT>;
    // (the stub returns a KeyRef that does not borrow the collector, so that the proof may look at the collector while
    // the loop holds the key; the real one borrows -- the loop itself compiles under either signature)
    #[verifier::external_body]
    fn next(&mut self) -> (r: Result<Option<KeyRef<'static>>, SError>)
        ensures r is Ok ==> match r->Ok_0 {
            Some(k) => old(self).rest().len() > 0 && (k.key@, k.timestamp) == old(self).rest()[0] && final(self).rest() == old(self).rest().drop_first(),
            None => old(self).rest().len() == 0 && final(self).rest() == old(self).rest(),
        },
    { unimplemented!() }
}
// `let mut setsum = sst::Setsum::default(); setsum.insert(kvr); computed_discard += setsum.into_inner();`
#[verifier::external_body]
struct Discard { _p: u8 }
impl Discard {
    uninterp spec fn items(&self) -> Seq<Ent>;
    #[verifier::external_body]
    fn new() -> (r: Discard)
        ensures r.items() == Seq::<Ent>::empty(),
    { unimplemented!() }
    #[verifier::external_body]
    fn add_entry(&mut self, kvr: KeyValueRef<'_>)
        ensures final(self).items() == old(self).items().push(ent_of(kvr)),
    { unimplemented!() }
}
// `a.cmp(&b)` on KeyRefs: the entry order on (key, timestamp) (KeyRef::cmp, proved in sst_kernels / sst_blockb)
fn keyref_cmp(a: &KeyRef<'_>, b: &KeyRef<'_>) -> (r: Ordering)
    ensures r == Ordering::Equal <==> (a.key@ == b.key@ && a.timestamp == b.timestamp),
        r == Ordering::Less <==> kt_lt(a.key@, a.timestamp, b.key@, b.timestamp),
{
    proof { lemma_lex_order_total(); }
    if bytes_lt(a.key, b.key) { Ordering::Less }
    else if bytes_lt(b.key, a.key) { Ordering::Greater }
    else if a.timestamp > b.timestamp { Ordering::Less }
    else if a.timestamp < b.timestamp { Ordering::Greater }
    else { Ordering::Equal }
}

spec fn kt_of(e: Ent) -> KT { (e.key, e.ts) }
// the inputs from i on that are not matched, in order, by the outputs from j on
spec fn unmatched(e: Seq<Ent>, i: int, o: Seq<Ent>, j: int) -> Seq<Ent>
    decreases e.len() - i
{
    if i < 0 || i >= e.len() { Seq::<Ent>::empty() }
    else if 0 <= j < o.len() && kt_of(e[i]) == kt_of(o[j]) { unmatched(e, i + 1, o, j + 1) }
    else { seq![e[i]] + unmatched(e, i + 1, o, j) }
}
spec fn gseq(n: Option<KeyRef<'_>>, rest: Seq<KT>) -> Seq<KT> {
    match n { Some(k) => seq![(k.key@, k.timestamp)] + rest, None => rest }
}
// x is one of the first p output entries
spec fn in_out(o: Seq<Ent>, p: int, x: KT) -> bool { exists|j: int| 0 <= j < p && j < o.len() && kt_of(#[trigger] o[j]) == x }
// every key the collector set out to retain (g0) is still pending (g) or has been found among the first p outputs
spec fn accounted(g0: Seq<KT>, g: Seq<KT>, o: Seq<Ent>, p: int) -> bool {
    forall|k: int| 0 <= k < g0.len() ==> g.contains(#[trigger] g0[k]) || in_out(o, p, g0[k])
}

//@ extract lsmtk/src/verifier.rs | impl LsmVerifier :: fn verify_gc
//@ region `let mut gc_next = gc.next()?;` .. `while let Some(i) = input.key_value() {`
//@ region-sig <<
fn verify_gc_walk<CI: Cursor, CO: Cursor>(input: &mut CI, output: &mut CO, gc: &mut Gc) -> (r: Result<Discard, SError>)
//@ >>
//@ region-tail <<
    Ok(computed_discard)
//@ >>
//@ rewrite X7 `let mut computed_discard = Setsum::default();` => `let mut computed_discard = Discard::new();`
//@ rewrite-re X7 `let mut setsum = sst::Setsum::default\(\);\s*setsum\.insert\(input\.key_value\(\)\.unwrap\(\)\);\s*computed_discard \+= setsum\.into_inner\(\);` => `computed_discard.add_entry(input.key_value().unwrap());`
//@ rewrite-re X7 `let mut setsum = sst::Setsum::default\(\);\s*setsum\.insert\(i\);\s*computed_discard \+= setsum\.into_inner\(\);` => `computed_discard.add_entry(i);`
//@ rewrite-re X9 `\b(\w+)\.cmp\(&(\w+)\)` => `keyref_cmp(&\1, &\2)`
//@ rewrite-re X7 `(?s)return Err\(logic_error\(.*?\);` => `return Err(verify_error());`
//@ rewrite-re X7 `(?s)return Err\(corruption\(.*?\);` => `return Err(verify_error());`
//@ pre <<
        old(input).wf(), old(input).pos() == 0, old(output).wf(), old(output).pos() == 0,
//@ >>
//@ post <<
        r is Ok ==> final(input).ents() == old(input).ents() && final(output).ents() == old(output).ents()
            && r->Ok_0.items() == unmatched(old(input).ents(), 0, old(output).ents(), 0)
            && final(output).pos() == old(output).ents().len(),
        // no data loss: what the collector retains is in the output
        r is Ok ==> forall|k: int| 0 <= k < old(gc).rest().len() ==> in_out(old(output).ents(), old(output).ents().len() as int, #[trigger] old(gc).rest()[k]),
//@ >>
//@ before `let mut computed_discard = Discard::new();` <<
    proof { assert(gseq(gc_next, gc.rest()) =~= g0); }
//@ >>
//@ before `while let (Some(i), Some(o)) = (input.key(), output.key()) {` <<
    proof {
        input.lemma_cursor_laws(); output.lemma_cursor_laws();
        assert(computed_discard.items() + unmatched(ee, 0, oo, 0) =~= unmatched(ee, 0, oo, 0));
        assert forall|k: int| 0 <= k < g0.len() implies gseq(gc_next, gc.rest()).contains(#[trigger] g0[k]) by { }
    }
//@ >>
//@ loop 0 <<
        invariant
            input.wf(), output.wf(), input.wf_base(), output.wf_base(), input.ents() == ee, output.ents() == oo,
            0 <= input.pos() <= ee.len(), 0 <= output.pos() <= oo.len(),
            /* contract-inv */ computed_discard.items() + unmatched(ee, input.pos(), oo, output.pos()) == unmatched(ee, 0, oo, 0),
            /* contract-inv */ accounted(g0, gseq(gc_next, gc.rest()), oo, output.pos()),
            gc_next is None ==> gc.rest().len() == 0,
        decreases (ee.len() - input.pos()) + (oo.len() - output.pos()),
//@ >>
//@ startloop 0 <<
            let ghost pi = input.pos();
            let ghost po = output.pos();
            let ghost gcur = gseq(gc_next, gc.rest());
            let ghost disp = computed_discard.items();
            proof { input.lemma_cursor_laws(); output.lemma_cursor_laws(); }
//@ >>
//@ endloop 0 <<
            proof {
                // extensionality hints only, each guarded by its own truth so that a failing step shows up as the failing invariant
                let gnew = gseq(gc_next, gc.rest());
                if gcur.len() > 0 && gnew.len() == gcur.len() - 1 && (forall|q: int| 0 <= q < gnew.len() ==> gnew[q] == gcur[q + 1]) {
                    assert(gnew =~= gcur.drop_first());
                    // the key just consumed sits at output position po
                    assert forall|k: int| 0 <= k < g0.len() implies gnew.contains(#[trigger] g0[k]) || in_out(oo, output.pos(), g0[k]) by {
                        if gcur.contains(g0[k]) {
                            let w = choose|w: int| 0 <= w < gcur.len() && gcur[w] == g0[k];
                            if w == 0 { if 0 <= po < oo.len() && kt_of(oo[po]) == gcur[0] && output.pos() > po { assert(in_out(oo, output.pos(), g0[k])); } }
                            else { assert(gnew[w - 1] == g0[k]); }
                        } else {
                            let j = choose|j: int| 0 <= j < po && j < oo.len() && kt_of(#[trigger] oo[j]) == g0[k];
                            if output.pos() >= po { assert(in_out(oo, output.pos(), g0[k])); }
                        }
                    }
                }
                if gnew.len() == gcur.len() && (forall|q: int| 0 <= q < gnew.len() ==> gnew[q] == gcur[q]) {
                    assert(gnew =~= gcur);
                    assert forall|k: int| 0 <= k < g0.len() implies gnew.contains(#[trigger] g0[k]) || in_out(oo, output.pos(), g0[k]) by {
                        if !gcur.contains(g0[k]) {
                            let j = choose|j: int| 0 <= j < po && j < oo.len() && kt_of(#[trigger] oo[j]) == g0[k];
                            if output.pos() >= po { assert(in_out(oo, output.pos(), g0[k])); }
                        }
                    }
                }
                if 0 <= pi < ee.len() {
                    assert(disp + (seq![ee[pi]] + unmatched(ee, pi + 1, oo, po)) =~= disp.push(ee[pi]) + unmatched(ee, pi + 1, oo, po));
                }
            }
//@ >>
//@ loop 1 <<
        invariant
            input.wf(), input.wf_base(), input.ents() == ee, output.ents() == oo, output.pos() == oo.len(), 0 <= input.pos() <= ee.len(),
            /* contract-inv */ computed_discard.items() + unmatched(ee, input.pos(), oo, oo.len() as int) == unmatched(ee, 0, oo, 0),
            accounted(g0, gseq(gc_next, gc.rest()), oo, oo.len() as int), gc_next is None ==> gc.rest().len() == 0,
        ensures input.pos() == ee.len(),
        decreases ee.len() - input.pos(),
//@ >>
//@ startloop 1 <<
            let ghost pi2 = input.pos();
            let ghost disp2 = computed_discard.items();
            proof { input.lemma_cursor_laws(); lemma_kvref(i, ee, pi2); }
//@ >>
//@ endloop 1 <<
            proof { assert(disp2 + (seq![ee[pi2]] + unmatched(ee, pi2 + 1, oo, oo.len() as int)) =~= disp2.push(ee[pi2]) + unmatched(ee, pi2 + 1, oo, oo.len() as int)); }
//@ >>
//@ before `if let Some(o) = output.key() {` <<
    proof { input.lemma_cursor_laws(); output.lemma_cursor_laws(); }
//@ >>
//@ afterloop 1 <<
    proof {
        input.lemma_cursor_laws();
        assert(input.pos() == ee.len());
        assert(unmatched(ee, input.pos(), oo, oo.len() as int) =~= Seq::<Ent>::empty());
        assert(computed_discard.items() + Seq::<Ent>::empty() =~= computed_discard.items());
        assert(computed_discard.items() == unmatched(ee, 0, oo, 0));
        assert(output.pos() == oo.len());
    }
//@ >>
//@ bodystart <<
    let ghost ee = input.ents();
    let ghost oo = output.ents();
    let ghost g0 = gc.rest();
//@ >>
//@ end

//@ min-verified 3
} // verus!
fn main() {}
