// Unit lsmtk_balance (C04): the setsum bookkeeping of every manifest transaction the store writes -- ingest (also the
// memtable flush and log recovery, which end in an ingest), compaction and garbage collection -- extracted from
// lsmtk/src/tree/mod.rs and lsmtk/src/kvs/mod.rs and proved against the rule the offline verifier checks
// (lsmtk/src/verifier.rs verify_one), for every tree, every set of inputs and outputs and every discard:
//     I = the output of the previous transaction,   I = O + D,   D = (sum of removed files) - (sum of added files),
//     O = the sum of the setsums of the files the manifest lists afterwards = the setsum of the installed version,
// so the assert_eq!s that guard the installed version cannot fire.
// The setsum group is abstract here: an abelian group (gadd, gneg, gzero) -- that the repository's Setsum with its
// `+`, `-`, `+=`, `-=`, default() IS one is proved in unit setsum (C14) on the real add_state / invert_state / operator impls.
// ASSUMED (stated as contracts of the stubs below): Manifest::apply applies the edit (removed strings leave the listed set,
// added ones enter it; a removed string was listed, an added one is new); Version::apply_compaction removes exactly the
// compaction's inputs and adds the outputs (the key-range surgery of apply_compaction_inner and the compaction picker
// that makes it valid are NOT under contract); the hex digest of a setsum names it (hexdigest / from_hexdigest inverse);
// file-system calls may fail or succeed arbitrarily.
use vstd::prelude::*;
verus! {
global size_of usize == 8;

// ---------------------------------------------------------------- the group
pub type G = Seq<u32>;
pub uninterp spec fn gadd(a: G, b: G) -> G;
pub uninterp spec fn gneg(a: G) -> G;
pub uninterp spec fn gzero() -> G;
pub open spec fn gsub(a: G, b: G) -> G { gadd(a, gneg(b)) }
// unit setsum: lemma_add_comm, lemma_add_assoc, lemma_add_zero, lemma_neg_inverse (canonical states; every Setsum is canonical)
#[verifier::external_body]
proof fn axiom_comm(a: G, b: G) ensures gadd(a, b) == gadd(b, a) { }
#[verifier::external_body]
proof fn axiom_assoc(a: G, b: G, c: G) ensures gadd(gadd(a, b), c) == gadd(a, gadd(b, c)) { }
#[verifier::external_body]
proof fn axiom_zero(a: G) ensures gadd(a, gzero()) == a { }
#[verifier::external_body]
proof fn axiom_inv(a: G) ensures gadd(a, gneg(a)) == gzero() { }

proof fn lemma_zero_left(a: G) ensures gadd(gzero(), a) == a { axiom_comm(gzero(), a); axiom_zero(a); }
// (a - d) + d == a
proof fn lemma_sub_add(a: G, d: G) ensures gadd(gsub(a, d), d) == a
{
    axiom_assoc(a, gneg(d), d); axiom_comm(gneg(d), d); axiom_inv(d); axiom_zero(a);
}
// (a + d) - d == a
proof fn lemma_add_sub(a: G, d: G) ensures gsub(gadd(a, d), d) == a
{
    axiom_assoc(a, d, gneg(d)); axiom_inv(d); axiom_zero(a);
}
// cancellation: a + c == b + c ==> a == b
proof fn lemma_cancel(a: G, b: G, c: G) requires gadd(a, c) == gadd(b, c) ensures a == b
{
    lemma_add_sub(a, c); lemma_add_sub(b, c);
}
// -(-s) == s
proof fn lemma_neg_neg(s: G) ensures gneg(gneg(s)) == s
{
    // -(-s) + (-s) == 0 == s + (-s)
    axiom_inv(gneg(s)); axiom_comm(gneg(s), gneg(gneg(s))); axiom_inv(s);
    lemma_cancel(gneg(gneg(s)), s, gneg(s));
}
// a - (0 - s) == a + s
proof fn lemma_sub_neg(a: G, s: G) ensures gsub(a, gsub(gzero(), s)) == gadd(a, s)
{
    lemma_zero_left(gneg(s)); lemma_neg_neg(s);
}
// -(a + b) == (-a) + (-b)
proof fn lemma_neg_add(a: G, b: G) ensures gneg(gadd(a, b)) == gadd(gneg(a), gneg(b))
{
    // ((-a) + (-b)) + (a + b) == 0 == -(a+b) + (a+b)
    let x = gadd(gneg(a), gneg(b));
    axiom_assoc(gneg(a), gneg(b), gadd(a, b));
    axiom_comm(a, b); axiom_assoc(gneg(b), b, a); axiom_comm(gneg(b), b); axiom_inv(b); lemma_zero_left(a);
    assert(gadd(gneg(b), gadd(b, a)) == a);
    axiom_comm(gneg(a), a); axiom_inv(a);
    assert(gadd(x, gadd(a, b)) == gzero());
    axiom_inv(gadd(a, b)); axiom_comm(gadd(a, b), gneg(gadd(a, b)));
    lemma_cancel(gneg(gadd(a, b)), x, gadd(a, b));
}
// inp == out + d  ==>  (tree - inp) + out == tree - d      (what a compaction does to the tree's setsum)
proof fn lemma_balance(tree: G, inp: G, out: G, d: G)
    requires inp == gadd(out, d)
    ensures gadd(gsub(tree, inp), out) == gsub(tree, d)
{
    lemma_neg_add(out, d);
    // tree + ((-out) + (-d)) + out
    axiom_assoc(tree, gadd(gneg(out), gneg(d)), out);
    axiom_comm(gneg(out), gneg(d));
    axiom_assoc(gneg(d), gneg(out), out);
    axiom_comm(gneg(out), out); axiom_inv(out); axiom_zero(gneg(d));
}
// inp == out + d  ==>  d == inp - out
proof fn lemma_discard(inp: G, out: G, d: G)
    requires inp == gadd(out, d)
    ensures d == gsub(inp, out)
{
    axiom_comm(out, d); lemma_add_sub(d, out);
}

pub open spec fn gsum(s: Seq<G>) -> G
    decreases s.len()
{
    if s.len() == 0 { gzero() } else { gadd(gsum(s.drop_last()), s.last()) }
}
proof fn lemma_gsum_push(s: Seq<G>, x: G) ensures gsum(s.push(x)) == gadd(gsum(s), x)
{
    assert(s.push(x).drop_last() =~= s);
}
proof fn lemma_gsum_concat(a: Seq<G>, b: Seq<G>) ensures gsum(a + b) == gadd(gsum(a), gsum(b))
    decreases b.len()
{
    if b.len() == 0 {
        assert(a + b =~= a); axiom_zero(gsum(a));
    } else {
        assert((a + b).drop_last() =~= a + b.drop_last());
        lemma_gsum_concat(a, b.drop_last());
        axiom_assoc(gsum(a), gsum(b.drop_last()), b.last());
    }
}
proof fn lemma_gsum_one(x: G) ensures gsum(seq![x]) == x
{
    lemma_gsum_push(Seq::<G>::empty(), x); assert(Seq::<G>::empty().push(x) =~= seq![x]); lemma_zero_left(x);
}

// ---------------------------------------------------------------- Setsum, as the store uses it
#[verifier::external_body]
#[derive(Clone, Copy)]
struct Setsum { _p: u8 }
pub uninterp spec fn of_digest(d: Seq<u8>) -> G;
impl Setsum {
    uninterp spec fn g(&self) -> G;
    #[verifier::external_body]
    fn default() -> (r: Setsum) ensures r.g() == gzero() { unimplemented!() }
    // `a + b`, `a += b` (a = a.add(b)), `a - b`, `a -= b`, `a == b` / `a != b`: the trait methods the operators stand for
    #[verifier::external_body]
    fn add(self, rhs: Setsum) -> (r: Setsum) ensures r.g() == gadd(self.g(), rhs.g()) { unimplemented!() }
    #[verifier::external_body]
    fn sub(self, rhs: Setsum) -> (r: Setsum) ensures r.g() == gsub(self.g(), rhs.g()) { unimplemented!() }
    #[verifier::external_body]
    fn eq(&self, rhs: &Setsum) -> (r: bool) ensures r == (self.g() == rhs.g()) { unimplemented!() }
    #[verifier::external_body]
    fn from_digest(digest: [u8; 32]) -> (r: Setsum) ensures r.g() == of_digest(digest@) { unimplemented!() }
}

#[verifier::external_body]
struct SError { _p: u8 }
#[verifier::external_body]
struct OtherMeta { _p: u8 }
// SstMetadata: only the setsum is looked at here
struct SstMetadata { setsum: [u8; 32], file_size: u64, rest: OtherMeta }
spec fn md_g(m: SstMetadata) -> G { of_digest(m.setsum@) }
spec fn mds_g(ms: Seq<SstMetadata>) -> Seq<G> { Seq::new(ms.len(), |i: int| md_g(ms[i])) }

// Level / Version: Arc<SstMetadata> is read as SstMetadata (the Arc is never looked through in any other way)
struct Level { ssts: Vec<SstMetadata> }
struct Version { levels: Vec<Level> }
spec fn level_sum(l: Level) -> G { gsum(mds_g(l.ssts@)) }
spec fn levels_sum(ls: Seq<Level>) -> G
    decreases ls.len()
{
    if ls.len() == 0 { gzero() } else { gadd(levels_sum(ls.drop_last()), level_sum(ls.last())) }
}
spec fn seq_g(s: Seq<Setsum>) -> Seq<G> { Seq::new(s.len(), |i: int| s[i].g()) }
// every file's setsum, level by level
spec fn flat(ls: Seq<Level>) -> Seq<G>
    decreases ls.len()
{
    if ls.len() == 0 { Seq::<G>::empty() } else { flat(ls.drop_last()) + mds_g(ls.last().ssts@) }
}
// the setsum of a version: the sum over every file of every level
spec fn tree_sum(v: Version) -> G { levels_sum(v.levels@) }

// one level gains x: the version gains x
proof fn lemma_levels_update(ls: Seq<Level>, k: int, l2: Level, x: G)
    requires 0 <= k < ls.len(), level_sum(l2) == gadd(level_sum(ls[k]), x)
    ensures levels_sum(ls.update(k, l2)) == gadd(levels_sum(ls), x)
    decreases ls.len()
{
    let u = ls.update(k, l2);
    if k == ls.len() - 1 {
        assert(u.drop_last() =~= ls.drop_last());
        axiom_assoc(levels_sum(ls.drop_last()), level_sum(ls[k]), x);
    } else {
        assert(u.drop_last() =~= ls.drop_last().update(k, l2));
        assert(u.last() == ls.last());
        lemma_levels_update(ls.drop_last(), k, l2, x);
        let s = levels_sum(ls.drop_last());
        axiom_assoc(s, x, level_sum(ls.last())); axiom_comm(x, level_sum(ls.last())); axiom_assoc(s, level_sum(ls.last()), x);
    }
}
proof fn lemma_level_push(l: Level, l2: Level, m: SstMetadata)
    requires l2.ssts@ == l.ssts@.push(m)
    ensures level_sum(l2) == gadd(level_sum(l), md_g(m))
{
    assert(mds_g(l2.ssts@) =~= mds_g(l.ssts@).push(md_g(m)));
    lemma_gsum_push(mds_g(l.ssts@), md_g(m));
}

// ---------------------------------------------------------------- manifest edits and the manifest
pub struct EditView { pub i: Option<G>, pub o: Option<G>, pub d: Option<G>, pub adds: Seq<G>, pub rms: Seq<G> }
#[verifier::external_body]
struct Edit { _p: u8 }
impl Edit {
    uninterp spec fn view(&self) -> EditView;
    #[verifier::external_body]
    fn default() -> (r: Edit)
        ensures r@ == (EditView { i: None, o: None, d: None, adds: Seq::empty(), rms: Seq::empty() }),
    { unimplemented!() }
    // edit.add(&s.hexdigest()) / edit.rm(&s.hexdigest()) / edit.info(c, &s.hexdigest()): the digest string names the setsum
    #[verifier::external_body]
    fn add_setsum(&mut self, s: Setsum) -> (r: Result<(), SError>)
        ensures r is Ok ==> final(self)@ == (EditView { adds: old(self)@.adds.push(s.g()), ..old(self)@ }),
    { unimplemented!() }
    #[verifier::external_body]
    fn rm_setsum(&mut self, s: Setsum) -> (r: Result<(), SError>)
        ensures r is Ok ==> final(self)@ == (EditView { rms: old(self)@.rms.push(s.g()), ..old(self)@ }),
    { unimplemented!() }
    #[verifier::external_body]
    fn info_setsum(&mut self, c: char, s: Setsum) -> (r: Result<(), SError>)
        ensures r is Ok ==> final(self)@ == (if c == 'I' { EditView { i: Some(s.g()), ..old(self)@ } } else if c == 'O' { EditView { o: Some(s.g()), ..old(self)@ } }
            else if c == 'D' { EditView { d: Some(s.g()), ..old(self)@ } } else { old(self)@ }),
    { unimplemented!() }
    // edit.info('L', &format!("{log_num}")): no setsum involved
    #[verifier::external_body]
    fn info_log(&mut self, log_num: u64) -> (r: Result<(), SError>)
        ensures r is Ok ==> final(self)@ == old(self)@,
    { unimplemented!() }
}
// what the offline verifier demands of a transaction that follows a state whose output setsum is `acc`
// (verify_one: inputs == acc, inputs == outputs + discard, discard == sum(rmed) - sum(added); then acc -= discard
// has to be the recorded output)
pub open spec fn vok(e: EditView, acc: G) -> bool {
    &&& e.i == Some(acc) && e.o is Some && e.d is Some
    &&& acc == gadd(e.o->Some_0, e.d->Some_0)
    &&& e.d->Some_0 == gsub(gsum(e.rms), gsum(e.adds))
    &&& e.o->Some_0 == gsub(acc, e.d->Some_0)
}
#[verifier::external_body]
struct Manifest { _p: u8 }
impl Manifest {
    // the 'O' info of the last transaction (zero for a fresh manifest), the sum of the setsums it lists, every edit applied
    uninterp spec fn o(&self) -> G;
    uninterp spec fn sum(&self) -> G;
    uninterp spec fn log(&self) -> Seq<EditView>;
    // ASSUMED: Manifest::apply (mani/src/lib.rs; files, CRC lines, rollover)
    #[verifier::external_body]
    fn apply(&mut self, edit: Edit) -> (r: Result<(), SError>)
        ensures r is Ok ==> final(self).log() == old(self).log().push(edit@)
                && final(self).o() == (if edit@.o is Some { edit@.o->Some_0 } else { old(self).o() })
                && final(self).sum() == gadd(gsub(old(self).sum(), gsum(edit@.rms)), gsum(edit@.adds)),
            r is Err ==> final(self).log() == old(self).log() && final(self).o() == old(self).o() && final(self).sum() == old(self).sum(),
    { unimplemented!() }
    // `mani.info(c).and_then(Setsum::from_hexdigest).unwrap_or_default()`: the 'O' info is the recorded output
    #[verifier::external_body]
    fn info_or_default(&self, c: char) -> (r: Setsum) ensures c == 'O' ==> r.g() == self.o() { unimplemented!() }
    // `mani.strs().any(|d| *d == setsum.hexdigest())`
    #[verifier::external_body]
    fn lists(&self, s: Setsum) -> (r: bool) { unimplemented!() }
}
// the manifest is balanced: its recorded output is the sum of what it lists
spec fn mok(m: Manifest) -> bool { m.sum() == m.o() }

// ---------------------------------------------------------------- Version
impl Version {
    #[verifier::external_body]
    fn clone(&self) -> (r: Version) ensures r == *self { unimplemented!() }

//@ extract lsmtk/src/tree/mod.rs | impl Version :: fn compute_setsum
//@ ret r
//@ rewrite X13 `for level in self.levels.iter() {` => `for li in 0..self.levels.len() { let level = &self.levels[li];`
//@ rewrite X13 `for file in level.ssts.iter() {` => `for fi in 0..level.ssts.len() { let file = &level.ssts[fi];`
//@ rewrite-re? X17 `\b(\w+) \+= (.+);` => `\1 = \1.add(\2);`
//@ rewrite-re? X17 `\b(\w+) -= (.+);` => `\1 = \1.sub(\2);`
//@ post <<
        r.g() == tree_sum(*self),
//@ >>
//@ loop 0 <<
            invariant acc.g() == levels_sum(self.levels@.take(li as int)), /* contract-inv */
//@ >>
//@ loop 1 <<
                invariant acc.g() == gadd(levels_sum(self.levels@.take(li as int)), gsum(mds_g(level.ssts@).take(fi as int))), /* contract-inv */
                    0 <= li < self.levels@.len(), *level == self.levels@[li as int],
//@ >>
//@ before `for fi in 0..level.ssts.len() {` <<
            proof { assert(mds_g(level.ssts@).take(0) =~= Seq::<G>::empty()); axiom_zero(acc.g()); }
//@ >>
//@ after `acc = acc.add(Setsum::from_digest(file.setsum));` <<
                proof {
                    let m = mds_g(level.ssts@);
                    assert(m.take(fi as int + 1) =~= m.take(fi as int).push(m[fi as int]));
                    lemma_gsum_push(m.take(fi as int), m[fi as int]);
                    axiom_assoc(levels_sum(self.levels@.take(li as int)), gsum(m.take(fi as int)), m[fi as int]);
                }
//@ >>
//@ afterloop 1 <<
            proof {
                let m = mds_g(level.ssts@);
                assert(m.take(m.len() as int) =~= m);
                assert(self.levels@.take(li as int + 1).drop_last() =~= self.levels@.take(li as int));
                assert(self.levels@.take(li as int + 1).last() == self.levels@[li as int]);
            }
//@ >>
//@ afterloop 0 <<
        proof { assert(self.levels@.take(self.levels@.len() as int) =~= self.levels@); }
//@ >>
//@ bodystart <<
        proof { assert(self.levels@.take(0) =~= Seq::<Level>::empty()); }
//@ >>
//@ end

    // Version::setsums (what explicit_ref / explicit_unref count references by, unit lsmtk_orphans): the setsum of every file
    // of every level, in order, each once per occurrence -- nothing skipped, nothing invented
//@ extract lsmtk/src/tree/mod.rs | impl Version :: fn setsums
//@ ret r
//@ rewrite X13 `for level in self.levels.iter() {` => `for li in 0..self.levels.len() { let level = &self.levels[li];`
//@ rewrite X13 `for md in level.ssts.iter() {` => `for fi in 0..level.ssts.len() { let md = &level.ssts[fi];`
//@ rewrite-re? X4 `let mut setsums = vec!\[\];` => `let mut setsums: Vec<Setsum> = Vec::new();`
//@ post <<
        seq_g(r@) == flat(self.levels@),
//@ >>
//@ bodystart <<
        proof { assert(self.levels@.take(0) =~= Seq::<Level>::empty()); assert(seq_g(Seq::<Setsum>::empty()) =~= Seq::<G>::empty()); }
//@ >>
//@ loop `for li in` <<
            invariant seq_g(setsums@) == flat(self.levels@.take(li as int)), /* contract-inv */
//@ >>
//@ loop `for fi in` <<
                invariant 0 <= li < self.levels@.len(), *level == self.levels@[li as int],
                    seq_g(setsums@) == flat(self.levels@.take(li as int)) + mds_g(level.ssts@).take(fi as int), /* contract-inv */
//@ >>
//@ before `for fi in` <<
            proof { assert(flat(self.levels@.take(li as int)) + mds_g(level.ssts@).take(0) =~= flat(self.levels@.take(li as int))); }
//@ >>
//@ startloop `for fi in` <<
                let ghost s0 = setsums@;
//@ >>
//@ endloop `for fi in` <<
                proof {
                    let m = mds_g(level.ssts@);
                    if setsums@.len() == s0.len() + 1 && setsums@.drop_last() =~= s0 && setsums@.last().g() == m[fi as int] {
                        assert(seq_g(setsums@) =~= seq_g(s0).push(m[fi as int]));
                        assert(m.take(fi as int + 1) =~= m.take(fi as int).push(m[fi as int]));
                        assert(flat(self.levels@.take(li as int)) + m.take(fi as int + 1) =~= (flat(self.levels@.take(li as int)) + m.take(fi as int)).push(m[fi as int]));
                    }
                }
//@ >>
//@ afterloop `for fi in` <<
            proof {
                let m = mds_g(level.ssts@);
                assert(m.take(m.len() as int) =~= m);
                assert(self.levels@.take(li as int + 1).drop_last() =~= self.levels@.take(li as int));
                assert(self.levels@.take(li as int + 1).last() == self.levels@[li as int]);
            }
//@ >>
//@ afterloop `for li in` <<
        proof { assert(self.levels@.take(self.levels@.len() as int) =~= self.levels@); }
//@ >>
//@ end

    // a new file enters level 0; everything else stays
//@ extract lsmtk/src/tree/mod.rs | impl Version :: fn ingest
//@ ret r
//@ rewrite X18 `Arc::new(to_add)` => `to_add`
//@ pre <<
        self.levels@.len() >= 1,
//@ >>
//@ post <<
        r is Ok ==> tree_sum(r->Ok_0) == gadd(tree_sum(*self), md_g(to_add)),
//@ >>
//@ before `Ok(new_tree)` <<
        proof {
            lemma_level_push(self.levels@[0], new_tree.levels@[0], to_add);
            assert(new_tree.levels@ =~= self.levels@.update(0, new_tree.levels@[0]));
            lemma_levels_update(self.levels@, 0, new_tree.levels@[0], md_g(to_add));
        }
//@ >>
//@ end
}

// ---------------------------------------------------------------- compactions
#[verifier::external_body]
struct Compaction { _p: u8 }
impl Compaction {
    // compaction.inputs(): the setsums of the files the compaction reads (core.inputs)
    uninterp spec fn inputs_g(&self) -> Seq<G>;
    #[verifier::external_body]
    fn inputs_len(&self) -> (r: usize) ensures r == self.inputs_g().len() { unimplemented!() }
    #[verifier::external_body]
    fn input(&self, idx: usize) -> (r: Setsum) requires idx < self.inputs_g().len() ensures r.g() == self.inputs_g()[idx as int] { unimplemented!() }
}
impl Version {
    // ASSUMED: Version::apply_compaction removes exactly the compaction's inputs and adds the outputs (the key-range
    // surgery of apply_compaction_inner and the picker that makes it valid are not under contract)
    #[verifier::external_body]
    fn apply_compaction(&self, compaction: Compaction, outputs: Vec<SstMetadata>) -> (r: Result<Version, SError>)
        ensures r is Ok ==> tree_sum(r->Ok_0) == gadd(gsub(tree_sum(*self), gsum(compaction.inputs_g())), gsum(mds_g(outputs@))),
    { unimplemented!() }
}

// the transaction of an ingest: from the snapshot's setsum to the installed version (the part of apply_manifest_ingest
// between taking the snapshot and install_version; the mutex, the stall loop and the notifications are dropped)
//@ extract lsmtk/src/tree/mod.rs | impl LsmTree :: fn apply_manifest_ingest
//@ region `let tree_setsum = version.compute_setsum();` ..; `assert!(tree_setsum.eq(&output_setsum));`
//@ region-sig <<
fn apply_manifest_ingest_core(version: &Version, mani: &mut Manifest, setsum: Setsum, mut mani_edit: Edit, new: SstMetadata) -> (r: Result<Version, SError>)
//@ >>
//@ region-tail <<
    Ok(new_version)
//@ >>
//@ rewrite X18 `version.version.` => `version.`
//@ rewrite-re? X17 `\b(\w+) - (\w+)\b` => `\1.sub(\2)`
//@ rewrite-re? X17 `\b(\w+) \+ (\w+)\b` => `\1.add(\2)`
//@ rewrite-re X7 `(\w+)\.info\('(\w)', &(\w+)\.hexdigest\(\)\)\?;` => `\1.info_setsum('\2', \3)?;`
//@ rewrite X7 `self.mani.write().unwrap().apply(mani_edit)?;` => `mani.apply(mani_edit)?;`
//@ rewrite X18 `let new_version = Arc::new(version.ingest(new)?);` => `let new_version = version.ingest(new)?;`
//@ rewrite-re X17 `assert_eq!\((\w+), (\w+)\);` => `assert!(\1.eq(&\2));`
//@ pre <<
        version.levels@.len() >= 1, mok(*old(mani)), tree_sum(*version) == old(mani).o(),
        setsum.g() == gsub(gzero(), md_g(new)),
        mani_edit@.adds == seq![md_g(new)], mani_edit@.rms == Seq::<G>::empty(),
//@ >>
//@ post <<
        r is Ok ==> mok(*final(mani)) && tree_sum(r->Ok_0) == final(mani).o()
            && final(mani).log().len() == old(mani).log().len() + 1 && final(mani).log().drop_last() == old(mani).log()
            && vok(final(mani).log().last(), old(mani).o()),
//@ >>
//@ before `mani.apply(mani_edit)?;` <<
    proof {
        let t = tree_sum(*version); let s = md_g(new);
        lemma_sub_neg(t, s);             // O = t - (0 - s) = t + s
        lemma_sub_add(t, setsum.g());    // I = O + D
        lemma_gsum_one(s);
        assert(gsum(Seq::<G>::empty()) == gzero());
        axiom_zero(old(mani).sum());     // sum - 0
        lemma_zero_left(gneg(gzero())); axiom_inv(gzero());
        assert(gneg(gzero()) == gzero());
        assert(old(mani).log().push(mani_edit@).drop_last() =~= old(mani).log());
    }
//@ >>
//@ end

// the transaction of a compaction or garbage collection
//@ extract lsmtk/src/tree/mod.rs | impl LsmTree :: fn apply_manifest_compaction
//@ region `let tree_setsum = version.compute_setsum();` ..; `assert!(tree_setsum.eq(&output_setsum));`
//@ region-sig <<
fn apply_manifest_compaction_core(version: &Version, mani: &mut Manifest, compaction: Compaction, discard_setsum: Setsum, mut mani_edit: Edit, outputs: Vec<SstMetadata>) -> (r: Result<Version, SError>)
//@ >>
//@ region-tail <<
    Ok(new_version)
//@ >>
//@ rewrite X18 `version.version.` => `version.`
//@ rewrite-re? X17 `\b(\w+) - (\w+)\b` => `\1.sub(\2)`
//@ rewrite-re? X17 `\b(\w+) \+ (\w+)\b` => `\1.add(\2)`
//@ rewrite-re X7 `(\w+)\.info\('(\w)', &(\w+)\.hexdigest\(\)\)\?;` => `\1.info_setsum('\2', \3)?;`
//@ rewrite X7 `self.mani.write().unwrap().apply(mani_edit)?;` => `mani.apply(mani_edit)?;`
//@ rewrite X18 `let new_version = Arc::new(version.apply_compaction(compaction, outputs)?);` => `let new_version = version.apply_compaction(compaction, outputs)?;`
//@ rewrite-re X17 `assert_eq!\((\w+), (\w+)\);` => `assert!(\1.eq(&\2));`
//@ pre <<
        mok(*old(mani)), tree_sum(*version) == old(mani).o(),
        mani_edit@.rms == compaction.inputs_g(), mani_edit@.adds == mds_g(outputs@),
        gsum(compaction.inputs_g()) == gadd(gsum(mds_g(outputs@)), discard_setsum.g()),
//@ >>
//@ post <<
        r is Ok ==> mok(*final(mani)) && tree_sum(r->Ok_0) == final(mani).o()
            && final(mani).log().len() == old(mani).log().len() + 1 && final(mani).log().drop_last() == old(mani).log()
            && vok(final(mani).log().last(), old(mani).o()),
//@ >>
//@ before `mani.apply(mani_edit)?;` <<
    proof {
        let t = tree_sum(*version); let d = discard_setsum.g();
        let inp = gsum(compaction.inputs_g()); let out = gsum(mds_g(outputs@));
        lemma_sub_add(t, d);             // I = O + D
        lemma_discard(inp, out, d);      // D = sum(rm) - sum(add)
        lemma_balance(t, inp, out, d);   // (t - inp) + out = t - d
        assert(old(mani).log().push(mani_edit@).drop_last() =~= old(mani).log());
    }
//@ >>
//@ end

// ---------------------------------------------------------------- the callers: what they hand to the transactions
#[verifier::external_body]
struct FileManager { _p: u8 }
#[verifier::external_body]
struct SstPath { _p: u8 }
#[verifier::external_body]
struct PathBuf { _p: u8 }
#[verifier::external_body]
struct Root { _p: u8 }
impl FileManager {
    // the metadata of a file: whatever its final block says
    #[verifier::external_body]
    fn stat(&self, path: &SstPath) -> (r: Result<SstMetadata, SError>) { unimplemented!() }
    #[verifier::external_body]
    fn stat_path(&self, path: &PathBuf) -> (r: Result<SstMetadata, SError>) { unimplemented!() }
}
impl PathBuf {
    #[verifier::external_body]
    fn exists(&self) -> (r: bool) { unimplemented!() }
}
#[verifier::external_body]
#[allow(non_snake_case)]
fn SST_FILE(root: &Root, setsum: Setsum) -> (r: PathBuf) ensures r == sst_path_of(*root, setsum.g()) { unimplemented!() }
// the path sst/<hexdigest>.sst under the root
uninterp spec fn sst_path_of(root: Root, g: G) -> PathBuf;
#[verifier::external_body]
fn duplicate_sst_err(target: &PathBuf) -> (r: SError) { unimplemented!() }
#[verifier::external_body]
fn hard_link_sst(from: &SstPath, to: PathBuf) -> (r: Result<(), SError>) { unimplemented!() }
// match hard_link(path, &new_path) { Ok | AlreadyExists => (), other errors => return }
#[verifier::external_body]
fn link_output(from: &PathBuf, to: &PathBuf) -> (r: Result<(), SError>) { unimplemented!() }
#[verifier::external_body]
fn balance_error(input_setsum: Setsum, output_setsum: Setsum, discard_setsum: Setsum) -> (r: SError) { unimplemented!() }

struct LsmTree { root: Root, file_manager: FileManager }
impl LsmTree {
    // apply_manifest_ingest: the contract of its region apply_manifest_ingest_core above, as far as the arguments go
    #[verifier::external_body]
    fn apply_manifest_ingest(&self, setsum: Setsum, mani_edit: Edit, new: SstMetadata) -> (r: Result<(), SError>)
        requires setsum.g() == gsub(gzero(), md_g(new)), mani_edit@.adds == seq![md_g(new)], mani_edit@.rms == Seq::<G>::empty(),
    { unimplemented!() }
    // apply_manifest_compaction: likewise
    #[verifier::external_body]
    fn apply_manifest_compaction(&self, compaction: Compaction, discard_setsum: Setsum, mani_edit: Edit, outputs: Vec<SstMetadata>) -> (r: Result<(), SError>)
        requires mani_edit@.rms == compaction.inputs_g(), mani_edit@.adds == mds_g(outputs@),
            gsum(compaction.inputs_g()) == gadd(gsum(mds_g(outputs@)), discard_setsum.g()),
    { unimplemented!() }

    // an ingest (external file, memtable flush, recovered log): the edit adds the file, the discard is minus its setsum
//@ extract lsmtk/src/tree/mod.rs | impl LsmTree :: fn _ingest
//@ ret r
//@ rewrite-re X4 `<P: AsRef<Path>>` => ``
//@ rewrite-re X4 `sst_path: P,` => `sst_path: &SstPath,`
//@ rewrite X7 `self.file_manager.stat(&sst_path)?` => `self.file_manager.stat(sst_path)?`
//@ rewrite-re? X17 `\b(\w+) \+= (.+);` => `\1 = \1.add(\2);`
//@ rewrite-re? X17 `\b(\w+) -= (.+);` => `\1 = \1.sub(\2);`
//@ rewrite X7 `return Err(duplicate_sst(target.to_string_lossy()));` => `return Err(duplicate_sst_err(&target));`
//@ rewrite X7 `hard_link(&sst_path, target)?;` => `hard_link_sst(sst_path, target)?;`
//@ rewrite-re X7 `(\w+)\.add\(&(\w+)\.hexdigest\(\)\)\?;` => `\1.add_setsum(\2)?;`
//@ rewrite X7 `edit.info('L', &format!("{log_num}"))?;` => `edit.info_log(log_num)?;`
//@ before `self.apply_manifest_ingest(acc, edit, metadata)?;` <<
        proof { lemma_gsum_one(setsum.g()); assert(Seq::<G>::empty().push(setsum.g()) =~= seq![setsum.g()]); }
//@ >>
//@ end
}

#[verifier::external_body]
struct Sst { _p: u8 }
#[verifier::external_body]
struct SstCursor { _p: u8 }
impl Sst {
    #[verifier::external_body]
    fn cursor(&self) -> (r: SstCursor) { unimplemented!() }
}
impl LsmTree {
    #[verifier::external_body]
    fn open_sst(&self, setsum: Setsum) -> (r: Result<Sst, SError>) { unimplemented!() }
}

// compaction_setup, up to the end of its loop: every input is removed by the edit, the returned setsum is their sum
//@ extract lsmtk/src/tree/mod.rs | impl LsmTree :: fn compaction_setup
//@ region `let mut cursors: Vec<SstCursor> = vec![];` .. `for idx in 0..compaction.inputs_len() {`
//@ region-sig <<
fn compaction_setup_sum(tree: &LsmTree, compaction: &Compaction, mani_edit: &mut Edit) -> (r: Result<(Setsum, Vec<SstCursor>), SError>)
//@ >>
//@ region-tail <<
    Ok((acc, cursors))
//@ >>
//@ rewrite X13 `for input in compaction.inputs() {` => `for idx in 0..compaction.inputs_len() { let input = compaction.input(idx);`
//@ rewrite-re X7 `(\w+)\.rm\(&(\w+)\.hexdigest\(\)\)\?;` => `\1.rm_setsum(\2)?;`
//@ rewrite-re X18 `\bself\.` => `tree.`
//@ rewrite-re? X17 `\b(\w+) \+= (.+);` => `\1 = \1.add(\2);`
//@ rewrite-re? X17 `\b(\w+) -= (.+);` => `\1 = \1.sub(\2);`
//@ post <<
        r is Ok ==> r->Ok_0.0.g() == gsum(compaction.inputs_g())
            && final(mani_edit)@ == (EditView { rms: old(mani_edit)@.rms + compaction.inputs_g(), ..old(mani_edit)@ }),
//@ >>
//@ loop 0 <<
        invariant acc.g() == gsum(compaction.inputs_g().take(idx as int)), /* contract-inv */
            mani_edit@ == (EditView { rms: old(mani_edit)@.rms + compaction.inputs_g().take(idx as int), ..old(mani_edit)@ }),
//@ >>
//@ before `for idx in 0..compaction.inputs_len() {` <<
    proof { assert(compaction.inputs_g().take(0) =~= Seq::<G>::empty()); assert(old(mani_edit)@.rms + Seq::<G>::empty() =~= old(mani_edit)@.rms); }
//@ >>
//@ endloop 0 <<
        proof {
            let inp = compaction.inputs_g();
            assert(inp.take(idx as int + 1) =~= inp.take(idx as int).push(inp[idx as int]));
            lemma_gsum_push(inp.take(idx as int), inp[idx as int]);
            assert(old(mani_edit)@.rms + inp.take(idx as int + 1) =~= (old(mani_edit)@.rms + inp.take(idx as int)).push(inp[idx as int]));
        }
//@ >>
//@ afterloop 0 <<
    proof { assert(compaction.inputs_g().take(compaction.inputs_g().len() as int) =~= compaction.inputs_g()); }
//@ >>
//@ end

// compaction_finish, up to the manifest transaction: every output is added by the edit, and the transaction is entered
// only when input = output + discard
//@ extract lsmtk/src/tree/mod.rs | impl LsmTree :: fn compaction_finish
//@ region `let mut outputs = vec![];` ..; `let ret = tree.apply_manifest_compaction(`
//@ region-sig <<
fn compaction_finish_core(tree: &LsmTree, compaction: Compaction, paths: &Vec<PathBuf>, input_setsum: Setsum, discard_setsum: Setsum, mut mani_edit: Edit) -> (r: Result<(), SError>)
//@ >>
//@ region-tail <<
    ret
//@ >>
//@ rewrite X13 `for path in paths.iter() {` => `for idx in 0..paths.len() { let path = &paths[idx];`
//@ rewrite X7 `self.file_manager.stat(path)?` => `self.file_manager.stat_path(path)?`
//@ rewrite-re X18 `\bself\.` => `tree.`
//@ rewrite-re X7 `(\w+)\.add\(&(\w+)\.hexdigest\(\)\)\?;` => `\1.add_setsum(\2)?;`
//@ rewrite-re X7 `(?s)match hard_link\(path, &new_path\) \{.*?\n            \};` => `link_output(path, &new_path)?;`
//@ rewrite-re X7 `(?s)return Err\(\s*corruption\("setsum does not balance.*?\);` => `return Err(balance_error(input_setsum, output_setsum, discard_setsum));`
//@ rewrite-re? X17 `\b(\w+) \+= (.+);` => `\1 = \1.add(\2);`
//@ rewrite-re? X17 `\b(\w+) -= (.+);` => `\1 = \1.sub(\2);`
//@ rewrite-re? X17 `\b(\w+) - (\w+)\b` => `\1.sub(\2)`
//@ rewrite-re? X17 `\b(\w+) \+ (\w+)\b` => `\1.add(\2)`
//@ rewrite-re? X17 `if (\w+) != ([\w.()]+) \{` => `if !\1.eq(&\2) {`
//@ rewrite-re? X17 `if (\w+) == ([\w.()]+) \{` => `if \1.eq(&\2) {`
//@ pre <<
        input_setsum.g() == gsum(compaction.inputs_g()),
        mani_edit@.rms == compaction.inputs_g(), mani_edit@.adds == Seq::<G>::empty(),
//@ >>
//@ loop 0 <<
        invariant output_setsum.g() == gsum(mds_g(outputs@)), idx <= paths@.len(), /* contract-inv */
            mani_edit@.rms == compaction.inputs_g(), mani_edit@.adds == mds_g(outputs@),
//@ >>
//@ before `for idx in 0..paths.len() {` <<
    proof { assert(mds_g(outputs@) =~= Seq::<G>::empty()); }
//@ >>
//@ before `outputs.push(metadata);` <<
            let ghost o0 = outputs@;
//@ >>
//@ after `outputs.push(metadata);` <<
            proof {
                assert(mds_g(outputs@) =~= mds_g(o0).push(md_g(metadata)));
                lemma_gsum_push(mds_g(o0), md_g(metadata));
            }
//@ >>
//@ end

// log recovery (KeyValueStore::recover_one): the sst made from a leftover log enters the manifest unless it is listed
//@ extract lsmtk/src/kvs/mod.rs | impl KeyValueStore :: fn recover_one
//@ region `if !mani.lists(setsum) {`
//@ region-sig <<
fn recover_apply(mani: &mut Manifest, setsum: Setsum) -> (r: Result<(), SError>)
//@ >>
//@ region-tail <<
    Ok(())
//@ >>
//@ rewrite X7 `if !mani.strs().any(|d| *d == setsum.hexdigest()) {` => `if !mani.lists(setsum) {`
//@ rewrite-re X7 `mani\s*\.info\('(\w)'\)\s*\.and_then\(Setsum::from_hexdigest\)\s*\.unwrap_or_default\(\)` => `mani.info_or_default('\1')`
//@ rewrite-re? X17 `Setsum::default\(\) - (\w+)\b` => `Setsum::default().sub(\1)`
//@ rewrite-re? X17 `Setsum::default\(\) \+ (\w+)\b` => `Setsum::default().add(\1)`
//@ rewrite-re? X17 `\b(\w+) - (\w+)\b` => `\1.sub(\2)`
//@ rewrite-re? X17 `\b(\w+) \+ (\w+)\b` => `\1.add(\2)`
//@ rewrite-re X7 `(\w+)\.info\('(\w)', &(\w+)\.hexdigest\(\)\)\?;` => `\1.info_setsum('\2', \3)?;`
//@ rewrite-re X7 `(\w+)\.add\(&(\w+)\.hexdigest\(\)\)\?;` => `\1.add_setsum(\2)?;`
//@ pre <<
        mok(*old(mani)),
//@ >>
//@ post <<
        r is Ok ==> mok(*final(mani)) && (final(mani).log() == old(mani).log() && final(mani).o() == old(mani).o()
            || final(mani).log().len() == old(mani).log().len() + 1 && final(mani).log().drop_last() == old(mani).log()
                && vok(final(mani).log().last(), old(mani).o()) && final(mani).log().last().adds == seq![setsum.g()]
                && final(mani).o() == gadd(old(mani).o(), setsum.g())),
//@ >>
//@ before `mani.apply(edit)?;` <<
            proof {
                let t = old(mani).o(); let s = setsum.g();
                lemma_sub_neg(t, s);
                lemma_sub_add(t, gsub(gzero(), s));
                lemma_gsum_one(s);
                assert(Seq::<G>::empty().push(s) =~= seq![s]);
                assert(gsum(Seq::<G>::empty()) == gzero());
                axiom_zero(old(mani).sum());
                lemma_zero_left(gneg(gzero())); axiom_inv(gzero());
                assert(old(mani).log().push(edit@).drop_last() =~= old(mani).log());
            }
//@ >>
//@ end

// opening (LsmTree::open): a manifest that has no 'I' info yet gets the initial transaction I = D = O = 0, which the offline
// verifier accepts from the zero state and which lists nothing
#[verifier::external_body]
fn open_mismatch_error(tree: Setsum, mani: Setsum) -> (r: SError) { unimplemented!() }
impl Manifest {
    // `mani.info('I').is_none()`.  ASSUMED: a manifest without an 'I' info has had no transaction applied -- every
    // transaction the store writes carries one -- so it lists nothing and its recorded output is zero
    #[verifier::external_body]
    fn has_no_input_info(&self) -> (r: bool)
        ensures r ==> self.log().len() == 0 && self.sum() == gzero() && self.o() == gzero(),
    { unimplemented!() }
}
//@ extract lsmtk/src/tree/mod.rs | impl LsmTree :: fn open
//@ region `if mani.has_no_input_info() {`
//@ region-sig <<
fn open_init(mani: &mut Manifest) -> (r: Result<(), SError>)
//@ >>
//@ region-tail <<
    Ok(())
//@ >>
//@ rewrite-re X7 `mani\.info\('I'\)\.is_none\(\)` => `mani.has_no_input_info()`
//@ rewrite-re X7 `(\w+)\.info\('(\w)', &Setsum::default\(\)\.hexdigest\(\)\)\?;` => `\1.info_setsum('\2', Setsum::default())?;`
//@ pre <<
        mok(*old(mani)),
//@ >>
//@ post <<
        r is Ok ==> mok(*final(mani)) && (final(mani).log() == old(mani).log() && final(mani).o() == old(mani).o()
            || final(mani).log() == seq![final(mani).log().last()] && old(mani).log().len() == 0
                && vok(final(mani).log().last(), gzero()) && final(mani).log().last().adds.len() == 0 && final(mani).log().last().rms.len() == 0
                && final(mani).o() == gzero()),
//@ >>
//@ before `mani.apply(edit)?;` <<
            proof {
                assert(gsum(Seq::<G>::empty()) == gzero());
                axiom_zero(gzero()); axiom_inv(gzero()); lemma_zero_left(gneg(gzero()));
                assert(old(mani).log().push(edit@) =~= seq![edit@]);
            }
//@ >>
//@ end

// opening (LsmTree::list_ssts_from_manifest): one metadata record per string the manifest lists, in order, each read from the
// file stored under that string's setsum; a listed string that is not a setsum, or a file that cannot be opened, is an error
#[verifier::external_body]
struct Hex { _p: u8 }
uninterp spec fn parse_hex(h: Hex) -> Option<G>;
// what the final block of the file at a path says
uninterp spec fn md_at(p: PathBuf) -> SstMetadata;
#[verifier::external_body]
struct FileHandle { _p: u8 }
impl FileHandle { uninterp spec fn path(&self) -> PathBuf; }
impl Sst { uninterp spec fn path(&self) -> PathBuf; }
// Setsum::from_hexdigest(h).ok_or_else(|| corruption("setsum invalid")..)
#[verifier::external_body]
fn parse_setsum(h: &Hex) -> (r: Result<Setsum, SError>)
    ensures r is Ok <==> parse_hex(*h) is Some, r is Ok ==> r->Ok_0.g() == parse_hex(*h)->Some_0,
{ unimplemented!() }
impl Manifest {
    uninterp spec fn strs(&self) -> Seq<Hex>;
    #[verifier::external_body]
    fn strs_len(&self) -> (r: usize) ensures r == self.strs().len() { unimplemented!() }
    #[verifier::external_body]
    fn str_at(&self, i: usize) -> (r: &Hex) requires i < self.strs().len() ensures *r == self.strs()[i as int] { unimplemented!() }
}
impl FileManager {
    #[verifier::external_body]
    fn open(&self, path: &PathBuf) -> (r: Result<FileHandle, SError>) ensures r is Ok ==> r->Ok_0.path() == *path { unimplemented!() }
}
impl Sst {
    #[verifier::external_body]
    fn from_file_handle(f: FileHandle) -> (r: Result<Sst, SError>) ensures r is Ok ==> r->Ok_0.path() == f.path() { unimplemented!() }
    #[verifier::external_body]
    // Sst::metadata, as this function uses it (the other stub of the same method further down speaks about the setsum only)
    fn metadata_of_file(&self) -> (r: Result<SstMetadata, SError>) ensures r is Ok ==> r->Ok_0 == md_at(self.path()) { unimplemented!() }
}
// the HashSet<Setsum> the function fills and never reads
#[verifier::external_body]
struct SetsumSet { _p: u8 }
impl SetsumSet {
    #[verifier::external_body]
    fn new() -> (r: SetsumSet) { unimplemented!() }
    #[verifier::external_body]
    fn insert(&mut self, s: Setsum) -> (r: bool) { unimplemented!() }
}
impl LsmTree {
//@ extract lsmtk/src/tree/mod.rs | impl LsmTree :: fn list_ssts_from_manifest
//@ ret r
//@ rewrite-re X4 `<P: AsRef<Path>>` => ``
//@ rewrite-re X4 `root: P,` => `root: &Root,`
//@ rewrite X13 `for hexdigest in mani.strs() {` => `for si in 0..mani.strs_len() { let hexdigest = mani.str_at(si);`
//@ rewrite-re X7 `(?s)Setsum::from_hexdigest\(hexdigest\)\.ok_or_else\(\|\| \{.*?\}\)\?;` => `parse_setsum(hexdigest)?;`
//@ rewrite-re X7 `SST_FILE\(&root, ` => `SST_FILE(root, `
//@ rewrite-re X7 `\bsst\.metadata\(\)` => `sst.metadata_of_file()`
//@ rewrite-re? X4 `let mut metadata = vec!\[\];` => `let mut metadata: Vec<SstMetadata> = Vec::new();`
//@ rewrite-re? X12 `HashSet::new\(\)` => `SetsumSet::new()`
//@ post <<
        r is Ok ==> r->Ok_0@.len() == mani.strs().len()
            && forall|i: int| 0 <= i < mani.strs().len() ==> parse_hex(#[trigger] mani.strs()[i]) is Some
                && r->Ok_0@[i] == md_at(sst_path_of(*root, parse_hex(mani.strs()[i])->Some_0)),
//@ >>
//@ loop `for si in` <<
        invariant metadata@.len() == si, /* contract-inv */
            forall|i: int| 0 <= i < si ==> parse_hex(#[trigger] mani.strs()[i]) is Some /* contract-inv */
                && metadata@[i] == md_at(sst_path_of(*root, parse_hex(mani.strs()[i])->Some_0)), /* contract-inv */
//@ >>
//@ end
}

// opening (tree::recover, the function behind Version::open): the region that places the metadata records into levels -- from
// `let mut levels = vec![Level::default(); NUM_LEVELS]` to the end of the zip loop.  Every record goes into exactly one
// level: the setsum of the levels is the sum of the records' setsums (with list_ssts_from_manifest: of the files the
// manifest lists).  `vec![x; n]` is read as the verified loop empty_levels; `zip(vertices, metadata)` over two vectors
// of the same length as an index loop, the record moved out of the vector read through take_md (X27); Arc::new(m) as m.
// The level numbers come from the SCC pass above the region (not under contract): that each is below NUM_LEVELS is the
// region's precondition (the real code would panic on the index otherwise).  The sorts that follow permute each level.
//@ extract lsmtk/src/tree/mod.rs | const NUM_LEVELS
//@ end
struct Vertex { level: usize, color: usize, peers: usize, bytes_within_color: u64 }
#[verifier::external_body]
fn take_md(v: &Vec<SstMetadata>, i: usize) -> (r: SstMetadata) requires i < v@.len() ensures r == v@[i as int] { unimplemented!() }
fn min_usize(a: usize, b: usize) -> (r: usize) ensures r == (if a <= b { a } else { b }) { if a <= b { a } else { b } }
proof fn lemma_empty_levels(ls: Seq<Level>)
    requires forall|i: int| 0 <= i < ls.len() ==> (#[trigger] ls[i]).ssts@.len() == 0
    ensures levels_sum(ls) == gzero()
    decreases ls.len()
{
    if ls.len() > 0 {
        lemma_empty_levels(ls.drop_last());
        assert(mds_g(ls.last().ssts@) =~= Seq::<G>::empty());
        axiom_zero(gzero());
    }
}
fn empty_levels(n: usize) -> (r: Vec<Level>)
    ensures r@.len() == n, forall|i: int| 0 <= i < n ==> (#[trigger] r@[i]).ssts@.len() == 0
{
    let mut v: Vec<Level> = Vec::new();
    let mut i: usize = 0;
    while i < n
        invariant i <= n, v@.len() == i, forall|k: int| 0 <= k < i ==> (#[trigger] v@[k]).ssts@.len() == 0
        decreases n - i
    {
        v.push(Level { ssts: Vec::new() });
        i += 1;
    }
    v
}
//@ extract lsmtk/src/tree/recover.rs | fn recover
//@ region `let mut levels = empty_levels(NUM_LEVELS);` .. `for zi in`
//@ region-sig <<
fn recover_place(vertices: Vec<Vertex>, metadata: Vec<SstMetadata>) -> (levels: Vec<Level>)
//@ >>
//@ region-tail <<
    levels
//@ >>
//@ rewrite-re X28 `vec!\[Level::default\(\); NUM_LEVELS\]` => `empty_levels(NUM_LEVELS)`
//@ rewrite-re X27 `for \(v, m\) in std::iter::zip\(vertices, metadata\) \{` => `let zn = min_usize(vertices.len(), metadata.len()); for zi in 0..zn { let v = &vertices[zi]; let m = take_md(&metadata, zi);`
//@ rewrite-re? X18 `\bArc::new\(` => `(`
//@ pre <<
        vertices@.len() == metadata@.len(),
        forall|i: int| 0 <= i < vertices@.len() ==> (#[trigger] vertices@[i]).level < NUM_LEVELS,
//@ >>
//@ post <<
        levels@.len() == NUM_LEVELS,
        levels_sum(levels@) == gsum(mds_g(metadata@)),
//@ >>
//@ before `let zn = min_usize(` <<
    proof { lemma_empty_levels(levels@); assert(mds_g(metadata@).take(0) =~= Seq::<G>::empty()); }
//@ >>
//@ loop `for zi in` <<
        invariant zn == metadata@.len(), zn == vertices@.len(), levels@.len() == NUM_LEVELS,
            forall|i: int| 0 <= i < vertices@.len() ==> (#[trigger] vertices@[i]).level < NUM_LEVELS,
            levels_sum(levels@) == gsum(mds_g(metadata@).take(zi as int)), /* contract-inv */
//@ >>
//@ startloop `for zi in` <<
        let ghost before = levels@;
//@ >>
//@ endloop `for zi in` <<
        proof {
            let k = v.level as int;
            // (guarded: a body that does something else with the record fails the invariant, not these calls)
            if levels@.len() == before.len() && levels@[k].ssts@ == before[k].ssts@.push(m) && levels@ =~= before.update(k, levels@[k]) {
                lemma_level_push(before[k], levels@[k], m);
                lemma_levels_update(before, k, levels@[k], md_g(m));
            }
            let g = mds_g(metadata@);
            assert(g.take(zi as int + 1) =~= g.take(zi as int).push(g[zi as int]));
            lemma_gsum_push(g.take(zi as int), g[zi as int]);
        }
//@ >>
//@ afterloop `for zi in` <<
    proof { assert(mds_g(metadata@).take(metadata@.len() as int) =~= mds_g(metadata@)); }
//@ >>
//@ end

// the region of tree::recover just above: levels are shifted down so that the deepest is NUM_LEVELS - 1 -- it establishes
// the precondition of recover_place whatever the SCC pass computed.  `vertices.iter().map(|x| x.level).max()` is read
// through a stub (an upper bound of every vertex's level, None for no vertices); iter_mut as an index loop (X13).
#[verifier::external_body]
fn max_level_of(vertices: &Vec<Vertex>) -> (r: Option<usize>)
    ensures vertices@.len() == 0 <==> r is None,
        r is Some ==> forall|i: int| 0 <= i < vertices@.len() ==> (#[trigger] vertices@[i]).level <= r->Some_0,
        r is Some ==> exists|i: int| 0 <= i < vertices@.len() && (#[trigger] vertices@[i]).level == r->Some_0,
{ unimplemented!() }
// a Vec of a 32-byte type holds fewer than 2^58 elements (its allocation is at most isize::MAX bytes)
#[verifier::external_body]
proof fn axiom_vertices_len(v: &Vec<Vertex>) ensures v@.len() < 0x0400_0000_0000_0000 { }
//@ extract lsmtk/src/tree/recover.rs | fn recover
//@ region `let max_level = max_level_of(&vertices)` .. `if max_level`
//@ region-sig <<
#[verifier::loop_isolation(false)]
fn recover_shift(vertices: &mut Vec<Vertex>)
//@ >>
//@ region-tail <<
//@ >>
//@ rewrite-re X7 `(?s)let max_level = vertices\s*\.iter\(\)\s*\.map\(\|x\| x\.level\)\s*\.max\(\)` => `let max_level = max_level_of(&vertices)`
//@ rewrite-re X13 `for v in vertices\.iter_mut\(\) \{` => `for vi in 0..vertices.len() {`
//@ rewrite-re X13 `\bv\.level\b` => `vertices[vi].level`
//@ pre <<
        // what the passes above leave: a level is the initial value `len` or a depth in the component graph
        forall|i: int| 0 <= i < old(vertices)@.len() ==> (#[trigger] old(vertices)@[i]).level <= old(vertices)@.len(),
//@ >>
//@ post <<
        final(vertices)@.len() == old(vertices)@.len(),
        forall|i: int| 0 <= i < final(vertices)@.len() ==> (#[trigger] final(vertices)@[i]).level < NUM_LEVELS,
//@ >>
//@ bodystart <<
    proof { axiom_vertices_len(vertices); }
//@ >>
//@ loop? `for vi in` <<
            invariant vertices@.len() == old(vertices)@.len(),
                forall|i: int| 0 <= i < vi ==> (#[trigger] vertices@[i]).level < NUM_LEVELS, /* contract-inv */
                forall|i: int| vi <= i < vertices@.len() ==> (#[trigger] vertices@[i]).level <= max_level,
//@ >>
//@ end

// opening (LsmTree::from_manifest), from listing the files to the comparison: the store opens only if the setsums recorded in
// the files the manifest lists sum to the manifest's recorded output.  list_ssts_from_manifest is the function proved
// above (the call sees its contract); Version::open (= tree::recover) through `the version's setsum is the sum of the records it was
// given` -- proved for recover's placing step (recover_place above), ASSUMED for the function as a whole (its graph pass
// decides levels only; the two sorts after the placing step permute each level); compute_setsum and the comparison are
// the real text (the digest strings compared name the setsums); Mutex / RwLock / Arc are read through (X23, X18).
#[verifier::external_body]
struct LsmtkOptions { _p: u8 }
impl LsmtkOptions {
    #[verifier::external_body]
    fn clone(&self) -> (r: LsmtkOptions) { unimplemented!() }
}
// what list_ssts_from_manifest returns for this manifest under this root (its postcondition, as a spec function)
spec fn listed_records(root: Root, mani: Manifest, md: Seq<SstMetadata>) -> bool {
    md.len() == mani.strs().len()
        && forall|i: int| 0 <= i < mani.strs().len() ==> parse_hex(#[trigger] mani.strs()[i]) is Some
            && md[i] == md_at(sst_path_of(root, parse_hex(mani.strs()[i])->Some_0))
}
#[verifier::external_body]
fn version_open(options: LsmtkOptions, metadata: Vec<SstMetadata>) -> (r: Result<Version, SError>)
    ensures r is Ok ==> tree_sum(r->Ok_0) == gsum(mds_g(metadata@)),
{ unimplemented!() }
//@ extract lsmtk/src/tree/mod.rs | impl LsmTree :: fn from_manifest
//@ region `let metadata = LsmTree::list_ssts_from_manifest(` .. `if `
//@ region-sig <<
fn open_check(options: &LsmtkOptions, root: &Root, mani: &Manifest, file_manager: &FileManager) -> (r: Result<Version, SError>)
//@ >>
//@ region-tail <<
    Ok(version)
//@ >>
//@ rewrite-re X23 `Self::list_ssts_from_manifest\(&root, &mani\.read\(\)\.unwrap\(\), &file_manager\)` => `LsmTree::list_ssts_from_manifest(root, mani, file_manager)`
//@ rewrite-re X23 `let version = Mutex::new\(Arc::new\(Version::open\((.*?)\)\?\)\);` => `let version = version_open(\1)?;`
//@ rewrite-re? X4 `\bvec!\[\]` => `Vec::new()`
//@ rewrite-re? X23 `(?m)^\s*let compaction = Mutex::new\(\(\)\);\n` => ``
//@ rewrite-re X23 `version\.lock\(\)\.unwrap\(\)\.compute_setsum\(\)\.hexdigest\(\)` => `version.compute_setsum()`
//@ rewrite-re X7 `(?s)mani\s*\.read\(\)\s*\.unwrap\(\)\s*\.info\('(\w)'\)\s*\.map\(\|s\| s\.to_string\(\)\)\s*\.unwrap_or\(Setsum::default\(\)\.hexdigest\(\)\)` => `mani.info_or_default('\1')`
//@ rewrite-re? X17 `\b(\w+_setsum) != (\w+_setsum)\b` => `!\1.eq(&\2)`
//@ rewrite-re? X17 `\b(\w+_setsum) == (\w+_setsum)\b` => `\1.eq(&\2)`
//@ rewrite-re X7 `(?s)return Err\(\s*corruption\("setsum of tree does not match setsum of manifest"\).*?\);` => `return Err(open_mismatch_error(version_setsum, mani_setsum));`
//@ post <<
        // the store opens only on a tree whose setsum is the manifest's recorded output, and that tree holds the records of
        // exactly the files the manifest lists
        r is Ok ==> tree_sum(r->Ok_0) == mani.o()
            && exists|md: Seq<SstMetadata>| listed_records(*root, *mani, md) && #[trigger] gsum(mds_g(md)) == mani.o(),
//@ >>
//@ end

// ---------------------------------------------------------------- the offline verifier: what it accepts
// verify_one (lsmtk/src/verifier.rs) walks one manifest fragment; Ok means every transaction after the first satisfies
// vok against the running setsum -- so a fragment in which one transaction's added, removed or discarded data was
// altered is rejected, and (with the transaction contracts above) every transaction the store writes is accepted.
impl Edit {
    // setsum_from_info(c, edit.get_info(c)): the info must be present and a digest
    #[verifier::external_body]
    fn get_setsum(&self, c: char) -> (r: Result<Setsum, SError>)
        ensures r is Ok ==> (c == 'I' ==> self@.i == Some(r->Ok_0.g())) && (c == 'O' ==> self@.o == Some(r->Ok_0.g())) && (c == 'D' ==> self@.d == Some(r->Ok_0.g())),
    { unimplemented!() }
    #[verifier::external_body]
    fn added_len(&self) -> (r: usize) ensures r == self@.adds.len() { unimplemented!() }
    // Setsum::from_hexdigest(added).ok_or_else(..): the i-th added string as a setsum
    #[verifier::external_body]
    fn added_at(&self, i: usize) -> (r: Result<Setsum, SError>) requires i < self@.adds.len() ensures r is Ok ==> r->Ok_0.g() == self@.adds[i as int] { unimplemented!() }
    #[verifier::external_body]
    fn rmed_len(&self) -> (r: usize) ensures r == self@.rms.len() { unimplemented!() }
    #[verifier::external_body]
    fn rmed_at(&self, i: usize) -> (r: Result<Setsum, SError>) requires i < self@.rms.len() ensures r is Ok ==> r->Ok_0.g() == self@.rms[i as int] { unimplemented!() }
    // the 'L' info, parsed and pushed when present
    #[verifier::external_body]
    fn collect_log(&self, logs: &mut Vec<u64>) -> (r: Result<(), SError>) { unimplemented!() }
}
#[verifier::external_body]
struct ManifestIterator { _p: u8 }
pub uninterp spec fn fragment_edits(entry: &PathBuf) -> Seq<EditView>;
impl ManifestIterator {
    uninterp spec fn edits(&self) -> Seq<EditView>;
    #[verifier::external_body]
    fn open(entry: &PathBuf) -> (r: Result<ManifestIterator, SError>) ensures r is Ok ==> r->Ok_0.edits() == fragment_edits(entry) { unimplemented!() }
    #[verifier::external_body]
    fn len(&self) -> (r: usize) ensures r == self.edits().len() { unimplemented!() }
    // the i-th item of the iterator (reading may fail)
    #[verifier::external_body]
    fn take(&self, i: usize) -> (r: Result<Edit, SError>) requires i < self.edits().len() ensures r is Ok ==> r->Ok_0@ == self.edits()[i as int] { unimplemented!() }
}
#[verifier::external_body]
fn verify_error() -> (r: SError) { unimplemented!() }
#[verifier::external_body]
fn opt_setsum_is(lo: Option<Setsum>, acc: Setsum) -> (r: bool) ensures r == (lo is Some && lo->Some_0.g() == acc.g()) { unimplemented!() }
#[verifier::external_body]
struct LsmVerifier { _p: u8 }

// discard as the verifier recomputes it, and the running setsum after k edits of a fragment entered with acc
pub open spec fn cdisc(e: EditView) -> G { gsub(gsum(e.rms), gsum(e.adds)) }
pub open spec fn acc_at(evs: Seq<EditView>, acc: G, k: int) -> G
    decreases k
{
    if k <= 1 { acc } else { gsub(acc_at(evs, acc, k - 1), cdisc(evs[k - 1])) }
}
// (0 - S) - x == 0 - (S + x)
proof fn lemma_sub_step(sm: G, x: G) ensures gsub(gsub(gzero(), sm), x) == gsub(gzero(), gadd(sm, x))
{
    lemma_neg_add(sm, x); axiom_assoc(gzero(), gneg(sm), gneg(x));
}
// (0 - A) + R == R - A
proof fn lemma_cdisc(a: G, r: G) ensures gadd(gsub(gzero(), a), r) == gsub(r, a)
{
    lemma_zero_left(gneg(a)); axiom_comm(gneg(a), r);
}
// acc == o + d  ==>  o == acc - d
proof fn lemma_out(acc: G, o: G, d: G) requires acc == gadd(o, d) ensures o == gsub(acc, d) { lemma_add_sub(o, d); }

impl LsmVerifier {
    #[verifier::external_body]
    fn verify_gc(&self, edit: &Edit, discard: Setsum) -> (r: Result<(), SError>) { unimplemented!() }

//@ extract lsmtk/src/verifier.rs | impl LsmVerifier :: fn verify_one
//@ ret r
//@ rewrite X13 `for edit in mani_iter {` => `for ei in 0..mani_iter.len() { let edit = mani_iter.take(ei);`
//@ rewrite-re X7 `setsum_from_info\('(\w)', edit\.get_info\('\w'\)\)\?` => `edit.get_setsum('\1')?`
//@ rewrite-re X7 `(?s)let err = corruption\(.*?;\s*return Err\(err\);` => `return Err(verify_error());`
//@ rewrite-re X7 `(?s)return Err\(corruption\(format!\(.*?\)\)\);` => `return Err(verify_error());`
//@ rewrite-re X7 `(?s)if let Some\(log_num\) = edit\.get_info\('L'\) \{.*?\n {16}\}` => `edit.collect_log(&mut logs_to_remove)?;`
//@ rewrite X13 `for added in edit.added() {` => `for ai in 0..edit.added_len() {`
//@ rewrite-re X7 `let setsum = Setsum::from_hexdigest\(added\)\s*\.ok_or_else\(\|\| corruption\(format!\("manifest added has bad digest: \{added\}"\)\)\)\?;` => `let setsum = edit.added_at(ai)?;`
//@ rewrite X13 `for rmed in edit.rmed() {` => `for ri in 0..edit.rmed_len() {`
//@ rewrite-re X7 `let setsum = Setsum::from_hexdigest\(rmed\)\s*\.ok_or_else\(\|\| corruption\(format!\("manifest rmed has bad digest: \{rmed\}"\)\)\)\?;` => `let setsum = edit.rmed_at(ri)?;`
//@ rewrite X7 `edit.rmed().count() > 0` => `edit.rmed_len() > 0`
//@ rewrite X6 `let mut last_outputs = None;` => `let mut last_outputs: Option<Setsum> = None;`
//@ rewrite X17 `last_outputs != Some(acc)` => `!opt_setsum_is(last_outputs, acc)`
//@ rewrite-re? X17 `\b(\w+) != Setsum::default\(\)` => `!\1.eq(&Setsum::default())`
//@ rewrite-re? X17 `\b(\w+) \+= (.+);` => `\1 = \1.add(\2);`
//@ rewrite-re? X17 `\b(\w+) -= (.+);` => `\1 = \1.sub(\2);`
//@ rewrite-re? X17 `\b(\w+) - (\w+)\b` => `\1.sub(\2)`
//@ rewrite-re? X17 `\b(\w+) \+ (\w+)\b` => `\1.add(\2)`
//@ rewrite-re? X17 `\b(\w+) != (\w+(?:\.\w+\(\w*\))?)` => `!\1.eq(&\2)`
//@ post <<
        r is Ok ==> ({
            let evs = fragment_edits(entry); let n = evs.len() as int; let a0 = acc.g();
            &&& n >= 1 && evs[0].o == Some(a0)
            &&& forall|k: int| 1 <= k < n ==> vok(#[trigger] evs[k], acc_at(evs, a0, k))
            &&& r->Ok_0.0.g() == acc_at(evs, a0, n) && evs[n - 1].o == Some(acc_at(evs, a0, n))
        }),
//@ >>
//@ bodystart <<
        let ghost a0 = acc.g();
        let ghost evs = fragment_edits(entry);
//@ >>
//@ loop 0 <<
            invariant evs == mani_iter.edits(), evs == fragment_edits(entry), first == (ei == 0), acc.g() == acc_at(evs, a0, ei as int),
                ei >= 1 ==> evs[0].o == Some(a0), /* contract-inv */
                forall|k: int| 1 <= k < ei ==> vok(#[trigger] evs[k], acc_at(evs, a0, k)), /* contract-inv */
                ei == 0 ==> last_outputs is None,
                ei >= 1 ==> last_outputs is Some && evs[ei - 1].o == Some(last_outputs->Some_0.g()),
//@ >>
//@ loop 1 <<
                invariant computed_discard.g() == gsub(gzero(), gsum(edit@.adds.take(ai as int))), /* contract-inv */
//@ >>
//@ loop 2 <<
                invariant computed_discard.g() == gadd(gsub(gzero(), gsum(edit@.adds)), gsum(edit@.rms.take(ri as int))), /* contract-inv */
//@ >>
//@ before `for ai in 0..edit.added_len() {` <<
            proof { assert(edit@.adds.take(0) =~= Seq::<G>::empty()); axiom_inv(gzero()); }
//@ >>
//@ endloop 1 <<
                proof {
                    let a = edit@.adds;
                    assert(a.take(ai as int + 1) =~= a.take(ai as int).push(a[ai as int]));
                    lemma_gsum_push(a.take(ai as int), a[ai as int]);
                    lemma_sub_step(gsum(a.take(ai as int)), a[ai as int]);
                }
//@ >>
//@ before `for ri in 0..edit.rmed_len() {` <<
            proof { assert(edit@.adds.take(edit@.adds.len() as int) =~= edit@.adds); assert(edit@.rms.take(0) =~= Seq::<G>::empty()); axiom_zero(gsub(gzero(), gsum(edit@.adds))); }
//@ >>
//@ endloop 2 <<
                proof {
                    let a = edit@.rms;
                    assert(a.take(ri as int + 1) =~= a.take(ri as int).push(a[ri as int]));
                    lemma_gsum_push(a.take(ri as int), a[ri as int]);
                    axiom_assoc(gsub(gzero(), gsum(edit@.adds)), gsum(a.take(ri as int)), a[ri as int]);
                }
//@ >>
//@ afterloop 2 <<
            proof {
                assert(edit@.rms.take(edit@.rms.len() as int) =~= edit@.rms);
                lemma_cdisc(gsum(edit@.adds), gsum(edit@.rms));
                if acc_at(evs, a0, ei as int) == gadd(outputs.g(), discard.g()) { lemma_out(acc_at(evs, a0, ei as int), outputs.g(), discard.g()); }
            }
//@ >>
//@ end
}

// ManifestVerifier::verify (the `lsmtk-manifest-verify` tool): the same walk without the file checks; the running
// setsum starts from the first edit's output
#[verifier::external_body]
struct ManifestVerifier { _p: u8 }
impl ManifestVerifier {
//@ extract lsmtk/src/verifier.rs | impl ManifestVerifier :: fn verify
//@ ret r
//@ rewrite X13 `for edit in mani_iter {` => `for ei in 0..mani_iter.len() { let edit = mani_iter.take(ei);`
//@ rewrite-re X7 `setsum_from_info\('(\w)', edit\.get_info\('\w'\)\)\?` => `edit.get_setsum('\1')?`
//@ rewrite-re X7 `(?s)let err = corruption\(.*?;\s*return Err\(err\);` => `return Err(verify_error());`
//@ rewrite-re X7 `(?s)return Err\(corruption\(format!\(.*?\)\)\s*\.with_debug_field.*?\);` => `return Err(verify_error());`
//@ rewrite X13 `for added in edit.added() {` => `for ai in 0..edit.added_len() {`
//@ rewrite-re X7 `let setsum = Setsum::from_hexdigest\(added\)\s*\.ok_or_else\(\|\| corruption\(format!\("manifest added has bad digest: \{added\}"\)\)\)\?;` => `let setsum = edit.added_at(ai)?;`
//@ rewrite X13 `for rmed in edit.rmed() {` => `for ri in 0..edit.rmed_len() {`
//@ rewrite-re X7 `let setsum = Setsum::from_hexdigest\(rmed\)\s*\.ok_or_else\(\|\| corruption\(format!\("manifest rmed has bad digest: \{rmed\}"\)\)\)\?;` => `let setsum = edit.rmed_at(ri)?;`
//@ rewrite-re? X17 `\b(\w+) \+= (.+);` => `\1 = \1.add(\2);`
//@ rewrite-re? X17 `\b(\w+) -= (.+);` => `\1 = \1.sub(\2);`
//@ rewrite-re? X17 `\b(\w+) - (\w+)\b` => `\1.sub(\2)`
//@ rewrite-re? X17 `\b(\w+) \+ (\w+)\b` => `\1.add(\2)`
//@ rewrite-re? X17 `\b(\w+) != (\w+(?:\.\w+\(\w*\))?)` => `!\1.eq(&\2)`
//@ post <<
        r is Ok ==> ({
            let evs = fragment_edits(entry); let n = evs.len() as int;
            n >= 1 ==> evs[0].o is Some && forall|k: int| 1 <= k < n ==> vok(#[trigger] evs[k], acc_at(evs, evs[0].o->Some_0, k))
        }),
//@ >>
//@ bodystart <<
        let ghost evs = fragment_edits(entry);
//@ >>
//@ loop 0 <<
            invariant evs == mani_iter.edits(), evs == fragment_edits(entry), first == (ei == 0),
                ei >= 1 ==> evs[0].o is Some && acc.g() == acc_at(evs, evs[0].o->Some_0, ei as int),
                ei >= 1 ==> forall|k: int| 1 <= k < ei ==> vok(#[trigger] evs[k], acc_at(evs, evs[0].o->Some_0, k)), /* contract-inv */
//@ >>
//@ loop 1 <<
                invariant computed_discard.g() == gsub(gzero(), gsum(edit@.adds.take(ai as int))), /* contract-inv */
//@ >>
//@ loop 2 <<
                invariant computed_discard.g() == gadd(gsub(gzero(), gsum(edit@.adds)), gsum(edit@.rms.take(ri as int))), /* contract-inv */
//@ >>
//@ before `for ai in 0..edit.added_len() {` <<
            proof { assert(edit@.adds.take(0) =~= Seq::<G>::empty()); axiom_inv(gzero()); }
//@ >>
//@ endloop 1 <<
                proof {
                    let a = edit@.adds;
                    assert(a.take(ai as int + 1) =~= a.take(ai as int).push(a[ai as int]));
                    lemma_gsum_push(a.take(ai as int), a[ai as int]);
                    lemma_sub_step(gsum(a.take(ai as int)), a[ai as int]);
                }
//@ >>
//@ before `for ri in 0..edit.rmed_len() {` <<
            proof { assert(edit@.adds.take(edit@.adds.len() as int) =~= edit@.adds); assert(edit@.rms.take(0) =~= Seq::<G>::empty()); axiom_zero(gsub(gzero(), gsum(edit@.adds))); }
//@ >>
//@ endloop 2 <<
                proof {
                    let a = edit@.rms;
                    assert(a.take(ri as int + 1) =~= a.take(ri as int).push(a[ri as int]));
                    lemma_gsum_push(a.take(ri as int), a[ri as int]);
                    axiom_assoc(gsub(gzero(), gsum(edit@.adds)), gsum(a.take(ri as int)), a[ri as int]);
                }
//@ >>
//@ afterloop 2 <<
            proof {
                assert(edit@.rms.take(edit@.rms.len() as int) =~= edit@.rms);
                lemma_cdisc(gsum(edit@.adds), gsum(edit@.rms));
                if ei >= 1 && acc_at(evs, evs[0].o->Some_0, ei as int) == gadd(outputs.g(), discard.g()) { lemma_out(acc_at(evs, evs[0].o->Some_0, ei as int), outputs.g(), discard.g()); }
            }
//@ >>
//@ end
}

// ---------------------------------------------------------------- the two halves meet
// A fragment written by the store: its first edit restates the state (output a0), every later edit is a transaction
// whose contract above gives vok against the output of the edit before it.  Then the verifier's running setsum IS the
// previous output at every step, i.e. exactly the conditions verify_one / ManifestVerifier::verify return Ok under hold.
pub open spec fn store_written(evs: Seq<EditView>, a0: G) -> bool {
    &&& evs.len() >= 1 && evs[0].o == Some(a0)
    &&& forall|k: int| 1 <= k < evs.len() ==> (#[trigger] evs[k - 1]).o is Some && vok(evs[k], evs[k - 1].o->Some_0)
}
proof fn lemma_running_acc(evs: Seq<EditView>, a0: G, k: int)
    requires store_written(evs, a0), 1 <= k <= evs.len()
    ensures acc_at(evs, a0, k) == evs[k - 1].o->Some_0
    decreases k
{
    if k > 1 {
        lemma_running_acc(evs, a0, k - 1);
        assert(evs[k - 1 - 1].o is Some && vok(evs[k - 1], evs[k - 1 - 1].o->Some_0));
    }
}
proof fn lemma_store_history_accepted(evs: Seq<EditView>, a0: G)
    requires store_written(evs, a0)
    ensures forall|k: int| 1 <= k < evs.len() ==> vok(#[trigger] evs[k], acc_at(evs, a0, k)),
        evs[evs.len() - 1].o == Some(acc_at(evs, a0, evs.len() as int)),
{
    assert forall|k: int| 1 <= k < evs.len() implies vok(#[trigger] evs[k], acc_at(evs, a0, k)) by {
        lemma_running_acc(evs, a0, k);
        assert(evs[k + 1 - 1 - 1].o is Some && vok(evs[k], evs[k - 1].o->Some_0));
    }
    lemma_running_acc(evs, a0, evs.len() as int);
    if evs.len() >= 2 { assert(vok(evs[evs.len() - 1], evs[evs.len() - 1 - 1].o->Some_0)); }
}
//@ contract-lemma lemma_store_history_accepted
//@ contract-lemma lemma_balance
//@ contract-lemma lemma_discard


// ---------------------------------------------------------------- trivial moves: no manifest transaction, the setsum stays
// LsmTree::apply_moving_compaction, from opening the file to the guarding assert_eq!: a compaction with one input moves
// that file to another level; the new version has the setsum of the old one and the assert_eq! cannot fire.
// ASSUMED: the file named by a setsum records that setsum in its final block (Sst::metadata copies it: unit sst_lookup; that
// SstBuilder wrote it: unit sst_builder); the caller hands in the compaction's single input (unit lsmtk_compact: the
// dispatching head of perform_compaction).
impl Sst {
    uninterp spec fn recorded(&self) -> G;
    #[verifier::external_body]
    fn metadata(&self) -> (r: Result<SstMetadata, SError>) ensures r is Ok ==> md_g(r->Ok_0) == self.recorded() { unimplemented!() }
}
impl LsmTree {
    // open_sst(setsum): the file sst/<setsum>.sst
    #[verifier::external_body]
    fn open_named(&self, setsum: Setsum) -> (r: Result<Sst, SError>) ensures r is Ok ==> r->Ok_0.recorded() == setsum.g() { unimplemented!() }
}
// `vec![x]`
fn vec_of_one(m: SstMetadata) -> (r: Vec<SstMetadata>) ensures r@ == seq![m] { let mut v = Vec::new(); v.push(m); proof { assert(v@ =~= seq![m]); } v }
//@ extract lsmtk/src/tree/mod.rs | impl LsmTree :: fn apply_moving_compaction
//@ region `let sst = tree.open_named(output)?;` ..; `assert!(tree_setsum1.eq(&tree_setsum2));`
//@ region-sig <<
fn moving_compaction_core(tree: &LsmTree, version: &Version, compaction: Compaction, output: Setsum) -> (r: Result<Version, SError>)
//@ >>
//@ region-tail <<
    Ok(new_version)
//@ >>
//@ rewrite-re X18 `\bself\.open_sst\(` => `tree.open_named(`
//@ rewrite-re X18 `(?m)^\s*let version = self\.take_snapshot\(\);\n` => ``
//@ rewrite X18 `version.version.` => `version.`
//@ rewrite-re X18 `Arc::new\((.+)\);` => `\1;`
//@ rewrite-re X17 `assert_eq!\((\w+), (\w+)\);` => `assert!(\1.eq(&\2));`
//@ rewrite-re? X12 `vec!\[(\w+)\]` => `vec_of_one(\1)`
//@ pre <<
        compaction.inputs_g() == seq![output.g()],
//@ >>
//@ post <<
        r is Ok ==> tree_sum(r->Ok_0) == tree_sum(*version),
//@ >>
//@ before `let tree_setsum2 = new_version.compute_setsum();` <<
        proof {
            // one input out, the same file in: the sum is where it was
            lemma_gsum_one(output.g());
            assert(mds_g(seq![meta]) =~= seq![md_g(meta)]);
            lemma_gsum_one(md_g(meta));
            lemma_sub_add(tree_sum(*version), output.g());
        }
//@ >>
//@ end

//@ min-verified 26
} // verus!
fn main() {}
