//@ package sst
//@ modfile sst/src/log.rs
//@ flags --lib --no-default-features
//@ prepend sst/src/lib.rs <<
#![cfg_attr(kani, recursion_limit = "1024")]
//@ >>

#[cfg(kani)]
pub(crate) mod __verif_logread {
    use super::*;

    fn mk() -> SError { SError::from(handled::SExpr::Atom(String::new())) }
    fn stub_usize_u64(_a: usize, _b: u64) -> SError { mk() }
    fn stub_u64_u64(_a: u64, _b: u64) -> SError { mk() }
    fn stub_u32_u64(_a: u32, _b: u64) -> SError { mk() }
    fn stub_u32_u32_u64(_a: u32, _b: u32, _c: u64) -> SError { mk() }
    fn stub_u64(_a: u64) -> SError { mk() }
    fn stub_0() -> SError { mk() }
    fn stub_pt(e: prototk::SError) -> SError { core::mem::forget(e); mk() }
    fn stub_io(e: std::io::Error) -> SError { core::mem::forget(e); mk() }
    fn stub_2usize(_a: usize, _b: usize) -> SError { mk() }
    fn stub_usize(_a: usize) -> SError { mk() }
    fn stub_u32(_a: u32) -> SError { mk() }
    fn stub_ifn(_a: u32, _w: impl AsRef<str>) -> SError { mk() }
    fn stub_crc(data: &[u8]) -> u32 { (data.len() as u32).wrapping_mul(2654435761) ^ 0x5bd1e995 }

    // A reader over a byte slice that starts at file offset `base` (so that block-boundary
    // arithmetic can be exercised near 2^20 without a megabyte of input).
    pub struct OffsetReader<'a> { data: &'a [u8], pos: u64, base: u64 }
    impl<'a> Read for OffsetReader<'a> {
        fn read(&mut self, buf: &mut [u8]) -> std::io::Result<usize> {
            let off = if self.pos >= self.base { (self.pos - self.base) as usize } else { 0 };
            let avail = if off < self.data.len() { self.data.len() - off } else { 0 };
            let n = if buf.len() < avail { buf.len() } else { avail };
            let mut i = 0; while i < n { buf[i] = self.data[off + i]; i += 1; }
            self.pos += n as u64;
            Ok(n)
        }
    }
    impl<'a> Seek for OffsetReader<'a> {
        fn seek(&mut self, to: SeekFrom) -> std::io::Result<u64> {
            match to {
                SeekFrom::Start(x) => { self.pos = x; }
                SeekFrom::Current(d) => { self.pos = (self.pos as i64).wrapping_add(d) as u64; }
                SeekFrom::End(d) => { self.pos = ((self.base + self.data.len() as u64) as i64).wrapping_add(d) as u64; }
            }
            Ok(self.pos)
        }
    }

    macro_rules! stubs { ($(#[$m:meta])* fn $name:ident() $body:block) => {
        $(#[$m])*
        #[kani::stub(crate::corruption_header_size_exceeds_max, stub_usize_u64)]
        #[kani::stub(crate::corruption_entry_size_exceeds_max, stub_u64_u64)]
        #[kani::stub(crate::corruption_true_up_exceeds_header_max, stub_u64_u64)]
        #[kani::stub(crate::corruption_invalid_discriminant, stub_u32_u64)]
        #[kani::stub(crate::corruption_crc_checksum_failed, stub_u32_u32_u64)]
        #[kani::stub(crate::corruption_truncation_no_second_header, stub_u64)]
        #[kani::stub(crate::corruption_shared_not_zero, stub_0)]
        #[kani::stub(crate::empty_batch, stub_0)]
        #[kani::stub(crate::unpack_log_header, stub_pt)]
        #[kani::stub(crate::unpack_key_value_entry_prototk, stub_pt)]
        #[kani::stub(crate::system_error, stub_io)]
        #[kani::stub(buffertk::buffer_too_short, stub_2usize)]
        #[kani::stub(buffertk::varint_overflow, stub_usize)]
        #[kani::stub(buffertk::tag_too_large, stub_u64)]
        #[kani::stub(prototk::unhandled_wire_type, stub_u32)]
        #[kani::stub(prototk::invalid_field_number, stub_ifn)]
        #[kani::stub(crc32c::crc32c, stub_crc)]
        fn $name() $body
    } }

    // C09: the frame-header reader on ARBITRARY bytes at an arbitrary file offset: an error, end of
    // log, or a header whose size respects the table limit -- never a panic / out-of-bounds slice.
    stubs! {
    //@ H name=next_header_total kind=bounded tier=quick timeout=1500 bound="every byte string of length <= 24 at every start offset within 32 bytes of a 2^20 boundary" oblig="sst::log::LogIterator::next_header::total"
    #[kani::proof]
    #[kani::unwind(40)]
    fn next_header_total() {
        let data: [u8; 24] = kani::any();
        let n: usize = kani::any(); kani::assume(n <= 24);
        let delta: u64 = kani::any(); kani::assume(delta <= 32);
        let base = BLOCK_SIZE - delta;
        let mut options = LogOptions::default();
        options.read_buffer = 32;
        let rd = OffsetReader { data: &data[..n], pos: base, base };
        let mut it = match LogIterator::from_reader(options, rd) { Ok(it) => it, Err(e) => { core::mem::forget(e); return; } };
        match it.next_header() {
            Ok(Some(h)) => { assert!(h.size <= TABLE_FULL_SIZE as u64); }
            Ok(None) => {}
            Err(e) => { core::mem::forget(e); }
        }
        kani::cover!(n == 24);
        core::mem::forget(it);
    } }

    // C12 (reader side of the framing contract): every well-formed frame -- any payload size INCLUDING
    // zero, any of the three discriminants, matching checksum -- is accepted and its payload appended.
    stubs! {
    //@ H name=next_frame_accepts_wellformed kind=bounded tier=quick timeout=1500 native=no bound="payload length <= 4, every header the real Header::pack produces for it" oblig="sst::log::LogIterator::next_frame::accepts-every-wellformed-frame"
    #[kani::proof]
    #[kani::unwind(40)]
    fn next_frame_accepts_wellformed() {
        let payload: [u8; 4] = kani::any();
        let len: usize = kani::any(); kani::assume(len <= 4);
        let disc: u32 = kani::any(); kani::assume(disc >= 1 && disc <= 3);
        let header = Header { size: len as u64, discriminant: disc, crc32c: stub_crc(&payload[..len]) };
        let mut bytes = [0u8; 32];
        let hsz = header.pack_sz();
        assert!(hsz + 1 + len <= 32);
        bytes[0] = hsz as u8;
        buffertk::stack_pack(&header).into_slice(&mut bytes[1..1 + hsz]);
        let mut i = 0; while i < 4 { if i < len { bytes[1 + hsz + i] = payload[i]; } i += 1; }
        let total = 1 + hsz + len;
        let mut options = LogOptions::default();
        options.read_buffer = 32;
        let rd = OffsetReader { data: &bytes[..total], pos: 0, base: 0 };
        let mut it = match LogIterator::from_reader(options, rd) { Ok(it) => it, Err(e) => { core::mem::forget(e); return; } };
        match it.next_frame() {
            Ok(Some(h)) => {
                assert!(h.size == len as u64 && h.discriminant == disc);
                assert!(it.buffer.len() == len);
                let mut i = 0; while i < 4 { if i < len { assert!(it.buffer[i] == payload[i]); } i += 1; }
            }
            Ok(None) => { assert!(false); }
            Err(e) => { core::mem::forget(e); assert!(false); }
        }
        kani::cover!(len == 0);
        kani::cover!(len == 4);
        core::mem::forget(it);
    } }
}
