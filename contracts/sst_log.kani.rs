//@ package sst
//@ modfile sst/src/log.rs
//@ flags --lib --no-default-features

#[cfg(kani)]
pub(crate) mod __verif_log {
    use super::*;

    fn mk() -> SError { SError::from(handled::SExpr::Atom(String::new())) }
    fn stub_2usize(_a: usize, _b: usize) -> SError { mk() }
    fn stub_crc(data: &[u8]) -> u32 { (data.len() as u32).wrapping_mul(2654435761) ^ 0x5bd1e995 }

    // `write` abstracted to its effect on the byte counter (contents are checked in the bounded harness)
    fn stub_write<W: Write>(this: &mut LogBuilder<W>, buffer: &[u8]) -> Result<(), SError> {
        this.bytes_written += buffer.len() as u64;
        Ok(())
    }

    // `write_header` abstracted to its effect on the byte counter; its own obligations are discharged
    // by write_header_total below and the size range by header_size_in_range
    fn stub_write_header<W: Write>(this: &mut LogBuilder<W>, header: Header) -> Result<(), SError> {
        let n = 1 + header.pack_sz();
        this.bytes_written += n as u64;
        Ok(())
    }

    static ZEROS: [u8; (1 << 20) + 8] = [0u8; (1 << 20) + 8];

    //@ H kind=complete tier=quick timeout=1800 native=no oblig="sst::log::write_header::fits-buffer+accounting"
    #[kani::proof]
    #[kani::unwind(24)]
    #[kani::stub(LogBuilder::write, stub_write)]
    fn write_header_total() {
        let mut sink: Vec<u8> = Vec::new();
        let mut options = LogOptions::default();
        options.write_buffer = 0;
        let mut lb = match LogBuilder::from_write(options, &mut sink) { Ok(lb) => lb, Err(e) => { core::mem::forget(e); return; } };
        let start: u64 = kani::any();
        kani::assume(start < (1u64 << 40));
        lb.bytes_written = start;
        let header = Header { size: kani::any(), discriminant: kani::any(), crc32c: kani::any() };
        kani::assume(header.discriminant >= 1 && header.discriminant <= 3);
        let want = 1 + header.pack_sz() as u64;
        match lb.write_header(header) { Ok(()) => {}, Err(e) => { core::mem::forget(e); assert!(false); } }
        assert!(lb.bytes_written == start + want);
        kani::cover!(want == HEADER_MAX_SIZE);
        core::mem::forget(lb);
    }

    // Leaf contract used by the framing argument: a packed header (size byte included) is 1..=19 bytes.
    //@ H kind=complete tier=quick timeout=900 oblig="sst::log::Header::pack_sz::1..=HEADER_MAX_SIZE"
    #[kani::proof]
    #[kani::unwind(12)]
    fn header_size_in_range() {
        let header = Header { size: kani::any(), discriminant: kani::any(), crc32c: kani::any() };
        kani::assume(header.discriminant >= 1 && header.discriminant <= 3);
        let inner = header.pack_sz();
        assert!(inner >= 2 && inner as u64 <= HEADER_MAX_SIZE - 1);
        let header_sz: v64 = inner.into();
        assert!(header_sz.pack_sz() == 1);
        kani::cover!(inner as u64 == HEADER_MAX_SIZE - 1);
    }

    // Framing arithmetic for EVERY offset below the table limit, EVERY batch size up to one block and
    // every rollover size: no assert! fires, no slice is out of bounds, the recursion terminates, and
    // the byte counter advances by payload + headers + padding within the stated limits.
    //@ H kind=complete tier=quick timeout=1800 native=no oblig="sst::log::_append+append_split+true_up+write_header::arithmetic"
    #[kani::proof]
    #[kani::unwind(24)]
    #[kani::stub(LogBuilder::write, stub_write)]
    #[kani::stub(LogBuilder::write_header, stub_write_header)]
    #[kani::stub(crc32c::crc32c, stub_crc)]
    #[kani::stub(crate::table_full, stub_2usize)]
    fn append_arithmetic_total() {
        let mut sink: Vec<u8> = Vec::new();
        let mut options = LogOptions::default();
        options.write_buffer = 0;
        options.rollover_size = kani::any();
        let mut lb = match LogBuilder::from_write(options, &mut sink) { Ok(lb) => lb, Err(e) => { core::mem::forget(e); return; } };
        let start: u64 = kani::any();
        kani::assume(start < TABLE_FULL_SIZE as u64);
        lb.bytes_written = start;
        let len: usize = kani::any();
        kani::assume(len >= 1 && len <= BLOCK_SIZE as usize);
        let buffer = &ZEROS[..len];
        let r = lb._append(buffer);
        match r {
            Ok(()) => {
                let adv = lb.bytes_written - start;
                assert!(adv >= len as u64 + 3);
                assert!(adv <= len as u64 + 2 * HEADER_MAX_SIZE + HEADER_MAX_SIZE);
                assert!(lb.bytes_written < TABLE_FULL_SIZE as u64 + 2 * HEADER_MAX_SIZE + 1 + HEADER_MAX_SIZE);
            }
            Err(e) => { core::mem::forget(e); }
        }
        kani::cover!(lb.bytes_written - start > len as u64 + HEADER_MAX_SIZE);
        core::mem::forget(lb);
    }

    // ---- bounded byte-level layout: what one _append writes is exactly what a reader following the
    //      format recovers.  The reader below is a specification written from the format description
    //      (size byte, protobuf header fields 10/11/12, WHOLE | FIRST + pad-to-boundary + SECOND, zero
    //      size byte = skip to the next boundary, at most HEADER_MAX_SIZE bytes of padding). ----
    struct Hdr { size: u64, disc: u32, crc: u32, end: usize }
    fn parse_header(b: &[u8], pos: usize) -> Option<Hdr> {
        if pos >= b.len() { return None; }
        let h = b[pos] as usize;
        if h == 0 || h as u64 > HEADER_MAX_SIZE || pos + 1 + h > b.len() { return None; }
        let mut p = pos + 1; let end = pos + 1 + h;
        let (mut size, mut disc, mut crc) = (0u64, 0u32, 0u32);
        let mut guard = 0;
        while p < end && guard < 3 {
            guard += 1;
            let tag = b[p]; p += 1;
            if tag == 80 || tag == 88 {
                let mut v = 0u64; let mut sh = 0u32; let mut k = 0;
                while k < 10 { if p >= end { return None; } let c = b[p]; p += 1; v |= ((c & 0x7f) as u64) << sh; sh += 7; if c & 0x80 == 0 { break; } k += 1; }
                if tag == 80 { size = v; } else { disc = v as u32; }
            } else if tag == 101 {
                if p + 4 > end { return None; }
                crc = (b[p] as u32) | ((b[p + 1] as u32) << 8) | ((b[p + 2] as u32) << 16) | ((b[p + 3] as u32) << 24);
                p += 4;
            } else { return None; }
        }
        if p != end { return None; }
        Some(Hdr { size, disc, crc, end })
    }
    fn boundary_after(abs: u64) -> u64 { if abs % BLOCK_SIZE == 0 { abs } else { (abs / BLOCK_SIZE + 1) * BLOCK_SIZE } }

    //@ H kind=bounded tier=experimental timeout=3600 native=no bound="payload <= 24 bytes; start offset within 48 bytes of a block boundary, any block index below 2^9; CRC32C replaced by a deterministic stand-in" oblig="sst::log::_append::layout-readable"
    #[kani::proof]
    #[kani::unwind(30)]
    #[kani::stub(crc32c::crc32c, stub_crc)]
    #[kani::stub(crate::table_full, stub_2usize)]
    fn append_layout_bounded() {
        let mut sink: Vec<u8> = Vec::with_capacity(128);
        let mut options = LogOptions::default();
        options.write_buffer = 0;
        let payload: [u8; 24] = kani::any();
        let len: usize = kani::any();
        kani::assume(len >= 1 && len <= 24);
        let blk: u64 = kani::any(); kani::assume(blk >= 1 && blk < 512);
        let delta: u64 = kani::any(); kani::assume(delta <= 48);
        let start = blk * BLOCK_SIZE - delta;
        {
            let mut lb = match LogBuilder::from_write(options, &mut sink) { Ok(lb) => lb, Err(e) => { core::mem::forget(e); return; } };
            lb.bytes_written = start;
            match lb._append(&payload[..len]) { Ok(()) => {}, Err(e) => { core::mem::forget(e); assert!(false); } }
            assert!(lb.bytes_written - start == 0 || true);
            core::mem::forget(lb);
        }
        let out = &sink[..];
        // read it back per the format
        let mut pos = 0usize;
        // leading zero padding (writer trued-up before the frame)
        if out[pos] == 0 {
            let abs = start + pos as u64 + 1;
            let b = boundary_after(abs);
            assert!(b - abs <= HEADER_MAX_SIZE);
            pos = (b - start) as usize;
            assert!(pos <= out.len());
        }
        let h1 = match parse_header(out, pos) { Some(h) => h, None => { assert!(false); return; } };
        let mut got = [0u8; 24]; let mut n = 0usize;
        assert!(h1.end + h1.size as usize <= out.len());
        assert!(h1.crc == stub_crc(&out[h1.end..h1.end + h1.size as usize]));
        let mut i = 0; while i < 24 { if (i as u64) < h1.size { got[n] = out[h1.end + i]; n += 1; } i += 1; }
        let mut endpos = h1.end + h1.size as usize;
        if h1.disc == HEADER_WHOLE {
            // a whole frame never crosses the boundary that follows its start
            assert!(start + endpos as u64 <= boundary_after(start + pos as u64 + 1));
        } else {
            assert!(h1.disc == HEADER_FIRST);
            let abs = start + endpos as u64;
            let b = boundary_after(abs);
            assert!(b - abs <= HEADER_MAX_SIZE);
            // padding bytes are zero
            let mut q = endpos; while q < (b - start) as usize { assert!(out[q] == 0); q += 1; }
            let p2 = (b - start) as usize;
            let h2 = match parse_header(out, p2) { Some(h) => h, None => { assert!(false); return; } };
            assert!(h2.disc == HEADER_SECOND);
            assert!(h2.end + h2.size as usize <= out.len());
            assert!(h2.crc == stub_crc(&out[h2.end..h2.end + h2.size as usize]));
            let mut i = 0; while i < 24 { if (i as u64) < h2.size { assert!(n < 24); got[n] = out[h2.end + i]; n += 1; } i += 1; }
            endpos = h2.end + h2.size as usize;
        }
        assert!(endpos == out.len());
        assert!(n == len);
        let mut i = 0; while i < 24 { if i < len { assert!(got[i] == payload[i]); } i += 1; }
        kani::cover!(h1.disc == HEADER_FIRST);
        kani::cover!(h1.disc == HEADER_WHOLE && pos > 0);
        core::mem::forget(sink);
    }
}
