// Unit lsmtk_open (C06 / C01): KeyValueStore::open ESTABLISHES the invariant of the state mutex that unit lsmtk_visible shows every
// critical section preserves.  Region of open from log recovery to the construction of KeyValueStoreState: the published
// watermark starts equal to the sequence counter -- nothing is in flight at open -- and the first timestamp that will be handed
// out (seq_no + 1) lies above every timestamp already in the tree and above everything log recovery replayed, so a new write
// is always newer than what the store held when it was opened.
// ASSUMED: when the store is opened no batch is in flight (axiom_nothing_in_flight_at_open); timestamps stay below 2^64 - 2.
// That LsmTree::max_timestamp returns the biggest timestamp in the tree is the contract of the stub here and the
// postcondition proved on Version::max_timestamp at the end of this unit (the lock around it is dropped).  That
// KeyValueStore::recover returns the biggest recovered timestamp is the contract of the stub here and the postcondition
// proved on the whole function in unit lsmtk_recover.
use vstd::prelude::*;
verus! {
global size_of usize == 8;
#[verifier::external_body]
struct SError { _p: u8 }
#[verifier::external_body]
struct MemArc { _p: u8 }
#[verifier::external_body]
struct LogArc { _p: u8 }
#[verifier::external_body]
struct PathBuf { _p: u8 }
#[verifier::external_body]
struct Root { _p: u8 }
#[verifier::external_body]
struct Options { _p: u8 }
#[verifier::external_body]
struct Mani { _p: u8 }
#[verifier::external_body]
struct Tree { _p: u8 }
impl Tree {
    uninterp spec fn max_ts(&self) -> u64;
    #[verifier::external_body]
    fn max_timestamp(&self) -> (r: u64) ensures r == self.max_ts(), r < 0xffff_ffff_ffff_fffe { unimplemented!() }
}
struct OpenState { seq_no: u64, visible_seq_no: u64, imm: Option<MemArc>, imm_trigger: u64, mem: MemArc, mem_log: LogArc, mem_path: PathBuf, mem_seq_no: u64 }
uninterp spec fn all_applied(s: u64) -> bool;
// when the store is opened nothing is in flight: every batch that has a timestamp at all was applied (or recovered) in full
#[verifier::external_body]
proof fn axiom_nothing_in_flight_at_open(s: u64) ensures all_applied(s) { }
// (ASSUMED, machine arithmetic: timestamps stay below 2^64 - 2)
#[verifier::external_body]
fn recover_logs(options: &Options, mani: &mut Mani) -> (r: Result<u64, SError>) ensures r is Ok ==> r->Ok_0 < 0xffff_ffff_ffff_fffe && r->Ok_0 == recovered_max() { unimplemented!() }
// the biggest timestamp log recovery found at this open
uninterp spec fn recovered_max() -> u64;
#[verifier::external_body]
fn tree_from_manifest(options: &Options, mani: Mani) -> (r: Result<Tree, SError>) { unimplemented!() }
#[verifier::external_body]
fn new_memtable() -> (r: MemArc) { unimplemented!() }
#[verifier::external_body]
fn log_file(root: &Root, n: u64) -> (r: PathBuf) { unimplemented!() }
#[verifier::external_body]
fn start_new_log(p: &PathBuf, options: &Options) -> (r: Result<LogArc, SError>) { unimplemented!() }
fn min_u64(a: u64, b: u64) -> (r: u64) ensures r == (if a <= b { a } else { b }) { if a <= b { a } else { b } }
fn max_u64(a: u64, b: u64) -> (r: u64) ensures r == (if a >= b { a } else { b }) { if a >= b { a } else { b } }

//@ extract lsmtk/src/kvs/mod.rs | impl KeyValueStore :: fn open
//@ region `let mut seq_no = recover_logs(&options, &mut mani)?` ..; `let state = OpenState {`
//@ region-sig <<
fn open_state(options: Options, root: Root, mut mani: Mani) -> (r: Result<(OpenState, Tree), SError>)
//@ >>
//@ region-tail <<
    ;
    Ok((state, tree))
//@ >>
//@ rewrite X7 `Self::recover(&options, &mut mani)?` => `recover_logs(&options, &mut mani)?`
//@ rewrite X7 `LsmTree::from_manifest(options.clone(), mani)?` => `tree_from_manifest(&options, mani)?`
//@ rewrite X18 `Arc::new(MemTable::default())` => `new_memtable()`
//@ rewrite X7 `LOG_FILE(&root, seq_no)` => `log_file(&root, seq_no)`
//@ rewrite X7 `Self::start_new_log(&mem_path, options.log.clone())?` => `start_new_log(&mem_path, &options)?`
//@ rewrite-re? X4 `std::cmp::max\(` => `max_u64(`
//@ rewrite-re? X4 `std::cmp::min\(` => `min_u64(`
//@ rewrite X23 `let state = Mutex::new(KeyValueStoreState {` => `let state = OpenState {`
//@ rewrite-re X23 `(?s)(mem_seq_no,\s*\})\)` => `\1`
//@ before `let state = OpenState {` <<
        proof { axiom_nothing_in_flight_at_open(seq_no); }
//@ >>
//@ post <<
        r is Ok ==> ({
            let st = r->Ok_0.0;
            // the invariant of the state mutex holds from the start ...
            &&& all_applied(st.visible_seq_no) && st.visible_seq_no <= st.seq_no
            // ... and every timestamp already in the tree or recovered from a log lies below the first one to be handed out
            &&& st.seq_no + 1 > r->Ok_0.1.max_ts() && st.seq_no + 1 > recovered_max()
        }),
//@ >>
//@ end

// ---------------------------------------------------------------- the biggest timestamp in the tree
// Version::max_timestamp, entire (the function behind Tree::max_timestamp above; LsmTree::max_timestamp is
// `self.version.lock().unwrap().max_timestamp()`): at least the biggest timestamp of every file of every level, and one of
// them (or 0 for an empty tree).  Arc<SstMetadata> read as SstMetadata; the two iterator loops as index loops (X13).
#[verifier::external_body]
struct OtherMeta { _p: u8 }
struct SstMetadata { smallest_timestamp: u64, biggest_timestamp: u64, rest: OtherMeta }
struct Level { ssts: Vec<SstMetadata> }
struct Version { levels: Vec<Level> }
spec fn ts_at(v: Version, li: int, fi: int) -> u64 { v.levels@[li].ssts@[fi].biggest_timestamp }
impl Version {
//@ extract lsmtk/src/tree/mod.rs | impl Version :: fn max_timestamp
//@ ret r
//@ rewrite X13 `for level in self.levels.iter() {` => `for li in 0..self.levels.len() { let level = &self.levels[li];`
//@ rewrite X13 `for file in level.ssts.iter() {` => `for fi in 0..level.ssts.len() { let file = &level.ssts[fi];`
//@ rewrite-re? X4 `std::cmp::max\(` => `max_u64(`
//@ rewrite-re? X4 `std::cmp::min\(` => `min_u64(`
//@ rewrite-re? X4 `let mut seq_no = 0;` => `let mut seq_no: u64 = 0;`
//@ post <<
        forall|li: int, fi: int| 0 <= li < self.levels@.len() && 0 <= fi < self.levels@[li].ssts@.len() ==> r >= #[trigger] ts_at(*self, li, fi),
        r == 0 || exists|li: int, fi: int| 0 <= li < self.levels@.len() && 0 <= fi < self.levels@[li].ssts@.len() && r == #[trigger] ts_at(*self, li, fi),
//@ >>
//@ loop `for li in` <<
            invariant /* contract-inv */
                forall|a: int, b: int| 0 <= a < li && 0 <= b < self.levels@[a].ssts@.len() ==> seq_no >= #[trigger] ts_at(*self, a, b), /* contract-inv */
                seq_no == 0 || exists|a: int, b: int| 0 <= a < li && 0 <= b < self.levels@[a].ssts@.len() && seq_no == #[trigger] ts_at(*self, a, b), /* contract-inv */
//@ >>
//@ loop `for fi in` <<
                invariant 0 <= li < self.levels@.len(), *level == self.levels@[li as int],
                    forall|a: int, b: int| 0 <= a < li && 0 <= b < self.levels@[a].ssts@.len() ==> seq_no >= #[trigger] ts_at(*self, a, b), /* contract-inv */
                    forall|b: int| 0 <= b < fi ==> seq_no >= #[trigger] ts_at(*self, li as int, b), /* contract-inv */
                    seq_no == 0 || exists|a: int, b: int| 0 <= a <= li && 0 <= b < self.levels@[a].ssts@.len() && (a == li ==> b < fi) && seq_no == #[trigger] ts_at(*self, a, b), /* contract-inv */
//@ >>
//@ startloop `for fi in` <<
                let ghost before = seq_no;
//@ >>
//@ endloop `for fi in` <<
                proof {
                    assert(ts_at(*self, li as int, fi as int) == file.biggest_timestamp);
                    if seq_no != before { assert(seq_no == ts_at(*self, li as int, fi as int)); }
                    else if before != 0 {
                        let (a, b) = choose|a: int, b: int| 0 <= a <= li && 0 <= b < self.levels@[a].ssts@.len() && (a == li ==> b < fi) && before == #[trigger] ts_at(*self, a, b);
                        assert(seq_no == ts_at(*self, a, b));
                    }
                }
//@ >>
//@ end
}

//@ min-verified 3
} // verus!
fn main() {}
