// Unit setsum (C14): every arithmetic function of setsum/src/lib.rs against the published definition.
// Hand-written text in this file is specification and proof only; every exec fn body is extracted
// from /repo on each run (see tools/verusx.py).
use vstd::prelude::*;
verus! {

// ---------- the published definition (independent of the code's constants) ----------
spec fn prime(i: int) -> int {
    if i == 0 { 4294967291 } else if i == 1 { 4294967279 } else if i == 2 { 4294967231 }
    else if i == 3 { 4294967197 } else if i == 4 { 4294967189 } else if i == 5 { 4294967161 }
    else if i == 6 { 4294967143 } else { 4294967111 }
}
spec fn canon(s: Seq<u32>) -> bool {
    s.len() == 8 && forall|i: int| 0 <= i < 8 ==> (s[i] as int) < prime(i)
}
spec fn weak_canon(s: Seq<u32>) -> bool {
    s.len() == 8 && forall|i: int| 0 <= i < 8 ==> (s[i] as int) <= prime(i)
}
spec fn add_col(a: int, b: int, i: int) -> int { (a + b) % prime(i) }
spec fn neg_col(a: int, i: int) -> int { (prime(i) - a) % prime(i) }
spec fn le32(b0: u8, b1: u8, b2: u8, b3: u8) -> int {
    b0 as int + 256 * (b1 as int) + 65536 * (b2 as int) + 16777216 * (b3 as int)
}
spec fn col_of_hash(h: Seq<u8>, i: int) -> int {
    le32(h[4 * i], h[4 * i + 1], h[4 * i + 2], h[4 * i + 3]) % prime(i)
}
// SHA3-256 is uninterpreted: a total function from byte strings to 32 bytes.
uninterp spec fn sha3_256(data: Seq<u8>) -> Seq<u8>;
#[verifier::external_body]
proof fn axiom_sha3_len(data: Seq<u8>)
    ensures sha3_256(data).len() == 32
{ }
spec fn flatten(pieces: Seq<Seq<u8>>) -> Seq<u8>
    decreases pieces.len()
{
    if pieces.len() == 0 { Seq::empty() } else { flatten(pieces.drop_last()) + pieces.last() }
}
spec fn item_cols(data: Seq<u8>) -> Seq<u32> {
    Seq::new(8, |i: int| col_of_hash(sha3_256(data), i) as u32)
}
spec fn add_spec(a: Seq<u32>, b: Seq<u32>) -> Seq<u32> {
    Seq::new(8, |i: int| add_col(a[i] as int, b[i] as int, i) as u32)
}
spec fn neg_spec(a: Seq<u32>) -> Seq<u32> {
    Seq::new(8, |i: int| neg_col(a[i] as int, i) as u32)
}
spec fn zero_state() -> Seq<u32> { Seq::new(8, |i: int| 0u32) }
// setsum of a sequence of items (the multiset is the sequence up to permutation)
spec fn setsum_of(items: Seq<Seq<u8>>) -> Seq<u32>
    decreases items.len()
{
    if items.len() == 0 { zero_state() } else { add_spec(setsum_of(items.drop_last()), item_cols(items.last())) }
}

// ---------- constants, extracted ----------
//@ extract setsum/src/lib.rs | const SETSUM_BYTES
//@ end
//@ extract setsum/src/lib.rs | const SETSUM_BYTES_PER_COLUMN
//@ end
//@ extract setsum/src/lib.rs | const SETSUM_COLUMNS
//@ end
//@ extract setsum/src/lib.rs | const SETSUM_PRIMES
//@ end

// "published definition" obligation: the code's constants are the published ones.
//@ contract-lemma lemma_constants_published
proof fn lemma_constants_published()
    ensures
        SETSUM_BYTES == 32, SETSUM_BYTES_PER_COLUMN == 4, SETSUM_COLUMNS == 8,
        SETSUM_PRIMES@.len() == 8,
        forall|i: int| 0 <= i < 8 ==> SETSUM_PRIMES@[i] as int == prime(i),
{
    assert(SETSUM_PRIMES@[0] == 4294967291u32);
    assert(SETSUM_PRIMES@[1] == 4294967279u32);
    assert(SETSUM_PRIMES@[2] == 4294967231u32);
    assert(SETSUM_PRIMES@[3] == 4294967197u32);
    assert(SETSUM_PRIMES@[4] == 4294967189u32);
    assert(SETSUM_PRIMES@[5] == 4294967161u32);
    assert(SETSUM_PRIMES@[6] == 4294967143u32);
    assert(SETSUM_PRIMES@[7] == 4294967111u32);
}

proof fn lemma_prime_range(i: int)
    requires 0 <= i < 8
    ensures 0x8000_0000 < prime(i) < 0x1_0000_0000, 2 * prime(i) > 0xffff_ffff,
{ }


// ---------- algebra over the published definition (pure lemmas) ----------
proof fn lemma_add_canon(a: Seq<u32>, b: Seq<u32>)
    requires a.len() == 8, b.len() == 8
    ensures canon(add_spec(a, b))
{
    assert forall|i: int| 0 <= i < 8 implies (add_spec(a, b)[i] as int) < prime(i) by {
        lemma_prime_range(i);
        vstd::arithmetic::div_mod::lemma_mod_bound(a[i] as int + b[i] as int, prime(i));
    }
}
proof fn lemma_add_comm(a: Seq<u32>, b: Seq<u32>)
    ensures add_spec(a, b) =~= add_spec(b, a)
{ }
proof fn lemma_add_zero(a: Seq<u32>)
    requires canon(a)
    ensures add_spec(a, zero_state()) =~= a, add_spec(zero_state(), a) =~= a
{
    assert forall|i: int| 0 <= i < 8 implies add_spec(a, zero_state())[i] == a[i] && add_spec(zero_state(), a)[i] == a[i] by {
        vstd::arithmetic::div_mod::lemma_small_mod(a[i] as nat, prime(i) as nat);
    }
}
proof fn lemma_add_col_assoc(a: int, b: int, c: int, i: int)
    requires 0 <= i < 8, 0 <= a, 0 <= b, 0 <= c
    ensures add_col(add_col(a, b, i), c, i) == add_col(a, add_col(b, c, i), i)
{
    let p = prime(i);
    vstd::arithmetic::div_mod::lemma_add_mod_noop((a + b), c, p);
    vstd::arithmetic::div_mod::lemma_add_mod_noop(a, (b + c), p);
    vstd::arithmetic::div_mod::lemma_small_mod((c % p) as nat, p as nat) ;
    vstd::arithmetic::div_mod::lemma_mod_twice(c, p);
    vstd::arithmetic::div_mod::lemma_mod_twice(a, p);
    vstd::arithmetic::div_mod::lemma_mod_twice(a + b, p);
    vstd::arithmetic::div_mod::lemma_mod_twice(b + c, p);
    // ((a+b)%p + c) % p == ((a+b) + c) % p
    vstd::arithmetic::div_mod::lemma_add_mod_noop_right(c, a + b, p);
    vstd::arithmetic::div_mod::lemma_add_mod_noop_right(a, b + c, p);
    assert(((a + b) % p + c) % p == (c + (a + b) % p) % p);
    assert((c + (a + b)) == (a + (b + c)));
}
proof fn lemma_add_assoc(a: Seq<u32>, b: Seq<u32>, c: Seq<u32>)
    requires a.len() == 8, b.len() == 8, c.len() == 8
    ensures add_spec(add_spec(a, b), c) =~= add_spec(a, add_spec(b, c))
{
    assert forall|i: int| 0 <= i < 8 implies add_spec(add_spec(a, b), c)[i] == add_spec(a, add_spec(b, c))[i] by {
        lemma_prime_range(i);
        vstd::arithmetic::div_mod::lemma_mod_bound(a[i] as int + b[i] as int, prime(i));
        vstd::arithmetic::div_mod::lemma_mod_bound(b[i] as int + c[i] as int, prime(i));
        lemma_add_col_assoc(a[i] as int, b[i] as int, c[i] as int, i);
    }
}
proof fn lemma_neg_inverse(a: Seq<u32>)
    requires canon(a)
    ensures add_spec(a, neg_spec(a)) =~= zero_state(), canon(neg_spec(a))
{
    assert forall|i: int| 0 <= i < 8 implies add_spec(a, neg_spec(a))[i] == 0u32 && (neg_spec(a)[i] as int) < prime(i) by {
        lemma_prime_range(i);
        let p = prime(i);
        let x = a[i] as int;
        vstd::arithmetic::div_mod::lemma_mod_bound(p - x, p);
        if x == 0 {
            vstd::arithmetic::div_mod::lemma_mod_self_0(p);
            vstd::arithmetic::div_mod::lemma_small_mod(0nat, p as nat);
        } else {
            vstd::arithmetic::div_mod::lemma_small_mod((p - x) as nat, p as nat);
            vstd::arithmetic::div_mod::lemma_mod_self_0(p);
        }
    }
}
// subtraction undoes addition: (a + b) - b == a
proof fn lemma_sub_undoes_add(a: Seq<u32>, b: Seq<u32>)
    requires canon(a), canon(b)
    ensures add_spec(add_spec(a, b), neg_spec(b)) =~= a
{
    lemma_neg_inverse(b);
    lemma_add_assoc(a, b, neg_spec(b));
    lemma_add_zero(a);
    assert(add_spec(b, neg_spec(b)) =~= zero_state());
}
// removing an item undoes inserting it (in either order, on any canonical state)
proof fn lemma_remove_undoes_insert(s: Seq<u32>, item: Seq<u8>)
    requires canon(s)
    ensures
        add_spec(add_spec(s, item_cols(item)), neg_spec(item_cols(item))) =~= s,
        add_spec(add_spec(s, neg_spec(item_cols(item))), item_cols(item)) =~= s,
{
    lemma_item_canon(item);
    lemma_sub_undoes_add(s, item_cols(item));
    let it = item_cols(item);
    lemma_neg_inverse(it);
    lemma_add_assoc(s, neg_spec(it), it);
    lemma_add_comm(neg_spec(it), it);
    lemma_add_zero(s);
    assert(add_spec(neg_spec(it), it) =~= zero_state());
}
proof fn lemma_item_canon(item: Seq<u8>)
    ensures canon(item_cols(item))
{
    assert forall|i: int| 0 <= i < 8 implies (item_cols(item)[i] as int) < prime(i) by {
        lemma_prime_range(i);
        axiom_sha3_len(item);
        let h = sha3_256(item);
        vstd::arithmetic::div_mod::lemma_mod_bound(le32(h[4 * i], h[4 * i + 1], h[4 * i + 2], h[4 * i + 3]), prime(i));
    }
}
proof fn lemma_setsum_of_canon(items: Seq<Seq<u8>>)
    ensures canon(setsum_of(items))
    decreases items.len()
{
    if items.len() == 0 {
    } else {
        lemma_setsum_of_canon(items.drop_last());
        lemma_add_canon(setsum_of(items.drop_last()), item_cols(items.last()));
    }
}
// the setsum of a union is the sum of the setsums
proof fn lemma_setsum_union(s1: Seq<Seq<u8>>, s2: Seq<Seq<u8>>)
    ensures setsum_of(s1 + s2) =~= add_spec(setsum_of(s1), setsum_of(s2))
    decreases s2.len()
{
    lemma_setsum_of_canon(s1);
    if s2.len() == 0 {
        assert(s1 + s2 =~= s1);
        lemma_add_zero(setsum_of(s1));
    } else {
        assert((s1 + s2).drop_last() =~= s1 + s2.drop_last());
        assert((s1 + s2).last() == s2.last());
        lemma_setsum_union(s1, s2.drop_last());
        lemma_add_assoc(setsum_of(s1), setsum_of(s2.drop_last()), item_cols(s2.last()));
    }
}
// order independence: removing the element at any position and appending it at the end does not
// change the sum; hence any two sequences with the same multiset have the same setsum.
proof fn lemma_setsum_remove(s: Seq<Seq<u8>>, k: int)
    requires 0 <= k < s.len()
    ensures setsum_of(s) =~= add_spec(setsum_of(s.remove(k)), item_cols(s[k]))
{
    let a = s.subrange(0, k);
    let x = seq![s[k]];
    let b = s.subrange(k + 1, s.len() as int);
    assert(s =~= a + x + b);
    assert(s.remove(k) =~= a + b);
    lemma_setsum_union(a + x, b);
    lemma_setsum_union(a, x);
    lemma_setsum_union(a, b);
    assert(x.drop_last() =~= Seq::<Seq<u8>>::empty());
    lemma_item_canon(s[k]);
    lemma_add_zero(item_cols(s[k]));
    assert(x.last() == s[k]);
    assert(setsum_of(x.drop_last()) =~= zero_state());
    assert(setsum_of(x) == add_spec(setsum_of(x.drop_last()), item_cols(x.last())));
    assert(setsum_of(x) =~= item_cols(s[k]));
    lemma_setsum_of_canon(a); lemma_setsum_of_canon(b);
    // (A + X) + B == (A + B) + X
    lemma_add_assoc(setsum_of(a), setsum_of(x), setsum_of(b));
    lemma_add_comm(setsum_of(x), setsum_of(b));
    lemma_add_assoc(setsum_of(a), setsum_of(b), setsum_of(x));
}
proof fn lemma_setsum_order_independent(s1: Seq<Seq<u8>>, s2: Seq<Seq<u8>>)
    requires s1.to_multiset() == s2.to_multiset()
    ensures setsum_of(s1) =~= setsum_of(s2)
    decreases s1.len()
{
    broadcast use vstd::seq_lib::group_seq_properties;
    s1.to_multiset_ensures();
    s2.to_multiset_ensures();
    assert(s1.len() == s2.len());
    if s1.len() == 0 {
        assert(s2 =~= Seq::<Seq<u8>>::empty());
        assert(s1 =~= Seq::<Seq<u8>>::empty());
    } else {
        let x = s1.last();
        assert(s1.contains(x));
        assert(s1.to_multiset().count(x) > 0);
        assert(s2.to_multiset().count(x) > 0);
        assert(s2.contains(x));
        let k = choose|k: int| 0 <= k < s2.len() && s2[k] == x;
        let s1p = s1.drop_last();
        let s2p = s2.remove(k);
        assert(s1p =~= s1.remove(s1.len() - 1));
        assert(s1p.to_multiset() =~= s1.to_multiset().remove(x));
        assert(s2p.to_multiset() =~= s2.to_multiset().remove(x));
        lemma_setsum_order_independent(s1p, s2p);
        lemma_setsum_remove(s2, k);
    }
}

// ---------- add_state ----------
//@ extract setsum/src/lib.rs | fn add_state
//@ ret ret
//@ pre <<
        weak_canon(lhs@), weak_canon(rhs@), canon(lhs@) || canon(rhs@),
//@ >>
//@ post <<
        canon(ret@),
        ret@ == add_spec(lhs@, rhs@),
//@ >>
//@ bodystart <<
    proof { lemma_constants_published(); }
//@ >>
//@ loop 0 <<
        invariant
            weak_canon(lhs@), weak_canon(rhs@), canon(lhs@) || canon(rhs@), ret@.len() == 8,
            forall|j: int| 0 <= j < 8 ==> SETSUM_PRIMES@[j] as int == prime(j),
            forall|j: int| 0 <= j < i ==> (ret@[j] as int) < prime(j),
            forall|j: int| 0 <= j < i ==> ret@[j] as int == add_col(lhs@[j] as int, rhs@[j] as int, j),
//@ >>
//@ before `ret[i] = sum as u32;` <<
        proof {
            lemma_prime_range(i as int);
            let pi = prime(i as int);
            let s0 = lhs@[i as int] as int + rhs@[i as int] as int;
            assert(0 <= s0 < 2 * pi);
            if s0 >= pi {
                assert(s0 % pi == s0 - pi) by {
                    vstd::arithmetic::div_mod::lemma_fundamental_div_mod_converse(s0, pi, 1, s0 - pi);
                }
            } else {
                assert(s0 % pi == s0) by {
                    vstd::arithmetic::div_mod::lemma_small_mod(s0 as nat, pi as nat);
                }
            }
            assert(sum as int == add_col(lhs@[i as int] as int, rhs@[i as int] as int, i as int));
        }
//@ >>
//@ end

// ---------- invert_state ----------
// The code returns P[i] - s[i], which is P[i] (non-canonical) for s[i] == 0; the contract states what
// callers may rely on: the result is congruent to the negation and add_state absorbs it
// (ret[i] <= P[i], and ret[i] == P[i] only when s[i] == 0).
//@ extract setsum/src/lib.rs | fn invert_state
//@ ret ret
//@ pre <<
        canon(state@),
//@ >>
//@ post <<
        weak_canon(ret@),
        forall|i: int| 0 <= i < 8 ==> ret@[i] as int == prime(i) - state@[i] as int,
//@ >>
//@ before `state[i] = SETSUM_PRIMES[i] - state[i]` <<
        proof {
            assert(state@[i as int] == state0[i as int]);
            assert((state0[i as int] as int) < prime(i as int));
            assert(SETSUM_PRIMES@[i as int] as int == prime(i as int));
        }
//@ >>
//@ before `let mut state = state;` <<
    let ghost state0 = state@;
//@ >>
//@ bodystart <<
    proof { lemma_constants_published(); }
//@ >>
//@ loop 0 <<
        invariant
            canon(state0), state@.len() == 8,
            forall|j: int| 0 <= j < 8 ==> SETSUM_PRIMES@[j] as int == prime(j),
            forall|j: int| 0 <= j < i ==> state@[j] as int == prime(j) - state0[j] as int,
            forall|j: int| i <= j < 8 ==> state@[j] == state0[j],
//@ >>
//@ end


// ---------- the Setsum object: insert / remove against the definition ----------
spec fn views(item: Seq<&[u8]>) -> Seq<Seq<u8>> { item.map_values(|p: &[u8]| p@) }

//@ extract setsum/src/lib.rs | struct Setsum
//@ end

// ASSUMPTION (X7): SHA3 of the pieces fed one by one equals SHA3 of their concatenation (external
// crate sha3), and hash_to_state(h) == columns of h reduced mod P -- the latter is discharged on the
// real code by Kani harness setsum::hash_to_state_matches_definition (full domain).
//@ extract setsum/src/lib.rs | fn item_vectored_to_state
//@ external-body
//@ ret ret
//@ post <<
        ret@ == item_cols(flatten(views(item@))),
//@ >>
//@ end

impl Setsum {
    spec fn inv(&self) -> bool { canon(self.state@) }

//@ extract setsum/src/lib.rs | impl Setsum :: fn insert_vectored
//@ pre <<
        old(self).inv(),
//@ >>
//@ post <<
        final(self).inv(),
        final(self).state@ == add_spec(old(self).state@, item_cols(flatten(views(item@)))),
//@ >>
//@ bodystart <<
    proof { lemma_item_canon(flatten(views(item@))); }
//@ >>
//@ end

//@ extract setsum/src/lib.rs | impl Setsum :: fn remove_vectored
//@ pre <<
        old(self).inv(),
//@ >>
//@ post <<
        final(self).inv(),
        final(self).state@ == add_spec(old(self).state@, neg_spec(item_cols(flatten(views(item@))))),
//@ >>
//@ bodystart <<
    proof { lemma_item_canon(flatten(views(item@))); }
//@ >>
//@ after `self.state = add_state(self.state, item_state);` <<
    proof {
        let it = item_cols(flatten(views(item@)));
        assert forall|i: int| 0 <= i < 8 implies
            add_col(old(self).state@[i] as int, prime(i) - it[i] as int, i) == add_col(old(self).state@[i] as int, neg_col(it[i] as int, i), i) by {
            lemma_prime_range(i);
            vstd::arithmetic::div_mod::lemma_add_mod_noop_right(old(self).state@[i] as int, prime(i) - it[i] as int, prime(i));
        }
        assert(self.state@ =~= add_spec(old(self).state@, neg_spec(it)));
    }
//@ >>
//@ end
    // ---------- the operators the store balances its manifest with (`+`, `+=`, `-`, `-=`, default): the trait-impl
    // headers are dropped, the method bodies are the repository's
//@ extract setsum/src/lib.rs | impl Default for Setsum :: fn default
//@ ret r
//@ post <<
        r.inv(), r.state@ == zero_state(),
//@ >>
//@ bodystart <<
    proof { lemma_constants_published(); assert forall|i: int| 0 <= i < 8 implies 0 < prime(i) by { lemma_prime_range(i); } }
//@ >>
//@ end
//@ extract setsum/src/lib.rs | impl std::ops::Add<Setsum> for Setsum :: fn add
//@ ret r
//@ pre <<
        self.inv(), rhs.inv(),
//@ >>
//@ post <<
        r.inv(), r.state@ == add_spec(self.state@, rhs.state@),
//@ >>
//@ end
//@ extract setsum/src/lib.rs | impl std::ops::AddAssign<Setsum> for Setsum :: fn add_assign
//@ pre <<
        old(self).inv(), rhs.inv(),
//@ >>
//@ post <<
        final(self).inv(), final(self).state@ == add_spec(old(self).state@, rhs.state@),
//@ >>
//@ end
//@ extract setsum/src/lib.rs | impl std::ops::Sub<Setsum> for Setsum :: fn sub
//@ ret r
//@ pre <<
        self.inv(), rhs.inv(),
//@ >>
//@ post <<
        r.inv(), r.state@ == add_spec(self.state@, neg_spec(rhs.state@)),
//@ >>
//@ after `let state = add_state(self.state, rhs_state);` <<
    proof { lemma_sub_is_add_neg(self.state@, rhs.state@, rhs_state@); assert(state@ =~= add_spec(self.state@, neg_spec(rhs.state@))); }
//@ >>
//@ end
//@ extract setsum/src/lib.rs | impl std::ops::SubAssign<Setsum> for Setsum :: fn sub_assign
//@ pre <<
        old(self).inv(), rhs.inv(),
//@ >>
//@ post <<
        final(self).inv(), final(self).state@ == add_spec(old(self).state@, neg_spec(rhs.state@)),
//@ >>
//@ after `self.state = add_state(self.state, rhs_state);` <<
    proof { lemma_sub_is_add_neg(old(self).state@, rhs.state@, rhs_state@); assert(self.state@ =~= add_spec(old(self).state@, neg_spec(rhs.state@))); }
//@ >>
//@ end
}

// adding P - b (what invert_state returns, P itself where b is 0) is adding the negation of b
proof fn lemma_sub_is_add_neg(a: Seq<u32>, b: Seq<u32>, inv: Seq<u32>)
    requires canon(a), canon(b), inv.len() == 8, forall|i: int| 0 <= i < 8 ==> inv[i] as int == prime(i) - b[i] as int
    ensures forall|i: int| 0 <= i < 8 ==> add_col(a[i] as int, inv[i] as int, i) == add_col(a[i] as int, neg_spec(b)[i] as int, i)
{
    assert forall|i: int| 0 <= i < 8 implies add_col(a[i] as int, inv[i] as int, i) == add_col(a[i] as int, neg_spec(b)[i] as int, i) by {
        lemma_prime_range(i);
        vstd::arithmetic::div_mod::lemma_add_mod_noop_right(a[i] as int, prime(i) - b[i] as int, prime(i));
        assert(neg_spec(b)[i] as int == neg_col(b[i] as int, i));
    }
}

} // verus!
fn main() {}
