//@ package tuple_key
//@ modfile tuple_key/src/lib.rs
//@ flags --lib

#[cfg(kani)]
pub(crate) mod __verif_tuple_key {
    use super::*;
    use core::cmp::Ordering;

    // byte-lexicographic comparison (shorter-is-smaller on a common prefix), written out as a loop so
    // that it is the specification of `<[u8] as Ord>` rather than a call into it
    fn lex(a: &[u8], b: &[u8]) -> Ordering {
        let mut i = 0;
        while i < a.len() && i < b.len() {
            if a[i] < b[i] { return Ordering::Less; }
            if a[i] > b[i] { return Ordering::Greater; }
            i += 1;
        }
        if a.len() < b.len() { Ordering::Less } else if a.len() > b.len() { Ordering::Greater } else { Ordering::Equal }
    }
    // low-bit discipline: every byte but the last is odd, the last is even (=> self-delimiting,
    // hence prefix-free, hence concatenations compare element by element)
    fn disciplined(e: &[u8]) -> bool {
        if e.len() == 0 { return false; }
        let mut ok = true;
        let mut i = 0;
        while i < e.len() {
            if i + 1 < e.len() { ok = ok & (e[i] & 1 == 1); } else { ok = ok & (e[i] & 1 == 0); }
            i += 1;
        }
        ok
    }
    fn mk() -> SError { SError::from(handled::SExpr::Atom(String::new())) }
    fn stub_usize(_a: usize) -> SError { mk() }
    fn stub_ifn(_a: u32, _w: impl AsRef<str>) -> SError { mk() }
    fn any_dir() -> Direction { if kani::any() { Direction::Forward } else { Direction::Reverse } }
    fn want(o: Ordering, d: Direction) -> Ordering { if d == Direction::Reverse { o.reverse() } else { o } }

    //@ H kind=complete tier=quick timeout=300 oblig="tuple_key::ordered::order-preserving-bijection"
    #[kani::proof]
    fn ordered_is_order_preserving_bijection() {
        let a: i32 = kani::any(); let b: i32 = kani::any();
        assert!((a < b) == (ordered::encode_i32(a) < ordered::encode_i32(b)));
        assert!(ordered::decode_i32(ordered::encode_i32(a)) == a);
        let u: u32 = kani::any();
        assert!(ordered::encode_i32(ordered::decode_i32(u)) == u);
        let c: i64 = kani::any(); let d: i64 = kani::any();
        assert!((c < d) == (ordered::encode_i64(c) < ordered::encode_i64(d)));
        assert!(ordered::decode_i64(ordered::encode_i64(c)) == c);
        let v: u64 = kani::any();
        assert!(ordered::encode_i64(ordered::decode_i64(v)) == v);
        kani::cover!(a < 0 && b >= 0);
    }

    // one element of an integer type, per direction: order, round trip, discipline.  The element bytes
    // are produced by the real `append_to` (+ `reverse_encoding` exactly as extend_with_key applies it)
    // into a pre-sized buffer; extend_with_key's tag prefix is covered by field_number_roundtrip.
    macro_rules! int_elem {
        ($name:ident, $t:ty, $n:expr, $dir:expr) => {
            #[kani::proof]
            #[kani::unwind(12)]
            fn $name() {
                let a: $t = kani::any(); let b: $t = kani::any();
                let dir: Direction = $dir;
                let mut ka = TupleKey { buf: Vec::with_capacity(16) };
                let mut kb = TupleKey { buf: Vec::with_capacity(16) };
                a.append_to(&mut ka); b.append_to(&mut kb);
                if dir == Direction::Reverse { reverse_encoding(&mut ka.buf[..]); reverse_encoding(&mut kb.buf[..]); }
                assert!(ka.buf.len() == $n && kb.buf.len() == $n);
                let mut ea = [0u8; $n]; let mut eb = [0u8; $n];
                let mut i = 0; while i < $n { ea[i] = ka.buf[i]; eb[i] = kb.buf[i]; i += 1; }
                assert!(lex(&ea, &eb) == want(a.cmp(&b), dir));
                assert!(disciplined(&ea));
                // decode as parse_next_with_key does
                let mut back = ea;
                if dir == Direction::Reverse { reverse_encoding(&mut back[..]); }
                match <$t as Element>::parse_from(&back[..]) { Ok(v) => { assert!(v == a); } Err(_) => { assert!(false); } }
                kani::cover!(a < b);
                kani::cover!(a > b);
                core::mem::forget(ka); core::mem::forget(kb);
            }
        };
    }
    //@ H name=elem_u32_fwd kind=complete tier=quick timeout=900 oblig="tuple_key::Element<u32>::order+roundtrip+discipline(forward)"
    int_elem!(elem_u32_fwd, u32, 5, Direction::Forward);
    //@ H name=elem_u32_rev kind=complete tier=quick timeout=900 oblig="tuple_key::Element<u32>::order+roundtrip+discipline(reverse)"
    int_elem!(elem_u32_rev, u32, 5, Direction::Reverse);
    //@ H name=elem_i32_fwd kind=complete tier=quick timeout=900 oblig="tuple_key::Element<i32>::order+roundtrip+discipline(forward)"
    int_elem!(elem_i32_fwd, i32, 5, Direction::Forward);
    //@ H name=elem_i32_rev kind=complete tier=quick timeout=900 oblig="tuple_key::Element<i32>::order+roundtrip+discipline(reverse)"
    int_elem!(elem_i32_rev, i32, 5, Direction::Reverse);
    //@ H name=elem_u64_fwd kind=complete tier=quick timeout=900 oblig="tuple_key::Element<u64>::order+roundtrip+discipline(forward)"
    int_elem!(elem_u64_fwd, u64, 10, Direction::Forward);
    //@ H name=elem_u64_rev kind=complete tier=quick timeout=900 oblig="tuple_key::Element<u64>::order+roundtrip+discipline(reverse)"
    int_elem!(elem_u64_rev, u64, 10, Direction::Reverse);
    //@ H name=elem_i64_fwd kind=complete tier=quick timeout=900 oblig="tuple_key::Element<i64>::order+roundtrip+discipline(forward)"
    int_elem!(elem_i64_fwd, i64, 10, Direction::Forward);
    //@ H name=elem_i64_rev kind=complete tier=quick timeout=900 oblig="tuple_key::Element<i64>::order+roundtrip+discipline(reverse)"
    int_elem!(elem_i64_rev, i64, 10, Direction::Reverse);

    // extend_with_key = tag ++ element (reversed when descending) and parses back through the public API
    //@ H kind=bounded tier=experimental timeout=3600 bound="one fixed field number (1), u32 element" oblig="tuple_key::extend_with_key+parse_next_with_key::roundtrip"
    #[kani::proof]
    #[kani::unwind(12)]
    #[kani::stub(prototk::invalid_field_number, stub_ifn)]
    fn extend_with_key_roundtrip() {
        let a: u32 = kani::any();
        let dir = any_dir();
        let f = match FieldNumber::new(1) { Ok(f) => f, Err(e) => { core::mem::forget(e); return; } };
        let mut k = TupleKey { buf: Vec::with_capacity(16) };
        k.extend_with_key(f, a, dir);
        assert!(k.buf.len() == 6);
        let mut p = TupleKeyParser::new(&k);
        let back: Result<u32, &'static str> = p.parse_next_with_key(f, dir);
        match back { Ok(v) => { assert!(v == a); } Err(_) => { assert!(false); } }
        kani::cover!(dir == Direction::Reverse);
        core::mem::forget(k);
    }

    fn any_kdt() -> KeyDataType {
        let k: u8 = kani::any();
        kani::assume(k < 6);
        match k { 0 => KeyDataType::unit, 1 => KeyDataType::fixed32, 2 => KeyDataType::fixed64, 3 => KeyDataType::sfixed32, 4 => KeyDataType::sfixed64, _ => KeyDataType::string }
    }

    // field-number tags: round trip + discipline for every valid field number, per data type and direction
    // (one harness per (type, direction): the symbolic 29-bit field number through varint pack, byte
    // rotation, unpack is what costs SAT time; the twelve harnesses together cover the whole domain)
    fn field_number_case(t: KeyDataType, d: Direction) { field_number_case_upto(t, d, 536870911); }
    fn field_number_case_upto(t: KeyDataType, d: Direction, max: u32) {
        let n: u32 = kani::any();
        kani::assume(n >= 1 && n <= max && !(n >= 19000 && n <= 19999));
        let f = match FieldNumber::new(n) { Ok(f) => f, Err(e) => { core::mem::forget(e); return; } };
        let (buf, sz) = TupleKey::field_number(f, t, d);
        assert!(sz >= 1 && sz <= 5);
        assert!(disciplined(&buf[..sz]));
        match TupleKey::unfield_number(&buf[..sz]) {
            Some((f2, t2, d2)) => { assert!(f2 == f && t2 == t && d2 == d); }
            None => { assert!(false); }
        }
        kani::cover!(sz >= 2);
    }
    // every field number below 2^11 (one- and two-byte tags), every type and direction.  Even this did not
    // finish in 25 minutes of CBMC time (iter_mut().for_each / zip / rotate over a symbolic-length prefix),
    // so all field-number harnesses live in the thorough tier.
    //@ H kind=bounded tier=experimental timeout=14400 bound="field numbers 1..=2047, every key data type and direction" oblig="tuple_key::field_number::roundtrip+discipline (n < 2^11)"
    #[kani::proof]
    #[kani::unwind(12)]
    #[kani::stub(prototk::invalid_field_number, stub_ifn)]
    #[kani::stub(buffertk::varint_overflow, stub_usize)]
    fn field_number_small() { field_number_case_upto(any_kdt(), any_dir(), 2047); }
    macro_rules! fn_case {
        ($name:ident, $t:expr, $d:expr) => {
            #[kani::proof]
            #[kani::unwind(12)]
            #[kani::stub(prototk::invalid_field_number, stub_ifn)]
            #[kani::stub(buffertk::varint_overflow, stub_usize)]
            fn $name() { field_number_case($t, $d); }
        };
    }
    //@ H name=fn_unit_fwd kind=complete tier=experimental timeout=14400 oblig="tuple_key::field_number::roundtrip+discipline(unit,forward)"
    fn_case!(fn_unit_fwd, KeyDataType::unit, Direction::Forward);
    //@ H name=fn_unit_rev kind=complete tier=experimental timeout=14400 oblig="tuple_key::field_number::roundtrip+discipline(unit,reverse)"
    fn_case!(fn_unit_rev, KeyDataType::unit, Direction::Reverse);
    //@ H name=fn_f32_fwd kind=complete tier=experimental timeout=14400 oblig="tuple_key::field_number::roundtrip+discipline(fixed32,forward)"
    fn_case!(fn_f32_fwd, KeyDataType::fixed32, Direction::Forward);
    //@ H name=fn_f32_rev kind=complete tier=experimental timeout=14400 oblig="tuple_key::field_number::roundtrip+discipline(fixed32,reverse)"
    fn_case!(fn_f32_rev, KeyDataType::fixed32, Direction::Reverse);
    //@ H name=fn_f64_fwd kind=complete tier=experimental timeout=14400 oblig="tuple_key::field_number::roundtrip+discipline(fixed64,forward)"
    fn_case!(fn_f64_fwd, KeyDataType::fixed64, Direction::Forward);
    //@ H name=fn_f64_rev kind=complete tier=experimental timeout=14400 oblig="tuple_key::field_number::roundtrip+discipline(fixed64,reverse)"
    fn_case!(fn_f64_rev, KeyDataType::fixed64, Direction::Reverse);
    //@ H name=fn_s32_fwd kind=complete tier=experimental timeout=14400 oblig="tuple_key::field_number::roundtrip+discipline(sfixed32,forward)"
    fn_case!(fn_s32_fwd, KeyDataType::sfixed32, Direction::Forward);
    //@ H name=fn_s32_rev kind=complete tier=experimental timeout=14400 oblig="tuple_key::field_number::roundtrip+discipline(sfixed32,reverse)"
    fn_case!(fn_s32_rev, KeyDataType::sfixed32, Direction::Reverse);
    //@ H name=fn_s64_fwd kind=complete tier=experimental timeout=14400 oblig="tuple_key::field_number::roundtrip+discipline(sfixed64,forward)"
    fn_case!(fn_s64_fwd, KeyDataType::sfixed64, Direction::Forward);
    //@ H name=fn_s64_rev kind=complete tier=experimental timeout=14400 oblig="tuple_key::field_number::roundtrip+discipline(sfixed64,reverse)"
    fn_case!(fn_s64_rev, KeyDataType::sfixed64, Direction::Reverse);
    //@ H name=fn_str_fwd kind=complete tier=experimental timeout=14400 oblig="tuple_key::field_number::roundtrip+discipline(string,forward)"
    fn_case!(fn_str_fwd, KeyDataType::string, Direction::Forward);
    //@ H name=fn_str_rev kind=complete tier=experimental timeout=14400 oblig="tuple_key::field_number::roundtrip+discipline(string,reverse)"
    fn_case!(fn_str_rev, KeyDataType::string, Direction::Reverse);

    // strings, bounded: ASCII contents (every byte 0x00..0x7f), lengths 0..=3 on both sides
    fn mk_string(bytes: &[u8; 3], n: usize) -> String {
        let mut v: Vec<u8> = Vec::new();
        let mut i = 0;
        while i < 3 { if i < n { v.push(bytes[i]); } i += 1; }
        unsafe { String::from_utf8_unchecked(v) }
    }
    fn ascii(b: &[u8; 3]) -> bool { b[0] < 0x80 && b[1] < 0x80 && b[2] < 0x80 }
    // recorded finding C16-desc-string-prefix: descending strings where one is a proper prefix of the
    // other and the longer one continues with a byte below 2^(1 + (8*len mod 7))
    fn known_class(a: &[u8; 3], na: usize, b: &[u8; 3], nb: usize) -> bool {
        let (s, ns, l, nl) = if na <= nb { (a, na, b, nb) } else { (b, nb, a, na) };
        if ns >= nl { return false; }
        let mut pre = true;
        let mut i = 0;
        while i < 3 { if i < ns { pre = pre & (s[i] == l[i]); } i += 1; }
        let r = (8 * ns) % 7;
        pre && (l[ns] as u32) < (1u32 << (1 + r))
    }
    fn string_case(dir: Direction, only_known: bool, exclude_known: bool) {
        let a: [u8; 3] = kani::any(); let b: [u8; 3] = kani::any();
        let na: usize = kani::any(); let nb: usize = kani::any();
        kani::assume(na <= 3 && nb <= 3 && ascii(&a) && ascii(&b));
        let k = known_class(&a, na, &b, nb);
        if only_known { kani::assume(k); }
        if exclude_known { kani::assume(!k); }
        let sa = mk_string(&a, na); let sb = mk_string(&b, nb);
        let f = FieldNumber::must(1);
        let mut ka = TupleKey::default(); ka.extend_with_key(f, sa, dir);
        let mut kb = TupleKey::default(); kb.extend_with_key(f, sb, dir);
        let (ea, eb) = (ka.as_bytes(), kb.as_bytes());
        assert!(disciplined(&ea[1..]) && disciplined(&eb[1..]));
        let truth = lex(&a[..na], &b[..nb]);
        assert!(lex(ea, eb) == want(truth, dir));
        kani::cover!(na == 3 && nb == 2);
        kani::cover!(na == 0 && nb > 0);
        core::mem::forget(ka); core::mem::forget(kb);
    }

    //@ H kind=bounded tier=quick timeout=1200 bound="ASCII strings of length <= 3 on each side" oblig="tuple_key::Element<String>::order(forward)"
    #[kani::proof]
    #[kani::unwind(8)]
    fn string_order_forward() { string_case(Direction::Forward, false, false); }

    //@ H kind=bounded tier=quick timeout=1200 bound="ASCII strings of length <= 3 on each side" oblig="tuple_key::Element<String>::order(reverse, outside recorded class)"
    #[kani::proof]
    #[kani::unwind(8)]
    fn string_order_reverse_outside_known_class() { string_case(Direction::Reverse, false, true); }

    //@ H kind=bounded tier=quick timeout=1200 bound="ASCII strings of length <= 3 on each side" finding=C16-desc-string-prefix oblig="tuple_key::Element<String>::order(reverse, recorded class)"
    #[kani::proof]
    #[kani::unwind(8)]
    fn string_order_reverse_known_class() { string_case(Direction::Reverse, true, false); }

    // Combine7BitChunks inverts Iterate7BitChunks (the two halves of the string element codec), all bytes
    //@ H kind=bounded tier=quick timeout=1200 bound="byte strings of length <= 4 (all byte values)" oblig="tuple_key::iter7+combine7::inverse"
    #[kani::proof]
    #[kani::unwind(8)]
    fn chunks_roundtrip() {
        let a: [u8; 4] = kani::any();
        let na: usize = kani::any();
        kani::assume(na <= 4);
        let mut enc = [0u8; 6]; let mut ne = 0usize;
        let mut it = Iterate7BitChunks::new(&a[..na]);
        let mut i = 0;
        while i < 6 { match it.next() { Some(b) => { enc[ne] = b; ne += 1; } None => {} } i += 1; }
        assert!(it.next().is_none());
        if na > 0 { assert!(disciplined(&enc[..ne])); } else { assert!(ne == 0); }
        let mut co = Combine7BitChunks::new(&enc[..ne]);
        let mut j = 0;
        while j < 4 { if j < na { assert!(co.next() == Some(a[j])); } j += 1; }
        assert!(co.next().is_none());
        kani::cover!(na == 4);
    }

    // decoders on arbitrary bytes: never panic
    //@ H kind=bounded tier=quick timeout=1200 bound="byte strings of length <= 11" oblig="tuple_key::decoders::total"
    #[kani::proof]
    #[kani::unwind(13)]
    fn decoders_total() {
        let buf: [u8; 11] = kani::any();
        let n: usize = kani::any();
        kani::assume(n <= 11);
        let s = &buf[..n];
        let _ = <u32 as Element>::parse_from(s);
        let _ = <u64 as Element>::parse_from(s);
        let _ = <i32 as Element>::parse_from(s);
        let _ = <i64 as Element>::parse_from(s);
        let _ = <() as Element>::parse_from(s);
        let mut it = TupleKeyIterator::from(s);
        let first = it.next();
        if let Some(e) = first { assert!(e.len() >= 1 && e.len() <= n); }
        kani::cover!(n == 11);
    }

    //@ H kind=bounded tier=experimental timeout=3600 bound="byte strings of length <= 6" oblig="tuple_key::unfield_number::total"
    #[kani::proof]
    #[kani::unwind(12)]
    #[kani::solver(kissat)]
    #[kani::stub(prototk::invalid_field_number, stub_ifn)]
    #[kani::stub(buffertk::varint_overflow, stub_usize)]
    fn unfield_number_total() {
        let buf: [u8; 6] = kani::any();
        let n: usize = kani::any();
        kani::assume(n <= 6);
        let _ = TupleKey::unfield_number(&buf[..n]);
        kani::cover!(n == 6);
    }
}
