// C05 replay (run only after a failed obligation of unit sst_gc, to look for a concrete failing input; a bounded
// search, never counted as proof).  Copied to sst/tests/ of a scratch copy of /repo.
// It runs the REAL GarbageCollector over every small sorted table and compares what it emits with the reading of
// the policy text that the Verus contract states (questions / tomb_run / determiner steps).
use std::num::NonZeroU64;

use sst::gc::GarbageCollectionPolicy;
use sst::{Cursor, KeyRef, SError as Error};

#[derive(Clone, Debug)]
struct Ent {
    key: Vec<u8>,
    ts: u64,
    val: Option<Vec<u8>>,
}

struct VecCursor {
    ents: Vec<Ent>,
    pos: isize,
}

impl Cursor for VecCursor {
    fn seek_to_first(&mut self) -> Result<(), Error> {
        self.pos = -1;
        Ok(())
    }
    fn seek_to_last(&mut self) -> Result<(), Error> {
        self.pos = self.ents.len() as isize;
        Ok(())
    }
    fn seek(&mut self, key: &[u8]) -> Result<(), Error> {
        self.pos = self.ents.iter().position(|e| e.key.as_slice() >= key).unwrap_or(self.ents.len()) as isize;
        Ok(())
    }
    fn prev(&mut self) -> Result<(), Error> {
        if self.pos > -1 {
            self.pos -= 1;
        }
        Ok(())
    }
    fn next(&mut self) -> Result<(), Error> {
        if self.pos < self.ents.len() as isize {
            self.pos += 1;
        }
        Ok(())
    }
    fn key(&self) -> Option<KeyRef<'_>> {
        if self.pos >= 0 && (self.pos as usize) < self.ents.len() {
            let e = &self.ents[self.pos as usize];
            Some(KeyRef { key: &e.key, timestamp: e.ts })
        } else {
            None
        }
    }
    fn value(&self) -> Option<&'_ [u8]> {
        if self.pos >= 0 && (self.pos as usize) < self.ents.len() {
            self.ents[self.pos as usize].val.as_deref()
        } else {
            None
        }
    }
}

#[derive(Clone, Debug)]
enum Pol {
    Versions(u64),
    Ttl(u64),
    Any(Vec<Pol>),
    All(Vec<Pol>),
}

impl Pol {
    fn real(&self) -> GarbageCollectionPolicy {
        match self {
            Pol::Versions(n) => GarbageCollectionPolicy::Versions { number: NonZeroU64::new(*n).unwrap() },
            Pol::Ttl(m) => GarbageCollectionPolicy::Expires { micros: NonZeroU64::new(*m).unwrap() },
            Pol::Any(v) => GarbageCollectionPolicy::Any(v.iter().map(|p| p.real()).collect()),
            Pol::All(v) => GarbageCollectionPolicy::All(v.iter().map(|p| p.real()).collect()),
        }
    }
}

// the policy text, read independently: one state per leaf, every leaf is asked every question
enum Ref {
    Versions { n: u64, key: Option<Vec<u8>>, count: u64 },
    Ttl { threshold: u64 },
    Any(Vec<Ref>),
    All(Vec<Ref>),
}

impl Ref {
    fn new(p: &Pol, now: u64) -> Ref {
        match p {
            Pol::Versions(n) => Ref::Versions { n: *n, key: None, count: 0 },
            Pol::Ttl(m) => Ref::Ttl { threshold: now.saturating_sub(*m) },
            Pol::Any(v) => Ref::Any(v.iter().map(|p| Ref::new(p, now)).collect()),
            Pol::All(v) => Ref::All(v.iter().map(|p| Ref::new(p, now)).collect()),
        }
    }
    fn retain(&mut self, k: &[u8], tombs: &[u64], ts: u64) -> bool {
        match self {
            Ref::Versions { n, key, count } => {
                if key.as_deref() != Some(k) {
                    *key = Some(k.to_vec());
                    *count = 0;
                }
                *count += if tombs.is_empty() { 1 } else { 2 };
                *count <= *n
            }
            Ref::Ttl { threshold } => ts >= *threshold,
            Ref::Any(v) => {
                let mut r = false;
                for d in v.iter_mut() {
                    let x = d.retain(k, tombs, ts);
                    r = r || x;
                }
                r
            }
            Ref::All(v) => {
                let mut r = true;
                for d in v.iter_mut() {
                    let x = d.retain(k, tombs, ts);
                    r = r && x;
                }
                r
            }
        }
    }
}

fn expected(t: &[Ent], p: &Pol, now: u64) -> Vec<(Vec<u8>, u64)> {
    let mut det = Ref::new(p, now);
    let mut out = vec![];
    for i in 0..t.len() {
        if t[i].val.is_none() {
            continue;
        }
        let mut j = i;
        while j > 0 && t[j - 1].val.is_none() && t[j - 1].key == t[i].key {
            j -= 1;
        }
        let tombs: Vec<u64> = t[j..i].iter().map(|e| e.ts).collect();
        if det.retain(&t[i].key, &tombs, t[i].ts) {
            if let Some(last) = tombs.last() {
                out.push((t[i].key.clone(), *last));
            }
            out.push((t[i].key.clone(), t[i].ts));
        }
    }
    out
}

fn actual(t: &[Ent], p: &Pol, now: u64) -> Vec<(Vec<u8>, u64)> {
    let mut c = VecCursor { ents: t.to_vec(), pos: -1 };
    c.seek_to_first().unwrap();
    c.next().unwrap();
    let mut gc = p.real().collector(c, now).unwrap();
    let mut out = vec![];
    let mut fuel = 4 * t.len() + 4;
    while let Some(k) = gc.next().unwrap() {
        out.push((k.key.to_vec(), k.timestamp));
        fuel -= 1;
        if fuel == 0 {
            break;
        }
    }
    out
}

#[test]
fn c05_replay() {
    let keys: [&[u8]; 3] = [b"", b"a", b"b"];
    let pols = vec![
        Pol::Versions(1),
        Pol::Versions(2),
        Pol::Versions(3),
        Pol::Versions(4),
        Pol::Ttl(1),
        Pol::Ttl(3),
        Pol::Ttl(5),
        Pol::Any(vec![Pol::Versions(1), Pol::Ttl(3)]),
        Pol::All(vec![Pol::Versions(2), Pol::Ttl(4)]),
        Pol::Any(vec![Pol::All(vec![Pol::Versions(3), Pol::Ttl(2)]), Pol::Versions(1)]),
    ];
    let mut tables = 0u64;
    for n in 0..=6usize {
        // entry i: key step (0 = same key as before, 1 / 2 = advance) and value-or-tombstone
        let mut code = vec![0u8; n];
        'tables: loop {
            let mut t = vec![];
            let mut k = 0usize;
            let mut ok = true;
            for (i, c) in code.iter().enumerate() {
                let step = (c / 2) as usize;
                if i == 0 {
                    k = step;
                } else {
                    k += step;
                }
                if k >= keys.len() {
                    ok = false;
                    break;
                }
                t.push(Ent { key: keys[k].to_vec(), ts: (n - i) as u64, val: if c % 2 == 1 { Some(vec![i as u8]) } else { None } });
            }
            if ok {
                tables += 1;
                for p in pols.iter() {
                    let now = 6;
                    let e = expected(&t, p, now);
                    let a = actual(&t, p, now);
                    if e != a {
                        println!("C05-REPLAY table={:?} policy={:?} now={} expected={:?} got={:?}",
                            t.iter().map(|x| (String::from_utf8_lossy(&x.key).to_string(), x.ts, x.val.is_some())).collect::<Vec<_>>(), p, now, e, a);
                        panic!("C05-REPLAY the real collector disagrees with the policy");
                    }
                }
            }
            // next code
            let mut i = 0;
            loop {
                if i == n {
                    break 'tables;
                }
                code[i] += 1;
                if code[i] < 6 {
                    break;
                }
                code[i] = 0;
                i += 1;
            }
        }
    }
    println!("C05-REPLAY-OK tables={}", tables);
}
