// C08 bounded stand-in for lsmtk::reference_counter::ReferenceCounter (a HashMap under a mutex: outside Verus, and CBMC does
// not finish one inc + dec on it in seven minutes).  Unit lsmtk_orphans ASSUMES of dec(): true iff this was the last reference
// (the entry is then gone), false otherwise and then the count is one lower (an absent entry stays absent).  This test
// compares the real counter with that contract on EVERY sequence of inc / dec over two keys of length <= 10 (bounded:
// 2 keys, 10 operations, 1398101 sequences).  Run on every check; labelled bounded, never counted as proved.
// The type is crate-private, so the file is compiled into the crate: copied to lsmtk/tests/ it includes the module by path.
#[allow(dead_code)]
#[path = "../src/reference_counter.rs"]
mod reference_counter;

use reference_counter::ReferenceCounter;

const MARK: &str = "C08-REFCOUNT-BOUNDED";

fn run(trace: &[u8]) {
    let rc: ReferenceCounter<u8> = ReferenceCounter::default();
    let mut model = [0u64; 2];
    for (i, op) in trace.iter().enumerate() {
        let key = (op & 1) as usize;
        if op & 2 == 0 {
            rc.inc(key as u8);
            model[key] += 1;
        } else {
            let last = rc.dec(key as u8);
            let want = model[key] == 1;
            assert_eq!(last, want, "{MARK}: after {:?} (bit 0 = key, bit 1 set = dec): dec({key}) returned {last} with {} references held", &trace[..i + 1], model[key]);
            model[key] = model[key].saturating_sub(1);
        }
    }
}

fn enumerate(trace: &mut Vec<u8>, depth: usize, count: &mut u64) {
    run(trace);
    *count += 1;
    if depth == 0 {
        return;
    }
    for op in 0..4u8 {
        trace.push(op);
        enumerate(trace, depth - 1, count);
        trace.pop();
    }
}

#[test]
fn c08_refcount_bounded() {
    println!("{MARK}: start");
    let mut count = 0;
    enumerate(&mut Vec::new(), 10, &mut count);
    println!("{MARK}: {count} sequences agree with the contract assumed of dec()");
}
