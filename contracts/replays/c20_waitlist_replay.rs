// C20 / C18 replay for unit sync_waitlist (run only after a failed obligation of that unit or when the unit cannot be
// built, to attach a concrete failing call sequence; bounded, single-threaded, never counted as proof).  Copied to
// sync42/tests/ of a scratch copy of /repo.  Every sequence of link / unlink(k-th live guard) of length <= 12 with at most
// five live guards is run on a sync42::wait_list::WaitList and compared, after every step, with the obvious model
// (the ordered list of linked tickets): is_head of every live guard, count, the tickets an iterator visits and the
// tickets get_waiter hands out.  A panic inside the list (assert_invariants, the assert! in _unlink) fails the test too.
use sync42::wait_list::{WaitGuard, WaitList};

const MARK: &str = "C20-WAITLIST-REPLAY";

fn check<'a>(list: &'a WaitList<u64>, guards: &mut Vec<(u64, WaitGuard<'a, u64>)>, tail: u64, trace: &[i32]) {
    let _ = list;
    let tickets: Vec<u64> = guards.iter().map(|g| g.0).collect();
    let head = tickets.first().copied().unwrap_or(tail);
    for (pos, (ticket, guard)) in guards.iter_mut().enumerate() {
        let ih = guard.is_head();
        assert_eq!(ih, pos == 0, "{MARK}: after {trace:?}: is_head of ticket {ticket} is {ih}, linked tickets {tickets:?}");
        assert_eq!(guard.index(), *ticket, "{MARK}: after {trace:?}: guard of ticket {ticket} reports another index");
        let c = guard.count();
        assert_eq!(c, tail - head, "{MARK}: after {trace:?}: count {c}, window [{head}, {tail})");
        assert_eq!(guard.load(), *ticket * 10, "{MARK}: after {trace:?}: value of ticket {ticket}");
    }
    for (ticket, guard) in guards.iter() {
        let seen: Vec<u64> = guard.iter().map(|mut w| w.index()).collect();
        let expect: Vec<u64> = (*ticket..tail).collect();
        assert_eq!(seen, expect, "{MARK}: after {trace:?}: iterator from ticket {ticket}");
    }
    if let Some((first, _)) = guards.first() {
        let first = *first;
        for t in first..tail + 1 {
            let got = guards[0].1.get_waiter(t).map(|mut w| w.index());
            let expect = if tickets.contains(&t) { Some(t) } else { None };
            assert_eq!(got, expect, "{MARK}: after {trace:?}: get_waiter({t}) from ticket {first}, linked {tickets:?}");
        }
    }
}

fn run(list: &WaitList<u64>, tail_io: &mut u64, trace: &[i32]) {
    let mut guards: Vec<(u64, WaitGuard<u64>)> = Vec::new();
    let mut tail = *tail_io;
    for (step, op) in trace.iter().enumerate() {
        if *op < 0 {
            let g = list.link(tail * 10);
            guards.push((tail, g));
            tail += 1;
        } else {
            let (_, g) = guards.remove(*op as usize);
            list.unlink(g);
        }
        check(list, &mut guards, tail, &trace[..step + 1]);
    }
    // whatever is left is unlinked by Drop, newest first
    while let Some((_, g)) = guards.pop() {
        drop(g);
        check(list, &mut guards, tail, trace);
    }
    *tail_io = tail;
}

fn enumerate(list: &WaitList<u64>, tail: &mut u64, trace: &mut Vec<i32>, live: usize, depth: usize, count: &mut u64) {
    run(list, tail, trace);
    *count += 1;
    if depth == 0 {
        return;
    }
    if live < 5 {
        trace.push(-1);
        enumerate(list, tail, trace, live + 1, depth - 1, count);
        trace.pop();
    }
    for k in 0..live {
        trace.push(k as i32);
        enumerate(list, tail, trace, live - 1, depth - 1, count);
        trace.pop();
    }
}

#[test]
fn c20_waitlist_replay() {
    println!("{MARK}: start");
    let mut count = 0u64;
    // one list for all sequences (the tickets run on, so the ring of 65536 slots wraps several times)
    let list: WaitList<u64> = WaitList::new();
    let mut tail = 0u64;
    enumerate(&list, &mut tail, &mut Vec::new(), 0, 12, &mut count);
    println!("{MARK}: {count} call sequences agree with the model");
}
