// C04 replay (run only after a failed obligation of unit lsmtk_balance, to attach a concrete failing history; a bounded
// search, never counted as proof).  Copied to lsmtk/tests/ of a scratch copy of /repo.
// Forty overlapping files (more than there are levels to move them to) are ingested into a real LsmTree while a real
// compaction thread runs; afterwards every
// transaction of the manifest is checked, independently of the repository's verifier, against the rule of C04:
//   I = previous O,  I = O + D,  D = sum(removed) - sum(added),  O = sum of the files listed afterwards,
// and the repository's ManifestVerifier has to accept the same manifest.
use std::collections::BTreeSet;
use std::path::PathBuf;
use std::sync::Arc;

use arrrg::CommandLine;
use lsmtk::{LsmTree, LsmtkOptions, MANI_ROOT};
use mani::ManifestIterator;
use setsum::Setsum;
use sst::{Builder, SstBuilder, SstOptions};

fn fresh_dir(name: &str) -> PathBuf {
    let dir = std::env::temp_dir().join(format!("{}_{}", name, std::process::id()));
    if dir.exists() {
        std::fs::remove_dir_all(&dir).unwrap();
    }
    dir
}

fn info(edit: &mani::Edit, c: char) -> Result<Setsum, String> {
    let s = edit.get_info(c).ok_or_else(|| format!("edit without '{c}'"))?;
    Setsum::from_hexdigest(s).ok_or_else(|| format!("'{c}' is not a digest: {s}"))
}

// the fragments MANIFEST.<n> in order of n, then MANIFEST
fn fragments(mani_root: &PathBuf) -> Vec<PathBuf> {
    let mut numbered: Vec<(u64, PathBuf)> = vec![];
    for e in std::fs::read_dir(mani_root).unwrap() {
        let p = e.unwrap().path();
        if let Some(n) = mani::extract_backup(&p) {
            numbered.push((n, p));
        }
    }
    numbered.sort();
    let mut v: Vec<PathBuf> = numbered.into_iter().map(|x| x.1).collect();
    v.push(mani::MANIFEST(mani_root));
    v
}

fn check_manifest(mani_root: &PathBuf) -> Result<usize, String> {
    let mut listed: BTreeSet<String> = BTreeSet::new();
    let mut acc = Setsum::default();
    let mut compactions = 0;
    for (fi, path) in fragments(mani_root).iter().enumerate() {
        let frag = path.file_name().unwrap().to_string_lossy().to_string();
        for (k, edit) in ManifestIterator::open(path).map_err(|e| format!("{e:?}"))?.enumerate() {
            let edit = edit.map_err(|e| format!("{e:?}"))?;
            let (i, o, d) = (info(&edit, 'I')?, info(&edit, 'O')?, info(&edit, 'D')?);
            if k == 0 {
                // the first edit of a fragment restates the whole state at its creation
                if fi > 0 && o != acc {
                    return Err(format!("{frag}: starts with O={} but the previous fragment ended with O={}", o.hexdigest(), acc.hexdigest()));
                }
                listed.clear();
            }
            let mut rm_sum = Setsum::default();
            let mut add_sum = Setsum::default();
            for r in edit.rmed() {
                rm_sum += Setsum::from_hexdigest(r).ok_or("rm not a digest")?;
                listed.remove(r);
            }
            for a in edit.added() {
                add_sum += Setsum::from_hexdigest(a).ok_or("add not a digest")?;
                listed.insert(a.clone());
            }
            if k > 0 {
                if edit.rmed().count() > 0 {
                    compactions += 1;
                }
                if i != acc {
                    return Err(format!("{frag} transaction {k}: I={} but the previous O={}", i.hexdigest(), acc.hexdigest()));
                }
                if i != o + d {
                    return Err(format!("{frag} transaction {k}: I={} != O + D = {} + {}", i.hexdigest(), o.hexdigest(), d.hexdigest()));
                }
                if d != rm_sum - add_sum {
                    return Err(format!("{frag} transaction {k}: D={} != sum(rm) - sum(add) = {}", d.hexdigest(), (rm_sum - add_sum).hexdigest()));
                }
            }
            let mut sum = Setsum::default();
            for l in listed.iter() {
                sum += Setsum::from_hexdigest(l).ok_or("listed not a digest")?;
            }
            if o != sum {
                return Err(format!("{frag} transaction {k}: O={} but the listed files sum to {}", o.hexdigest(), sum.hexdigest()));
            }
            acc = o;
        }
    }
    Ok(compactions)
}

fn run(root: &PathBuf, scratch: &PathBuf) -> Result<usize, String> {
    let dbpath = root.to_string_lossy().to_string();
    let (options, _) = LsmtkOptions::from_arguments_relaxed("", &["--path", &dbpath]);
    let tree = Arc::new(LsmTree::open(options).unwrap());
    let t2 = Arc::clone(&tree);
    std::thread::spawn(move || {
        let _ = t2.compaction_thread();
    });
    for f in 0..40u64 {
        let p = scratch.join(format!("{f}.sst"));
        let mut b = SstBuilder::new(SstOptions::default(), &p).unwrap();
        for k in 0..20u64 {
            let key = format!("key{:03}", (k * 7 + f) % 25);
            if (k + f) % 5 == 0 {
                b.del(key.as_bytes(), 100 * (f + 1) + k).ok();
            } else {
                b.put(key.as_bytes(), 100 * (f + 1) + k, format!("v{f}.{k}").as_bytes()).ok();
            }
        }
        b.seal().unwrap();
        let t3 = Arc::clone(&tree);
        let p3 = p.clone();
        match std::panic::catch_unwind(std::panic::AssertUnwindSafe(move || t3.ingest(&p3))) {
            Ok(Ok(())) => {}
            Ok(Err(e)) => return Err(format!("ingest of file {f} of 40 overlapping files fails: {e:?}")),
            Err(_) => {
                return Err(format!(
                    "ingest of file {f} of 40 overlapping files panics: an assert_eq! on the installed version's setsum fired, here or in the compaction thread (poisoned lock)"
                ))
            }
        }
    }
    // let the compaction thread work (it never returns; the test does not wait for it beyond this)
    let mani_root = MANI_ROOT(root);
    let mut last = Ok(0);
    for _ in 0..50 {
        std::thread::sleep(std::time::Duration::from_millis(100));
        last = check_manifest(&mani_root);
        if !matches!(last, Ok(0)) {
            break;
        }
    }
    std::thread::sleep(std::time::Duration::from_millis(300));
    let n = last.and(check_manifest(&mani_root))?;
    let mv = lsmtk::ManifestVerifier::open().unwrap();
    for frag in fragments(&mani_root) {
        if let Err(e) = mv.verify(&frag) {
            return Err(format!("the repository's ManifestVerifier rejects a fragment the store wrote: {frag:?}: {e:?}"));
        }
    }
    Ok(n)
}

#[test]
fn c04_replay() {
    let root = fresh_dir("c04_db");
    let scratch = fresh_dir("c04_ssts");
    std::fs::create_dir_all(&scratch).unwrap();
    std::panic::set_hook(Box::new(|_| {}));
    let res = run(&root, &scratch);
    let _ = std::panic::take_hook();
    let _ = std::fs::remove_dir_all(&scratch);
    let _ = std::fs::remove_dir_all(&root);
    match res {
        Ok(n) => println!("c04 replay: manifest balances, {n} compaction transactions seen"),
        Err(e) => panic!("C04-REPLAY {e}"),
    }
}
