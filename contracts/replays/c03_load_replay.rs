// C03 / Version::load replay (run only after a failed obligation of unit lsmtk_load, to look for a concrete failing
// input; a bounded search, never counted as proof).  Copied to lsmtk/tests/ of a scratch copy of /repo.
// Level-0 files with DISJOINT, increasing timestamp ranges (what memtable flushes produce) are ingested in every
// order into a fresh LsmTree; every point read must return the newest version of the key.
use std::path::PathBuf;

use arrrg::CommandLine;
use lsmtk::{LsmTree, LsmtkOptions};
use sst::{Builder, SstBuilder, SstOptions};

fn fresh_dir(name: &str) -> PathBuf {
    let dir = std::env::temp_dir().join(format!("{}_{}", name, std::process::id()));
    if dir.exists() {
        std::fs::remove_dir_all(&dir).unwrap();
    }
    dir
}

// per file and key: 0 absent, 1 value, 2 tombstone
fn run_case(case: u64, files: &[[u8; 2]], order: &[usize]) -> Result<(), String> {
    let keys: [&[u8]; 2] = [b"a", b"b"];
    let root = fresh_dir("c03_load_db");
    let scratch = fresh_dir("c03_load_ssts");
    std::fs::create_dir_all(&scratch).unwrap();
    let dbpath = root.to_string_lossy().to_string();
    let (options, _) = LsmtkOptions::from_arguments_relaxed("", &["--path", &dbpath]);
    let tree = LsmTree::open(options).unwrap();
    for &f in order.iter() {
        if files[f] == [0, 0] {
            continue;
        }
        let p = scratch.join(format!("{case}_{f}.sst"));
        let mut b = SstBuilder::new(SstOptions::default(), &p).unwrap();
        for (ki, k) in keys.iter().enumerate() {
            let ts = 10 * (f as u64 + 1) + ki as u64;
            match files[f][ki] {
                1 => b.put(k, ts, &[f as u8, ki as u8]).unwrap(),
                2 => b.del(k, ts).unwrap(),
                _ => {}
            }
        }
        b.seal().unwrap();
        tree.ingest(&p).unwrap();
    }
    let mut res = Ok(());
    for (ki, k) in keys.iter().enumerate() {
        // newest version = the one in the file with the largest index that has the key
        let mut want: Option<Vec<u8>> = None;
        for f in (0..files.len()).rev() {
            match files[f][ki] {
                1 => {
                    want = Some(vec![f as u8, ki as u8]);
                    break;
                }
                2 => break,
                _ => {}
            }
        }
        let got = tree.get(k).unwrap();
        if got != want {
            res = Err(format!(
                "C03-LOAD-REPLAY files(per key a,b: 0 absent 1 value 2 tombstone; file i holds ts 10(i+1)..)={:?} ingest order={:?}: get({:?}) = {:?}, newest version says {:?}",
                files, order, String::from_utf8_lossy(k), got, want
            ));
            break;
        }
    }
    drop(tree);
    let _ = std::fs::remove_dir_all(&scratch);
    let _ = std::fs::remove_dir_all(&root);
    res
}

#[test]
fn c03_load_replay() {
    let orders: [[usize; 3]; 6] = [[0, 1, 2], [0, 2, 1], [1, 0, 2], [1, 2, 0], [2, 0, 1], [2, 1, 0]];
    let mut case = 0u64;
    for code in 0..729u32 {
        let mut c = code;
        let mut files = [[0u8; 2]; 3];
        for f in 0..3 {
            for k in 0..2 {
                files[f][k] = (c % 3) as u8;
                c /= 3;
            }
        }
        // keep the search small: only cases where some key has two versions
        let multi = (0..2).any(|k| (0..3).filter(|&f| files[f][k] != 0).count() >= 2);
        if !multi {
            continue;
        }
        for order in orders.iter() {
            case += 1;
            if let Err(msg) = run_case(case, &files, order) {
                println!("{msg}");
                panic!("C03-LOAD-REPLAY a point read does not return the newest version");
            }
        }
    }
    println!("C03-LOAD-REPLAY-OK cases={}", case);
}
