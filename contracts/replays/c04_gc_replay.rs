// C04 replay for unit lsmtk_verify_gc (run only after a failed obligation of that unit, to attach a concrete failing
// history; a bounded search, never counted as proof).  Copied to lsmtk/tests/ of a scratch copy of /repo.
// A store directory is laid out as lsmtk lays it out (real SSTs, a real manifest): ingest A = {k1@1 k2@1 k3@1}, ingest
// B = {k1@2 k3@2}, then a garbage collection under versions = 1 that removes A and B and adds C.  The faithful C is
// {k1@2 k2@1 k3@2}; every history whose C lacks some of these live entries (its I/O/D adjusted so that it still balances)
// has altered the discarded data and must be rejected by LsmVerifier::verify; the faithful one must be accepted.
// (layout code taken from the seeded-change demonstration seeded/C04-3/demo_3.rs)
use std::path::{Path, PathBuf};

use arrrg::CommandLine;
use lsmtk::{LsmVerifier, LsmtkOptions, MANI_ROOT, SST_FILE, SST_ROOT, TRASH_ROOT, TRASH_SST};
use mani::{Edit, Manifest, ManifestOptions};
use setsum::Setsum;
use sst::{Builder, SstBuilder, SstOptions};

fn fresh_dir(name: &str) -> PathBuf {
    let dir = PathBuf::from(env!("CARGO_TARGET_TMPDIR")).join(name);
    if dir.exists() {
        std::fs::remove_dir_all(&dir).unwrap();
    }
    std::fs::create_dir_all(&dir).unwrap();
    dir
}

type Entry = (&'static str, u64, &'static str);

/// Build an sst holding `entries` in `staging` and return (path, setsum recorded in the file).
fn build(staging: &Path, name: &str, entries: &[Entry]) -> (PathBuf, Setsum) {
    let path = staging.join(name);
    let mut builder = SstBuilder::new(SstOptions::default(), &path).unwrap();
    let mut expected = sst::Setsum::default();
    for (key, ts, value) in entries {
        builder.put(key.as_bytes(), *ts, value.as_bytes()).unwrap();
        expected.put(key.as_bytes(), *ts, value.as_bytes());
    }
    let sst = builder.seal().unwrap();
    assert_eq!(expected, sst.fast_setsum());
    (path, expected.into_inner())
}

fn setsum_of(entries: &[Entry]) -> Setsum {
    let mut acc = sst::Setsum::default();
    for (key, ts, value) in entries {
        acc.put(key.as_bytes(), *ts, value.as_bytes());
    }
    acc.into_inner()
}

fn txn(added: &[Setsum], removed: &[Setsum], input: Setsum, discard: Setsum) -> (Edit, Setsum) {
    let output = input - discard;
    let mut edit = Edit::default();
    for a in added {
        edit.add(&a.hexdigest()).unwrap();
    }
    for r in removed {
        edit.rm(&r.hexdigest()).unwrap();
    }
    edit.info('I', &input.hexdigest()).unwrap();
    edit.info('O', &output.hexdigest()).unwrap();
    edit.info('D', &discard.hexdigest()).unwrap();
    (edit, output)
}

const A: &[Entry] = &[("k1", 1, "a1"), ("k2", 1, "b1"), ("k3", 1, "c1")];
const B: &[Entry] = &[("k1", 2, "a2"), ("k3", 2, "c2")];
// What versions = 1 must retain, and what it may discard.
const C_FAITHFUL: &[Entry] = &[("k1", 2, "a2"), ("k2", 1, "b1"), ("k3", 2, "c2")];
const D_FAITHFUL: &[Entry] = &[("k1", 1, "a1"), ("k3", 1, "c1")];

/// Lay out the store and run the offline verifier over it.
fn run(name: &str, gc_output: &[Entry], gc_discard: &[Entry]) -> Result<(), lsmtk::SError> {
    let base = fresh_dir(name);
    let root = base.join("db");
    let staging = base.join("staging");
    std::fs::create_dir_all(&staging).unwrap();
    std::fs::create_dir_all(SST_ROOT(&root)).unwrap();
    std::fs::create_dir_all(TRASH_ROOT(&root)).unwrap();

    let (a_path, a) = build(&staging, "a.sst", A);
    let (b_path, b) = build(&staging, "b.sst", B);
    let (c_path, c) = build(&staging, "c.sst", gc_output);
    let d = setsum_of(gc_discard);
    // Sanity: the gc transaction balances on the setsum level in both variants.
    assert_eq!(a + b, c + d);
    // Inputs of the gc were moved to the trash by the store; the output is live.
    std::fs::rename(&a_path, TRASH_SST(&root, a)).unwrap();
    std::fs::rename(&b_path, TRASH_SST(&root, b)).unwrap();
    std::fs::rename(&c_path, SST_FILE(&root, c)).unwrap();

    let mut mani = Manifest::open(ManifestOptions::default(), MANI_ROOT(&root)).unwrap();
    let zero = Setsum::default();
    let (edit, out) = txn(&[], &[], zero, zero);
    mani.apply(edit).unwrap();
    let (edit, out) = txn(&[a], &[], out, zero - a);
    mani.apply(edit).unwrap();
    let (edit, out) = txn(&[b], &[], out, zero - b);
    mani.apply(edit).unwrap();
    assert_eq!(a + b, out);
    mani.rollover().unwrap();
    let (edit, out) = txn(&[c], &[a, b], out, d);
    mani.apply(edit).unwrap();
    assert_eq!(c, out);
    // The verifier never touches the two newest fragments; roll past the gc.
    mani.rollover().unwrap();
    mani.rollover().unwrap();
    drop(mani);

    let (options, _) = LsmtkOptions::from_arguments("demo", &["--path", root.to_str().unwrap()]);
    let mut verifier = LsmVerifier::open(options)?;
    let ret = verifier.verify();
    if ret.is_ok() {
        // The verifier consumed the gc fragment and unlinked the inputs.
        assert!(!TRASH_SST(&root, a).exists());
        assert!(!TRASH_SST(&root, b).exists());
    }
    ret
}

#[test]
fn c04_gc_replay() {
    let mut failures = vec![];
    for mask in 0..8u32 {
        let kept: Vec<Entry> = C_FAITHFUL.iter().enumerate().filter(|(i, _)| mask & (1 << i) != 0).map(|(_, e)| *e).collect();
        let mut dropped: Vec<Entry> = D_FAITHFUL.to_vec();
        for (i, e) in C_FAITHFUL.iter().enumerate() {
            if mask & (1 << i) == 0 {
                dropped.push(*e);
            }
        }
        if kept.is_empty() {
            continue;
        }
        let ret = run(&format!("c04_gc_replay_{mask}"), &kept, &dropped);
        let faithful = mask == 7;
        match (faithful, ret) {
            (true, Ok(())) => {}
            (true, Err(e)) => failures.push(format!("the faithful garbage collection is rejected: {e:?}")),
            (false, Err(_)) => {}
            (false, Ok(())) => failures.push(format!(
                "verifier ACCEPTS a gc transaction (inputs A={{k1@1,k2@1,k3@1}} B={{k1@2,k3@2}}, versions=1) whose output is only {:?}: live entries were discarded",
                kept.iter().map(|e| format!("{}@{}", e.0, e.1)).collect::<Vec<_>>()
            )),
        }
    }
    if !failures.is_empty() {
        for f in failures.iter() {
            println!("C04-GC-REPLAY {f}");
        }
        panic!("C04-GC-REPLAY {} failing histories; first: {}", failures.len(), failures[0]);
    }
}
