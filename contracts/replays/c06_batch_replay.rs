// C06 replay for unit lsmtk_visible (run only after a failed obligation of that unit or when the unit cannot be built, to attach
// a concrete failing schedule; a bounded, timing-dependent run, never counted as proof).  Copied to lsmtk/tests/ of a scratch
// copy of /repo.  One writer rewrites the same 4000 keys in ONE batch per round (value = round number), sixty rounds; a reader
// takes range scans over everything -- each scan is one snapshot -- and checks that a scan shows all 4000 keys or none, all
// carrying the same round.  A scan that shows part of a batch is a batch that became visible in pieces.
use std::ops::Bound;
use std::sync::atomic::{AtomicBool, Ordering};
use std::sync::Arc;

use arrrg::CommandLine;
use lsmtk::{KeyValueStore, LsmtkOptions, WriteBatch};
use sst::Cursor;

const MARK: &str = "C06-BATCH-REPLAY";
const KEYS: u64 = 4000;
const ROUNDS: u64 = 60;

#[test]
fn c06_batch_replay() {
    println!("{MARK}: start");
    let root = std::env::temp_dir().join(format!("c06_batch_replay_{}", std::process::id()));
    let _ = std::fs::remove_dir_all(&root);
    let dbpath = root.to_string_lossy().to_string();
    let (options, _) = LsmtkOptions::from_arguments_relaxed("", &["--path", &dbpath]);
    let kvs = Arc::new(KeyValueStore::open(options).unwrap());
    let done = Arc::new(AtomicBool::new(false));
    let (k2, d2) = (Arc::clone(&kvs), Arc::clone(&done));
    let writer = std::thread::spawn(move || {
        for round in 1..=ROUNDS {
            let mut wb = WriteBatch::with_capacity(KEYS as usize);
            for i in 0..KEYS {
                wb.put(format!("key{i:06}").as_bytes(), format!("{round}").as_bytes());
            }
            k2.write(wb).unwrap();
        }
        d2.store(true, Ordering::SeqCst);
    });
    let mut scans = 0u64;
    let mut full = 0u64;
    let mut torn: Option<String> = None;
    while !done.load(Ordering::SeqCst) && torn.is_none() {
        let mut cursor = kvs.range_scan::<&[u8]>(&Bound::Unbounded, &Bound::Unbounded).unwrap();
        cursor.seek_to_first().unwrap();
        cursor.next().unwrap();
        let mut first: Option<Vec<u8>> = None;
        let mut seen = 0u64;
        while let Some(kvr) = cursor.key_value() {
            let value = kvr.value.unwrap_or(b"tombstone").to_vec();
            seen += 1;
            match &first {
                None => first = Some(value),
                Some(f) => {
                    if *f != value {
                        torn = Some(format!(
                            "one scan shows key {:?} at round {:?} but the first key at round {:?} ({seen} keys seen)",
                            String::from_utf8_lossy(kvr.key), String::from_utf8_lossy(&value), String::from_utf8_lossy(f)
                        ));
                        break;
                    }
                }
            }
            cursor.next().unwrap();
        }
        if torn.is_none() && seen != 0 && seen != KEYS {
            torn = Some(format!("one scan shows {seen} of the {KEYS} keys every batch writes"));
        }
        if seen == KEYS {
            full += 1;
        }
        scans += 1;
    }
    writer.join().unwrap();
    drop(kvs);
    let _ = std::fs::remove_dir_all(&root);
    if let Some(t) = torn {
        panic!("{MARK}: a batch is visible in part: {t}");
    }
    println!("{MARK}: {scans} scans ({full} of them over a full table), each saw whole batches only");
}
