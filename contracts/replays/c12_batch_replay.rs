// C12 replay for unit log_cores (run only after a failed obligation of that unit or when the unit cannot be built, to attach
// a concrete failing input; bounded, single-threaded, never counted as proof).  Copied to sst/tests/ of a scratch copy of
// /repo.  Batches built through WriteBatch::{insert, put, del, merge} -- keys and values of length 0, 1, 2 and 300 bytes,
// puts of the empty value, tombstones, every split into two merged batches -- are appended with the real LogBuilder and
// read back with the real LogIterator: same entries, in order, puts stay puts, tombstones stay tombstones, and the
// builder's setsum is the setsum of what was inserted.  Then a batch is grown to the block limit: put / del must refuse
// exactly when the batch would pass one block, leaving it as it was.
use std::io::Cursor;

use sst::log::{LogBuilder, LogIterator, LogOptions, WriteBatch};
use sst::{Builder, KeyValuePair, KeyValueRef, Setsum};

const MARK: &str = "C12-BATCH-REPLAY";

fn read_all(buffer: Vec<u8>) -> Vec<KeyValuePair> {
    let mut log = LogIterator::from_reader(LogOptions::default(), Cursor::new(buffer)).unwrap();
    let mut got = vec![];
    while let Some(kvr) = log.next().unwrap() {
        got.push(KeyValuePair { key: kvr.key.to_vec(), timestamp: kvr.timestamp, value: kvr.value.map(|v| v.to_vec()) });
    }
    got
}

fn same(exp: &[KeyValuePair], got: &[KeyValuePair], what: &str) {
    assert_eq!(exp.len(), got.len(), "{MARK}: {what}: {} entries written, {} read back", exp.len(), got.len());
    for (e, g) in std::iter::zip(exp, got) {
        assert!(
            e.key == g.key && e.timestamp == g.timestamp && e.value == g.value,
            "{MARK}: {what}: wrote key {:?} @ {} value {:?}, read back key {:?} @ {} value {:?}",
            e.key, e.timestamp, e.value.as_ref().map(|v| v.len()), g.key, g.timestamp, g.value.as_ref().map(|v| v.len())
        );
    }
}

#[test]
fn c12_batch_replay() {
    println!("{MARK}: start");
    let sizes = [0usize, 1, 2, 300];
    let mut entries: Vec<KeyValuePair> = vec![];
    let mut ts = 1u64;
    for ks in sizes {
        for vs in sizes {
            entries.push(KeyValuePair { key: vec![b'k'; ks], timestamp: ts, value: Some(vec![b'v'; vs]) });
            ts += 1;
        }
        entries.push(KeyValuePair { key: vec![b'k'; ks], timestamp: ts, value: None });
        ts += 1;
    }
    let mut checked = 0;
    for split in 0..=entries.len() {
        for through_insert in [true, false] {
            let mut exp_setsum = Setsum::default();
            let mut parts = [WriteBatch::default(), WriteBatch::default()];
            for (i, kvp) in entries.iter().enumerate() {
                let wb = &mut parts[(i >= split) as usize];
                exp_setsum.insert(KeyValueRef::from(kvp));
                if through_insert {
                    wb.insert(KeyValueRef::from(kvp)).unwrap();
                } else if let Some(v) = kvp.value.as_ref() {
                    wb.put(&kvp.key, kvp.timestamp, v).unwrap();
                } else {
                    wb.del(&kvp.key, kvp.timestamp).unwrap();
                }
            }
            let [mut first, second] = parts;
            first.merge(&second).unwrap();
            let mut buffer = Vec::new();
            let mut log = LogBuilder::from_write(LogOptions::default(), &mut buffer).unwrap();
            log.append(&first).unwrap();
            let (setsum, _) = log.seal().unwrap();
            let what = format!("split at {split}, {}", if through_insert { "insert" } else { "put/del" });
            same(&entries, &read_all(buffer), &what);
            assert_eq!(exp_setsum.hexdigest(), setsum.hexdigest(), "{MARK}: {what}: the log's setsum is not the setsum of what was inserted");
            checked += 1;
        }
    }
    // the block limit: a batch never grows past one block, and a refused entry leaves it as it was
    let mut wb = WriteBatch::default();
    let mut accepted: Vec<KeyValuePair> = vec![];
    let value = vec![b'x'; 32768];
    let mut refused = 0;
    for i in 0..40u64 {
        let before = wb.approximate_size();
        let key = format!("key{i:04}").into_bytes();
        match wb.put(&key, i + 1, &value) {
            Ok(()) => accepted.push(KeyValuePair { key, timestamp: i + 1, value: Some(value.clone()) }),
            Err(_) => {
                refused += 1;
                assert_eq!(before, wb.approximate_size(), "{MARK}: a refused put changed the batch");
            }
        }
        assert!(wb.approximate_size() <= 1 << 20, "{MARK}: the batch grew to {} bytes, past one block", wb.approximate_size());
    }
    assert!(refused > 0 && accepted.len() >= 31, "{MARK}: {} puts of 32 KiB accepted, {refused} refused", accepted.len());
    let mut buffer = Vec::new();
    let mut log = LogBuilder::from_write(LogOptions::default(), &mut buffer).unwrap();
    log.append(&wb).unwrap();
    log.seal().unwrap();
    same(&accepted, &read_all(buffer), "batch grown to the block limit");
    println!("{MARK}: {checked} batches read back exactly; block limit respected");
}
