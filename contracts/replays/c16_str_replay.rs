// C16 replay for unit tuple_key_str (run only after a failed obligation of that unit or when the unit cannot be built:
// it DECIDES between "the chunker's output changed" -- a concrete failing string is reported -- and "only the proof
// broke" -- undecided).  Copied to tuple_key/tests/ of a scratch copy of /repo.  Bounded: every string of up to four
// characters over a thirteen-character alphabet (one-, two-, three- and four-byte UTF-8 sequences, with 0x00, line feed,
// 0x7f and bytes having every low-bit pattern), 30941 strings, plus 400 pseudo-random strings of 1..=3000 characters
// (more than 256 chunks, several block sizes), each compared with an independent bit-string reference of the 7-bit
// chunking and parsed back; then the encodings of the sorted strings must be sorted, strictly.
use tuple_key::{Element, TupleKey};

const MARK: &str = "C16-STR-REPLAY";

fn reference(bytes: &[u8]) -> Vec<u8> {
    if bytes.is_empty() {
        return vec![0];
    }
    let mut bits: Vec<u8> = Vec::new();
    for b in bytes {
        for i in (0..8).rev() {
            bits.push((b >> i) & 1);
        }
    }
    let mut out = Vec::new();
    let mut i = 0;
    while i < bits.len() {
        let mut x = 0u8;
        for j in 0..7 {
            x = (x << 1) | bits.get(i + j).copied().unwrap_or(0);
        }
        i += 7;
        let more = i < bits.len();
        out.push((x << 1) | (more as u8));
    }
    out
}

fn real(s: &str) -> Vec<u8> {
    let mut key = TupleKey::default();
    s.to_string().append_to(&mut key);
    key.as_bytes().to_vec()
}

#[test]
fn c16_str_replay() {
    println!("{MARK}: start");
    let alphabet = ['\0', '\n', '\u{1}', '@', 'a', '\u{7f}', '\u{80}', '\u{ff}', '\u{7ff}', '\u{800}', '\u{ffff}', '\u{10000}', '\u{10ffff}'];
    let mut strings: Vec<String> = vec![String::new()];
    let mut frontier: Vec<String> = vec![String::new()];
    for _ in 0..4 {
        let mut next = Vec::new();
        for s in frontier.iter() {
            for c in alphabet.iter() {
                let mut t = s.clone();
                t.push(*c);
                next.push(t);
            }
        }
        strings.extend(next.iter().cloned());
        frontier = next;
    }
    // long strings: the chunk index passes 256 and 65536 bits, every residue of the length mod 7 occurs
    let mut state = 0x9e3779b97f4a7c15u64;
    let mut rnd = move || {
        state = state.wrapping_mul(6364136223846793005).wrapping_add(1442695040888963407);
        (state >> 33) as usize
    };
    for i in 0..400usize {
        let len = 1 + if i < 200 { i * 3 } else { rnd() % 3000 };
        let mut t = String::new();
        for _ in 0..len {
            t.push(alphabet[rnd() % alphabet.len()]);
        }
        strings.push(t);
    }
    for s in strings.iter() {
        let got = real(s);
        let want = reference(s.as_bytes());
        assert_eq!(got, want, "{MARK}: string with bytes {:?}: chunked as {got:?}, the 7-bit chunking of its bits is {want:?}", s.as_bytes());
        let parsed = String::parse_from(&got);
        assert_eq!(parsed.as_deref(), Ok(s.as_str()), "{MARK}: string with bytes {:?} does not parse back from {got:?}", s.as_bytes());
    }
    strings.sort_by(|a, b| a.as_bytes().cmp(b.as_bytes()));
    strings.dedup();
    for w in strings.windows(2) {
        let (a, b) = (real(&w[0]), real(&w[1]));
        assert!(a < b, "{MARK}: {:?} < {:?} but their encodings {a:?} / {b:?} do not compare that way", w[0].as_bytes(), w[1].as_bytes());
    }
    println!("{MARK}: {} strings agree with the reference and keep their order", strings.len());
}
