// C20 replay for unit lsmtk_wake (run only after a failed obligation of that unit, to attach a concrete failing schedule;
// a bounded, timing-dependent stress run, never counted as proof).  Copied to lsmtk/tests/ of a scratch copy of /repo.
// Two client threads: A writes a batch that the log refuses late (more than one block of entries), B puts one key a
// little later, with the delay swept so that in some rounds B queues up behind A in the store's wait list.  Every write
// has to return.  If no round finishes for 20 seconds a writer is parked for good.
use std::sync::Arc;

use arrrg::CommandLine;
use lsmtk::{KeyValueStore, LsmtkOptions, WriteBatch};

#[test]
fn c20_wake_replay() {
    let root = std::env::temp_dir().join(format!("c20_wake_replay_{}", std::process::id()));
    let _ = std::fs::remove_dir_all(&root);
    let dbpath = root.to_string_lossy().to_string();
    let (options, _) = LsmtkOptions::from_arguments_relaxed("", &["--path", &dbpath]);
    let kvs = Arc::new(KeyValueStore::open(options).unwrap());
    let (tx, rx) = std::sync::mpsc::channel();
    let k2 = Arc::clone(&kvs);
    const ROUNDS: u64 = 120;
    std::thread::spawn(move || {
        for round in 0..ROUNDS {
            let ka = Arc::clone(&k2);
            let a = std::thread::spawn(move || {
                let mut wb = WriteBatch::with_capacity(80000);
                for i in 0..80000u64 {
                    wb.put(format!("a{round}.{i:08}").as_bytes(), b"v");
                }
                ka.write(wb).is_err()
            });
            let kb = Arc::clone(&k2);
            let b = std::thread::spawn(move || {
                std::thread::sleep(std::time::Duration::from_millis(20 + (round % 80)));
                kb.put(format!("b{round}").as_bytes(), b"w").is_ok()
            });
            let ra = a.join().unwrap_or(false);
            let rb = b.join().unwrap_or(false);
            let _ = tx.send((round, ra, rb));
        }
    });
    let mut last = None;
    let verdict = loop {
        match rx.recv_timeout(std::time::Duration::from_secs(20)) {
            Ok((r, ra, rb)) => {
                if !ra {
                    break Err(format!("round {r}: the batch of more than one block was accepted"));
                }
                if !rb {
                    break Err(format!("round {r}: the single put failed"));
                }
                last = Some(r);
                if r == ROUNDS - 1 {
                    break Ok(());
                }
            }
            Err(_) => {
                break Err(format!(
                    "a write never returned: after round {last:?}, writer A (a batch the log refuses) and writer B (one put, queued behind A) were started and at least one of them is still parked after 20 s"
                ))
            }
        }
    };
    let _ = std::fs::remove_dir_all(&root);
    if let Err(e) = verdict {
        println!("C20-WAKE-REPLAY {e}");
        panic!("C20-WAKE-REPLAY {e}");
    }
}
