// C03 replay for unit lsmtk_mem (run only after a failed obligation of that unit, to attach a concrete failing history; a
// bounded search, never counted as proof).  Copied to lsmtk/tests/ of a scratch copy of /repo.
// Histories with a write batch that writes one key more than once (put/put, put/del, del/put, three writes, and a batch
// of distinct keys as the control), run in a child process so that a panic of the store is survivable; afterwards the
// parent reopens the store (log recovery) and reads back: every key must show the LAST write of the batch, and the
// earlier acknowledged write must still be there.
use arrrg::CommandLine;
use lsmtk::{KeyValueStore, LsmtkOptions, WriteBatch};

// (name, batch as (key, Some(value) | None), expected value of "k" afterwards)
fn scenarios() -> Vec<(&'static str, Vec<(&'static [u8], Option<&'static [u8]>)>, Option<&'static [u8]>)> {
    vec![
        ("distinct keys", vec![(b"k", Some(b"v1")), (b"l", Some(b"w1"))], Some(b"v1")),
        ("put k, put k", vec![(b"k", Some(b"first")), (b"k", Some(b"second"))], Some(b"second")),
        ("put k, del k", vec![(b"k", Some(b"first")), (b"k", None)], None),
        ("del k, put k", vec![(b"k", None), (b"k", Some(b"second"))], Some(b"second")),
        ("put k, put l, put k", vec![(b"k", Some(b"first")), (b"l", Some(b"w")), (b"k", Some(b"third"))], Some(b"third")),
    ]
}

fn get(kvs: &KeyValueStore, key: &[u8]) -> Result<Option<Vec<u8>>, String> {
    let mut tomb = false;
    kvs.load(key, &mut tomb).map_err(|e| format!("{e:?}"))
}

#[test]
fn c03_mem_replay() {
    if let (Ok(dbpath), Ok(which)) = (std::env::var("C03_MEM_ROOT"), std::env::var("C03_MEM_SCENARIO")) {
        // child: acknowledged write, then the batch
        let which: usize = which.parse().unwrap();
        let (options, _) = LsmtkOptions::from_arguments_relaxed("", &["--path", &dbpath]);
        let kvs = KeyValueStore::open(options).unwrap();
        kvs.put(b"a", b"1").unwrap();
        let mut wb = WriteBatch::with_capacity(4);
        for (k, v) in scenarios()[which].1.iter() {
            match v {
                Some(v) => wb.put(k, v),
                None => wb.del(k),
            }
        }
        kvs.write(wb).unwrap();
        let want = scenarios()[which].2.map(|v| v.to_vec());
        assert_eq!(get(&kvs, b"k").unwrap(), want, "read after the batch, same process");
        return;
    }
    let mut failures = vec![];
    for (idx, (name, _, want)) in scenarios().iter().enumerate() {
        let root = std::env::temp_dir().join(format!("c03_mem_replay_{}_{idx}", std::process::id()));
        let _ = std::fs::remove_dir_all(&root);
        let dbpath = root.to_string_lossy().to_string();
        let out = std::process::Command::new(std::env::current_exe().unwrap())
            .args(["--exact", "c03_mem_replay"])
            .env("C03_MEM_ROOT", &dbpath)
            .env("C03_MEM_SCENARIO", format!("{idx}"))
            .output()
            .unwrap();
        if !out.status.success() {
            let err = format!("{}\n{}", String::from_utf8_lossy(&out.stdout), String::from_utf8_lossy(&out.stderr));
            let line = err.lines().find(|l| l.contains("panicked")).unwrap_or("").to_string();
            let next = err.lines().skip_while(|l| !l.contains("panicked")).nth(1).unwrap_or("").to_string();
            failures.push(format!("batch [{name}] after put(a,1): the writing process dies: {line} {next}"));
        }
        let (options, _) = LsmtkOptions::from_arguments_relaxed("", &["--path", &dbpath]);
        match std::panic::catch_unwind(|| KeyValueStore::open(options.clone())) {
            Ok(Ok(kvs)) => {
                let k = get(&kvs, b"k");
                let a = get(&kvs, b"a");
                if k != Ok(want.map(|v| v.to_vec())) {
                    failures.push(format!("batch [{name}]: after reopening, k reads {k:?}"));
                }
                if a != Ok(Some(b"1".to_vec())) {
                    failures.push(format!("batch [{name}]: after reopening, the earlier acknowledged put(a,1) reads {a:?}"));
                }
            }
            Ok(Err(e)) => failures.push(format!("batch [{name}] after put(a,1): the store cannot be reopened: {e:?}")),
            Err(_) => failures.push(format!("batch [{name}] after put(a,1): reopening the store panics")),
        }
        let _ = std::fs::remove_dir_all(&root);
    }
    if !failures.is_empty() {
        for f in failures.iter() {
            println!("C03-MEM-REPLAY {}", &f[..f.len().min(400)]);
        }
        panic!("C03-MEM-REPLAY {} failing histories; first: {}", failures.len(), &failures[0][..failures[0].len().min(400)]);
    }
}
