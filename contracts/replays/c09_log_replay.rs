// C09 replay (run only after a failed obligation of unit log_reader, to attach a concrete failing input; a bounded search,
// never counted as proof).  Copied to sst/tests/ of a scratch copy of /repo.
// A log of two small batches is written with the REAL LogBuilder, cut at every length and given to the real consumers of
// the iterator that run at store recovery / log verification (log_to_builder, log_to_setsum, truncate_final_partial_frame)
// and to a plain LogIterator drain: each must return (Ok or Err), never panic.
use sst::log::{log_to_builder, log_to_setsum, truncate_final_partial_frame, LogBuilder, LogIterator, LogOptions};
use sst::{Builder, SstBuilder, SstOptions};

#[test]
fn c09_log_replay() {
    let dir = std::env::temp_dir().join(format!("c09_log_replay_{}", std::process::id()));
    let _ = std::fs::remove_dir_all(&dir);
    std::fs::create_dir_all(&dir).unwrap();
    let path = dir.join("log");
    let mut lb = LogBuilder::new(LogOptions::default(), &path).unwrap();
    lb.put(b"key1", 1, b"value1").unwrap();
    lb.del(b"key2", 2).unwrap();
    lb.seal().unwrap();
    let bytes = std::fs::read(&path).unwrap();
    let mut failures = vec![];
    std::panic::set_hook(Box::new(|_| {}));
    for cut in 0..=bytes.len() {
        let p2 = dir.join(format!("log.{cut}"));
        std::fs::write(&p2, &bytes[..cut]).unwrap();
        let r = std::panic::catch_unwind(|| {
            let _ = log_to_setsum(LogOptions::default(), &p2);
        });
        if r.is_err() {
            failures.push(format!("log_to_setsum panics on the log cut to {cut} of {} bytes", bytes.len()));
        }
        let out = dir.join(format!("out.{cut}.sst"));
        let r = std::panic::catch_unwind(|| {
            let b = SstBuilder::new(SstOptions::default(), &out).unwrap();
            let _ = log_to_builder(LogOptions::default(), &p2, b);
        });
        if r.is_err() {
            failures.push(format!("log_to_builder panics on the log cut to {cut} of {} bytes", bytes.len()));
        }
        let r = std::panic::catch_unwind(|| {
            let _ = truncate_final_partial_frame(LogOptions::default(), &p2);
        });
        if r.is_err() {
            failures.push(format!("truncate_final_partial_frame panics on the log cut to {cut} of {} bytes", bytes.len()));
        }
        let r = std::panic::catch_unwind(|| {
            let mut it = match LogIterator::new(LogOptions::default(), &p2) {
                Ok(it) => it,
                Err(_) => return,
            };
            while let Ok(Some(_)) = it.next() {}
        });
        if r.is_err() {
            failures.push(format!("LogIterator::next panics on the log cut to {cut} of {} bytes", bytes.len()));
        }
    }
    let _ = std::panic::take_hook();
    let _ = std::fs::remove_dir_all(&dir);
    if !failures.is_empty() {
        for f in failures.iter().take(6) {
            println!("C09-LOG-REPLAY {f}");
        }
        panic!("C09-LOG-REPLAY {} failing inputs; first: {}", failures.len(), failures[0]);
    }
}
