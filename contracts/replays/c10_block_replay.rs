// C10 block replay (run only after a failed obligation of unit sst_block, to look for a concrete failing input; a
// bounded search, never counted as proof).  Copied to sst/tests/ of a scratch copy of /repo.
// Builds blocks with the REAL BlockBuilder under several restart intervals from every small sorted entry list and
// compares the REAL BlockCursor (seek_to_first/next, seek_to_last/prev, seek + next/prev, key, value) with the list.
use sst::block::{Block, BlockBuilder, BlockBuilderOptions, BlockCursor};
use sst::{Builder, Cursor};

type E = (Vec<u8>, u64, Option<Vec<u8>>);

fn cur(c: &BlockCursor) -> Option<E> {
    c.key().map(|k| (k.key.to_vec(), k.timestamp, c.value().map(|v| v.to_vec())))
}

fn check(ents: &[E], kv_interval: u32, bytes_interval: u32) -> Result<(), String> {
    let opts = BlockBuilderOptions::default()
        .key_value_pairs_restart_interval(kv_interval)
        .bytes_restart_interval(bytes_interval);
    let mut b = BlockBuilder::new(opts);
    for (k, ts, v) in ents.iter() {
        match v {
            Some(v) => b.put(k, *ts, v).unwrap(),
            None => b.del(k, *ts).unwrap(),
        }
    }
    let block: Block = b.seal().unwrap();
    let ctx = |what: &str| format!("C10-BLOCK-REPLAY entries={:?} kv_interval={} bytes_interval={}: {}",
        ents.iter().map(|e| (String::from_utf8_lossy(&e.0).to_string(), e.1, e.2.is_some())).collect::<Vec<_>>(), kv_interval, bytes_interval, what);
    // forward
    let mut c = block.cursor();
    c.seek_to_first().map_err(|e| ctx(&format!("seek_to_first: {e}")))?;
    for i in 0..=ents.len() {
        c.next().map_err(|e| ctx(&format!("next #{i}: {e}")))?;
        let want = ents.get(i).cloned();
        if cur(&c) != want {
            return Err(ctx(&format!("forward step {i}: got {:?} want {:?}", cur(&c), want)));
        }
    }
    // backward
    c.seek_to_last().map_err(|e| ctx(&format!("seek_to_last: {e}")))?;
    for i in (0..ents.len()).rev() {
        c.prev().map_err(|e| ctx(&format!("prev to {i}: {e}")))?;
        if cur(&c) != Some(ents[i].clone()) {
            return Err(ctx(&format!("backward step to {i}: got {:?} want {:?}", cur(&c), ents[i])));
        }
    }
    c.prev().map_err(|e| ctx(&format!("prev to before-first: {e}")))?;
    if cur(&c).is_some() {
        return Err(ctx("prev at the first entry did not reach before-first"));
    }
    // seek to every key in a small alphabet, then one step each way
    for probe in [&b""[..], b"a", b"aa", b"ab", b"b", b"ba", b"c"] {
        let lb = ents.iter().position(|e| e.0.as_slice() >= probe).unwrap_or(ents.len());
        let mut c = block.cursor();
        c.seek(probe).map_err(|e| ctx(&format!("seek({:?}): {e}", String::from_utf8_lossy(probe))))?;
        if cur(&c) != ents.get(lb).cloned() {
            return Err(ctx(&format!("seek({:?}): got {:?} want {:?}", String::from_utf8_lossy(probe), cur(&c), ents.get(lb))));
        }
        let mut d = c.clone();
        d.next().map_err(|e| ctx(&format!("seek+next: {e}")))?;
        let want = if lb < ents.len() { ents.get(lb + 1).cloned() } else { None };
        if cur(&d) != want {
            return Err(ctx(&format!("seek({:?}) then next: got {:?} want {:?}", String::from_utf8_lossy(probe), cur(&d), want)));
        }
        c.prev().map_err(|e| ctx(&format!("seek+prev: {e}")))?;
        let want = if lb > 0 { Some(ents[lb - 1].clone()) } else { None };
        if cur(&c) != want {
            return Err(ctx(&format!("seek({:?}) then prev: got {:?} want {:?}", String::from_utf8_lossy(probe), cur(&c), want)));
        }
    }
    Ok(())
}

#[test]
fn c10_block_replay() {
    // candidate entries in sorted order (key ascending, timestamp descending)
    let keys: [&[u8]; 5] = [b"a", b"aa", b"ab", b"b", b"ba"];
    let mut all: Vec<E> = vec![];
    for k in keys.iter() {
        for ts in [2u64, 1u64] {
            all.push((k.to_vec(), ts, if (k.len() as u64 + ts) % 2 == 0 { Some(vec![ts as u8; 2]) } else { None }));
        }
    }
    let mut cases = 0u64;
    // every subset of the 10 candidates with at most 5 members -- the empty block included
    for mask in 0u32..(1 << all.len()) {
        if mask.count_ones() > 5 {
            continue;
        }
        let ents: Vec<E> = (0..all.len()).filter(|i| mask & (1 << i) != 0).map(|i| all[i].clone()).collect();
        for (kv, by) in [(1u32, 4096u32), (2, 4096), (3, 4096), (16, 4096), (16, 8), (16, 1), (0, 4096), (16, 0), (0, 0)] {
            cases += 1;
            if let Err(msg) = check(&ents, kv, by) {
                println!("{msg}");
                panic!("C10-BLOCK-REPLAY the real block cursor disagrees with the entries the block was built from");
            }
        }
    }
    println!("C10-BLOCK-REPLAY-OK cases={}", cases);
}

// the table without entries: SstBuilder::seal provides for it (timestamps (0, 0), empty first key, MAX_KEY as last key);
// it has to seal, reopen, and behave as an empty table under every cursor call and point lookup
#[test]
fn c10_empty_sst_replay() {
    use sst::{Builder, Cursor, SstBuilder, SstOptions};
    let p = std::env::temp_dir().join(format!("c10_empty_sst_{}.sst", std::process::id()));
    let _ = std::fs::remove_file(&p);
    let fail = |what: String| -> ! {
        println!("C10-BLOCK-REPLAY empty table: {what}");
        panic!("C10-BLOCK-REPLAY empty table: {what}");
    };
    let sst = match SstBuilder::new(SstOptions::default(), &p).unwrap().seal() {
        Ok(sst) => sst,
        Err(e) => fail(format!("SstBuilder::seal() of a builder that accepted nothing fails: {e}")),
    };
    let mut c = sst.cursor();
    let step = |what: &str, r: Result<(), sst::SError>, c: &sst::SstCursor| {
        if let Err(e) = r {
            fail(format!("{what} fails: {e}"));
        }
        if c.key().is_some() {
            fail(format!("{what}: the cursor shows an entry"));
        }
    };
    let r = c.seek_to_first(); step("seek_to_first", r, &c);
    let r = c.next(); step("next", r, &c);
    let r = c.next(); step("next next", r, &c);
    let r = c.prev(); step("prev", r, &c);
    let r = c.seek(b"k"); step("seek", r, &c);
    let r = c.prev(); step("seek prev", r, &c);
    let r = c.seek_to_last(); step("seek_to_last", r, &c);
    let r = c.prev(); step("seek_to_last prev", r, &c);
    let mut tomb = false;
    match sst.load(b"k", 5, &mut tomb) {
        Ok(None) if !tomb => {}
        other => fail(format!("load(k, 5) = {other:?}, tombstone {tomb}")),
    }
    match sst.metadata() {
        Ok(m) => {
            if !m.first_key.is_empty() || m.smallest_timestamp != 0 || m.biggest_timestamp != 0 {
                fail(format!("metadata first_key {:?} timestamps ({}, {})", m.first_key, m.smallest_timestamp, m.biggest_timestamp));
            }
        }
        Err(e) => fail(format!("metadata fails: {e}")),
    }
    let _ = std::fs::remove_file(&p);
}
