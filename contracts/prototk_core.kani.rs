//@ package prototk
//@ modfile prototk/src/lib.rs
//@ flags --lib

#[cfg(kani)]
pub(crate) mod __verif_prototk {
    use super::*;
    use buffertk::{Packable, Unpackable};

    fn mk() -> SError { SError::from(handled::SExpr::Atom(String::new())) }
    fn stub_u32(_a: u32) -> SError { mk() }
    fn stub_u64(_a: u64) -> SError { mk() }
    fn stub_usize(_a: usize) -> SError { mk() }
    fn stub_2usize(_a: usize, _b: usize) -> SError { mk() }
    fn stub_ifn(_a: u32, _w: impl AsRef<str>) -> SError { mk() }

    fn enc(x: u64, out: &mut [u8; 10]) -> usize {
        let mut v = x;
        let mut n = 0usize;
        while n < 10 {
            let b = (v & 0x7f) as u8;
            v >>= 7;
            if v != 0 { out[n] = b | 0x80; n += 1; } else { out[n] = b; n += 1; break; }
        }
        n
    }

    //@ H kind=complete tier=quick timeout=300 oblig="prototk::zigzag::bijection+definition"
    #[kani::proof]
    fn zigzag_is_protobuf_zigzag() {
        let x: i64 = kani::any();
        let z = zigzag::zigzag(x);
        // definition: non-negative n -> 2n, negative n -> -2n-1
        if x >= 0 { assert!(z == (x as u64) * 2); } else { assert!(z == ((-(x + 1)) as u64) * 2 + 1); }
        assert!(zigzag::unzigzag(z) == x);
        let u: u64 = kani::any();
        assert!(zigzag::zigzag(zigzag::unzigzag(u)) == u);
        kani::cover!(x == i64::MIN);
        kani::cover!(x == i64::MAX);
    }

    //@ H kind=complete tier=quick timeout=300 oblig="prototk::WireType::roundtrip"
    #[kani::proof]
    #[kani::stub(crate::unhandled_wire_type, stub_u32)]
    fn wire_type_roundtrip() {
        let b: u32 = kani::any();
        match WireType::new(b) {
            Ok(w) => { assert!(b == 0 || b == 1 || b == 2 || b == 5); assert!(w.tag_bits() == b); }
            Err(e) => { core::mem::forget(e); assert!(!(b == 0 || b == 1 || b == 2 || b == 5)); }
        }
        kani::cover!(b == 5);
    }

    //@ H kind=complete tier=quick timeout=300 oblig="prototk::FieldNumber::new::valid-range"
    #[kani::proof]
    #[kani::stub(crate::invalid_field_number, stub_ifn)]
    fn field_number_valid_range() {
        let f: u32 = kani::any();
        let valid = f >= 1 && f <= 536870911 && !(f >= 19000 && f <= 19999);
        match FieldNumber::new(f) {
            Ok(n) => { assert!(valid); assert!(n.get() == f); }
            Err(e) => { core::mem::forget(e); assert!(!valid); }
        }
        kani::cover!(valid);
        kani::cover!(!valid);
    }

    fn any_wire() -> WireType {
        let k: u8 = kani::any();
        kani::assume(k < 4);
        match k { 0 => WireType::Varint, 1 => WireType::SixtyFour, 2 => WireType::LengthDelimited, _ => WireType::ThirtyTwo }
    }

    // tag = varint((field_number << 3) | wire_type): wire format + round trip for every valid tag
    //@ H kind=complete tier=quick timeout=900 oblig="prototk::Tag::pack+unpack::wire-format+roundtrip"
    #[kani::proof]
    #[kani::unwind(12)]
    #[kani::stub(crate::invalid_field_number, stub_ifn)]
    #[kani::stub(crate::unhandled_wire_type, stub_u32)]
    #[kani::stub(crate::tag_too_large, stub_u64)]
    #[kani::stub(buffertk::varint_overflow, stub_usize)]
    fn tag_wire_format_and_roundtrip() {
        let f: u32 = kani::any();
        let w = any_wire();
        let field_number = match FieldNumber::new(f) { Ok(n) => n, Err(e) => { core::mem::forget(e); return; } };
        let tag = Tag { field_number, wire_type: w };
        let mut want = [0u8; 10];
        let n = enc(((f as u64) << 3) | w.tag_bits() as u64, &mut want);
        let sz = tag.pack_sz();
        assert!(sz == n && n <= 5);
        let mut got: [u8; 8] = kani::any();
        tag.pack(&mut got[..sz]);
        let mut i = 0;
        while i < 5 { if i < sz { assert!(got[i] == want[i]); } i += 1; }
        match Tag::unpack(&got[..sz]) {
            Ok((t, rest)) => { assert!(t == tag); assert!(rest.len() == 0); }
            Err(e) => { core::mem::forget(e); assert!(false); }
        }
        kani::cover!(sz == 5);
        kani::cover!(sz == 1);
    }

    // any bytes: never panics; an accepted tag is valid
    //@ H kind=complete tier=quick timeout=900 oblig="prototk::Tag::unpack::total"
    #[kani::proof]
    #[kani::unwind(14)]
    #[kani::stub(crate::invalid_field_number, stub_ifn)]
    #[kani::stub(crate::unhandled_wire_type, stub_u32)]
    #[kani::stub(crate::tag_too_large, stub_u64)]
    #[kani::stub(buffertk::varint_overflow, stub_usize)]
    fn tag_unpack_total() {
        let buf: [u8; 12] = kani::any();
        let len: usize = kani::any();
        kani::assume(len <= 12);
        match Tag::unpack(&buf[..len]) {
            Ok((t, rest)) => {
                let f = t.field_number.get();
                assert!(f >= 1 && f <= 536870911 && !(f >= 19000 && f <= 19999));
                assert!(rest.len() < len);
            }
            Err(e) => { core::mem::forget(e); }
        }
        kani::cover!(len == 12);
    }

    // FieldIterator::next on every byte string up to 12 bytes: never panics, the returned payload lies
    // inside the buffer, the iterator makes progress, unknown fields are delimited by their wire type.
    //@ H kind=bounded tier=quick timeout=1500 bound="byte strings of length <= 12" oblig="prototk::FieldIterator::next::total"
    #[kani::proof]
    #[kani::unwind(14)]
    #[kani::stub(crate::invalid_field_number, stub_ifn)]
    #[kani::stub(crate::unhandled_wire_type, stub_u32)]
    #[kani::stub(crate::tag_too_large, stub_u64)]
    #[kani::stub(crate::buffer_too_short, stub_2usize)]
    #[kani::stub(buffertk::varint_overflow, stub_usize)]
    #[kani::stub(buffertk::buffer_too_short, stub_2usize)]
    fn field_iterator_next_total() {
        let buf: [u8; 12] = kani::any();
        let len: usize = kani::any();
        kani::assume(len <= 12);
        let mut err: Option<SError> = None;
        {
            let mut it = FieldIterator::new(&buf[..len], &mut err);
            let before = it.remain().len();
            match it.next() {
                Some((tag, payload)) => {
                    let after = it.remain().len();
                    assert!(after < before);
                    assert!(payload.len() <= before - 1);
                    match tag.wire_type {
                        WireType::SixtyFour => assert!(payload.len() == 8),
                        WireType::ThirtyTwo => assert!(payload.len() == 4),
                        WireType::Varint => assert!(payload.len() >= 1 && payload.len() <= 10),
                        WireType::LengthDelimited => assert!(payload.len() >= 1),
                    }
                    kani::cover!(tag.wire_type == WireType::LengthDelimited && payload.len() > 2);
                }
                None => {}
            }
        }
        kani::cover!(err.is_some());
        core::mem::forget(err);
    }

    //@ H kind=bounded tier=quick timeout=900 bound="byte strings of length <= 12" oblig="prototk::take_length_prefixed::total"
    #[kani::proof]
    #[kani::unwind(14)]
    #[kani::stub(crate::buffer_too_short, stub_2usize)]
    #[kani::stub(buffertk::varint_overflow, stub_usize)]
    #[kani::stub(buffertk::buffer_too_short, stub_2usize)]
    fn take_length_prefixed_total() {
        let buf: [u8; 12] = kani::any();
        let len: usize = kani::any();
        kani::assume(len <= 12);
        let mut up = Unpacker::new(&buf[..len]);
        match take_length_prefixed(&mut up) {
            Ok(p) => { assert!(p.len() + up.remain().len() < len); }
            Err(e) => { core::mem::forget(e); }
        }
        kani::cover!(len == 12);
    }

    // "the bytes are the standard protocol-buffers wire encoding": the wire type each scalar field type
    // announces in its tag is the one the protobuf encoding assigns to it (VARINT=0 for the int/sint/bool
    // family, I64=1 for fixed64/sfixed64/double, LEN=2 for bytes/string/message, I32=5 for
    // fixed32/sfixed32/float), and the fixed-width payload has exactly the announced width -- otherwise a
    // reader skipping or decoding the field by its wire type mis-frames everything behind it.
    //@ H kind=complete tier=quick timeout=600 oblig="prototk::field_types::WIRE_TYPE==protobuf-wire-type+payload-width"
    #[kani::proof]
    #[kani::unwind(12)]
    fn field_types_announce_standard_wire_type() {
        use crate::field_types::*;
        assert!(<int32 as FieldType>::WIRE_TYPE == WireType::Varint);
        assert!(<int64 as FieldType>::WIRE_TYPE == WireType::Varint);
        assert!(<uint32 as FieldType>::WIRE_TYPE == WireType::Varint);
        assert!(<uint64 as FieldType>::WIRE_TYPE == WireType::Varint);
        assert!(<sint32 as FieldType>::WIRE_TYPE == WireType::Varint);
        assert!(<sint64 as FieldType>::WIRE_TYPE == WireType::Varint);
        assert!(<Bool as FieldType>::WIRE_TYPE == WireType::Varint);
        assert!(<fixed64 as FieldType>::WIRE_TYPE == WireType::SixtyFour);
        assert!(<sfixed64 as FieldType>::WIRE_TYPE == WireType::SixtyFour);
        assert!(<double as FieldType>::WIRE_TYPE == WireType::SixtyFour);
        assert!(<fixed32 as FieldType>::WIRE_TYPE == WireType::ThirtyTwo);
        assert!(<sfixed32 as FieldType>::WIRE_TYPE == WireType::ThirtyTwo);
        assert!(<float as FieldType>::WIRE_TYPE == WireType::ThirtyTwo);
        assert!(<bytes as FieldType>::WIRE_TYPE == WireType::LengthDelimited);
        assert!(<bytes16 as FieldType>::WIRE_TYPE == WireType::LengthDelimited);
        assert!(<bytes32 as FieldType>::WIRE_TYPE == WireType::LengthDelimited);
        assert!(<string as FieldType>::WIRE_TYPE == WireType::LengthDelimited);
        // payload widths of the fixed-width families, for every value
        assert!(fixed32(kani::any()).pack_sz() == 4 && sfixed32(kani::any()).pack_sz() == 4);
        assert!(float(f32::from_bits(kani::any())).pack_sz() == 4);
        assert!(fixed64(kani::any()).pack_sz() == 8 && sfixed64(kani::any()).pack_sz() == 8);
        assert!(double(f64::from_bits(kani::any())).pack_sz() == 8);
        kani::cover!(true);
    }

    // message<M>::unpack is total whenever M::unpack is: a nested decoder that leaves bytes of its
    // length-delimited payload unconsumed (derived enums do) must yield an error or a value, never a panic.
    pub struct LeavesRest(u8);
    impl<'a> Unpackable<'a> for LeavesRest {
        type Error = SError;
        fn unpack<'b: 'a>(buf: &'b [u8]) -> Result<(Self, &'b [u8]), SError> {
            if buf.is_empty() { Err(mk()) } else { Ok((LeavesRest(buf[0]), &buf[1..])) }
        }
    }
    //@ H kind=bounded tier=quick timeout=900 bound="every byte string of length <= 6" oblig="prototk::field_types::message<M>::unpack::total"
    #[kani::proof]
    #[kani::unwind(12)]
    #[kani::stub(buffertk::buffer_too_short, stub_2usize)]
    #[kani::stub(buffertk::varint_overflow, stub_usize)]
    #[kani::stub(crate::wrong_length, stub_2usize)]
    fn nested_message_unpack_total() {
        let data: [u8; 6] = kani::any();
        let n: usize = kani::any(); kani::assume(n <= 6);
        match <crate::field_types::message<LeavesRest> as Unpackable>::unpack(&data[..n]) {
            Ok((m, rest)) => { assert!(rest.len() <= n); core::mem::forget(m); }
            Err(e) => { core::mem::forget(e); }
        }
        kani::cover!(n == 6);
    }
}
