    // ---- ArrCursor: a lean array-backed child cursor double (DESIGN 4/C11).  It implements the Cursor
    //      contract of sst/src/reference.rs::ReferenceCursor literally: position -1 = before-first
    //      sentinel, n = after-last sentinel, next/prev saturate, seek(k) = first entry with key >= k.
    pub const ARR_N: usize = 3;
    #[derive(Clone, Copy)]
    pub struct ArrCursor {
        pub keys: [[u8; 1]; ARR_N],
        pub ts: [u64; ARR_N],
        pub has_val: [bool; ARR_N],
        pub vals: [[u8; 1]; ARR_N],
        pub n: usize,
        pub pos: isize,
    }
    impl ArrCursor {
        pub fn any_sorted() -> Self {
            let c = ArrCursor { keys: kani::any(), ts: kani::any(), has_val: kani::any(), vals: kani::any(), n: kani::any(), pos: -1 };
            kani::assume(c.n <= ARR_N);
            // small domains keep CBMC fast without losing any ordering pattern: keys 0..=5, timestamps 0..=7
            let mut i = 0;
            while i < ARR_N {
                kani::assume(c.keys[i][0] <= 5 && c.ts[i] <= 7);
                if i + 1 < ARR_N && i + 1 < c.n {
                    // strictly sorted: key ascending, then timestamp DESCENDING
                    kani::assume(c.keys[i][0] < c.keys[i + 1][0] || (c.keys[i][0] == c.keys[i + 1][0] && c.ts[i] > c.ts[i + 1]));
                }
                i += 1;
            }
            c
        }
        pub fn at(&self) -> Option<usize> { if self.pos >= 0 && (self.pos as usize) < self.n { Some(self.pos as usize) } else { None } }
    }
    impl Cursor for ArrCursor {
        fn seek_to_first(&mut self) -> Result<(), SError> { self.pos = -1; Ok(()) }
        fn seek_to_last(&mut self) -> Result<(), SError> { self.pos = self.n as isize; Ok(()) }
        fn seek(&mut self, key: &[u8]) -> Result<(), SError> {
            let mut i = 0usize;
            while i < ARR_N && i < self.n && self.keys[i][0] < key[0] { i += 1; }
            self.pos = i as isize;
            Ok(())
        }
        fn prev(&mut self) -> Result<(), SError> { if self.pos >= 0 { self.pos -= 1; } Ok(()) }
        fn next(&mut self) -> Result<(), SError> { if self.pos < self.n as isize { self.pos += 1; } Ok(()) }
        fn key(&self) -> Option<KeyRef<'_>> {
            match self.at() { Some(i) => Some(KeyRef { key: &self.keys[i][..], timestamp: self.ts[i] }), None => None }
        }
        fn value(&self) -> Option<&[u8]> {
            match self.at() { Some(i) => if self.has_val[i] { Some(&self.vals[i][..]) } else { None }, None => None }
        }
    }
