// Unit tuple_key_walk (C16, the element walkers of tuple_key v1 on byte strings of EVERY length): TupleKeyIterator::next
// (splits a key into elements at the first byte whose low bit is 0), Iterate7BitChunks::next (8-bit bytes -> 7-bit chunks
// with a continuation bit) and Combine7BitChunks::next (the inverse walk), extracted verbatim and proved
//   * total: no index out of range, no shift by 64 or more, no subtraction below zero, the assert! cannot fire, the
//     recursion / loops terminate -- whatever the bytes are;
//   * TupleKeyIterator: the element handed out is the non-empty run of bytes from the old offset up to and including the
//     first byte with low bit 0 (or the end of the buffer), and the iterator stands right behind it;
//   * Iterate7BitChunks: every chunk but a final partial one carries the continuation bit, a final partial chunk does not;
//     at most 15 bits are ever pending; Combine7BitChunks: fewer than 8 bits are pending between calls.
// That the two chunkers are inverse of each other and order preserving stays with the bounded Kani harnesses of unit
// tuple_key.
use vstd::prelude::*;
verus! {
global size_of usize == 8;

//@ extract tuple_key/src/lib.rs | struct TupleKeyIterator
//@ end
// a slice is never longer than usize::MAX (Verus learns this only where the code calls len() on that very slice)
#[verifier::external_body]
proof fn axiom_slice_len(s: &[u8]) ensures s@.len() <= usize::MAX { }

impl<'a> TupleKeyIterator<'a> {
    spec fn wf(&self) -> bool { self.offset <= self.buf@.len() }
    // Iterator::next (the trait-impl header is dropped)
//@ extract tuple_key/src/lib.rs | impl Iterator for TupleKeyIterator<'a> :: fn next
//@ ret r
//@ rewrite-re X4 `-> Option<Self::Item>` => `-> Option<&'a [u8]>`
//@ pre <<
        old(self).wf(),
//@ >>
//@ post <<
        final(self).wf(), final(self).buf@ == old(self).buf@,
        r is None <==> old(self).offset >= old(self).buf@.len(),
        r is Some ==> ({
            let b = old(self).buf@; let s = old(self).offset as int; let e = final(self).offset as int;
            &&& s < e <= b.len() && r->Some_0@ == b.subrange(s, e)
            &&& forall|i: int| s <= i < e - 1 ==> #[trigger] b[i] & 1 != 0
            &&& (e < b.len() ==> b[e - 1] & 1 == 0)
        }),
//@ >>
//@ loop 0 <<
                invariant start <= self.offset <= self.buf@.len(), self.buf@ == old(self).buf@, start == old(self).offset,
                    forall|i: int| start <= i < self.offset ==> #[trigger] self.buf@[i] & 1 != 0, /* contract-inv */
                ensures start <= self.offset <= self.buf@.len(), self.buf@ == old(self).buf@,
                    forall|i: int| start <= i < self.offset ==> #[trigger] self.buf@[i] & 1 != 0,
                    self.offset < self.buf@.len() ==> self.buf@[self.offset as int] & 1 == 0,
                decreases self.buf@.len() - self.offset,
//@ >>
//@ end
}

//@ extract tuple_key/src/iter7.rs | struct Iterate7BitChunks
//@ end
impl<'a> Iterate7BitChunks<'a> {
    spec fn wf(&self) -> bool { self.offset <= self.bytes@.len() && self.remains_bits <= 8 }
//@ extract tuple_key/src/iter7.rs | impl Iterate7BitChunks<'a> :: fn new
//@ ret r
//@ post <<
        r.wf(), r.bytes@ == bytes@, r.offset == 0,
//@ >>
//@ end
    // Iterator::next (the trait-impl header is dropped): at most 15 bits pending inside, at most 8 between calls
//@ extract tuple_key/src/iter7.rs | impl Iterator for Iterate7BitChunks<'_> :: fn next
//@ ret r
//@ pre <<
        old(self).offset <= old(self).bytes@.len(), old(self).remains_bits <= 15,
//@ >>
//@ post <<
        final(self).wf(), final(self).bytes@ == old(self).bytes@, final(self).offset >= old(self).offset,
        // a chunk that is followed by more bits carries the continuation bit; the final partial chunk does not
        r is Some && (final(self).remains_bits > 0 || final(self).offset < final(self).bytes@.len()) ==> r->Some_0 & 1 == 1,
        r is None ==> final(self).offset == final(self).bytes@.len() && final(self).remains_bits == 0,
//@ >>
//@ before `Some((x << 1) | 1)` <<
            proof { assert(((x << 1) | 1) & 1 == 1) by (bit_vector); }
//@ >>
//@ dec <<
        (old(self).bytes@.len() - old(self).offset) * 2 + (if old(self).remains_bits > 7 { 0int } else { 1int }),
//@ >>
//@ end
}

//@ extract tuple_key/src/combine7.rs | struct Combine7BitChunks
//@ end
impl<'a> Combine7BitChunks<'a> {
    spec fn wf(&self) -> bool { self.offset <= self.bytes@.len() && self.remains_bits < 8 }
//@ extract tuple_key/src/combine7.rs | impl Combine7BitChunks<'a> :: fn new
//@ ret r
//@ post <<
        r.wf(), r.bytes@ == bytes@, r.offset == 0,
//@ >>
//@ end
//@ extract tuple_key/src/combine7.rs | impl Iterator for Combine7BitChunks<'_> :: fn next
//@ ret r
//@ pre <<
        old(self).wf(),
//@ >>
//@ post <<
        final(self).wf(), final(self).bytes@ == old(self).bytes@, final(self).offset >= old(self).offset,
        r is None ==> final(self).offset == final(self).bytes@.len(),
//@ >>
//@ loop 0 <<
            invariant self.offset <= self.bytes@.len(), self.remains_bits < 15, self.bytes@ == old(self).bytes@, self.offset >= old(self).offset,
            ensures self.offset <= self.bytes@.len(), self.remains_bits < 15, self.bytes@ == old(self).bytes@, self.offset >= old(self).offset,
                self.remains_bits < 8 ==> self.offset == self.bytes@.len(),
            decreases self.bytes@.len() - self.offset,
//@ >>
//@ end
}

//@ min-verified 5
} // verus!
fn main() {}
