// Unit sst_blockb (C10 "a block returns exactly what was put in", builder half): BlockBuilder::{new, append, put, del}
// against the byte-level block model of block_spec.inc.rs -- any number of entries, any restart intervals.
//   sealed(builder) is the block the builder would seal into (buffer ++ footer(restarts)).  Proved on the extracted
//   code: every accepted put/del leaves sealed(builder) WELL-FORMED (the cursor unit's precondition) and appends
//   exactly the entry (key, timestamp, value-or-tombstone) to its entries; out-of-order or oversize input is rejected
//   with an error and changes nothing; the assert! in append cannot fire.  With unit sst_block (the cursor enumerates
//   ents() forward/backward and seeks by lower bound) this is the block-level statement of C10.
// ASSUMED: the entry codec -- enc(entry) is self-delimiting and decodes to the entry wherever it stands (derive-generated
// KeyValueEntry pack/unpack; C15 covers derive round trips); stack_pack(entry).append_to_vec appends enc(entry);
// seal() appends footer(restarts) (layout written out below); Block::new is extracted and proved to find the table in it.
use vstd::prelude::*;
use std::cmp::Ordering;
verus! {
global size_of usize == 8;

//@ include cursor_spec.inc.rs
//@ include block_spec.inc.rs

pub assume_specification [core::cmp::Ordering::then] (a: Ordering, b: Ordering) -> (r: Ordering)
    ensures r == (if a == Ordering::Equal { b } else { a });
pub assume_specification [core::cmp::Ordering::reverse] (a: Ordering) -> (r: Ordering)
    ensures r == (match a { Ordering::Less => Ordering::Greater, Ordering::Equal => Ordering::Equal, Ordering::Greater => Ordering::Less });
pub assume_specification<T: Clone> [<[T]>::to_vec] (s: &[T]) -> (r: Vec<T>)
    ensures r@ == s@;
pub assume_specification [<Ordering as PartialEq>::eq] (a: &Ordering, b: &Ordering) -> (r: bool)
    ensures r == (*a == *b);

fn bytes_cmp3(a: &[u8], b: &[u8]) -> (r: Ordering)
    ensures r == Ordering::Less <==> lex_lt(a@, b@), r == Ordering::Equal <==> a@ == b@, r == Ordering::Greater <==> lex_lt(b@, a@),
{
    proof { lemma_lex_order_total(); }
    if bytes_lt(a, b) { Ordering::Less } else if bytes_eq(a, b) { Ordering::Equal } else { Ordering::Greater }
}
fn min_usize(a: usize, b: usize) -> (r: usize)
    ensures r == (if a <= b { a } else { b })
{ if a <= b { a } else { b } }

impl<'a> KeyRef<'a> {
//@ extract sst/src/lib.rs | impl KeyRef<'a> :: fn new
//@ ret r
//@ post <<
        r.key@ == key@, r.timestamp == timestamp,
//@ >>
//@ end

// X10: `impl Ord for KeyRef` :: cmp re-homed as an inherent method (Verus forbids contracts on trait impls)
//@ extract sst/src/lib.rs | impl Ord for KeyRef<'_> :: fn cmp
//@ ret r
//@ rewrite-re X9 `self\.key\s*\.cmp\(rhs\.key\)` => `bytes_cmp3(self.key, rhs.key)`
//@ post <<
        r == Ordering::Less <==> kt_lt(self.key@, self.timestamp, rhs.key@, rhs.timestamp),
//@ >>
//@ bodystart <<
        proof { lemma_lex_order_total(); }
//@ >>
//@ end
}

//@ extract sst/src/lib.rs | const MAX_KEY_LEN
//@ post <<
        MAX_KEY_LEN == 16384,
//@ >>
//@ bodystart <<
    proof { assert(1usize << 14 == 16384) by (bit_vector); }
//@ >>
//@ end
//@ extract sst/src/lib.rs | const MAX_VALUE_LEN
//@ post <<
        MAX_VALUE_LEN == 32768,
//@ >>
//@ bodystart <<
    proof { assert(1usize << 15 == 32768) by (bit_vector); }
//@ >>
//@ end
//@ extract sst/src/lib.rs | const TABLE_FULL_SIZE
//@ post <<
        TABLE_FULL_SIZE == 1006632960,
//@ >>
//@ bodystart <<
    proof {
        assert((1usize << 30) == 1073741824) by (bit_vector);
        assert((1usize << 26) == 67108864) by (bit_vector);
    }
//@ >>
//@ end
//@ extract sst/src/lib.rs | fn key_too_large
//@ external-body
//@ end
//@ extract sst/src/lib.rs | fn value_too_large
//@ external-body
//@ end
//@ extract sst/src/lib.rs | fn table_full
//@ external-body
//@ end
//@ extract sst/src/lib.rs | fn sort_order
//@ external-body
//@ end
//@ extract sst/src/lib.rs | fn check_key_len
//@ ret r
//@ post <<
        r is Ok <==> key@.len() <= 16384,
//@ >>
//@ end
//@ extract sst/src/lib.rs | fn check_value_len
//@ ret r
//@ post <<
        r is Ok <==> value@.len() <= 32768,
//@ >>
//@ end
//@ extract sst/src/lib.rs | fn check_table_size
//@ ret r
//@ post <<
        r is Ok <==> size < 1006632960,
//@ >>
//@ end

// ---------------------------------------------------------------- the entry codec (ASSUMED)
//@ extract sst/src/lib.rs | struct KeyValuePut
//@ end
//@ extract sst/src/lib.rs | struct KeyValueDel
//@ end
//@ extract sst/src/lib.rs | enum KeyValueEntry
//@ end
impl<'a> KeyValueEntry<'a> {
//@ extract sst/src/lib.rs | impl KeyValueEntry<'a> :: fn shared
//@ ret r
//@ post <<
        r == self.sh(),
//@ >>
//@ end
//@ extract sst/src/lib.rs | impl KeyValueEntry<'a> :: fn key_frag
//@ ret r
//@ post <<
        r@ == self.fr(),
//@ >>
//@ end
//@ extract sst/src/lib.rs | impl KeyValueEntry<'a> :: fn timestamp
//@ ret r
//@ post <<
        r == self.tsv(),
//@ >>
//@ end
    spec fn sh(&self) -> usize { match self { KeyValueEntry::Put(x) => x.shared as usize, KeyValueEntry::Del(x) => x.shared as usize } }
    spec fn fr(&self) -> Seq<u8> { match self { KeyValueEntry::Put(x) => x.key_frag@, KeyValueEntry::Del(x) => x.key_frag@ } }
    spec fn tsv(&self) -> u64 { match self { KeyValueEntry::Put(x) => x.timestamp, KeyValueEntry::Del(x) => x.timestamp } }
    spec fn vl(&self) -> Option<Seq<u8>> { match self { KeyValueEntry::Put(x) => Some(x.value@), KeyValueEntry::Del(_) => None } }
}
uninterp spec fn enc(shared: int, frag: Seq<u8>, ts: u64, val: Option<Seq<u8>>) -> Seq<u8>;
uninterp spec fn voff(shared: int, frag: Seq<u8>, ts: u64, val: Seq<u8>) -> int;
// ASSUMED: an encoded entry is self-delimiting and decodes to itself wherever it stands; the decoded value is the
// sub-slice of the input holding the value bytes
#[verifier::external_body]
proof fn axiom_codec(bytes: Seq<u8>, off: int, boundary: int, shared: int, frag: Seq<u8>, ts: u64, val: Option<Seq<u8>>)
    requires 0 <= off, shared >= 0, off + enc(shared, frag, ts, val).len() <= boundary <= bytes.len(),
        bytes.subrange(off, off + enc(shared, frag, ts, val).len()) == enc(shared, frag, ts, val),
    ensures ({
        let e = enc(shared, frag, ts, val);
        &&& 1 <= e.len() <= frag.len() + (if val is Some { val->Some_0.len() } else { 0 }) + 64
        &&& entry_at(bytes, off, boundary) == Some(EntryV { shared, frag, ts, next: off + e.len(),
                val: match val { Some(v) => Some((off + voff(shared, frag, ts, v), v.len() as int)), None => None } })
        &&& val is Some ==> 0 <= voff(shared, frag, ts, val->Some_0) && voff(shared, frag, ts, val->Some_0) + val->Some_0.len() <= e.len()
                && e.subrange(voff(shared, frag, ts, val->Some_0), voff(shared, frag, ts, val->Some_0) + val->Some_0.len()) == val->Some_0
    })
{ }
// ASSUMED: decoding at an offset looks only at the bytes of that entry
#[verifier::external_body]
proof fn axiom_entry_local(b1: Seq<u8>, bd1: int, b2: Seq<u8>, bd2: int, off: int)
    requires entry_at(b1, off, bd1) is Some, 0 <= off,
        entry_at(b1, off, bd1)->Some_0.next <= bd2, bd1 <= b1.len(), bd2 <= b2.len(),
        b1.subrange(off, entry_at(b1, off, bd1)->Some_0.next) == b2.subrange(off, entry_at(b1, off, bd1)->Some_0.next),
    ensures entry_at(b2, off, bd2) == entry_at(b1, off, bd1)
{ }
// `stack_pack(be)`: the packed entry
#[verifier::external_body]
struct PackedEntry { _p: u8 }
impl PackedEntry {
    uninterp spec fn bytes(&self) -> Seq<u8>;
    #[verifier::external_body]
    fn pack_sz(&self) -> (r: usize)
        ensures r == self.bytes().len(),
    { unimplemented!() }
    #[verifier::external_body]
    fn append_to_vec(&self, v: &mut Vec<u8>)
        ensures final(v)@ == old(v)@ + self.bytes(),
    { unimplemented!() }
}
#[verifier::external_body]
fn pack_entry(be: KeyValueEntry<'_>) -> (r: PackedEntry)
    ensures r.bytes() == enc(be.sh() as int, be.fr(), be.tsv(), be.vl()), r.bytes().len() <= 0x7fff_ffff,
{ unimplemented!() }

// ---------------------------------------------------------------- the builder and the block it seals into
//@ extract sst/src/block.rs | struct BlockBuilderOptions
//@ end
//@ extract sst/src/block.rs | struct BlockBuilder
//@ end

uninterp spec fn vec_of(s: Seq<u8>) -> Vec<u8>;
// the footer seal() appends: tag 10 (length-delimited), the byte length of the table as a varint, the restart offsets as
// little-endian u32s, tag 11 (fixed32), the number of restart points as a little-endian u32
uninterp spec fn varint(x: int) -> Seq<u8>;
// ASSUMED: a varint is 1..=10 bytes long
#[verifier::external_body]
proof fn axiom_varint_len(x: int)
    ensures 1 <= varint(x).len() <= 10
{ }
spec fn le32b(x: int) -> Seq<u8> { seq![(x % 256) as u8, ((x / 256) % 256) as u8, ((x / 65536) % 256) as u8, ((x / 16777216) % 256) as u8] }
spec fn table(rs: Seq<u32>) -> Seq<u8>
    decreases rs.len()
{
    if rs.len() == 0 { Seq::<u8>::empty() } else { table(rs.drop_last()) + le32b(rs.last() as int) }
}
spec fn footer(rs: Seq<u32>) -> Seq<u8> { seq![82u8] + varint(4 * (rs.len() as int)) + table(rs) + seq![93u8] + le32b(rs.len() as int) }
spec fn footer_tab(rs: Seq<u32>) -> int { 1 + varint(4 * (rs.len() as int)).len() as int }
proof fn lemma_le32b(x: int)
    requires 0 <= x < 0x1_0000_0000
    ensures le32b(x).len() == 4, le32(le32b(x), 0) == x
{
    let a = x % 256; let b = (x / 256) % 256; let c = (x / 65536) % 256; let d = (x / 16777216) % 256;
    assert(x == a + 256 * b + 65536 * c + 16777216 * d) by (nonlinear_arith)
        requires 0 <= x < 0x1_0000_0000, a == x % 256, b == (x / 256) % 256, c == (x / 65536) % 256, d == (x / 16777216) % 256;
}
proof fn lemma_table(rs: Seq<u32>, r: int)
    requires 0 <= r < rs.len()
    ensures table(rs).len() == 4 * rs.len(), table(rs).subrange(4 * r, 4 * r + 4) == le32b(rs[r] as int)
    decreases rs.len()
{
    lemma_table_len(rs);
    lemma_table_len(rs.drop_last());
    if r == rs.len() - 1 {
        assert(table(rs).subrange(4 * r, 4 * r + 4) =~= le32b(rs.last() as int));
    } else {
        lemma_table(rs.drop_last(), r);
        assert(table(rs).subrange(4 * r, 4 * r + 4) =~= table(rs.drop_last()).subrange(4 * r, 4 * r + 4));
    }
}
proof fn lemma_table_len(rs: Seq<u32>)
    ensures table(rs).len() == 4 * rs.len()
    decreases rs.len()
{
    if rs.len() > 0 { lemma_table_len(rs.drop_last()); }
}
// (formerly assumed) where the table sits in the footer and what a little-endian load finds there
proof fn axiom_footer(rs: Seq<u32>)
    ensures 0 <= footer_tab(rs), footer_tab(rs) + 4 * rs.len() <= footer(rs).len() <= 4 * rs.len() + 16,
        footer(rs).len() == footer_tab(rs) + 4 * rs.len() + 5,
        forall|r: int| 0 <= r < rs.len() ==> le32(footer(rs), footer_tab(rs) + 4 * r) == #[trigger] rs[r] as int,
{
    axiom_varint_len(4 * (rs.len() as int));
    lemma_table_len(rs);
    let f = footer(rs); let t = footer_tab(rs);
    assert forall|r: int| 0 <= r < rs.len() implies le32(f, t + 4 * r) == #[trigger] rs[r] as int by {
        lemma_table(rs, r);
        lemma_le32b(rs[r] as int);
        let w = le32b(rs[r] as int);
        assert(f.subrange(t + 4 * r, t + 4 * r + 4) =~= table(rs).subrange(4 * r, 4 * r + 4));
        assert(f[t + 4 * r] == w[0] && f[t + 4 * r + 1] == w[1] && f[t + 4 * r + 2] == w[2] && f[t + 4 * r + 3] == w[3]) by {
            assert(f.subrange(t + 4 * r, t + 4 * r + 4)[0] == w[0]);
            assert(f.subrange(t + 4 * r, t + 4 * r + 4)[1] == w[1]);
            assert(f.subrange(t + 4 * r, t + 4 * r + 4)[2] == w[2]);
            assert(f.subrange(t + 4 * r, t + 4 * r + 4)[3] == w[3]);
        }
    }
}
#[verifier::external_body]
proof fn axiom_vec_of(s: Seq<u8>)
    ensures vec_of(s)@ == s
{ }

spec fn sealed_of(buffer: Seq<u8>, rs: Seq<u32>) -> Block {
    Block { bytes: vec_of(buffer + footer(rs)), restarts_boundary: buffer.len() as usize, restarts_idx: (buffer.len() + footer_tab(rs)) as usize, num_restarts: rs.len() as usize }
}
proof fn lemma_sealed(buffer: Seq<u8>, rs: Seq<u32>)
    requires rs.len() >= 1, buffer.len() + 4 * rs.len() + 16 <= 0x4000_0000
    ensures ({
        let b = sealed_of(buffer, rs);
        &&& b.layout() && b.bnd() == buffer.len() && b.num_restarts == rs.len() && b.bytes@ == buffer + footer(rs)
        &&& forall|r: int| 0 <= r < rs.len() ==> #[trigger] b.rp(r) == rs[r] as int
    })
{
    axiom_footer(rs); axiom_vec_of(buffer + footer(rs));
    let b = sealed_of(buffer, rs);
    assert forall|r: int| 0 <= r < rs.len() implies #[trigger] b.rp(r) == rs[r] as int by {
        let i = footer_tab(rs) + 4 * r;
        assert(b.bytes@[buffer.len() + i] == footer(rs)[i]);
        assert(b.bytes@[buffer.len() + i + 1] == footer(rs)[i + 1]);
        assert(b.bytes@[buffer.len() + i + 2] == footer(rs)[i + 2]);
        assert(b.bytes@[buffer.len() + i + 3] == footer(rs)[i + 3]);
    }
}

//@ extract sst/src/lib.rs | fn block_too_small
//@ external-body
//@ optional
//@ end
spec fn sealed_bytes(bs: Seq<u8>, buffer: Seq<u8>, rs: Seq<u32>) -> bool { bs == buffer + footer(rs) && 1 <= rs.len() < 0x1000_0000 }
// the fixed32 decoder applied to the last four bytes (little-endian u32); may fail
#[verifier::external_body]
fn read_le32_at(bytes: &Vec<u8>, off: usize) -> (r: Result<u32, SError>)
    requires off + 4 <= bytes@.len(),
    ensures r is Ok ==> r->Ok_0 as int == le32(bytes@, off as int),
{ unimplemented!() }
// `v64::from(n).pack_sz()`
#[verifier::external_body]
fn varint_len(n: usize) -> (r: usize)
    ensures r == varint(n as int).len(),
{ unimplemented!() }

impl Block {
    // Block::new on the bytes a builder sealed: the restart table is found where the footer put it.  (On bytes that are
    // NOT buffer ++ footer the subtractions may underflow: Block::new is only called on CRC-checked bytes.)
//@ extract sst/src/block.rs | impl Block :: fn new
//@ ret r
//@ rewrite X7 `let bytes = Arc::new(bytes);` => ``
//@ rewrite-re X7 `let mut up = Unpacker::new\(&bytes\[bytes\.len\(\) - 4\.\.\]\);\s*let num_restarts: u32 = up\s*\.unpack\(\)\s*\.map_err\(\|e: buffertk::SError\| unpack_block_restarts\(e\)\)\?;` => `let num_restarts: u32 = read_le32_at(&bytes, bytes.len() - 4)?;`
//@ rewrite X7 `v64::from(footer_body).pack_sz()` => `varint_len(footer_body)`
//@ pre <<
        exists|buffer: Seq<u8>, rs: Seq<u32>| #[trigger] sealed_bytes(bytes@, buffer, rs),
        bytes@.len() <= 0x4000_0000,
//@ >>
//@ post <<
        r is Ok ==> r->Ok_0.bytes@ == bytes@ && forall|buffer: Seq<u8>, rs: Seq<u32>| #[trigger] sealed_bytes(bytes@, buffer, rs) ==>
            r->Ok_0.restarts_boundary == buffer.len() && r->Ok_0.restarts_idx == buffer.len() + footer_tab(rs) && r->Ok_0.num_restarts == rs.len(),
//@ >>
//@ bodystart <<
        let ghost bs = bytes@;
        proof {
            assert forall|buffer: Seq<u8>, rs: Seq<u32>| #[trigger] sealed_bytes(bs, buffer, rs) implies
                bs.len() == buffer.len() + footer_tab(rs) + 4 * rs.len() + 5 && le32(bs, bs.len() - 4) == rs.len() by {
                axiom_footer(rs);
                let f = footer(rs); let n = rs.len() as int;
                lemma_le32b(n);
                let w = le32b(n);
                assert(f.subrange(f.len() - 4, f.len() as int) =~= w);
                assert(bs[bs.len() - 4] == w[0] && bs[bs.len() - 3] == w[1] && bs[bs.len() - 2] == w[2] && bs[bs.len() - 1] == w[3]) by {
                    assert(f.subrange(f.len() - 4, f.len() as int)[0] == f[f.len() - 4]);
                    assert(f.subrange(f.len() - 4, f.len() as int)[1] == f[f.len() - 3]);
                    assert(f.subrange(f.len() - 4, f.len() as int)[2] == f[f.len() - 2]);
                    assert(f.subrange(f.len() - 4, f.len() as int)[3] == f[f.len() - 1]);
                    assert(bs[buffer.len() + f.len() - 4] == f[f.len() - 4]);
                    assert(bs[buffer.len() + f.len() - 3] == f[f.len() - 3]);
                    assert(bs[buffer.len() + f.len() - 2] == f[f.len() - 2]);
                    assert(bs[buffer.len() + f.len() - 1] == f[f.len() - 1]);
                }
            }
        }
//@ >>
//@ end
}

proof fn lemma_sub_agree(a: Seq<u8>, b: Seq<u8>, n: int, lo: int, hi: int)
    requires 0 <= lo <= hi <= n, n <= a.len(), n <= b.len(), a.subrange(0, n) == b.subrange(0, n)
    ensures a.subrange(lo, hi) == b.subrange(lo, hi)
{
    assert(a.subrange(lo, hi) =~= a.subrange(0, n).subrange(lo, hi));
    assert(b.subrange(lo, hi) =~= b.subrange(0, n).subrange(lo, hi));
}
proof fn lemma_sub_of_sub(a: Seq<u8>, o: int, e: Seq<u8>, lo: int, hi: int)
    requires 0 <= o, o + e.len() <= a.len(), a.subrange(o, o + e.len()) == e, 0 <= lo <= hi <= e.len()
    ensures a.subrange(o + lo, o + hi) == e.subrange(lo, hi)
{
    assert(a.subrange(o + lo, o + hi) =~= a.subrange(o, o + e.len()).subrange(lo, hi));
}

proof fn lemma_chain_unique(b: Block, n: int, m: int)
    requires b.chain(n), b.chain(m)
    ensures n == m
{
    if n < m { assert(b.off_at(n) < b.bnd()); } else if m < n { assert(b.off_at(m) < b.bnd()); }
}
proof fn lemma_n(b: Block, n: int)
    requires b.chain(n)
    ensures b.n() == n
{ lemma_chain_unique(b, n, b.n()); }

// b1 extends b0: same bytes below b0's boundary, b0's restart points kept (as offsets), possibly one more at b0's boundary
spec fn extends(b0: Block, b1: Block) -> bool {
    &&& b0.bnd() <= b1.bnd() && b0.bnd() <= b0.bytes@.len() && b1.bnd() <= b1.bytes@.len()
    &&& b1.bytes@.subrange(0, b0.bnd()) == b0.bytes@.subrange(0, b0.bnd())
    &&& forall|off: int| 0 <= off < b0.bnd() ==> b1.is_rp(off) == b0.is_rp(off)
}
// everything decoded below b0's boundary is decoded identically in b1
proof fn lemma_transfer(b0: Block, b1: Block, j: int)
    requires b0.chain(b0.n()), extends(b0, b1), 0 <= j <= b0.n()
    ensures b1.off_at(j) == b0.off_at(j),
        j < b0.n() ==> entry_at(b1.bytes@, b1.off_at(j), b1.bnd()) == entry_at(b0.bytes@, b0.off_at(j), b0.bnd()) && b1.key_j(j) == b0.key_j(j),
    decreases j
{
    if j > 0 { lemma_transfer(b0, b1, j - 1); }
    if j < b0.n() {
        let off = b0.off_at(j);
        axiom_entry(b0.bytes@, off, b0.bnd());
        let nx = entry_at(b0.bytes@, off, b0.bnd())->Some_0.next;
        if j > 0 { lemma_off_mono(b0, 0, j); } 
        lemma_sub_agree(b0.bytes@, b1.bytes@, b0.bnd(), off, nx);
        axiom_entry_local(b0.bytes@, b0.bnd(), b1.bytes@, b1.bnd(), off);
    }
}

proof fn lemma_kt_trans(k1: Seq<u8>, t1: u64, k2: Seq<u8>, t2: u64, k3: Seq<u8>, t3: u64)
    requires kt_lt(k1, t1, k2, t2), kt_lt(k2, t2, k3, t3)
    ensures kt_lt(k1, t1, k3, t3)
{
    if lex_lt(k1, k2) {
        if lex_lt(k2, k3) { lemma_lex_trans(k1, k2, k3); if k1 == k3 { lemma_lex_antisym(k1, k2); } }
    } else {
        if lex_lt(k2, k3) { }
    }
}

// one more entry: b1 is b0 with enc(entry) appended below the boundary
proof fn lemma_append(b0: Block, b1: Block, shared: int, frag: Seq<u8>, ts: u64, val: Option<Seq<u8>>, key: Seq<u8>)
    requires
        b0.wf0(), b1.layout(), extends(b0, b1), shared >= 0,
        b1.bnd() == b0.bnd() + enc(shared, frag, ts, val).len(),
        b1.bytes@.subrange(b0.bnd(), b1.bnd()) == enc(shared, frag, ts, val),
        b1.rp(0) == 0,
        forall|r1: int, r2: int| 0 <= r1 < r2 < b1.num_restarts ==> #[trigger] b1.rp(r1) < #[trigger] b1.rp(r2),
        forall|r: int| 0 <= r < b1.num_restarts ==> #[trigger] b1.rp(r) <= b0.bnd(),
        b1.is_rp(b0.bnd()) ==> shared == 0,
        key == trunc(if b0.n() == 0 || b1.is_rp(b0.bnd()) { Seq::<u8>::empty() } else { b0.key_j(b0.n() - 1) }, shared) + frag,
        b0.n() > 0 ==> kt_lt(b0.key_j(b0.n() - 1), b0.ev(b0.n() - 1).ts, key, ts),
    ensures
        b1.wf(), b1.n() == b0.n() + 1, b1.ents() == b0.ents().push(Ent { key, ts, val }),
{
    let n0 = b0.n(); let o = b0.bnd(); let e = enc(shared, frag, ts, val);
    lemma_transfer(b0, b1, n0);
    assert(b1.off_at(n0) == o);
    assert(b1.bytes@.subrange(o, o + e.len()) == e);
    axiom_codec(b1.bytes@, o, b1.bnd(), shared, frag, ts, val);
    assert(b1.off_at(n0 + 1) == b1.bnd());
    assert forall|j: int| 0 <= j < n0 + 1 implies #[trigger] b1.off_at(j) < b1.bnd() && entry_at(b1.bytes@, b1.off_at(j), b1.bnd()) is Some by {
        if j < n0 { lemma_transfer(b0, b1, j); }
    }
    assert(b1.chain(n0 + 1));
    lemma_n(b1, n0 + 1);
    // restart points are entry offsets
    assert forall|r: int| 0 <= r < b1.num_restarts implies b1.is_off(#[trigger] b1.rp(r)) by {
        let x = b1.rp(r);
        if x == o { assert(b1.off_at(n0) == x); }
        else {
            assert(b1.is_rp(x));
            assert(b0.is_rp(x));
            let r0 = choose|r0: int| 0 <= r0 < b0.num_restarts && #[trigger] b0.rp(r0) == x;
            assert(b0.is_off(b0.rp(r0)) || (b0.n() == 0 && b0.rp(r0) == 0));
            if n0 == 0 { assert(b0.off_at(0) == 0); }
            let j = choose|j: int| 0 <= j < b0.n() && #[trigger] b0.off_at(j) == x;
            lemma_transfer(b0, b1, j);
            assert(b1.off_at(j) == x);
        }
    }
    // a full key at every restart point
    assert forall|j: int| 0 <= j < b1.n() && b1.is_rp(#[trigger] b1.off_at(j)) implies b1.ev(j).shared == 0 by {
        if j < n0 { lemma_transfer(b0, b1, j); assert(b0.is_rp(b0.off_at(j))); }
    }
    // the entries
    assert(b1.key_j(n0) == key) by { if n0 > 0 { lemma_transfer(b0, b1, n0 - 1); } }
    let newent = Ent { key, ts, val };
    assert(b1.ents() =~= b0.ents().push(newent)) by {
        assert forall|j: int| 0 <= j < n0 + 1 implies b1.ents()[j] == b0.ents().push(newent)[j] by {
            if j < n0 {
                lemma_transfer(b0, b1, j);
                axiom_entry(b0.bytes@, b0.off_at(j), o);
                let ev = b0.ev(j);
                if ev.val is Some {
                    let v = ev.val->Some_0;
                    if j > 0 { lemma_off_mono(b0, 0, j); }
                    lemma_sub_agree(b0.bytes@, b1.bytes@, o, v.0, v.0 + v.1);
                }
            } else {
                if val is Some {
                    let v = val->Some_0; let vo = voff(shared, frag, ts, v);
                    lemma_sub_of_sub(b1.bytes@, o, e, vo, vo + v.len());
                }
            }
        }
    }
    // sortedness
    assert(b1.sorted_ok()) by {
        reveal(Block::sorted_ok);
        let s0 = b0.ents(); let s1 = b1.ents();
        assert forall|i: int, j: int| 0 <= i < j < s1.len() implies kt_lt(s1[i].key, s1[i].ts, s1[j].key, s1[j].ts) by {
            if j < n0 { assert(kt_lt(s0[i].key, s0[i].ts, s0[j].key, s0[j].ts)); }
            else if i < n0 - 1 {
                assert(kt_lt(s0[i].key, s0[i].ts, s0[n0 - 1].key, s0[n0 - 1].ts));
                lemma_kt_trans(s0[i].key, s0[i].ts, s0[n0 - 1].key, s0[n0 - 1].ts, key, ts);
            }
        }
    }
}

spec fn lcp(a: Seq<u8>, b: Seq<u8>) -> nat
    decreases a.len()
{
    if a.len() == 0 || b.len() == 0 || a[0] != b[0] { 0 } else { 1 + lcp(a.skip(1), b.skip(1)) }
}
proof fn lemma_lcp(a: Seq<u8>, b: Seq<u8>, n: int)
    requires 0 <= n <= a.len(), n <= b.len(), forall|i: int| 0 <= i < n ==> a[i] == b[i],
             n == a.len() || n == b.len() || a[n] != b[n]
    ensures lcp(a, b) == n
    decreases n
{
    if n > 0 {
        assert(a[0] == b[0]);
        lemma_lcp(a.skip(1), b.skip(1), n - 1);
    } else if a.len() > 0 && b.len() > 0 { assert(a[0] != b[0]); }
}
// the first lcp bytes agree
proof fn lemma_lcp_agree(a: Seq<u8>, b: Seq<u8>, i: int)
    requires 0 <= i < lcp(a, b)
    ensures i < a.len(), i < b.len(), a[i] == b[i]
    decreases i
{
    if i > 0 { lemma_lcp_agree(a.skip(1), b.skip(1), i - 1); }
}
// what the reader rebuilds from (previous key, shared, fragment) is the key
proof fn lemma_rebuild(key: Seq<u8>, prev: Seq<u8>, shared: int)
    requires 0 <= shared <= lcp(key, prev)
    ensures trunc(prev, shared) + key.skip(shared) == key
{
    assert forall|i: int| 0 <= i < shared implies i < prev.len() && i < key.len() && prev[i] == key[i] by { lemma_lcp_agree(key, prev, i); }
    if shared > 0 { lemma_lcp_agree(key, prev, shared - 1); }
    assert(trunc(prev, shared) + key.skip(shared) =~= key);
}

impl BlockBuilder {
    spec fn sb(&self) -> Block { sealed_of(self.buffer@, self.restarts@) }
    // the builder's invariant: the block it would seal into is well-formed (possibly empty) and the bookkeeping fields
    // describe its last entry
    spec fn bwf(&self) -> bool {
        let b = self.sb(); let n = b.n();
        &&& self.restarts@.len() >= 1 && self.buffer@.len() + 4 * self.restarts@.len() + 16 <= 0x4000_0000
        &&& b.wf0()
        &&& n == 0 ==> self.last_key@.len() == 0 && self.buffer@.len() == 0
        &&& n > 0 ==> self.last_key@ == b.key_j(n - 1) && self.last_timestamp == b.ev(n - 1).ts && self.key_value_pairs_since_restart > 0
        &&& self.key_value_pairs_since_restart > 0 ==> self.restarts@.last() < self.buffer@.len()
        &&& self.key_value_pairs_since_restart == 0 ==> self.buffer@.len() == 0
        &&& self.key_value_pairs_since_restart <= self.buffer@.len() && self.bytes_since_restart <= self.buffer@.len()
    }
    spec fn ents(&self) -> Seq<Ent> { self.sb().ents() }

//@ extract sst/src/block.rs | impl BlockBuilder :: fn should_restart
//@ ret r
//@ pre <<
        self.bwf(),
//@ >>
//@ post <<
        r ==> self.restarts@.last() < self.buffer@.len(),
//@ >>
//@ end

//@ extract sst/src/block.rs | impl BlockBuilder :: fn compute_key_frag
//@ ret r
//@ rewrite X4 `cmp::min(` => `min_usize(`
//@ pre <<
        old(self).bwf(),
//@ >>
//@ post <<
        final(self).last_key@ == old(self).last_key@, final(self).last_timestamp == old(self).last_timestamp,
        final(self).buffer@ == old(self).buffer@, final(self).options == old(self).options,
        r.0 <= key@.len(), r.1@ == key@.skip(r.0 as int), r.0 <= lcp(key@, old(self).last_key@),
        (final(self).restarts@ == old(self).restarts@ && final(self).key_value_pairs_since_restart == old(self).key_value_pairs_since_restart
                && final(self).bytes_since_restart == old(self).bytes_since_restart)
            || (r.0 == 0 && final(self).restarts@ == old(self).restarts@.push(old(self).buffer@.len() as u32)
                && old(self).restarts@.last() < old(self).buffer@.len()
                && final(self).key_value_pairs_since_restart == 0 && final(self).bytes_since_restart == 0),
//@ >>
//@ loop 0 <<
                invariant
                    shared <= max_shared, max_shared <= key@.len(), max_shared <= self.last_key@.len(),
                    forall|j: int| 0 <= j < shared ==> key@[j] == self.last_key@[j],
                decreases max_shared - shared
//@ >>
//@ afterloop 0 <<
            proof { lemma_lcp(key@, self.last_key@, shared as int); }
//@ >>
//@ end

// Ok <=> the new entry is strictly greater than the last one
//@ extract sst/src/block.rs | impl BlockBuilder :: fn enforce_sort_order
//@ ret r
//@ post <<
        r is Ok <==> kt_lt(self.last_key@, self.last_timestamp, key@, timestamp),
//@ >>
//@ end

//@ extract sst/src/block.rs | impl Builder for BlockBuilder :: fn approximate_size
//@ ret r
//@ pre <<
        self.buffer@.len() + 4 * self.restarts@.len() + 16 <= 0x4000_0000,
//@ >>
//@ post <<
        r == self.buffer@.len() + 16 + self.restarts@.len() * 4,
//@ >>
//@ end

    // append the packed entry; the bookkeeping fields follow
//@ extract sst/src/block.rs | impl BlockBuilder :: fn append
//@ ret r
//@ rewrite X7 `let pa = stack_pack(be);` => `let pa = pack_entry(be);`
//@ pre <<
        old(self).buffer@.len() <= 0x4000_0000,
        old(self).key_value_pairs_since_restart <= old(self).buffer@.len(), old(self).bytes_since_restart <= old(self).buffer@.len(),
//@ >>
//@ post <<
        r is Ok,
        final(self).buffer@ == old(self).buffer@ + enc(be.sh() as int, be.fr(), be.tsv(), be.vl()),
        final(self).last_key@ == trunc(old(self).last_key@, be.sh() as int) + be.fr(),
        final(self).last_timestamp == be.tsv(), final(self).restarts@ == old(self).restarts@, final(self).options == old(self).options,
        final(self).key_value_pairs_since_restart == old(self).key_value_pairs_since_restart + 1,
        final(self).bytes_since_restart == old(self).bytes_since_restart + enc(be.sh() as int, be.fr(), be.tsv(), be.vl()).len(),
//@ >>
//@ end
}

// the sealed block after appending enc(..) to the buffer (and possibly one restart point at the old end) extends the
// sealed block before
proof fn lemma_tables(o: BlockBuilder, f: BlockBuilder, e: Seq<u8>)
    requires
        o.bwf(), e.len() >= 1, f.buffer@ == o.buffer@ + e,
        f.restarts@ == o.restarts@ || (f.restarts@ == o.restarts@.push(o.buffer@.len() as u32) && o.restarts@.last() < o.buffer@.len()),
        f.buffer@.len() + 4 * f.restarts@.len() + 16 <= 0x4000_0000,
    ensures ({
        let b0 = o.sb(); let b1 = f.sb(); let bl = o.buffer@.len() as int;
        &&& b1.layout() && extends(b0, b1) && b0.bnd() == bl && b1.bnd() == bl + e.len()
        &&& b1.bytes@.subrange(bl, bl + e.len()) == e
        &&& b1.rp(0) == 0
        &&& forall|r1: int, r2: int| 0 <= r1 < r2 < b1.num_restarts ==> #[trigger] b1.rp(r1) < #[trigger] b1.rp(r2)
        &&& forall|r: int| 0 <= r < b1.num_restarts ==> #[trigger] b1.rp(r) <= bl
        &&& b1.is_rp(bl) == (f.restarts@ != o.restarts@ || o.restarts@.last() == bl)
    })
{
    let b0 = o.sb(); let b1 = f.sb(); let bl = o.buffer@.len() as int;
    lemma_sealed(o.buffer@, o.restarts@);
    lemma_sealed(f.buffer@, f.restarts@);
    assert(b1.bytes@.subrange(0, bl) =~= b0.bytes@.subrange(0, bl));
    assert(b1.bytes@.subrange(bl, bl + e.len()) =~= e);
    let nr = o.restarts@.len() as int;
    assert forall|r: int| 0 <= r < nr implies b1.rp(r) == #[trigger] b0.rp(r) by { assert(f.restarts@[r] == o.restarts@[r]); }
    assert forall|off: int| 0 <= off < b0.bnd() implies b1.is_rp(off) == b0.is_rp(off) by {
        if b0.is_rp(off) {
            let r = choose|r: int| 0 <= r < b0.num_restarts && #[trigger] b0.rp(r) == off;
            assert(b1.rp(r) == off);
        }
        if b1.is_rp(off) {
            let r = choose|r: int| 0 <= r < b1.num_restarts && #[trigger] b1.rp(r) == off;
            if r < nr { assert(b0.rp(r) == off); }
        }
    }
    assert forall|r: int| 0 <= r < nr implies #[trigger] b0.rp(r) <= bl by {
        assert(b0.is_off(b0.rp(r)) || (b0.n() == 0 && b0.rp(r) == 0));
        if b0.is_off(b0.rp(r)) { let j = choose|j: int| 0 <= j < b0.n() && #[trigger] b0.off_at(j) == b0.rp(r); }
    }
    assert forall|r: int| 0 <= r < b1.num_restarts implies #[trigger] b1.rp(r) <= bl by { if r < nr { assert(b1.rp(r) == b0.rp(r)); } }
    assert forall|r1: int, r2: int| 0 <= r1 < r2 < b1.num_restarts implies #[trigger] b1.rp(r1) < #[trigger] b1.rp(r2) by {
        assert(b1.rp(r1) == b0.rp(r1));
        if r2 < nr { assert(b1.rp(r2) == b0.rp(r2)); assert(b0.rp(r1) < b0.rp(r2)); }
        else { if r1 < nr - 1 { assert(b0.rp(r1) < b0.rp(nr - 1)); } assert(b0.rp(nr - 1) == o.restarts@.last() as int); }
    }
    assert(b1.rp(0) == b0.rp(0));
    assert(b0.rp(nr - 1) == o.restarts@.last() as int);
    if f.restarts@ != o.restarts@ { assert(b1.rp(nr) == bl); }
    else if o.restarts@.last() == bl { assert(b1.rp(nr - 1) == bl); }
    else {
        if b1.is_rp(bl) {
            let r = choose|r: int| 0 <= r < b1.num_restarts && #[trigger] b1.rp(r) == bl;
            assert(b1.rp(r) == b0.rp(r));
            if r < nr - 1 { assert(b0.rp(r) < b0.rp(nr - 1)); }
        }
    }
}

// the step every accepted put/del takes: compute_key_frag then append, seen through the sealed blocks
proof fn lemma_put(o: BlockBuilder, m: BlockBuilder, f: BlockBuilder, shared: int, frag: Seq<u8>, ts: u64, val: Option<Seq<u8>>, key: Seq<u8>)
    requires
        o.bwf(),
        // m: after compute_key_frag
        m.buffer@ == o.buffer@, m.last_key@ == o.last_key@,
        m.restarts@ == o.restarts@ || (shared == 0 && m.restarts@ == o.restarts@.push(o.buffer@.len() as u32) && o.restarts@.last() < o.buffer@.len()),
        0 <= shared <= key.len(), frag == key.skip(shared), shared <= lcp(key, o.last_key@),
        // f: after append
        f.buffer@ == m.buffer@ + enc(shared, frag, ts, val), f.restarts@ == m.restarts@,
        f.last_key@ == trunc(m.last_key@, shared) + frag, f.last_timestamp == ts,
        f.key_value_pairs_since_restart >= 1, f.key_value_pairs_since_restart <= f.buffer@.len(), f.bytes_since_restart <= f.buffer@.len(),
        f.buffer@.len() + 4 * f.restarts@.len() + 16 <= 0x4000_0000,
        o.sb().n() > 0 ==> kt_lt(o.last_key@, o.last_timestamp, key, ts),
    ensures f.bwf(), f.ents() == o.ents().push(Ent { key, ts, val }),
{
    let b0 = o.sb(); let b1 = f.sb(); let e = enc(shared, frag, ts, val);
    let bl = o.buffer@.len() as int;
    assert(e.subrange(0, e.len() as int) =~= e);
    axiom_codec(e, 0, e.len() as int, shared, frag, ts, val);
    lemma_tables(o, f, e);
    let pushed = m.restarts@ != o.restarts@;
    // what the reader will rebuild is the key
    if pushed || b0.n() == 0 {
        if !pushed { assert(lcp(key, o.last_key@) == 0); }
        assert(trunc(Seq::<u8>::empty(), shared) + key.skip(shared) =~= key);
    } else {
        lemma_rebuild(key, o.last_key@, shared);
    }
    lemma_append(b0, b1, shared, frag, ts, val, key);
    // bookkeeping
    let n1 = b1.n();
    lemma_ents_index(b1, n1 - 1);
    assert(b1.ents()[n1 - 1] == Ent { key, ts, val });
    assert(f.last_key@ == key) by {
        if pushed || b0.n() == 0 { assert(trunc(o.last_key@, shared) + key.skip(shared) =~= key) by { if !pushed { assert(o.last_key@.len() == 0); } else { assert(shared == 0); assert(trunc(o.last_key@, 0) =~= Seq::<u8>::empty()); } } }
        else { lemma_rebuild(key, o.last_key@, shared); }
    }
}

impl BlockBuilder {
//@ extract sst/src/block.rs | impl Builder for BlockBuilder :: fn put
//@ ret r
//@ pre <<
        old(self).bwf(),
//@ >>
//@ post <<
        r is Ok ==> final(self).bwf() && final(self).ents() == old(self).ents().push(Ent { key: key@, ts: timestamp, val: Some(value@) }),
        r is Err ==> final(self).buffer@ == old(self).buffer@ && final(self).restarts@ == old(self).restarts@ && final(self).bwf(),
        key@.len() > 16384 || value@.len() > 32768 ==> r is Err,
        old(self).sb().n() > 0 && !kt_lt(old(self).last_key@, old(self).last_timestamp, key@, timestamp) ==> r is Err,
//@ >>
//@ bodystart <<
        let ghost o = *self;
//@ >>
//@ after `let (shared, key_frag) = self.compute_key_frag(key);` <<
        let ghost m = *self;
//@ >>
//@ before `self.append(be)` <<
        proof {
            let cur = *self;
            /* tail-post */ assert forall|f: BlockBuilder| f.buffer@ == cur.buffer@ + enc(shared as int, key_frag@, timestamp, Some(value@)) && f.restarts@ == cur.restarts@
                    && f.last_key@ == trunc(cur.last_key@, shared as int) + key_frag@ && f.last_timestamp == timestamp
                    && f.key_value_pairs_since_restart == cur.key_value_pairs_since_restart + 1
                    && f.bytes_since_restart == cur.bytes_since_restart + enc(shared as int, key_frag@, timestamp, Some(value@)).len()
                implies f.bwf() && f.ents() == o.ents().push(Ent { key: key@, ts: timestamp, val: Some(value@) }) by {
                let e = enc(shared as int, key_frag@, timestamp, Some(value@));
                assert(e.subrange(0, e.len() as int) =~= e);
                axiom_codec(e, 0, e.len() as int, shared as int, key_frag@, timestamp, Some(value@));
                lemma_put(o, m, f, shared as int, key_frag@, timestamp, Some(value@), key@);
            }
        }
//@ >>
//@ end

//@ extract sst/src/block.rs | impl Builder for BlockBuilder :: fn del
//@ ret r
//@ pre <<
        old(self).bwf(),
//@ >>
//@ post <<
        r is Ok ==> final(self).bwf() && final(self).ents() == old(self).ents().push(Ent { key: key@, ts: timestamp, val: None }),
        r is Err ==> final(self).buffer@ == old(self).buffer@ && final(self).restarts@ == old(self).restarts@ && final(self).bwf(),
        old(self).sb().n() > 0 && !kt_lt(old(self).last_key@, old(self).last_timestamp, key@, timestamp) ==> r is Err,
//@ >>
//@ bodystart <<
        let ghost o = *self;
//@ >>
//@ after `let (shared, key_frag) = self.compute_key_frag(key);` <<
        let ghost m = *self;
//@ >>
//@ before `self.append(be)` <<
        proof {
            let cur = *self;
            /* tail-post */ assert forall|f: BlockBuilder| f.buffer@ == cur.buffer@ + enc(shared as int, key_frag@, timestamp, None) && f.restarts@ == cur.restarts@
                    && f.last_key@ == trunc(cur.last_key@, shared as int) + key_frag@ && f.last_timestamp == timestamp
                    && f.key_value_pairs_since_restart == cur.key_value_pairs_since_restart + 1
                    && f.bytes_since_restart == cur.bytes_since_restart + enc(shared as int, key_frag@, timestamp, None).len()
                implies f.bwf() && f.ents() == o.ents().push(Ent { key: key@, ts: timestamp, val: None }) by {
                let e = enc(shared as int, key_frag@, timestamp, None);
                assert(e.subrange(0, e.len() as int) =~= e);
                axiom_codec(e, 0, e.len() as int, shared as int, key_frag@, timestamp, None);
                lemma_put(o, m, f, shared as int, key_frag@, timestamp, None, key@);
            }
        }
//@ >>
//@ end
}

// `vec![0]`
#[verifier::external_body]
fn vec_with_zero() -> (r: Vec<u32>)
    ensures r@ == seq![0u32]
{ unimplemented!() }
// an empty buffer with the restart table [0] seals into a well-formed block without entries
proof fn lemma_empty(bb: BlockBuilder)
    requires bb.buffer@.len() == 0, bb.restarts@ == seq![0u32], bb.last_key@.len() == 0, bb.key_value_pairs_since_restart == 0, bb.bytes_since_restart == 0
    ensures bb.bwf(), bb.ents() == Seq::<Ent>::empty()
{
    let b = bb.sb();
    lemma_sealed(bb.buffer@, bb.restarts@);
    assert(b.off_at(0) == 0);
    assert(b.chain(0));
    lemma_n(b, 0);
    assert(b.rp(0) == 0);
    assert(b.sorted_ok()) by { reveal(Block::sorted_ok); }
    assert(b.ents() =~= Seq::<Ent>::empty());
}

impl BlockBuilder {
//@ extract sst/src/block.rs | impl BlockBuilder :: fn new
//@ ret r
//@ rewrite X7 `let restarts = vec![0];` => `let restarts = vec_with_zero();`
//@ rewrite-re X7 `let buffer = Vec::default\(\);` => `let buffer = Vec::new();`
//@ rewrite-re X7 `last_key: Vec::default\(\),` => `last_key: Vec::new(),`
//@ post <<
        r.bwf(), r.ents() == Seq::<Ent>::empty(), r.options == options,
//@ >>
//@ before `BlockBuilder {` <<
        proof {
            /* tail-post */ assert forall|bb: BlockBuilder| bb.buffer@.len() == 0 && bb.restarts@ == seq![0u32] && bb.last_key@.len() == 0
                    && bb.key_value_pairs_since_restart == 0 && bb.bytes_since_restart == 0
                implies bb.bwf() && bb.ents() == Seq::<Ent>::empty() by { lemma_empty(bb); }
        }
//@ >>
//@ end

    // ASSUMED: seal() appends footer(restarts) (the prototk packing chain tag10 / length / fixed32s / tag11 / count) and
    // hands the bytes to Block::new -- whose offset arithmetic IS proved above for exactly such bytes
//@ extract sst/src/block.rs | impl Builder for BlockBuilder :: fn seal
//@ ret r
//@ pre <<
        self.bwf(),
//@ >>
//@ post <<
        r is Ok ==> r->Ok_0 == self.sb(),
//@ >>
//@ external-body
//@ end
}
// what a sealed builder hands to the cursor: a well-formed block -- also when nothing was put in -- holding exactly the
// accepted entries
proof fn lemma_sealed_block(bb: BlockBuilder)
    requires bb.bwf()
    ensures bb.sb().wf(), bb.sb().ents() == bb.ents()
{ }

//@ contract-lemma lemma_sealed_block
//@ contract-lemma lemma_append
//@ contract-lemma lemma_put
//@ contract-lemma lemma_tables
//@ min-verified 5
} // verus!
fn main() {}
