// Shared body of units lsmtk_load / lsmtk_load_any (C03 "scan and point read agree", read path of C01):
// Version::load, the function every point read of the tree ends in, extracted from lsmtk/src/tree/mod.rs and proved
// against "the newest version of the key not newer than the read timestamp, over ALL files of the version".
//   * each file answers like Sst::load (proved in unit sst_lookup, C10): the newest version <= t it holds;
//   * Level::lower_bound / upper_bound bracket every file of the level that can hold the key (ASSUMED: files of a
//     level >= 1 are sorted by key range and their metadata bounds their keys);
//   * `sort_by_key(biggest_timestamp)` permutes level 0 into ascending biggest_timestamp (std contract, ASSUMED).
// The three `for` headers over Vec/slice iterators are rewritten to index loops (rule X13); the range of the slice
// `level.ssts[lower_bound..upper_bound]` becomes an explicit obligation.
use vstd::prelude::*;
use vstd::iset::*;
verus! {
global size_of usize == 8;

pub struct Entry { pub key: Seq<u8>, pub ts: u64, pub val: Option<Seq<u8>> }
pub type ES = ISet<Entry>;

#[verifier::external_body]
struct SError { _p: u8 }
#[verifier::external_body]
struct FileManager { _p: u8 }
#[verifier::external_body]
struct Setsum { _p: u8 }
#[verifier::external_body]
struct CachedSst { _p: u8 }
#[verifier::external_body]
#[verifier::reject_recursive_types(K)]
#[verifier::reject_recursive_types(V)]
struct LeastRecentlyUsedCache<K, V> { _p: u8, _k: core::marker::PhantomData<(K, V)> }

// Arc<SstMetadata>: the file it names holds a set of entries; only biggest_timestamp is looked at here
#[verifier::external_body]
struct SstMetadata { _p: u8 }
impl SstMetadata {
    uninterp spec fn ents(&self) -> ES;
    uninterp spec fn big(&self) -> u64;
}
struct Level { ssts: Vec<SstMetadata> }
struct Version { levels: Vec<Level> }

// ---------------------------------------------------------------- newest version <= t
spec fn has_le(s: ES, k: Seq<u8>, t: u64) -> bool { exists|e: Entry| s.contains(e) && e.key == k && e.ts <= t }
spec fn is_newest(s: ES, k: Seq<u8>, t: u64, e: Entry) -> bool {
    s.contains(e) && e.key == k && e.ts <= t && forall|e2: Entry| s.contains(e2) && e2.key == k && e2.ts <= t ==> e2.ts <= e.ts
}
// what a point read of the entry set s at (k, t) returns: value, or None with the tombstone flag
spec fn reads(s: ES, k: Seq<u8>, t: u64, r: Option<Vec<u8>>, tomb: bool) -> bool {
    match r {
        Some(v) => !tomb && exists|e: Entry| is_newest(s, k, t, e) && e.val == Some(v@),
        None => if tomb { exists|e: Entry| is_newest(s, k, t, e) && e.val is None } else { !has_le(s, k, t) },
    }
}
spec fn level_ents(l: Level) -> ES { ISet::new(|e: Entry| exists|j: int| 0 <= j < l.ssts@.len() && #[trigger] l.ssts@[j].ents().contains(e)) }
spec fn all_ents(v: Version) -> ES { ISet::new(|e: Entry| exists|i: int| 0 <= i < v.levels@.len() && #[trigger] level_ents(v.levels@[i]).contains(e)) }

// every version of a key in a is newer than every version of that key in b
spec fn newer(a: ES, b: ES) -> bool { forall|x: Entry, y: Entry| a.contains(x) && b.contains(y) && x.key == y.key ==> x.ts > y.ts }
spec fn key_disjoint(a: ES, b: ES) -> bool { forall|x: Entry, y: Entry| a.contains(x) && b.contains(y) ==> x.key != y.key }
// the shape flushes and compactions give a version: level-0 files cover disjoint, increasing timestamp ranges; what
// is in a shallower level is newer, per key, than what is deeper; files of a level >= 1 do not share keys
spec fn ordered(v: Version) -> bool {
    &&& forall|a: int, b: int| 0 <= a < v.levels@[0].ssts@.len() && 0 <= b < v.levels@[0].ssts@.len() && v.levels@[0].ssts@[a] != v.levels@[0].ssts@[b]
            && v.levels@[0].ssts@[a].big() >= v.levels@[0].ssts@[b].big() ==> newer(#[trigger] v.levels@[0].ssts@[a].ents(), #[trigger] v.levels@[0].ssts@[b].ents())
    &&& forall|i: int, j: int| 0 <= i < j < v.levels@.len() ==> newer(#[trigger] level_ents(v.levels@[i]), #[trigger] level_ents(v.levels@[j]))
    &&& forall|i: int, a: int, b: int| 1 <= i < v.levels@.len() && 0 <= a < v.levels@[i].ssts@.len() && 0 <= b < v.levels@[i].ssts@.len() && v.levels@[i].ssts@[a] != v.levels@[i].ssts@[b]
            ==> key_disjoint(#[trigger] v.levels@[i].ssts@[a].ents(), #[trigger] v.levels@[i].ssts@[b].ents())
}


// ---------------------------------------------------------------- why the first hit is the answer
proof fn lemma_level_has(v: Version, i: int, j: int, e: Entry)
    requires 0 <= i < v.levels@.len(), 0 <= j < v.levels@[i].ssts@.len(), v.levels@[i].ssts@[j].ents().contains(e)
    ensures level_ents(v.levels@[i]).contains(e), all_ents(v).contains(e)
{
    assert(level_ents(v.levels@[i]).contains(e));
}
// a hit in level 0: file f (position p of the sorted copy) holds the newest version <= t of k among its own
// entries, the files after it in the sorted copy hold none; then it is the newest over the whole version
proof fn lemma_hit_l0(v: Version, l0: Seq<SstMetadata>, p: int, k: Seq<u8>, t: u64, e: Entry)
    requires v.levels@.len() >= 1, 0 <= p < l0.len(),
        l0.len() == v.levels@[0].ssts@.len(),
        forall|x: SstMetadata| l0.contains(x) <==> v.levels@[0].ssts@.contains(x),
        forall|i: int, j: int| 0 <= i < j < l0.len() ==> l0[i].big() <= l0[j].big(),
        forall|j: int| p < j < l0.len() ==> !has_le(#[trigger] l0[j].ents(), k, t),
        is_newest(l0[p].ents(), k, t, e),
    ensures ordered(v) ==> is_newest(all_ents(v), k, t, e)
{
    if !ordered(v) { return; }
    let f = l0[p];
    assert(l0.contains(f));
    let pf = choose|a: int| 0 <= a < v.levels@[0].ssts@.len() && v.levels@[0].ssts@[a] == f;
    lemma_level_has(v, 0, pf, e);
    assert forall|e2: Entry| all_ents(v).contains(e2) && e2.key == k && e2.ts <= t implies e2.ts <= e.ts by {
        let i = choose|i: int| 0 <= i < v.levels@.len() && #[trigger] level_ents(v.levels@[i]).contains(e2);
        if i == 0 {
            let b = choose|b: int| 0 <= b < v.levels@[0].ssts@.len() && #[trigger] v.levels@[0].ssts@[b].ents().contains(e2);
            let g = v.levels@[0].ssts@[b];
            assert(v.levels@[0].ssts@.contains(g));
            assert(l0.contains(g));
            let q = choose|q: int| 0 <= q < l0.len() && l0[q] == g;
            if g != f {
                if q > p { assert(has_le(l0[q].ents(), k, t)); }
                assert(f.big() >= g.big());
                assert(newer(v.levels@[0].ssts@[pf].ents(), v.levels@[0].ssts@[b].ents()));
            }
        } else {
            assert(level_ents(v.levels@[0]).contains(e));
            assert(newer(level_ents(v.levels@[0]), level_ents(v.levels@[i])));
        }
    }
}
proof fn lemma_l0_none(v: Version, l0: Seq<SstMetadata>, k: Seq<u8>, t: u64)
    requires v.levels@.len() >= 1,
        forall|x: SstMetadata| l0.contains(x) <==> v.levels@[0].ssts@.contains(x),
        forall|j: int| 0 <= j < l0.len() ==> !has_le(#[trigger] l0[j].ents(), k, t),
    ensures !has_le(level_ents(v.levels@[0]), k, t)
{
    if has_le(level_ents(v.levels@[0]), k, t) {
        let e = choose|e: Entry| level_ents(v.levels@[0]).contains(e) && e.key == k && e.ts <= t;
        let b = choose|b: int| 0 <= b < v.levels@[0].ssts@.len() && #[trigger] v.levels@[0].ssts@[b].ents().contains(e);
        let g = v.levels@[0].ssts@[b];
        assert(v.levels@[0].ssts@.contains(g));
        assert(l0.contains(g));
        let q = choose|q: int| 0 <= q < l0.len() && l0[q] == g;
        assert(has_le(l0[q].ents(), k, t));
    }
}
// a hit in a deeper level li, file si; nothing shallower has a version <= t
proof fn lemma_hit_level(v: Version, li: int, si: int, k: Seq<u8>, t: u64, e: Entry)
    requires 1 <= li < v.levels@.len(), 0 <= si < v.levels@[li].ssts@.len(),
        forall|i: int| 0 <= i < li ==> !has_le(#[trigger] level_ents(v.levels@[i]), k, t),
        is_newest(v.levels@[li].ssts@[si].ents(), k, t, e),
    ensures ordered(v) ==> is_newest(all_ents(v), k, t, e)
{
    if !ordered(v) { return; }
    lemma_level_has(v, li, si, e);
    assert forall|e2: Entry| all_ents(v).contains(e2) && e2.key == k && e2.ts <= t implies e2.ts <= e.ts by {
        let i = choose|i: int| 0 <= i < v.levels@.len() && #[trigger] level_ents(v.levels@[i]).contains(e2);
        if i < li { assert(has_le(level_ents(v.levels@[i]), k, t)); }
        else if i == li {
            let b = choose|b: int| 0 <= b < v.levels@[li].ssts@.len() && #[trigger] v.levels@[li].ssts@[b].ents().contains(e2);
            if v.levels@[li].ssts@[b] != v.levels@[li].ssts@[si] {
                assert(key_disjoint(v.levels@[li].ssts@[si].ents(), v.levels@[li].ssts@[b].ents()));
            }
        } else {
            assert(newer(level_ents(v.levels@[li]), level_ents(v.levels@[i])));
        }
    }
}
proof fn lemma_level_none(l: Level, lb: int, ub: int, k: Seq<u8>, t: u64)
    requires 0 <= lb <= ub <= l.ssts@.len(),
        forall|j: int| lb <= j < ub ==> !has_le(#[trigger] l.ssts@[j].ents(), k, t),
        forall|j: int, e: Entry| 0 <= j < lb && #[trigger] l.ssts@[j].ents().contains(e) ==> e.key != k,
        forall|j: int, e: Entry| ub <= j < l.ssts@.len() && #[trigger] l.ssts@[j].ents().contains(e) ==> e.key != k,
    ensures !has_le(level_ents(l), k, t)
{
    if has_le(level_ents(l), k, t) {
        let e = choose|e: Entry| level_ents(l).contains(e) && e.key == k && e.ts <= t;
        let b = choose|b: int| 0 <= b < l.ssts@.len() && #[trigger] l.ssts@[b].ents().contains(e);
        if lb <= b < ub { assert(has_le(l.ssts@[b].ents(), k, t)); }
    }
}
proof fn lemma_all_none(v: Version, k: Seq<u8>, t: u64)
    requires forall|i: int| 0 <= i < v.levels@.len() ==> !has_le(#[trigger] level_ents(v.levels@[i]), k, t)
    ensures !has_le(all_ents(v), k, t)
{
    if has_le(all_ents(v), k, t) {
        let e = choose|e: Entry| all_ents(v).contains(e) && e.key == k && e.ts <= t;
        let i = choose|i: int| 0 <= i < v.levels@.len() && #[trigger] level_ents(v.levels@[i]).contains(e);
        assert(has_le(level_ents(v.levels@[i]), k, t));
    }
}
// a file's answer is the version's answer once its newest version is the newest overall
proof fn lemma_reads_lift(f: ES, all: ES, k: Seq<u8>, t: u64, r: Option<Vec<u8>>, tomb: bool)
    requires reads(f, k, t, r, tomb), r is Some || tomb,
        forall|e: Entry| is_newest(f, k, t, e) ==> is_newest(all, k, t, e),
    ensures reads(all, k, t, r, tomb)
{
    match r {
        Some(v) => { let e = choose|e: Entry| is_newest(f, k, t, e) && e.val == Some(v@); assert(is_newest(all, k, t, e)); }
        None => { let e = choose|e: Entry| is_newest(f, k, t, e) && e.val is None; assert(is_newest(all, k, t, e)); }
    }
}

// `self.levels[0].ssts.clone()`: the same Arcs
#[verifier::external_body]
fn clone_files(v: &Vec<SstMetadata>) -> (r: Vec<SstMetadata>)
    ensures r@ == v@
{ unimplemented!() }
// `level0.sort_by_key(|md| md.biggest_timestamp)` (std: a permutation, ascending in the key)
#[verifier::external_body]
fn sort_by_biggest_timestamp(v: &mut Vec<SstMetadata>)
    ensures final(v)@.len() == old(v)@.len(),
        forall|x: SstMetadata| final(v)@.contains(x) <==> old(v)@.contains(x),
        forall|i: int, j: int| 0 <= i < j < final(v)@.len() ==> final(v)@[i].big() <= final(v)@[j].big(),
{ unimplemented!() }
// a sort by anything else: a permutation, in an order this unit knows nothing about
#[verifier::external_body]
fn sort_by_other_field(v: &mut Vec<SstMetadata>)
    ensures final(v)@.len() == old(v)@.len(),
        forall|x: SstMetadata| final(v)@.contains(x) <==> old(v)@.contains(x),
{ unimplemented!() }

impl Level {
    // ASSUMED (partition_point over files sorted by key range whose metadata bounds their keys): the window
    // [lower_bound, upper_bound) holds every file of the level with an entry for `key`
//@ extract lsmtk/src/tree/mod.rs | impl Level :: fn lower_bound
//@ ret r
//@ post <<
        r <= self.ssts@.len(), r == self.lb_spec(key@),
        forall|j: int, e: Entry| 0 <= j < r && #[trigger] self.ssts@[j].ents().contains(e) ==> e.key != key@,
//@ >>
//@ external-body
//@ end
//@ extract lsmtk/src/tree/mod.rs | impl Level :: fn upper_bound
//@ ret r
//@ post <<
        r <= self.ssts@.len(), self.window_ok(key@) ==> self.lb_spec(key@) <= r,
        forall|j: int, e: Entry| r <= j < self.ssts@.len() && #[trigger] self.ssts@[j].ents().contains(e) ==> e.key != key@,
//@ >>
//@ external-body
//@ end
    uninterp spec fn lb_spec(&self, key: Seq<u8>) -> int;
    uninterp spec fn window_ok(&self, key: Seq<u8>) -> bool;
}

impl Version {
    // Sst::load through the file cache: the contract proved for Sst::load in unit sst_lookup (C10)
//@ extract lsmtk/src/tree/mod.rs | impl Version :: fn load_from_sst
//@ ret r
//@ post <<
        r is Ok ==> reads(md.ents(), key@, timestamp, r->Ok_0, *final(is_tombstone)),
//@ >>
//@ external-body
//@ end

//@ extract lsmtk/src/tree/mod.rs | impl Version :: fn load
//@ ret r
//@ rewrite X7 `let mut level0 = self.levels[0].ssts.clone();` => `let mut level0 = clone_files(&self.levels[0].ssts);`
//@ rewrite-re? X7 `level0\.sort_by_key\(\|md\| md\.biggest_timestamp\);` => `sort_by_biggest_timestamp(&mut level0);`
//@ rewrite-re? X7 `level0\.sort_by_key\(\|md\| md\.(\w+)\);` => `sort_by_other_field(&mut level0);`
//@ rewrite-re? X7 `level0\.sort_by_key\(\|md\| std::cmp::Reverse\(md\.(\w+)\)\);` => `sort_by_other_field(&mut level0);`
//@ rewrite-re? X13 `for l0 in level0\.into_iter\(\)\.rev\(\) \{` => `let mut idx0: usize = level0.len(); while idx0 > 0 { idx0 = idx0 - 1; let l0 = &level0[idx0];`
//@ rewrite-re? X13 `for l0 in level0\.into_iter\(\) \{` => `let mut idx0: usize = 0; while idx0 < level0.len() { let l0 = &level0[idx0]; idx0 = idx0 + 1;`
//@ rewrite-re X13 `for level in self\.levels\[(\d+)\.\.\]\.iter\(\) \{` => `let mut idxl: usize = \1; while idxl < self.levels.len() { let level = &self.levels[idxl]; idxl = idxl + 1;`
//@ rewrite-re X13 `for sst in level\.ssts\[([^\]]+?)\.\.([^\]]+?)\]\.iter\(\) \{` => `assert(\1 <= \2 <= level.ssts@.len()); let mut idxs: usize = \1; while idxs < \2 { let sst = &level.ssts[idxs]; idxs = idxs + 1;`
//@ prefix #[verifier::loop_isolation(false)]
//@ pre <<
        self.levels@.len() >= 1,
        history_is_ordered() ==> ordered(*self),
        forall|i: int| 1 <= i < self.levels@.len() ==> #[trigger] self.levels@[i].window_ok(key@),
//@ >>
//@ post <<
        r is Ok ==> reads(all_ents(*self), key@, timestamp, r->Ok_0, *final(is_tombstone)),
//@ >>
//@ bodystart <<
        let ghost k = key@;
        let ghost t = timestamp;
        let ghost v = *self;
//@ >>
//@ loop 0 <<
            invariant
                0 <= idx0 <= level0@.len(), level0@.len() == v.levels@[0].ssts@.len(), !*is_tombstone,
                forall|x: SstMetadata| level0@.contains(x) <==> v.levels@[0].ssts@.contains(x),
                forall|i: int, j: int| 0 <= i < j < level0@.len() ==> level0@[i].big() <= level0@[j].big(),
                /* contract-inv */ forall|j: int| idx0 <= j < level0@.len() ==> !has_le(#[trigger] level0@[j].ents(), k, t),
            decreases idx0,
//@ >>
//@ before#1? `return Ok(ret);` <<
                proof {
                    assert forall|e: Entry| is_newest(level0@[idx0 as int].ents(), k, t, e) && ordered(v) implies is_newest(all_ents(v), k, t, e) by {
                        lemma_hit_l0(v, level0@, idx0 as int, k, t, e);
                    }
                    if ordered(v) { lemma_reads_lift(level0@[idx0 as int].ents(), all_ents(v), k, t, ret, *is_tombstone); }
                }
//@ >>
//@ loop 1 <<
            invariant
                1 <= idxl <= v.levels@.len(), !*is_tombstone,
                /* contract-inv */ forall|i: int| 0 <= i < idxl ==> !has_le(#[trigger] level_ents(v.levels@[i]), k, t),
            decreases v.levels@.len() - idxl,
//@ >>
//@ before `let mut level0 = ` <<
        proof { assert(self.levels@[0].ssts@ =~= v.levels@[0].ssts@); }
//@ >>
//@ loop 2 <<
                invariant
                    lower_bound <= idxs <= upper_bound <= level.ssts@.len(), !*is_tombstone, 1 <= idxl - 1 < v.levels@.len(), level == &v.levels@[idxl - 1],
                    /* contract-inv */ forall|j: int| lower_bound <= j < idxs ==> !has_le(#[trigger] level.ssts@[j].ents(), k, t),
                    forall|i: int| 0 <= i < idxl - 1 ==> !has_le(#[trigger] level_ents(v.levels@[i]), k, t),
                decreases upper_bound - idxs,
//@ >>
//@ before#2? `return Ok(ret);` <<
                    proof {
                        assert forall|e: Entry| is_newest(level.ssts@[idxs - 1].ents(), k, t, e) && ordered(v) implies is_newest(all_ents(v), k, t, e) by {
                            lemma_hit_level(v, idxl - 1, idxs - 1, k, t, e);
                        }
                        if ordered(v) { lemma_reads_lift(level.ssts@[idxs - 1].ents(), all_ents(v), k, t, ret, *is_tombstone); }
                    }
//@ >>
//@ afterloop 0 <<
        proof { lemma_l0_none(v, level0@, k, t); }
//@ >>
//@ afterloop 2 <<
            proof { lemma_level_none(v.levels@[idxl - 1], lower_bound as int, upper_bound as int, k, t); }
//@ >>
//@ afterloop 1 <<
        proof { lemma_all_none(v, k, t); }
//@ >>
//@ end
}

// ---------------------------------------------------------------- the two layers above Version::load
struct LsmTree { file_manager: FileManager, sst_cache: LeastRecentlyUsedCache<Setsum, CachedSst> }
// Arc<Version> read as Version
struct VersionRef<'a> { tree: &'a LsmTree, version: Version }
spec fn version_pre(v: Version, key: Seq<u8>) -> bool {
    &&& v.levels@.len() >= 1
    &&& history_is_ordered() ==> ordered(v)
    &&& forall|i: int| 1 <= i < v.levels@.len() ==> #[trigger] v.levels@[i].window_ok(key)
}
impl VersionRef<'_> {
//@ extract lsmtk/src/tree/mod.rs | impl VersionRef<'_> :: fn load
//@ ret r
//@ pre <<
        version_pre(self.version, key@),
//@ >>
//@ post <<
        r is Ok ==> reads(all_ents(self.version), key@, timestamp, r->Ok_0, *final(is_tombstone)),
//@ >>
//@ end
}

// the memtable: a lock-free skiplist ordered by (key ascending, timestamp descending); `seek` to (key, t) lands on the
// newest version <= t (ASSUMED: skipfree is outside the verifier's reach, C17)
#[verifier::external_body]
struct MemTable { _p: u8 }
impl MemTable {
    uninterp spec fn ents(&self) -> ES;
//@ extract lsmtk/src/kvs/memtable.rs | impl MemTable :: fn load
//@ ret r
//@ pre <<
        !*old(is_tombstone),
//@ >>
//@ post <<
        r is Ok ==> reads(self.ents(), key@, timestamp, r->Ok_0, *final(is_tombstone)),
//@ >>
//@ external-body
//@ end
}
// what KeyValueStore::load reads under its state lock: Arc clones of the two memtables, a tree snapshot, the sequence number
struct Snapshot<'a> { mem: MemTable, imm: Option<MemTable>, version: VersionRef<'a>, timestamp: u64 }
#[verifier::external_body]
struct KeyValueStore { _p: u8 }
spec fn snap_ents(s: Snapshot<'_>) -> ES {
    ISet::new(|e: Entry| s.mem.ents().contains(e) || (s.imm is Some && s.imm->Some_0.ents().contains(e)) || all_ents(s.version.version).contains(e))
}
// writes reach the memtable with increasing sequence numbers, the immutable memtable is older, the tree older still
spec fn snap_ordered(s: Snapshot<'_>) -> bool {
    &&& s.imm is Some ==> newer(s.mem.ents(), s.imm->Some_0.ents()) && newer(s.imm->Some_0.ents(), all_ents(s.version.version))
    &&& newer(s.mem.ents(), all_ents(s.version.version))
}
proof fn lemma_first_of(a: ES, rest: ES, all: ES, k: Seq<u8>, t: u64, r: Option<Vec<u8>>, tomb: bool)
    requires reads(a, k, t, r, tomb), r is Some || tomb, newer(a, rest),
        forall|e: Entry| all.contains(e) <==> a.contains(e) || rest.contains(e),
    ensures reads(all, k, t, r, tomb)
{
    assert forall|e: Entry| is_newest(a, k, t, e) implies is_newest(all, k, t, e) by { }
    lemma_reads_lift(a, all, k, t, r, tomb);
}
proof fn lemma_skip(a: ES, rest: ES, all: ES, k: Seq<u8>, t: u64, r: Option<Vec<u8>>, tomb: bool)
    requires !has_le(a, k, t), reads(rest, k, t, r, tomb),
        forall|e: Entry| all.contains(e) <==> a.contains(e) || rest.contains(e),
    ensures reads(all, k, t, r, tomb)
{
    assert forall|e: Entry| is_newest(rest, k, t, e) implies is_newest(all, k, t, e) by {
        assert forall|e2: Entry| all.contains(e2) && e2.key == k && e2.ts <= t implies e2.ts <= e.ts by {
            if a.contains(e2) { assert(has_le(a, k, t)); }
        }
    }
    if r is Some || tomb { lemma_reads_lift(rest, all, k, t, r, tomb); }
    else {
        if has_le(all, k, t) {
            let e = choose|e: Entry| all.contains(e) && e.key == k && e.ts <= t;
            if a.contains(e) { assert(has_le(a, k, t)); } else { assert(has_le(rest, k, t)); }
        }
    }
}
impl KeyValueStore {
    uninterp spec fn snap_spec(&self) -> Snapshot<'_>;
    // `{ let state = self.state.lock().unwrap(); (Arc::clone(&state.mem), state.imm.clone(), self.tree.take_snapshot(), state.visible_seq_no) }` (that the timestamp covers fully applied batches only: unit lsmtk_visible)
    #[verifier::external_body]
    fn snapshot(&self) -> (r: (MemTable, Option<MemTable>, VersionRef<'_>, u64))
        ensures r.0 == self.snap_spec().mem, r.1 == self.snap_spec().imm, r.2 == self.snap_spec().version, r.3 == self.snap_spec().timestamp,
    { unimplemented!() }

//@ extract lsmtk/src/kvs/mod.rs | impl KeyValueStore :: fn load
//@ ret r
//@ rewrite-re X7 `let \(mem, imm, version, timestamp\) = \{\s*let state = self\.state\.lock\(\)\.unwrap\(\);\s*let mem = Arc::clone\(&state\.mem\);\s*let imm = state\.imm\.clone\(\);\s*let version = self\.tree\.take_snapshot\(\);\s*\(mem, imm, version, state\.\w+\)\s*\};` => `let (mem, imm, version, timestamp) = self.snapshot();`
//@ pre <<
        version_pre(self.snap_spec().version.version, key@),
        snap_ordered(self.snap_spec()),
//@ >>
//@ post <<
        r is Ok ==> reads(snap_ents(self.snap_spec()), key@, self.snap_spec().timestamp, r->Ok_0, *final(is_tombstone)),
//@ >>
//@ bodystart <<
        let ghost sn = self.snap_spec();
        let ghost k = key@;
        let ghost tree = all_ents(sn.version.version);
        let ghost rest1 = ISet::new(|e: Entry| (sn.imm is Some && sn.imm->Some_0.ents().contains(e)) || tree.contains(e));
        let ghost all = snap_ents(sn);
//@ >>
//@ before#1? `return Ok(ret);` <<
            proof { lemma_first_of(sn.mem.ents(), rest1, all, k, sn.timestamp, ret, *is_tombstone); }
//@ >>
//@ before#2? `return Ok(ret);` <<
                proof {
                    lemma_first_of(sn.imm->Some_0.ents(), tree, rest1, k, sn.timestamp, ret, *is_tombstone);
                    lemma_skip(sn.mem.ents(), rest1, all, k, sn.timestamp, ret, *is_tombstone);
                }
//@ >>
//@ after `let ret = version.load(key, timestamp, is_tombstone)?;` <<
        proof {
            if sn.imm is Some { lemma_skip(sn.imm->Some_0.ents(), tree, rest1, k, sn.timestamp, ret, *is_tombstone); }
            else { assert(rest1 =~= tree); }
            lemma_skip(sn.mem.ents(), rest1, all, k, sn.timestamp, ret, *is_tombstone);
        }
//@ >>
//@ end
}
