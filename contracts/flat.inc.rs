// ---- concatenation of a sequence of entry sequences (shared by sst_cursor and cur_concat)
// concatenation of the first k blocks
spec fn flat(bs: Seq<Seq<Ent>>, k: int) -> Seq<Ent>
    decreases k
{
    if k <= 0 { Seq::<Ent>::empty() } else { flat(bs, k - 1) + bs[k - 1] }
}
spec fn off(bs: Seq<Seq<Ent>>, k: int) -> int { flat(bs, k).len() as int }

proof fn lemma_flat_index(bs: Seq<Seq<Ent>>, k: int, i: int, j: int)
    requires 0 <= i < k <= bs.len(), 0 <= j < bs[i].len()
    ensures off(bs, i) + j < off(bs, k), flat(bs, k)[off(bs, i) + j] == bs[i][j], off(bs, i) >= 0,
    decreases k
{
    if i < k - 1 { lemma_flat_index(bs, k - 1, i, j); }
    lemma_off_mono(bs, 0, i);
}
proof fn lemma_off_mono(bs: Seq<Seq<Ent>>, a: int, b: int)
    requires 0 <= a <= b <= bs.len()
    ensures off(bs, a) <= off(bs, b), off(bs, 0) == 0,
        flat(bs, a) =~= flat(bs, b).subrange(0, off(bs, a)),
    decreases b - a
{
    if a < b { lemma_off_mono(bs, a, b - 1); }
}
// every global index belongs to exactly one (block, inner) pair
proof fn lemma_flat_locate(bs: Seq<Seq<Ent>>, k: int, g: int) -> (ij: (int, int))
    requires 0 <= k <= bs.len(), 0 <= g < off(bs, k)
    ensures 0 <= ij.0 < k, 0 <= ij.1 < bs[ij.0].len(), off(bs, ij.0) + ij.1 == g, flat(bs, k)[g] == bs[ij.0][ij.1],
    decreases k
{
    if g >= off(bs, k - 1) { (k - 1, g - off(bs, k - 1)) }
    else {
        let r = lemma_flat_locate(bs, k - 1, g);
        r
    }
}


