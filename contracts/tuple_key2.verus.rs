// Unit tuple_key2 (C16, compact format): byte strings.  UNBOUNDED in string length.
//   encode_bytes writes exactly esc(bytes) = escape(00 -> 00 ff) ++ 00 00;
//   esc is order-preserving and prefix-free (lemmas by induction);
//   TupleKeyParser::bytes inverts it, leaving the parser right after the element, and is total.
use vstd::prelude::*;
verus! {
global size_of usize == 8;

pub open spec fn esc(s: Seq<u8>) -> Seq<u8>
    decreases s.len()
{
    if s.len() == 0 { seq![0u8, 0u8] }
    else if s[0] == 0 { seq![0u8, 0xffu8] + esc(s.subrange(1, s.len() as int)) }
    else { seq![s[0]] + esc(s.subrange(1, s.len() as int)) }
}

pub open spec fn lex_le(a: Seq<u8>, b: Seq<u8>) -> bool
    decreases a.len()
{
    if a.len() == 0 { true }
    else if b.len() == 0 { false }
    else if a[0] < b[0] { true }
    else if a[0] > b[0] { false }
    else { lex_le(a.subrange(1, a.len() as int), b.subrange(1, b.len() as int)) }
}
pub open spec fn is_prefix(a: Seq<u8>, b: Seq<u8>) -> bool { a.len() <= b.len() && b.subrange(0, a.len() as int) == a }

proof fn lemma_esc_len(s: Seq<u8>)
    ensures esc(s).len() >= 2, esc(s).len() <= 2 * s.len() + 2
    decreases s.len()
{
    if s.len() > 0 { lemma_esc_len(s.subrange(1, s.len() as int)); }
}

// esc(s ++ [b]) = esc(s) without its terminator ++ escape(b) ++ terminator
pub open spec fn esc_body(s: Seq<u8>) -> Seq<u8>
    decreases s.len()
{
    if s.len() == 0 { Seq::<u8>::empty() }
    else if s[0] == 0 { seq![0u8, 0xffu8] + esc_body(s.subrange(1, s.len() as int)) }
    else { seq![s[0]] + esc_body(s.subrange(1, s.len() as int)) }
}
proof fn lemma_esc_is_body_plus_term(s: Seq<u8>)
    ensures esc(s) =~= esc_body(s) + seq![0u8, 0u8]
    decreases s.len()
{
    if s.len() > 0 { lemma_esc_is_body_plus_term(s.subrange(1, s.len() as int)); }
}
proof fn lemma_body_push(s: Seq<u8>, b: u8)
    ensures esc_body(s.push(b)) =~= esc_body(s) + (if b == 0 { seq![0u8, 0xffu8] } else { seq![b] })
    decreases s.len()
{
    if s.len() == 0 {
        assert(s.push(b).subrange(1, 1) =~= Seq::<u8>::empty());
        assert(esc_body(s.push(b).subrange(1, 1)) =~= Seq::<u8>::empty());
    } else {
        let t = s.subrange(1, s.len() as int);
        assert(s.push(b).subrange(1, s.len() as int + 1) =~= t.push(b));
        lemma_body_push(t, b);
    }
}

// ORDER: comparing encodings byte-wise == comparing the strings byte-wise (shorter-is-smaller on a prefix)
pub proof fn lemma_esc_order(a: Seq<u8>, b: Seq<u8>)
    ensures lex_le(esc(a), esc(b)) == lex_le(a, b)
    decreases a.len() + b.len()
{
    reveal_with_fuel(lex_le, 3);
    reveal_with_fuel(esc, 2);
    lemma_esc_len(a); lemma_esc_len(b);
    if a.len() == 0 {
        // esc(a) = 00 00 ; every esc(b) starts with 00 00 (b empty), 00 ff or a non-zero byte
        if b.len() == 0 { assert(esc(a) =~= esc(b)); lemma_lex_refl(esc(a)); }
        else if b[0] == 0 {
            let eb = esc(b);
            assert(eb[0] == 0 && eb[1] == 0xff);
            assert(esc(a).subrange(1, 2)[0] == 0);
            assert(eb.subrange(1, eb.len() as int)[0] == 0xff);
        } else { assert(esc(b)[0] == b[0]); }
    } else if b.len() == 0 {
        let ea = esc(a);
        if a[0] == 0 {
            assert(ea[0] == 0 && ea[1] == 0xff);
            assert(ea.subrange(1, ea.len() as int)[0] == 0xff);
            assert(esc(b).subrange(1, 2)[0] == 0);
        } else { assert(ea[0] == a[0]); }
    } else {
        let ta = a.subrange(1, a.len() as int); let tb = b.subrange(1, b.len() as int);
        let ea = esc(a); let eb = esc(b);
        assert(ea[0] == a[0] && eb[0] == b[0]);
        if a[0] == b[0] {
            lemma_esc_order(ta, tb);
            if a[0] == 0 {
                assert(ea.subrange(1, ea.len() as int) =~= seq![0xffu8] + esc(ta));
                assert(eb.subrange(1, eb.len() as int) =~= seq![0xffu8] + esc(tb));
                assert((seq![0xffu8] + esc(ta)).subrange(1, 1 + esc(ta).len() as int) =~= esc(ta));
                assert((seq![0xffu8] + esc(tb)).subrange(1, 1 + esc(tb).len() as int) =~= esc(tb));
            } else {
                assert(ea.subrange(1, ea.len() as int) =~= esc(ta));
                assert(eb.subrange(1, eb.len() as int) =~= esc(tb));
            }
        }
    }
}
proof fn lemma_lex_refl(a: Seq<u8>)
    ensures lex_le(a, a)
    decreases a.len()
{
    if a.len() != 0 { lemma_lex_refl(a.subrange(1, a.len() as int)); }
}

// PREFIX-FREE: an encoding is a prefix of another only if the strings are equal -- hence element
// encodings are self-delimiting and tuples compare element by element
pub proof fn lemma_esc_prefix_free(a: Seq<u8>, b: Seq<u8>)
    requires is_prefix(esc(a), esc(b))
    ensures a == b
    decreases a.len() + b.len()
{
    lemma_esc_len(a); lemma_esc_len(b);
    let ea = esc(a); let eb = esc(b);
    assert(forall|i: int| 0 <= i < ea.len() ==> ea[i] == eb.subrange(0, ea.len() as int)[i]);
    if a.len() == 0 {
        assert(ea[0] == eb[0] && ea[1] == eb[1]);
        if b.len() > 0 { if b[0] == 0 { assert(eb[1] == 0xff); } else { assert(eb[0] == b[0]); } }
        assert(a =~= b);
    } else if b.len() == 0 {
        assert(ea[0] == eb[0] && ea[1] == eb[1]);
        if a[0] == 0 { assert(ea[1] == 0xff); } else { assert(ea[0] == a[0]); }
    } else {
        let ta = a.subrange(1, a.len() as int); let tb = b.subrange(1, b.len() as int);
        assert(ea[0] == eb[0]);
        assert(ea[0] == a[0] && eb[0] == b[0]);
        let k: int = if a[0] == 0 { 2 } else { 1 };
        assert(ea.subrange(k, ea.len() as int) =~= esc(ta));
        assert(eb.subrange(k, eb.len() as int) =~= esc(tb));
        assert(is_prefix(esc(ta), esc(tb))) by {
            assert(esc(tb).subrange(0, esc(ta).len() as int) =~= esc(ta)) by {
                assert forall|i: int| 0 <= i < esc(ta).len() implies esc(tb)[i] == esc(ta)[i] by {
                    assert(esc(ta)[i] == ea[i + k]);
                    assert(esc(tb)[i] == eb[i + k]);
                    assert(eb.subrange(0, ea.len() as int)[i + k] == ea[i + k]);
                }
            }
        }
        lemma_esc_prefix_free(ta, tb);
        assert(a =~= seq![a[0]] + ta);
        assert(b =~= seq![b[0]] + tb);
    }
}

// ---------------------------------------------------------------- the encoder
//@ extract tuple_key2/src/lib.rs | fn encode_bytes
//@ pre <<
        true,
//@ >>
//@ post <<
        final(out)@ =~= old(out)@ + esc(bytes@),
//@ >>
//@ rewrite X11 `for byte in bytes {` => `for byte in it: bytes {`
//@ loop 0 <<
        invariant
            0 <= it.index@ <= bytes@.len(),
            out@ =~= old(out)@ + esc_body(bytes@.subrange(0, it.index@)),
//@ >>
//@ before `out.push(*byte);` <<
        proof {
            assert(*byte == bytes@[it.index@]);
            lemma_body_push(bytes@.subrange(0, it.index@), *byte);
            assert(bytes@.subrange(0, it.index@).push(*byte) =~= bytes@.subrange(0, it.index@ + 1));
        }
//@ >>
//@ afterloop 0 <<
    proof {
        assert(bytes@.subrange(0, bytes@.len() as int) =~= bytes@);
        lemma_esc_is_body_plus_term(bytes@);
    }
//@ >>
//@ end



// ---------------------------------------------------------------- the decoder
//@ extract tuple_key2/src/lib.rs | enum Error
//@ end
//@ extract tuple_key2/src/lib.rs | struct TupleKeyParser
//@ end

// what the decoder computes on ANY input: walk the escape grammar from position i
pub open spec fn unesc(b: Seq<u8>, i: int) -> Option<(Seq<u8>, int)>
    decreases b.len() - i
{
    if i < 0 || i >= b.len() { None }
    else if b[i] != 0 { match unesc(b, i + 1) { Some((s, j)) => Some((seq![b[i]] + s, j)), None => None } }
    else if i + 1 >= b.len() { None }
    else if b[i + 1] == 0 { Some((Seq::<u8>::empty(), i + 2)) }
    else if b[i + 1] == 0xff { match unesc(b, i + 2) { Some((s, j)) => Some((seq![0u8] + s, j)), None => None } }
    else { None }
}

// decoding what the encoder wrote gives the string back and stops right behind it, whatever follows
pub proof fn lemma_unesc_esc(pre: Seq<u8>, s: Seq<u8>, post: Seq<u8>)
    ensures unesc(pre + esc(s) + post, pre.len() as int) == Some((s, pre.len() as int + esc(s).len() as int))
    decreases s.len()
{
    let b = pre + esc(s) + post;
    let i = pre.len() as int;
    lemma_esc_len(s);
    if s.len() == 0 {
        assert(b[i] == 0 && b[i + 1] == 0);
        assert(s =~= Seq::<u8>::empty());
    } else {
        let t = s.subrange(1, s.len() as int);
        if s[0] == 0 {
            assert(b[i] == 0 && b[i + 1] == 0xff);
            assert(b =~= (pre + seq![0u8, 0xffu8]) + esc(t) + post);
            lemma_unesc_esc(pre + seq![0u8, 0xffu8], t, post);
            assert(s =~= seq![0u8] + t);
        } else {
            assert(b[i] == s[0]);
            assert(b =~= (pre + seq![s[0]]) + esc(t) + post);
            lemma_unesc_esc(pre + seq![s[0]], t, post);
            assert(s =~= seq![s[0]] + t);
        }
    }
}

pub open spec fn prefix_with(d: Seq<u8>, r: Option<(Seq<u8>, int)>) -> Option<(Seq<u8>, int)> {
    match r { Some((s, j)) => Some((d + s, j)), None => None }
}

impl<'a> TupleKeyParser<'a> {
//@ extract tuple_key2/src/lib.rs | impl TupleKeyParser<'a> :: fn bytes
//@ ret r
//@ pre <<
        old(self).offset <= old(self).bytes@.len(),
//@ >>
//@ post <<
        final(self).bytes@ == old(self).bytes@,
        final(self).offset <= final(self).bytes@.len(),
        match unesc(old(self).bytes@, old(self).offset as int) {
            Some((s, j)) => r is Ok && r->Ok_0@ == s && final(self).offset == j,
            None => r is Err,
        },
//@ >>
//@ loop 0 <<
            invariant
                self.bytes@ == old(self).bytes@,
                self.offset <= self.bytes@.len(),
                unesc(old(self).bytes@, old(self).offset as int) == prefix_with(decoded@, unesc(self.bytes@, self.offset as int)),
            decreases self.bytes@.len() - self.offset,
//@ >>
//@ before `let byte = self.bytes[self.offset];` <<
            let ghost d0 = decoded@;
            let ghost o = self.offset as int;
            proof {
                assert(forall|s: Seq<u8>| d0.push(self.bytes@[o]) + s =~= d0 + (seq![self.bytes@[o]] + s));
                assert(forall|s: Seq<u8>| d0.push(0u8) + s =~= d0 + (seq![0u8] + s));
                assert(d0 + Seq::<u8>::empty() =~= d0);
            }
//@ >>
//@ end
}

//@ min-verified 10
} // verus!
fn main() {}
