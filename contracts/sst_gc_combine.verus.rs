// Unit sst_gc_combine (C05, "every GC policy expressible in the policy language: any/all nesting"): AnyDeterminer::retain
// and AllDeterminer::retain of sst/src/gc.rs, extracted and proved for ANY number of children of ANY determiner type
// (nesting included: a child may itself be an any/all combinator):
//   * every child is asked, exactly once per call, in order, with the very arguments the combinator was asked with --
//     also the children after one that already decided the answer (the children are stateful: VersionsDeterminer counts
//     versions, so a short-circuiting combinator would make them lose count);
//   * any answers "retain" iff some child does, all iff every child does (none: any = false, all = true).
// The children are seen through the ghost log of unit sst_gc (questions asked, answers given).
// Extraction rules: `Vec<Box<dyn Determiner>>` is read as `Vec<D>` for a generic D: Determiner (dynamic dispatch read as
// static: the proof is for every D); X13 `for d in v.iter_mut()` is an index loop; `b |= e` on bools is
// `{ let x = e; b = b || x; }` (Verus has no `|` on bool; the evaluation of e is kept unconditional).
use vstd::prelude::*;
verus! {
global size_of usize == 8;

struct Call { key: Seq<u8>, tombs: Seq<u64>, exists: u64 }

trait Determiner {
    spec fn calls(&self) -> Seq<Call>;
    spec fn answers(&self) -> Seq<bool>;
//@ extract sst/src/gc.rs | trait Determiner :: fn retain
//@ ret r
//@ post <<
        final(self).calls() == old(self).calls().push(Call { key: key@, tombs: tombstones@, exists: exists }),
        final(self).answers() == old(self).answers().push(r),
//@ >>
//@ end
}

// every child was asked exactly this, once more
spec fn all_asked<D: Determiner>(before: Seq<D>, after: Seq<D>, c: Call, upto: int) -> bool {
    &&& after.len() == before.len()
    &&& forall|i: int| 0 <= i < upto ==> #[trigger] after[i].calls() == before[i].calls().push(c) && after[i].answers().len() == before[i].answers().len() + 1
            && after[i].answers().subrange(0, before[i].answers().len() as int) == before[i].answers()
    &&& forall|i: int| upto <= i < before.len() ==> #[trigger] after[i] == before[i]
}
spec fn says<D: Determiner>(d: D) -> bool { d.answers().last() }
spec fn some_says_retain<D: Determiner>(after: Seq<D>, upto: int) -> bool {
    exists|i: int| 0 <= i < upto && says(#[trigger] after[i])
}
spec fn every_says_retain<D: Determiner>(after: Seq<D>, upto: int) -> bool {
    forall|i: int| 0 <= i < upto ==> says(#[trigger] after[i])
}

//@ extract sst/src/gc.rs | struct AnyDeterminer
//@ rewrite X25 `struct AnyDeterminer {` => `struct AnyDeterminer<D: Determiner> {`
//@ rewrite X25 `Vec<Box<dyn Determiner>>` => `Vec<D>`
//@ end
//@ extract sst/src/gc.rs | struct AllDeterminer
//@ rewrite X25 `struct AllDeterminer {` => `struct AllDeterminer<D: Determiner> {`
//@ rewrite X25 `Vec<Box<dyn Determiner>>` => `Vec<D>`
//@ end

impl<D: Determiner> AnyDeterminer<D> {
//@ extract sst/src/gc.rs | impl Determiner for AnyDeterminer :: fn retain
//@ ret r
//@ rewrite X13 `for d in self.any.iter_mut() {` => `for idx in 0..self.any.len() {`
//@ rewrite-re X13 `\bd\.retain\(` => `self.any[idx].retain(`
//@ rewrite-re? X26 `(?m)^(\s*)retain \|= (.+);$` => `\1{ let x = \2; retain = retain || x; }`
//@ rewrite-re? X26 `(?m)^(\s*)retain &= (.+);$` => `\1{ let x = \2; retain = retain && x; }`
//@ post <<
        all_asked(old(self).any@, final(self).any@, Call { key: key@, tombs: tombstones@, exists: exists }, old(self).any@.len() as int),
        r == some_says_retain(final(self).any@, final(self).any@.len() as int),
//@ >>
//@ loop 0 <<
            invariant
                all_asked(old(self).any@, self.any@, Call { key: key@, tombs: tombstones@, exists: exists }, idx as int), /* contract-inv */
                retain == some_says_retain(self.any@, idx as int), /* contract-inv */
//@ >>
//@ startloop 0 <<
            let ghost w0 = self.any@;
//@ >>
//@ endloop 0 <<
            proof {
                let k = idx as int;
                assert forall|i: int| 0 <= i < k implies #[trigger] self.any@[i] == w0[i] by { }
                assert(self.any@[k].answers().subrange(0, old(self).any@[k].answers().len() as int) =~= old(self).any@[k].answers());
                // retain (before) <=> a witness below k; the answer just given is child k's
                if some_says_retain(w0, k) {
                    let i = choose|i: int| 0 <= i < k && says(#[trigger] w0[i]);
                    assert(says(self.any@[i]));
                }
                if says(self.any@[k]) { assert(some_says_retain(self.any@, k + 1)); }
                if some_says_retain(self.any@, k + 1) && !says(self.any@[k]) {
                    let i = choose|i: int| 0 <= i < k + 1 && says(#[trigger] self.any@[i]);
                    assert(says(w0[i]));
                }
            }
//@ >>
//@ end
}

impl<D: Determiner> AllDeterminer<D> {
//@ extract sst/src/gc.rs | impl Determiner for AllDeterminer :: fn retain
//@ ret r
//@ rewrite X13 `for d in self.all.iter_mut() {` => `for idx in 0..self.all.len() {`
//@ rewrite-re X13 `\bd\.retain\(` => `self.all[idx].retain(`
//@ rewrite-re? X26 `(?m)^(\s*)retain \|= (.+);$` => `\1{ let x = \2; retain = retain || x; }`
//@ rewrite-re? X26 `(?m)^(\s*)retain &= (.+);$` => `\1{ let x = \2; retain = retain && x; }`
//@ post <<
        all_asked(old(self).all@, final(self).all@, Call { key: key@, tombs: tombstones@, exists: exists }, old(self).all@.len() as int),
        r == every_says_retain(final(self).all@, final(self).all@.len() as int),
//@ >>
//@ loop 0 <<
            invariant
                all_asked(old(self).all@, self.all@, Call { key: key@, tombs: tombstones@, exists: exists }, idx as int), /* contract-inv */
                retain == every_says_retain(self.all@, idx as int), /* contract-inv */
//@ >>
//@ startloop 0 <<
            let ghost w0 = self.all@;
//@ >>
//@ endloop 0 <<
            proof {
                let k = idx as int;
                assert forall|i: int| 0 <= i < k implies #[trigger] self.all@[i] == w0[i] by { }
                assert(self.all@[k].answers().subrange(0, old(self).all@[k].answers().len() as int) =~= old(self).all@[k].answers());
                if every_says_retain(w0, k) && says(self.all@[k]) {
                    assert forall|i: int| 0 <= i < k + 1 implies says(#[trigger] self.all@[i]) by { if i < k { assert(says(w0[i])); } }
                }
                if every_says_retain(self.all@, k + 1) {
                    assert forall|i: int| 0 <= i < k implies says(#[trigger] w0[i]) by { assert(says(self.all@[i])); }
                }
            }
//@ >>
//@ end
}

//@ min-verified 2
} // verus!
fn main() {}
