// Unit cur_concat (C11): ConcatenatingCursor<C> over ANY number of contract-obeying children of ANY
// size (empty children included).  "a concatenating cursor over key-disjoint ordered cursors behaves as
// their concatenation ... for every sequence of seek, next and prev calls, including direction reversals".
//   ents() = concatenation of the children's entries, given the call-site precondition that the children are
//   ordered (every entry of child i sorts before every entry of child j for i < j);
//   rest states: the child at `position` is ON an entry | position == 0 and that child is before-first |
//   position == last and that child is after-last.
use vstd::prelude::*;
verus! {
global size_of usize == 8;

//@ include cursor_spec.inc.rs
//@ include flat.inc.rs

spec fn cents<C: Cursor>(cs: Seq<C>) -> Seq<Seq<Ent>> { Seq::new(cs.len(), |i: int| cs[i].ents()) }
// the precondition of the combinator: key-disjoint, ordered children
spec fn ordered(bs: Seq<Seq<Ent>>) -> bool {
    &&& forall|i: int| 0 <= i < bs.len() ==> sorted(#[trigger] bs[i])
    &&& forall|i1: int, j1: int, i2: int, j2: int| 0 <= i1 < i2 < bs.len() && 0 <= j1 < bs[i1].len() && 0 <= j2 < bs[i2].len()
            ==> kt_lt(#[trigger] bs[i1][j1].key, bs[i1][j1].ts, #[trigger] bs[i2][j2].key, bs[i2][j2].ts)
}
proof fn lemma_flat_sorted(bs: Seq<Seq<Ent>>)
    requires ordered(bs)
    ensures sorted(flat(bs, bs.len() as int))
{
    let n = bs.len() as int; let f = flat(bs, n);
    assert forall|x: int, y: int| 0 <= x < y < f.len() implies kt_lt(f[x].key, f[x].ts, f[y].key, f[y].ts) by {
        let a = lemma_flat_locate(bs, n, x);
        let b = lemma_flat_locate(bs, n, y);
        if a.0 == b.0 { assert(sorted(bs[a.0])); }
        else if a.0 > b.0 { lemma_off_mono(bs, b.0 + 1, a.0); lemma_flat_index(bs, n, b.0, b.1); assert(flat(bs, b.0 + 1) == flat(bs, b.0) + bs[b.0]); }
    }
}

// `a >= b` on KeyRef (PartialOrd through Ord::cmp; that KeyRef::cmp is the entry order is PROVED in unit sst_kernels)
fn keyref_ge(a: &KeyRef, b: &KeyRef) -> (r: bool)
    ensures r == !kt_lt(a.key@, a.timestamp, b.key@, b.timestamp)
{
    proof { lemma_lex_order_total(); }
    if bytes_lt(a.key, b.key) { false } else if bytes_eq(a.key, b.key) { a.timestamp <= b.timestamp } else { true }
}

spec fn below(bs: Seq<Seq<Ent>>, i: int, k: Seq<u8>) -> bool { forall|j: int| 0 <= j < bs[i].len() ==> lex_lt(#[trigger] bs[i][j].key, k) }

// in an ordered family, a child whose LAST key is below k is entirely below k, and so is every earlier child
proof fn lemma_below_prefix(bs: Seq<Seq<Ent>>, k: Seq<u8>, p: int)
    requires ordered(bs), 0 <= p < bs.len(), bs[p].len() > 0, lex_lt(bs[p][bs[p].len() - 1].key, k)
    ensures forall|i: int| 0 <= i <= p ==> below(bs, i, k)
{
    let last = bs[p][bs[p].len() - 1];
    lemma_lex_order_total();
    assert forall|i: int| 0 <= i <= p implies below(bs, i, k) by {
        assert forall|j: int| 0 <= j < bs[i].len() implies lex_lt(#[trigger] bs[i][j].key, k) by {
            if i == p { lemma_sorted_keys(bs[p], j, bs[p].len() - 1); }
            else { assert(kt_lt(bs[i][j].key, bs[i][j].ts, last.key, last.ts)); }
            lemma_lex_trans(bs[i][j].key, last.key, k);
            if bs[i][j].key == k { lemma_lex_antisym(k, last.key); }
        }
    }
}
proof fn lemma_concat_seek_lands(bs: Seq<Seq<Ent>>, k: Seq<u8>, bi: int, bj: int)
    requires
        ordered(bs), 0 <= bi < bs.len(), 0 <= bj <= bs[bi].len(),
        is_lower_bound(bs[bi], k, bj),
        forall|i: int| 0 <= i < bi ==> below(bs, i, k),
        bj == bs[bi].len() ==> bi == bs.len() - 1,
    ensures is_lower_bound(flat(bs, bs.len() as int), k, off(bs, bi) + bj)
{
    let n = bs.len() as int; let f = flat(bs, n); let p = off(bs, bi) + bj;
    lemma_lex_order_total();
    lemma_off_mono(bs, 0, bi); lemma_off_mono(bs, bi, n);
    assert(flat(bs, bi + 1) == flat(bs, bi) + bs[bi]);
    lemma_off_mono(bs, bi + 1, n);
    assert forall|g: int| 0 <= g < p implies lex_lt(#[trigger] f[g].key, k) by {
        let a = lemma_flat_locate(bs, n, g);
        if a.0 > bi { lemma_off_mono(bs, bi + 1, a.0); }
        if a.0 < bi { assert(below(bs, a.0, k)); }
    }
    assert forall|g: int| p <= g < f.len() implies lex_le(k, #[trigger] f[g].key) by {
        let a = lemma_flat_locate(bs, n, g);
        if a.0 < bi { lemma_off_mono(bs, a.0 + 1, bi); assert(flat(bs, a.0 + 1) == flat(bs, a.0) + bs[a.0]); }
        if a.0 > bi {
            // bj < len here (otherwise bi is the last child): the entry at (bi, bj) is >= k and sorts before (a.0, a.1)
            assert(kt_lt(bs[bi][bj].key, bs[bi][bj].ts, bs[a.0][a.1].key, bs[a.0][a.1].ts));
            lemma_lex_trans(k, bs[bi][bj].key, bs[a.0][a.1].key);
        }
    }
}

//@ extract sst/src/concat_cursor.rs | struct ConcatenatingCursor
//@ end

impl<C: Cursor> ConcatenatingCursor<C> {
    spec fn bs(&self) -> Seq<Seq<Ent>> { cents(self.cursors@) }
    spec fn n(&self) -> int { self.cursors@.len() as int }
    spec fn cur(&self) -> C { self.cursors@[self.position as int] }
    spec fn base(&self) -> bool {
        &&& self.n() >= 1 && self.position < self.n() && self.n() <= 0x7fff_ffff_ffff_ffff   // (at most isize::MAX children: `left + right` in seek)
        &&& forall|i: int| 0 <= i < self.n() ==> (#[trigger] self.cursors@[i]).wf_base()
        &&& ordered(self.bs())
    }
    // same children (as sequences), possibly moved
    spec fn same_tables(&self, o: &Self) -> bool {
        self.n() == o.n() && forall|i: int| 0 <= i < self.n() ==> (#[trigger] self.cursors@[i]).ents() == o.cursors@[i].ents()
    }

//@ extract sst/src/concat_cursor.rs | impl ConcatenatingCursor<C> :: fn new
//@ ret r
//@ pre <<
        1 <= cursors@.len() <= 0x7fff_ffff_ffff_ffff,
        forall|i: int| 0 <= i < cursors@.len() ==> (#[trigger] cursors@[i]).wf_base(),
        ordered(cents(cursors@)),
//@ >>
//@ post <<
        r is Ok ==> r->Ok_0.wf() && r->Ok_0.pos() == -1 && r->Ok_0.bs() == cents(cursors@),
//@ >>
//@ bodystart <<
        let ghost c0 = cursors@;
//@ >>
//@ after `cursors[0].seek_to_first()?;` <<
        proof {
            assert(cents(cursors@) =~= cents(c0)) by {
                assert forall|i: int| 0 <= i < cursors@.len() implies #[trigger] cursors@[i].ents() == c0[i].ents() by { }
            }
        }
//@ >>
//@ end

//@ extract sst/src/concat_cursor.rs | impl ConcatenatingCursor<C> :: fn reposition
//@ ret r
//@ pre <<
        old(self).base(), idx < old(self).n(),
//@ >>
//@ post <<
        r is Ok ==> final(self).base() && final(self).same_tables(old(self)) && final(self).position == idx
            && (forall|i: int| 0 <= i < old(self).n() && i != old(self).position ==> final(self).cursors@[i] == old(self).cursors@[i])
            && (idx == old(self).position ==> final(self).cursors@ == old(self).cursors@),
//@ >>
//@ bodystart <<
        proof { lemma_child_op_all(self); }
//@ >>
//@ before `Ok(())` <<
        proof { assert(self.bs() =~= old(self).bs()); }
//@ >>
//@ end
}

// the effect of any contract-obeying call on the child at `position`: same tables, still well-formed
spec fn child_op<C: Cursor>(pre: &ConcatenatingCursor<C>, post: &ConcatenatingCursor<C>) -> bool {
    &&& post.position == pre.position && post.cursors@.len() == pre.cursors@.len()
    &&& forall|i: int| 0 <= i < pre.n() && i != pre.position ==> #[trigger] post.cursors@[i] == pre.cursors@[i]
    &&& post.cursors@[pre.position as int].ents() == pre.cursors@[pre.position as int].ents()
    &&& post.cursors@[pre.position as int].wf_base()
}
proof fn lemma_child_op<C: Cursor>(pre: &ConcatenatingCursor<C>, post: &ConcatenatingCursor<C>)
    requires pre.base(), child_op(pre, post)
    ensures post.base(), post.bs() == pre.bs(), post.same_tables(pre)
{
    assert(post.bs() =~= pre.bs());
    assert forall|i: int| 0 <= i < post.n() implies (#[trigger] post.cursors@[i]).wf_base() by {
        if i != pre.position { assert(post.cursors@[i] == pre.cursors@[i]); }
    }
}
proof fn lemma_child_op_all<C: Cursor>(pre: &ConcatenatingCursor<C>)
    requires pre.base()
    ensures forall|post: ConcatenatingCursor<C>| #![trigger post.cursors@] child_op(pre, &post) ==> post.base() && post.bs() == pre.bs()
{
    assert forall|post: ConcatenatingCursor<C>| #![trigger post.cursors@] child_op(pre, &post) implies post.base() && post.bs() == pre.bs() by {
        lemma_child_op(pre, &post);
    }
}

proof fn lemma_same_tables<C: Cursor>(a: &ConcatenatingCursor<C>, b: &ConcatenatingCursor<C>)
    requires a.same_tables(b)
    ensures a.bs() == b.bs()
{
    assert(a.bs() =~= b.bs());
}

impl<C: Cursor> Cursor for ConcatenatingCursor<C> {
    spec fn ents(&self) -> Seq<Ent> { flat(self.bs(), self.n()) }
    spec fn pos(&self) -> int {
        let c = self.cur(); let p = self.position as int;
        if 0 <= c.pos() < c.ents().len() { off(self.bs(), p) + c.pos() }
        else if p == 0 && c.pos() == -1 { -1 }
        else { off(self.bs(), self.n()) }
    }
    spec fn wf_base(&self) -> bool { self.base() }
    spec fn wf(&self) -> bool {
        let c = self.cur(); let p = self.position as int;
        &&& self.base() && c.wf()
        &&& ((0 <= c.pos() < c.ents().len()) || (p == 0 && c.pos() == -1) || (p == self.n() - 1 && c.pos() == c.ents().len()))
    }
    spec fn key_spec(&self) -> Option<(Seq<u8>, u64)> { if self.position < self.n() { self.cur().key_spec() } else { None } }
    spec fn val_spec(&self) -> Option<Seq<u8>> { if self.position < self.n() { self.cur().val_spec() } else { None } }

    proof fn lemma_cursor_laws(&self) {
        if self.base() {
            lemma_flat_sorted(self.bs());
            lemma_off_mono(self.bs(), 0, self.n());
            self.cur().lemma_cursor_laws();
            if self.wf() {
                let c = self.cur();
                if 0 <= c.pos() < c.ents().len() { lemma_flat_index(self.bs(), self.n(), self.position as int, c.pos()); }
            }
        }
    }

//@ extract sst/src/concat_cursor.rs | impl Cursor for ConcatenatingCursor<C> :: fn seek_to_first
//@ after `self.reposition(0)?;` <<
        proof { lemma_same_tables(self, old(self)); lemma_off_mono(self.bs(), 0, self.n()); lemma_child_op_all(self); }
//@ >>
//@ end

//@ extract sst/src/concat_cursor.rs | impl Cursor for ConcatenatingCursor<C> :: fn seek_to_last
//@ after `self.reposition(self.cursors.len() - 1)?;` <<
        proof { lemma_same_tables(self, old(self)); lemma_off_mono(self.bs(), 0, self.n()); lemma_child_op_all(self); }
//@ >>
//@ end




//@ extract sst/src/concat_cursor.rs | impl Cursor for ConcatenatingCursor<C> :: fn seek
//@ rewrite-re X9 `Some\(last\) if last >= kref =>` => `Some(last) if keyref_ge(&last, &kref) =>`
//@ bodystart <<
        let ghost bs0 = self.bs();
        proof { lemma_off_mono(self.bs(), 0, self.n()); lemma_lex_order_total(); }
//@ >>
// binary search for the first child that reaches the key: children before `left` lie entirely below it,
// and `right`, once lowered, holds an entry at or above it
//@ loop 0 <<
            invariant
                self.base(), self.same_tables(old(self)), self.bs() == bs0, bs0 == old(self).bs(),
                kref.key@ == key@, kref.timestamp == u64::MAX,
                0 <= left <= right <= self.n() - 1,
                forall|i: int| 0 <= i < left ==> below(bs0, i, key@),
                right < self.n() - 1 ==> !below(bs0, right as int, key@),
            decreases right - left,
//@ >>
//@ loop 1 <<
                invariant_except_break
                    left <= probe <= mid,
                invariant
                    self.base(), self.same_tables(old(self)), self.bs() == bs0, bs0 == old(self).bs(),
                    left <= mid < right <= self.n() - 1, left <= probe <= mid,
                    forall|i: int| probe < i <= mid ==> (#[trigger] bs0[i]).len() == 0,
                ensures
                    self.position == probe, self.cur().wf(), self.cur().pos() == self.cur().ents().len() - 1,
                    self.cur().ents().len() == 0 ==> probe == left,
                decreases probe - left,
//@ >>
//@ startloop 1 <<
                let ghost pre1 = *self;
//@ >>
//@ after `self.reposition(probe)?;` <<
                proof { lemma_same_tables(self, &pre1); lemma_child_op_all(self); }
                let ghost m1 = *self;
//@ >>
//@ after `self.cursors[self.position].seek_to_last()?;` <<
                proof { lemma_child_op(&m1, self); self.cur().lemma_cursor_laws(); }
                let ghost m2 = *self;
//@ >>
//@ after `self.cursors[self.position].prev()?;` <<
                proof { lemma_child_op(&m2, self); self.cur().lemma_cursor_laws(); }
//@ >>
//@ afterloop 1 <<
            proof {
                self.cur().lemma_cursor_laws(); lemma_lex_order_total(); lemma_lex_refl(key@);
                let c = self.cur(); let pb = probe as int;
                assert(c.ents() == bs0[pb]);
                if c.ents().len() > 0 {
                    let last = c.ents()[c.ents().len() - 1];
                    if lex_lt(last.key, key@) {
                        lemma_below_prefix(bs0, key@, pb);
                    } else {
                        assert(lex_le(key@, bs0[pb][c.ents().len() - 1].key));
                    }
                }
                // the children in (probe, mid] are empty: below trivially
                assert forall|i: int| pb < i <= mid implies below(bs0, i, key@) by { assert(bs0[i].len() == 0); }
                if c.ents().len() == 0 { assert(below(bs0, pb, key@)); }
            }
//@ >>
//@ after `self.reposition(left)?;` <<
        proof { lemma_same_tables(self, old(self)); lemma_child_op_all(self); }
        let ghost m3 = *self;
//@ >>
//@ after `self.cursors[self.position].seek(key)?;` <<
        proof {
            lemma_child_op(&m3, self); self.cur().lemma_cursor_laws();
            let c = self.cur();
            assert(c.ents() == bs0[left as int]);
            if c.pos() == c.ents().len() && left < self.n() - 1 {
                // `left` holds an entry at or above the key, so its lower bound cannot be past its end
                let j = choose|j: int| 0 <= j < bs0[left as int].len() && !lex_lt(#[trigger] bs0[left as int][j].key, key@);
                assert(lex_lt(bs0[left as int][j].key, key@));
            }
        }
//@ >>
//@ loop 2 <<
            invariant
                self.base(), self.same_tables(old(self)), self.bs() == bs0, self.position == left, self.cur().wf(),
                self.cur().pos() == self.cur().ents().len() ==> self.position + 1 == self.n(),
                0 <= self.cur().pos() <= self.cur().ents().len(),
                is_lower_bound(bs0[left as int], key@, self.cur().pos()), self.cur().ents() == bs0[left as int],
                forall|i: int| 0 <= i < left ==> below(bs0, i, key@),
            decreases self.n() - self.position,
//@ >>
//@ startloop 2 <<
            proof { self.cur().lemma_cursor_laws(); assert(false); }
//@ >>
//@ afterloop 2 <<
        proof {
            self.cur().lemma_cursor_laws();
            lemma_concat_seek_lands(bs0, key@, left as int, self.cur().pos());
            if 0 <= self.cur().pos() < self.cur().ents().len() { lemma_flat_index(bs0, self.n(), left as int, self.cur().pos()); }
            lemma_off_mono(bs0, 0, left as int); lemma_off_mono(bs0, left as int, self.n());
            assert(flat(bs0, left as int + 1) == flat(bs0, left as int) + bs0[left as int]);
        }
//@ >>
//@ end

//@ extract sst/src/concat_cursor.rs | impl Cursor for ConcatenatingCursor<C> :: fn prev
//@ bodystart <<
        let ghost total = off(self.bs(), self.n());
        let ghost tgt = if self.pos() > -1 { self.pos() - 1 } else { -1 };
        let ghost bs0 = self.bs();
        proof { self.lemma_cursor_laws(); lemma_off_mono(self.bs(), 0, self.n()); }
//@ >>
//@ loop 0 <<
            invariant_except_break
                self.position < old(self).position ==> self.cur().pos() == self.cur().ents().len() && off(bs0, self.position as int + 1) - 1 == tgt,
                self.position == old(self).position ==> self.cursors@ == old(self).cursors@,
            invariant
                self.base(), self.same_tables(old(self)), self.bs() == bs0, bs0 == old(self).bs(), old(self).wf(),
                self.position <= old(self).position,
                self.cur().wf(), total == off(bs0, self.n()), tgt == (if old(self).pos() > -1 { old(self).pos() - 1 } else { -1 }),
                -1 <= old(self).pos() <= total,
            ensures
                self.wf(), self.same_tables(old(self)), self.bs() == bs0, self.pos() == tgt,
            decreases self.position,
//@ >>
//@ startloop 0 <<
            let ghost p0 = self.position as int;
            let ghost pre = *self;
            proof {
                lemma_child_op_all(self);
                self.cur().lemma_cursor_laws();
                lemma_off_mono(bs0, 0, p0); lemma_off_mono(bs0, p0, self.n());
                assert(flat(bs0, p0 + 1) == flat(bs0, p0) + bs0[p0]); lemma_off_mono(bs0, p0 + 1, self.n());
                if p0 > 0 { assert(flat(bs0, p0) == flat(bs0, p0 - 1) + bs0[p0 - 1]); }
                if 0 <= self.cur().pos() < self.cur().ents().len() { lemma_flat_index(bs0, self.n(), p0, self.cur().pos()); }
            }
//@ >>
//@ after `self.cursors[self.position].prev()?;` <<
            proof { lemma_child_op(&pre, self); self.cur().lemma_cursor_laws(); if 0 <= self.cur().pos() < self.cur().ents().len() { lemma_flat_index(bs0, self.n(), p0, self.cur().pos()); } }
//@ >>
//@ after `self.reposition(self.position - 1)?;` <<
                proof { lemma_same_tables(self, &pre); lemma_child_op_all(self); }
                let ghost mid = *self;
//@ >>
//@ after `self.cursors[self.position].seek_to_last()?;` <<
                proof { lemma_child_op(&mid, self); }
//@ >>
//@ end

//@ extract sst/src/concat_cursor.rs | impl Cursor for ConcatenatingCursor<C> :: fn next
//@ bodystart <<
        let ghost total = off(self.bs(), self.n());
        let ghost tgt = if self.pos() < total { self.pos() + 1 } else { total };
        let ghost bs0 = self.bs();
        proof { self.lemma_cursor_laws(); lemma_off_mono(self.bs(), 0, self.n()); }
//@ >>
//@ loop 0 <<
            invariant_except_break
                (self.cur().pos() == -1 && self.position > 0) ==> off(bs0, self.position as int) == tgt,
                !(self.cur().pos() == -1 && self.position > 0) ==> self.position == old(self).position && self.cursors@ == old(self).cursors@,
            invariant
                self.base(), self.same_tables(old(self)), self.bs() == bs0, bs0 == old(self).bs(), old(self).wf(),
                self.cur().wf(), total == off(bs0, self.n()), tgt == (if old(self).pos() < total { old(self).pos() + 1 } else { total }),
                -1 <= old(self).pos() <= total,
            ensures
                self.wf(), self.same_tables(old(self)), self.bs() == bs0, self.pos() == tgt,
            decreases self.n() - self.position,
//@ >>
//@ startloop 0 <<
            let ghost p0 = self.position as int;
            let ghost pre = *self;
            proof {
                lemma_child_op_all(self);
                self.cur().lemma_cursor_laws();
                lemma_off_mono(bs0, 0, p0); lemma_off_mono(bs0, p0, self.n());
                if p0 + 1 <= self.n() { assert(flat(bs0, p0 + 1) == flat(bs0, p0) + bs0[p0]); lemma_off_mono(bs0, p0 + 1, self.n()); }
                if 0 <= self.cur().pos() < self.cur().ents().len() { lemma_flat_index(bs0, self.n(), p0, self.cur().pos()); }
            }
//@ >>
//@ after `self.cursors[self.position].next()?;` <<
            proof { lemma_child_op(&pre, self); self.cur().lemma_cursor_laws(); if 0 <= self.cur().pos() < self.cur().ents().len() { lemma_flat_index(bs0, self.n(), p0, self.cur().pos()); } }
//@ >>
//@ after `self.reposition(self.position + 1)?;` <<
                proof { lemma_same_tables(self, &pre); lemma_child_op_all(self); }
                let ghost mid = *self;
//@ >>
//@ after `self.cursors[self.position].seek_to_first()?;` <<
                proof { lemma_child_op(&mid, self); }
//@ >>
//@ end

//@ extract sst/src/concat_cursor.rs | impl Cursor for ConcatenatingCursor<C> :: fn key
//@ bodystart <<
        proof { self.lemma_cursor_laws(); }
//@ >>
//@ end
//@ extract sst/src/concat_cursor.rs | impl Cursor for ConcatenatingCursor<C> :: fn value
//@ bodystart <<
        proof { self.lemma_cursor_laws(); }
//@ >>
//@ end
}

//@ min-verified 30
} // verus!
fn main() {}
