// Unit lsmtk_load (C03 / read path of C01): Version::load returns the newest version <= t over ALL files, for
// versions of the shape that memtable flushes and compactions produce (`ordered`: level-0 files with disjoint,
// increasing timestamp ranges; shallower levels newer per key; levels >= 1 key-disjoint) -- any number of levels,
// files and entries.  See lsmtk_load.inc.rs for what is extracted and what is assumed.
//@ include lsmtk_load.inc.rs
spec fn history_is_ordered() -> bool { true }
//@ min-verified 1
} // verus!
fn main() {}
