// Unit lsmtk_load_any (C03 / C01 quantify over histories WITH external SST ingests): the same extraction and the
// same contract as unit lsmtk_load, but for versions of ANY shape -- LsmTree::ingest accepts files whose timestamp
// ranges interleave with those already in the tree.  The first-hit search of Version::load is then NOT the newest
// version: this unit's postcondition fails on the unchanged tree (known finding C03-load-first-hit, see
// known_findings.json; the failing history is replayed on the real store on every run).
//@ include lsmtk_load.inc.rs
spec fn history_is_ordered() -> bool { false }
//@ min-verified 1
} // verus!
fn main() {}
