// Unit log_writer (C12, writer half): what LogBuilder::_append puts on the byte stream, for EVERY batch
// length, EVERY start offset and EVERY header size, as the on-disk format defines it:
//     [zero padding to the next 2^20 boundary, at most HEADER_MAX_SIZE bytes, only when the writer is not
//      already at a boundary]
//     then EITHER one WHOLE frame  hdr(WHOLE, len, crc(batch)) ++ batch  that ends at or before the boundary
//     that follows its start,
//     OR  hdr(FIRST, f, crc(batch[..f])) ++ batch[..f] ++ zero padding (<= HEADER_MAX_SIZE) ending EXACTLY at
//     the boundary ++ hdr(SECOND, len-f, crc(batch[f..])) ++ batch[f..].
// A reader following the format (size byte 0 = skip to the boundary; WHOLE; FIRST + boundary + SECOND)
// therefore returns exactly the batch, once.  The byte counter equals the bytes emitted, no assert! can
// fire, no slice is out of bounds, and the recursion (_append -> append_split -> _append) terminates.
// ASSUMED: the sink appends what it is given; write_header emits hdr(h) with 3 <= |hdr(h)| <= 19 and
// framed_len(h) == |hdr(h)| (both discharged on the compiled derive code by Kani unit sst_log);
// CRC32C is an uninterpreted function of the bytes.
use vstd::prelude::*;
verus! {
global size_of usize == 8;

#[verifier::external_body]
struct SError { _p: u8 }
//@ stubs sst/src/lib.rs -> SError
#[verifier::external_body]
struct Sink { _p: u8 }
impl Sink { uninterp spec fn bytes(&self) -> Seq<u8>; }
#[verifier::external_body]
struct Opaque { _p: u8 }

//@ extract sst/src/log.rs | const BLOCK_BITS
//@ end
//@ extract sst/src/log.rs | const BLOCK_SIZE
//@ post <<
        BLOCK_SIZE == 1048576,
//@ >>
//@ bodystart <<
    proof { assert(1u64 << 20 == 1048576) by (bit_vector); }
//@ >>
//@ end
//@ extract sst/src/log.rs | const HEADER_MAX_SIZE
//@ post <<
        HEADER_MAX_SIZE == 19,
//@ >>
//@ end
//@ extract sst/src/log.rs | const HEADER_WHOLE
//@ post <<
        HEADER_WHOLE == 1,
//@ >>
//@ end
//@ extract sst/src/log.rs | const HEADER_FIRST
//@ post <<
        HEADER_FIRST == 2,
//@ >>
//@ end
//@ extract sst/src/log.rs | const HEADER_SECOND
//@ post <<
        HEADER_SECOND == 3,
//@ >>
//@ end
//@ extract sst/src/lib.rs | const TABLE_FULL_SIZE
//@ post <<
        TABLE_FULL_SIZE == 1073741824 - 67108864,
//@ >>
//@ bodystart <<
    proof { assert(1usize << 30 == 1073741824) by (bit_vector); assert(1usize << 26 == 67108864) by (bit_vector); }
//@ >>
//@ end
//@ extract sst/src/log.rs | struct Header
//@ end
//@ extract sst/src/log.rs | struct LogOptions
//@ end

//@ extract sst/src/lib.rs | fn table_full
//@ external-body
//@ end
//@ extract sst/src/lib.rs | fn check_table_size
//@ ret r
//@ post <<
        r is Ok <==> size < 1006632960,
//@ >>
//@ end

//@ include log_format.inc.rs

proof fn lemma_shift(offset: u64)
    ensures (offset >> 20) as int == offset as int / 1048576, (offset >> 20) < 0x1000_0000_0000,
{
    assert((offset >> 20) == offset / 1048576) by (bit_vector);
    assert((offset >> 20) < 0x1000_0000_0000) by (bit_vector);
}
proof fn lemma_shl(k: u64)
    requires k < 0x1000_0000_0000
    ensures (k << 20) as int == k as int * 1048576
{
    assert(k < 0x1000_0000_0000 ==> (k << 20) == k * 1048576) by (bit_vector);
}
//@ extract sst/src/log.rs | fn block_offset
//@ ret r
//@ post <<
        r as int == offset as int / 1048576, r < 0x1000_0000_0000,
//@ >>
//@ bodystart <<
    proof { lemma_shift(offset); }
//@ >>
//@ end
//@ extract sst/src/log.rs | fn next_boundary
//@ ret r
//@ pre <<
        offset <= 0x7fff_ffff_ffff_ffff,
//@ >>
//@ post <<
        r as int == nb_of(offset as int), (r as int) > (offset as int), (r as int) - (offset as int) <= 1048576, (r as int) % B == 0,
//@ >>
//@ bodystart <<
    proof {
        lemma_shift(offset);
        lemma_shl(((offset >> 20) + 1) as u64);
        let q = offset as int / 1048576;
        assert(offset as int == q * 1048576 + offset as int % 1048576) by { vstd::arithmetic::div_mod::lemma_fundamental_div_mod(offset as int, 1048576); }
        assert(((q + 1) * 1048576) % 1048576 == 0) by { vstd::arithmetic::div_mod::lemma_mod_multiples_basic(q + 1, 1048576); }
        assert((q + 1) * 1048576 == q * 1048576 + 1048576) by (nonlinear_arith);
    }
//@ >>
//@ end

#[verifier::external_body]
fn crc32c_of(buffer: &[u8]) -> (r: u32)
    ensures r == crc_of(buffer@),
{ unimplemented!() }
// `stack_pack(header_sz).pack(&header).pack_sz()`: the framed size of a header (ASSUMED == |hdr(h)|; Kani unit sst_log)
#[verifier::external_body]
fn framed_len(header: &Header) -> (r: usize)
    ensures r == hdr(header.size, header.discriminant, header.crc32c).len(), 3 <= r <= 19,
{ unimplemented!() }

// padding in front of a correctly laid out batch that starts at a boundary is a correctly laid out batch
proof fn lemma_pad_compose(o: int, buf: Seq<u8>, z: int, a: Seq<u8>)
    requires 0 < z <= 19, o >= 0, o % B != 0, (o + z) % B == 0, appended_ok(o + z, buf, a)
    ensures appended_ok(o, buf, zeros(z) + a)
{
    assert(zeros(0) =~= Seq::<u8>::empty());
    if exists|p: int| #[trigger] whole_layout(o + z, buf, a, p) {
        let p = choose|p: int| #[trigger] whole_layout(o + z, buf, a, p);
        assert(p == 0);
        let h = hdr(buf.len() as u64, 1, crc_of(buf));
        assert(zeros(z) + (zeros(0) + h + buf) =~= zeros(z) + h + buf);
        assert(whole_layout(o, buf, zeros(z) + a, z));
    } else {
        let (p, f, q) = choose|p: int, f: int, q: int| #[trigger] split_layout(o + z, buf, a, p, f, q);
        assert(p == 0);
        let first = buf.subrange(0, f); let second = buf.subrange(f, buf.len() as int);
        let h1 = hdr(f as u64, 2, crc_of(first)); let h2 = hdr((buf.len() - f) as u64, 3, crc_of(second));
        assert(zeros(z) + (zeros(0) + h1 + first + zeros(q) + h2 + second) =~= zeros(z) + h1 + first + zeros(q) + h2 + second);
        assert(split_layout(o, buf, zeros(z) + a, z, f, q));
    }
}
// offsets stay far below u64::MAX: below 2^40, or one block above it when already at a boundary
spec fn bw_bound(bw: int) -> bool { 0 <= bw <= 0x100_0000_0000 + (if bw % B == 0 { B } else { 0 }) }

struct LogBuilder { options: LogOptions, output: Sink, bytes_written: u64, setsum: Opaque }

impl LogBuilder {
    spec fn out(&self) -> Seq<u8> { self.output.bytes() }

    // the sink: appends what it is given (the byte counter update is the repository's own statement)
//@ extract sst/src/log.rs | impl LogBuilder<W> :: fn write
//@ ret r
//@ rewrite-re? X7 `io_result_with_context\(self\.output\.write_all\((\w+)\), "[^"]*"\)` => `sink_write_all(&mut self.output, \1)`
//@ pre <<
        old(self).bytes_written + buffer@.len() <= 0xffff_ffff_ffff_ffff,
//@ >>
//@ post <<
        r is Ok ==> final(self).out() == old(self).out() + buffer@ && final(self).bytes_written == old(self).bytes_written + buffer@.len()
            && final(self).options == old(self).options,
//@ >>
//@ end

    // ASSUMED (derive-generated packing; Kani unit sst_log: write_header_total, header_size_in_range)
//@ extract sst/src/log.rs | impl LogBuilder<W> :: fn write_header
//@ rewrite-re? X7 `io_result_with_context\(self\.output\.write_all\((\w+)\), "[^"]*"\)` => `sink_write_all(&mut self.output, \1)`
//@ ret r
//@ pre <<
        old(self).bytes_written + 19 <= 0xffff_ffff_ffff_ffff,
//@ >>
//@ post <<
        r is Ok ==> final(self).out() == old(self).out() + hdr(header.size, header.discriminant, header.crc32c)
            && final(self).bytes_written == old(self).bytes_written + hdr(header.size, header.discriminant, header.crc32c).len()
            && final(self).options == old(self).options,
//@ >>
//@ external-body
//@ end
    spec fn grew_by(&self, o: &Self, a: Seq<u8>) -> bool {
        self.out() == o.out() + a && self.bytes_written == o.bytes_written + a.len() && self.options == o.options
    }

//@ extract sst/src/log.rs | impl LogBuilder<W> :: fn true_up
//@ rewrite-re? X7 `io_result_with_context\(self\.output\.write_all\((\w+)\), "[^"]*"\)` => `sink_write_all(&mut self.output, \1)`
//@ ret r
//@ pre <<
        old(self).bytes_written <= nb, nb - old(self).bytes_written <= 19,
//@ >>
//@ post <<
        r is Ok ==> final(self).grew_by(old(self), zeros(nb - old(self).bytes_written)),
//@ >>
//@ before `if !buf.is_empty() {` <<
        proof {
            assert(buf@ =~= zeros(roundup as int));
            assert(self.out() + zeros(0) =~= self.out());
        }
//@ >>
//@ end

//@ extract sst/src/log.rs | impl LogBuilder<W> :: fn append_split
//@ rewrite-re? X7 `io_result_with_context\(self\.output\.write_all\((\w+)\), "[^"]*"\)` => `sink_write_all(&mut self.output, \1)`
//@ ret r
//@ rewrite-re X7 `crc32c::crc32c\(` => `crc32c_of(`
//@ pre <<
        bw_bound(old(self).bytes_written as int), buffer@.len() <= 0x8000_0000,
        old(self).bytes_written + hdr(buffer@.len() as u64, 1, crc_of(buffer@)).len() + buffer@.len() > nb_of(old(self).bytes_written as int),
//@ >>
//@ post <<
        r is Ok ==> exists|a: Seq<u8>| #[trigger] final(self).grew_by(old(self), a) && appended_ok(old(self).bytes_written as int, buffer@, a),
//@ >>
//@ dec <<
        (if old(self).bytes_written as int % B == 0 { 0int } else { 1int }), 0int,
//@ >>
//@ bodystart <<
        let ghost o = self.bytes_written as int;
        let ghost buf = buffer@;
        proof { axiom_hdr_len(buffer@.len() as u64, 1, crc_of(buffer@)); }
//@ >>
//@ after `self.true_up(nb)?;` <<
            let ghost mid = *self;
            proof {
                assert(o % B != 0) by { if o % B == 0 { assert(nb_of(o) == o + B) by (nonlinear_arith) requires o % B == 0, o >= 0; } }
                assert forall|fin: LogBuilder, a: Seq<u8>| #[trigger] fin.grew_by(&mid, a) && appended_ok(nb as int, buf, a)
                    implies fin.grew_by(old(self), zeros(roundup as int) + a) && appended_ok(o, buf, zeros(roundup as int) + a) by {
                    assert((old(self).out() + zeros(roundup as int)) + a =~= old(self).out() + (zeros(roundup as int) + a));
                    lemma_pad_compose(o, buf, roundup as int, a);
                }
            }
//@ >>
//@ before `self.write_header(first_header)?;` <<
        let ghost f = first@.len() as int;
        let ghost h1 = hdr(first_header.size, first_header.discriminant, first_header.crc32c);
        let ghost h2 = hdr(second_header.size, second_header.discriminant, second_header.crc32c);
        proof {
            assert(first@ == buf.subrange(0, f));
            assert(second@ == buf.subrange(f, buf.len() as int));
            axiom_hdr_len(first_header.size, first_header.discriminant, first_header.crc32c);
            axiom_hdr_len(second_header.size, second_header.discriminant, second_header.crc32c);
        }
//@ >>
//@ after `self.write(second)?;` <<
        proof {
            // witnesses computed from what was written, not from how the code chose them
            let q = nb as int - (o + h1.len() as int + first@.len() as int);
            let a = zeros(0) + h1 + first@ + zeros(q) + h2 + second@;
            assert(zeros(0) =~= Seq::<u8>::empty());
            assert(self.out() =~= old(self).out() + a);
            assert(split_layout(o, buf, a, 0, f, q));
            assert(self.grew_by(old(self), a));
        }
//@ >>
//@ end

//@ extract sst/src/log.rs | impl LogBuilder<W> :: fn _append
//@ rewrite-re? X7 `io_result_with_context\(self\.output\.write_all\((\w+)\), "[^"]*"\)` => `sink_write_all(&mut self.output, \1)`
//@ ret r
//@ rewrite-re X7 `crc32c::crc32c\(` => `crc32c_of(`
//@ rewrite-re X7 `let header_sz: v64 = header\.pack_sz\(\)\.into\(\);\s*let header_pa = stack_pack\(header_sz\);\s*let header_pa = header_pa\.pack\(&header\);` => `let header_pa_len: usize = framed_len(&header);`
//@ rewrite-re X7 `header_pa\.pack_sz\(\)` => `header_pa_len`
//@ pre <<
        bw_bound(old(self).bytes_written as int), buffer@.len() <= 0x8000_0000,
//@ >>
//@ post <<
        r is Ok ==> exists|a: Seq<u8>| #[trigger] final(self).grew_by(old(self), a) && appended_ok(old(self).bytes_written as int, buffer@, a),
        r is Ok ==> buffer@.len() < 1073741824 - 67108864,
//@ >>
//@ dec <<
        (if old(self).bytes_written as int % B == 0 { 0int } else { 1int }), 1int,
//@ >>
//@ before `if new_offset > nb {` <<
        let ghost o = self.bytes_written as int;
        let ghost h = hdr(header.size, header.discriminant, header.crc32c);
//@ >>
//@ after `self.write(buffer)?;` <<
            proof {
                let a = zeros(0) + h + buffer@;
                assert(zeros(0) =~= Seq::<u8>::empty());
                assert(self.out() =~= old(self).out() + a);
                assert(whole_layout(o, buffer@, a, 0));
                assert(self.grew_by(old(self), a));
            }
//@ >>
//@ end
}

#[verifier::external_body]
fn sink_write_all(s: &mut Sink, buffer: &[u8]) -> (r: Result<(), SError>)
    ensures r is Ok ==> final(s).bytes() == old(s).bytes() + buffer@,
{ unimplemented!() }

//@ contract-lemma append_split
//@ contract-lemma _append
//@ min-verified 20
} // verus!
fn main() {}
