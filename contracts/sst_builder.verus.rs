// Unit sst_builder (C10, SST level): SstBuilder::{enforce_sort_order, assign_last_key, start_new_block, flush_block,
// get_block, put, del} -- how entries are cut into data blocks and how the index block gets one dividing key per block.
//   Proved on the extracted code, for any number of entries and any target block size: every accepted put/del appends
//   exactly that entry to the stream of entries (flushed blocks ++ current block), out-of-order input is rejected, and
//   after every flush the flushed blocks and the dividers in the index block satisfy table_pred (sst_table.inc.rs) --
//   the precondition of the SstCursor proofs (unit sst_cursor): blocks are consecutive non-empty pieces of one sorted
//   stream and keys of block i <= divider_i <= keys of block i+1.
// ASSUMED (contracts of callees proved elsewhere): BlockBuilder::{new, put, del, approximate_size, seal} as proved in
// unit sst_blockb; divide_keys as proved in unit sst_kernels (lhs <= divider < rhs in the entry order); the packed block
// reaches the file (write_block stands for compress + crc + stack_pack + stream).  SstBuilder::seal's file I/O (index,
// filter and final block, fsync, reopen) is not covered.
use vstd::prelude::*;
use std::cmp::Ordering;
verus! {
global size_of usize == 8;

//@ include cursor_spec.inc.rs
//@ include flat.inc.rs
//@ include sst_table.inc.rs

pub assume_specification [core::cmp::Ordering::then] (a: Ordering, b: Ordering) -> (r: Ordering)
    ensures r == (if a == Ordering::Equal { b } else { a });
pub assume_specification [core::cmp::Ordering::reverse] (a: Ordering) -> (r: Ordering)
    ensures r == (match a { Ordering::Less => Ordering::Greater, Ordering::Equal => Ordering::Equal, Ordering::Greater => Ordering::Less });
pub assume_specification [<Ordering as PartialEq>::eq] (a: &Ordering, b: &Ordering) -> (r: bool)
    ensures r == (*a == *b);
pub assume_specification<T: Clone> [<[T]>::to_vec] (s: &[T]) -> (r: Vec<T>)
    ensures r@ == s@;

fn bytes_cmp3(a: &[u8], b: &[u8]) -> (r: Ordering)
    ensures r == Ordering::Less <==> lex_lt(a@, b@), r == Ordering::Equal <==> a@ == b@, r == Ordering::Greater <==> lex_lt(b@, a@),
{
    proof { lemma_lex_order_total(); }
    if bytes_lt(a, b) { Ordering::Less } else if bytes_eq(a, b) { Ordering::Equal } else { Ordering::Greater }
}

impl<'a> KeyRef<'a> {
//@ extract sst/src/lib.rs | impl KeyRef<'a> :: fn new
//@ ret r
//@ post <<
        r.key@ == key@, r.timestamp == timestamp,
//@ >>
//@ end
// X10: `impl Ord for KeyRef` :: cmp re-homed as an inherent method
//@ extract sst/src/lib.rs | impl Ord for KeyRef<'_> :: fn cmp
//@ ret r
//@ rewrite-re X9 `self\.key\s*\.cmp\(rhs\.key\)` => `bytes_cmp3(self.key, rhs.key)`
//@ post <<
        r == Ordering::Less <==> kt_lt(self.key@, self.timestamp, rhs.key@, rhs.timestamp),
//@ >>
//@ bodystart <<
        proof { lemma_lex_order_total(); }
//@ >>
//@ end
}

//@ extract sst/src/lib.rs | const MAX_KEY_LEN
//@ post <<
        MAX_KEY_LEN == 16384,
//@ >>
//@ bodystart <<
    proof { assert(1usize << 14 == 16384) by (bit_vector); }
//@ >>
//@ end
//@ extract sst/src/lib.rs | const MAX_VALUE_LEN
//@ post <<
        MAX_VALUE_LEN == 32768,
//@ >>
//@ bodystart <<
    proof { assert(1usize << 15 == 32768) by (bit_vector); }
//@ >>
//@ end
//@ extract sst/src/lib.rs | const TABLE_FULL_SIZE
//@ post <<
        TABLE_FULL_SIZE == 1006632960,
//@ >>
//@ bodystart <<
    proof {
        assert((1usize << 30) == 1073741824) by (bit_vector);
        assert((1usize << 26) == 67108864) by (bit_vector);
    }
//@ >>
//@ end
//@ extract sst/src/lib.rs | fn check_key_len
//@ ret r
//@ post <<
        r is Ok <==> key@.len() <= 16384,
//@ >>
//@ end
//@ extract sst/src/lib.rs | fn check_value_len
//@ ret r
//@ post <<
        r is Ok <==> value@.len() <= 32768,
//@ >>
//@ end
//@ extract sst/src/lib.rs | fn check_table_size
//@ ret r
//@ post <<
        r is Ok <==> size < 1006632960,
//@ >>
//@ end

// ---------------------------------------------------------------- callees with contracts proved elsewhere
#[verifier::external_body]
struct BlockBuilderOptions { _p: u8 }
#[verifier::external_body]
fn clone_block_options(o: &BlockBuilderOptions) -> (r: BlockBuilderOptions) { unimplemented!() }
#[verifier::external_body]
struct Block { _p: u8 }
impl Block { uninterp spec fn ents(&self) -> Seq<Ent>; }
// BlockBuilder: contracts proved in unit sst_blockb
#[verifier::external_body]
struct BlockBuilder { _p: u8 }
impl BlockBuilder {
    uninterp spec fn ents(&self) -> Seq<Ent>;
    uninterp spec fn bwf(&self) -> bool;
    #[verifier::external_body]
    fn new(options: BlockBuilderOptions) -> (r: BlockBuilder)
        ensures r.bwf(), r.ents() == Seq::<Ent>::empty(),
    { unimplemented!() }
    #[verifier::external_body]
    fn approximate_size(&self) -> (r: usize)
        requires self.bwf(),
        ensures r <= 0x4000_0000,
    { unimplemented!() }
    #[verifier::external_body]
    fn put(&mut self, key: &[u8], timestamp: u64, value: &[u8]) -> (r: Result<(), SError>)
        requires old(self).bwf(),
        ensures r is Ok ==> final(self).bwf() && final(self).ents() == old(self).ents().push(Ent { key: key@, ts: timestamp, val: Some(value@) }),
            r is Err ==> final(self).bwf() && final(self).ents() == old(self).ents(),
    { unimplemented!() }
    #[verifier::external_body]
    fn del(&mut self, key: &[u8], timestamp: u64) -> (r: Result<(), SError>)
        requires old(self).bwf(),
        ensures r is Ok ==> final(self).bwf() && final(self).ents() == old(self).ents().push(Ent { key: key@, ts: timestamp, val: None }),
            r is Err ==> final(self).bwf() && final(self).ents() == old(self).ents(),
    { unimplemented!() }
    #[verifier::external_body]
    fn seal(self) -> (r: Result<Block, SError>)
        requires self.bwf(),
        ensures r is Ok ==> r->Ok_0.ents() == self.ents(),
    { unimplemented!() }
}
// divide_keys: contract proved in unit sst_kernels (there written with lex_cmp; the same order)
#[verifier::external_body]
fn divide_keys(key_lhs: &[u8], timestamp_lhs: u64, key_rhs: &[u8], timestamp_rhs: u64) -> (r: (Vec<u8>, u64))
    requires kt_lt(key_lhs@, timestamp_lhs, key_rhs@, timestamp_rhs),
    ensures !kt_lt(r.0@, r.1, key_lhs@, timestamp_lhs), kt_lt(r.0@, r.1, key_rhs@, timestamp_rhs), r.0@.len() <= key_lhs@.len(),
{ unimplemented!() }

// the file: the data blocks that have reached it
#[verifier::external_body]
struct Sink { _p: u8 }
impl Sink {
    uninterp spec fn blocks(&self) -> Seq<Seq<Ent>>;
    // `BufWriter::with_capacity(write_buffer_size, output)` over the file just created: nothing written yet
    #[verifier::external_body]
    fn fresh() -> (r: Sink) ensures r.blocks() == Seq::<Seq<Ent>>::empty() { unimplemented!() }
}
#[verifier::external_body]
struct SetsumAcc { _p: u8 }
// sst::Setsum: the entries it has been given, in order (its digest is a function of their multiset: unit setsum, C14)
impl SetsumAcc {
    uninterp spec fn acc(&self) -> Seq<Ent>;
    #[verifier::external_body]
    fn put(&mut self, key: &[u8], timestamp: u64, value: &[u8])
        ensures final(self).acc() == old(self).acc().push(Ent { key: key@, ts: timestamp, val: Some(value@) }),
    { unimplemented!() }
    #[verifier::external_body]
    fn del(&mut self, key: &[u8], timestamp: u64)
        ensures final(self).acc() == old(self).acc().push(Ent { key: key@, ts: timestamp, val: None }),
    { unimplemented!() }
    // `Setsum::default()`
    #[verifier::external_body]
    fn default() -> (r: SetsumAcc)
        ensures r.acc() == Seq::<Ent>::empty(),
    { unimplemented!() }
    #[verifier::external_body]
    fn digest(&self) -> (r: [u8; 32])
        ensures r@ == digest_of(self.acc()),
    { unimplemented!() }
}
// the 32-byte digest of the setsum of a sequence of entries (unit setsum: a function of their multiset)
uninterp spec fn digest_of(s: Seq<Ent>) -> Seq<u8>;
#[verifier::external_body]
struct OtherOptions { _p: u8 }
struct SstOptions { block: BlockBuilderOptions, target_block_size: usize, rest: OtherOptions }
//@ extract sst/src/lib.rs | struct BlockMetadata
//@ end
impl BlockMetadata {
//@ extract sst/src/lib.rs | impl BlockMetadata :: fn sanity_check
//@ ret r
//@ post <<
        r is Ok <==> self.start < self.limit,
//@ >>
//@ end
}
// `block.as_bytes()` .. `self.bytes_written += io_result_with_context(pa.stream(&mut self.output), "sst write")?`:
// compress, checksum, pack and stream the sealed block; at least one byte is written
#[verifier::external_body]
fn write_block(output: &mut Sink, block: &Block, options: &SstOptions) -> (r: Result<(usize, u32), SError>)
    ensures r is Ok ==> final(output).blocks() == old(output).blocks().push(block.ents()) && 1 <= r->Ok_0.0 <= 0x4100_0000,
{ unimplemented!() }
// `stack_pack(block_metadata).to_vec()`
#[verifier::external_body]
fn pack_metadata(md: &BlockMetadata) -> (r: Vec<u8>)
    ensures r@.len() <= 27
{ unimplemented!() }
// `Filter::defer_insert(key)`: SipHash of the key (uninterpreted)
uninterp spec fn hash_of(key: Seq<u8>) -> u64;
#[verifier::external_body]
fn filter_hash(key: &[u8]) -> (r: u64)
    ensures r == hash_of(key@)
{ unimplemented!() }

// only the fields these methods touch (the repository's struct also holds the path)
struct SstBuilder {
    options: SstOptions, last_key: Vec<u8>, last_timestamp: u64, block_builder: Option<BlockBuilder>, block_start_offset: usize,
    bytes_written: usize, index_block: BlockBuilder, filter: Vec<u64>, setsum: SetsumAcc, smallest_timestamp: u64, biggest_timestamp: u64,
    output: Sink,
}

// smallest / biggest timestamp of a sequence of entries (u64::MAX / 0 while it is empty, as SstBuilder::new sets them)
spec fn ts_ok(s: Seq<Ent>, sm: u64, bg: u64) -> bool {
    &&& forall|i: int| 0 <= i < s.len() ==> sm <= (#[trigger] s[i]).ts <= bg
    &&& s.len() == 0 ==> sm == 0xffff_ffff_ffff_ffff && bg == 0
    &&& s.len() > 0 ==> (exists|i: int| 0 <= i < s.len() && (#[trigger] s[i]).ts == sm) && (exists|i: int| 0 <= i < s.len() && (#[trigger] s[i]).ts == bg)
}
proof fn lemma_ts_push(s: Seq<Ent>, e: Ent, sm: u64, bg: u64)
    requires ts_ok(s, sm, bg)
    ensures ts_ok(s.push(e), if sm > e.ts { e.ts } else { sm }, if bg < e.ts { e.ts } else { bg })
{
    let t = s.push(e);
    let sm2 = if sm > e.ts { e.ts } else { sm };
    let bg2 = if bg < e.ts { e.ts } else { bg };
    assert(t[s.len() as int] == e);
    assert forall|i: int| 0 <= i < t.len() implies sm2 <= (#[trigger] t[i]).ts <= bg2 by {
        if i < s.len() { assert(t[i] == s[i]); }
    }
    if s.len() > 0 {
        let a = choose|i: int| 0 <= i < s.len() && (#[trigger] s[i]).ts == sm;
        let b = choose|i: int| 0 <= i < s.len() && (#[trigger] s[i]).ts == bg;
        assert(t[a] == s[a] && t[b] == s[b]);
        if sm > e.ts { assert(t[s.len() as int].ts == sm2); } else { assert(t[a].ts == sm2); }
        if bg < e.ts { assert(t[s.len() as int].ts == bg2); } else { assert(t[b].ts == bg2); }
    } else {
        assert(t[0].ts == sm2);
        assert(t[0].ts == bg2);
    }
}

spec fn keys_of(s: Seq<Ent>) -> Seq<Seq<u8>> { Seq::new(s.len(), |i: int| s[i].key) }

impl SstBuilder {
    spec fn done(&self) -> Seq<Seq<Ent>> { self.output.blocks() }
    spec fn cur(&self) -> Seq<Ent> { if self.block_builder is Some { self.block_builder->Some_0.ents() } else { Seq::<Ent>::empty() } }
    spec fn divs(&self) -> Seq<Seq<u8>> { keys_of(self.index_block.ents()) }
    // every entry accepted so far, in order
    spec fn stream(&self) -> Seq<Ent> { flat(self.done(), self.done().len() as int) + self.cur() }
    // the flushed part: one divider per flushed block, each block a non-empty sorted piece, dividers between the blocks
    spec fn flushed_ok(&self) -> bool {
        let bs = self.done(); let ds = self.divs();
        &&& bs.len() == ds.len() && self.index_block.bwf()
        &&& forall|i: int| 0 <= i < bs.len() ==> (#[trigger] bs[i]).len() >= 1
        &&& forall|i: int, j: int| 0 <= i < bs.len() && 0 <= j < bs[i].len() ==> lex_le(#[trigger] bs[i][j].key, ds[i])
        &&& forall|i: int, j: int| 0 <= i && i + 1 < bs.len() && 0 <= j < bs[i + 1].len() ==> lex_le(ds[i], #[trigger] bs[i + 1][j].key)
    }
    // bookkeeping of the last accepted entry
    spec fn last_ok(&self) -> bool {
        let s = self.stream();
        if s.len() == 0 { self.last_key@.len() == 0 && self.last_timestamp == 0xffff_ffff_ffff_ffff }
        else { self.last_key@ == s.last().key && self.last_timestamp == s.last().ts }
    }
    spec fn sizes_ok(&self) -> bool { self.bytes_written <= 0x8100_0000 }
    // the hash of every accepted key has been queued for the bloom filter (seal inserts every queued hash; unit sst_sbbf:
    // an inserted hash is always found) -- the premise "the filter never hides a key of the table" of Sst::load
    spec fn filter_ok(&self) -> bool { forall|i: int| 0 <= i < self.stream().len() ==> self.filter@.contains(hash_of(#[trigger] self.stream()[i].key)) }
    // what seal writes into the final block describes exactly the accepted entries: the setsum has been given each of
    // them once, smallest/biggest timestamp are the minimum and maximum over them (u64::MAX / 0 while there is none)
    spec fn meta_ok(&self) -> bool { self.setsum.acc() == self.stream() && ts_ok(self.stream(), self.smallest_timestamp, self.biggest_timestamp) }
    // the invariant between calls
    spec fn swf(&self) -> bool {
        &&& self.flushed_ok() && self.last_ok() && self.sizes_ok() && sorted(self.stream()) && self.filter_ok() && self.meta_ok()
        &&& self.block_builder is Some ==> self.block_builder->Some_0.bwf() && self.cur().len() >= 1
        &&& self.block_builder is None ==> self.done().len() == 0
        &&& self.done().len() > 0 ==> forall|j: int| 0 <= j < self.cur().len() ==> lex_le(self.divs().last(), #[trigger] self.cur()[j].key)
    }

//@ extract sst/src/lib.rs | impl SstBuilder :: fn enforce_sort_order
//@ ret r
//@ post <<
        r is Ok <==> kt_lt(old(self).last_key@, old(self).last_timestamp, key@, timestamp),
        *final(self) == *old(self),
//@ >>
//@ end

//@ extract sst/src/lib.rs | impl SstBuilder :: fn assign_last_key
//@ post <<
        final(self).last_key@ == key@, final(self).last_timestamp == timestamp,
        final(self).block_builder == old(self).block_builder, final(self).index_block == old(self).index_block, final(self).output == old(self).output,
        final(self).bytes_written == old(self).bytes_written, final(self).options == old(self).options, final(self).filter == old(self).filter,
        final(self).setsum == old(self).setsum,
        final(self).smallest_timestamp == (if old(self).smallest_timestamp > timestamp { timestamp } else { old(self).smallest_timestamp }),
        final(self).biggest_timestamp == (if old(self).biggest_timestamp < timestamp { timestamp } else { old(self).biggest_timestamp }),
//@ >>
//@ end
}

//@ extract setsum/src/lib.rs | const SETSUM_BYTES
//@ end
//@ extract sst/src/lib.rs | const BLOCK_METADATA_MAX_SZ
//@ end
//@ extract sst/src/lib.rs | const FINAL_BLOCK_MAX_SZ
//@ rewrite X4 `setsum::SETSUM_BYTES` => `SETSUM_BYTES`
//@ end

// the flushed blocks and their dividers satisfy the cursor's table predicate once the stream they were cut from is sorted
proof fn lemma_table(bs: Seq<Seq<Ent>>, ds: Seq<Seq<u8>>)
    requires bs.len() == ds.len(), bs.len() >= 1, sorted(flat(bs, bs.len() as int)),
        forall|i: int| 0 <= i < bs.len() ==> (#[trigger] bs[i]).len() >= 1,
        forall|i: int, j: int| 0 <= i < bs.len() && 0 <= j < bs[i].len() ==> lex_le(#[trigger] bs[i][j].key, ds[i]),
        forall|i: int, j: int| 0 <= i && i + 1 < bs.len() && 0 <= j < bs[i + 1].len() ==> lex_le(ds[i], #[trigger] bs[i + 1][j].key),
    ensures table_pred(bs, ds)
{
    let n = bs.len() as int; let f = flat(bs, n);
    assert forall|i: int| 0 <= i < bs.len() implies sorted(#[trigger] bs[i]) by {
        assert forall|x: int, y: int| 0 <= x < y < bs[i].len() implies kt_lt(bs[i][x].key, bs[i][x].ts, bs[i][y].key, bs[i][y].ts) by {
            lemma_flat_index(bs, n, i, x); lemma_flat_index(bs, n, i, y);
            assert(kt_lt(f[off(bs, i) + x].key, f[off(bs, i) + x].ts, f[off(bs, i) + y].key, f[off(bs, i) + y].ts));
        }
    }
}
proof fn lemma_flat_push(bs: Seq<Seq<Ent>>, c: Seq<Ent>)
    ensures flat(bs.push(c), bs.len() as int + 1) == flat(bs, bs.len() as int) + c
    decreases bs.len()
{
    let b2 = bs.push(c);
    assert(b2[bs.len() as int] == c);
    lemma_flat_prefix(b2, bs, bs.len() as int);
}
proof fn lemma_flat_prefix(a: Seq<Seq<Ent>>, b: Seq<Seq<Ent>>, n: int)
    requires 0 <= n <= a.len(), n <= b.len(), forall|i: int| 0 <= i < n ==> a[i] == b[i]
    ensures flat(a, n) == flat(b, n)
    decreases n
{
    if n > 0 { lemma_flat_prefix(a, b, n - 1); }
}

impl SstBuilder {
//@ extract sst/src/lib.rs | impl Builder for SstBuilder :: fn approximate_size
//@ ret r
//@ pre <<
        self.sizes_ok(), self.index_block.bwf(), self.block_builder is Some ==> self.block_builder->Some_0.bwf(),
//@ >>
//@ post <<
        r >= self.bytes_written, r <= self.bytes_written + 0x8000_1000,
//@ >>
//@ end

//@ extract sst/src/lib.rs | impl SstBuilder :: fn start_new_block
//@ ret r
//@ rewrite X7 `BlockBuilder::new(self.options.block.clone())` => `BlockBuilder::new(clone_block_options(&self.options.block))`
//@ post <<
        r is Ok ==> old(self).block_builder is None && final(self).block_builder is Some && final(self).block_builder->Some_0.bwf()
            && final(self).block_builder->Some_0.ents() == Seq::<Ent>::empty(),
        final(self).output == old(self).output, final(self).index_block == old(self).index_block, final(self).last_key == old(self).last_key,
        final(self).last_timestamp == old(self).last_timestamp, final(self).bytes_written == old(self).bytes_written, final(self).options == old(self).options,
        final(self).filter == old(self).filter,
        final(self).setsum == old(self).setsum && final(self).smallest_timestamp == old(self).smallest_timestamp && final(self).biggest_timestamp == old(self).biggest_timestamp,
        r is Err ==> final(self).block_builder == old(self).block_builder,
//@ >>
//@ end

    // seal the current block, stream it, and record a dividing key between the last accepted entry and the entry about
    // to be put
//@ extract sst/src/lib.rs | impl SstBuilder :: fn flush_block
//@ ret r
//@ rewrite-re X7 `(?s)let bytes = block\.as_bytes\(\);.*?self\.bytes_written \+= io_result_with_context\(pa\.stream\(&mut self\.output\), "sst write"\)\?;` => `let (written, crc32c) = write_block(&mut self.output, &block, &self.options)?; self.bytes_written += written;`
//@ rewrite X7 `let value = stack_pack(block_metadata).to_vec();` => `let value = pack_metadata(&block_metadata);`
//@ pre <<
        old(self).flushed_ok(), old(self).last_ok(), sorted(old(self).stream()), old(self).bytes_written <= 0x4000_0000,
        old(self).block_builder is Some ==> old(self).block_builder->Some_0.bwf() && old(self).cur().len() >= 1,
        old(self).done().len() > 0 ==> forall|j: int| 0 <= j < old(self).cur().len() ==> lex_le(old(self).divs().last(), #[trigger] old(self).cur()[j].key),
        old(self).block_builder is Some ==> kt_lt(old(self).last_key@, old(self).last_timestamp, key@, timestamp),
//@ >>
//@ post <<
        r is Ok ==> old(self).block_builder is Some && final(self).block_builder is None
            && final(self).done() == old(self).done().push(old(self).cur())
            && final(self).flushed_ok() && final(self).stream() == old(self).stream()
            && final(self).last_key == old(self).last_key && final(self).last_timestamp == old(self).last_timestamp
            && lex_le(final(self).divs().last(), key@)
            && final(self).bytes_written <= 0x8100_0000 && final(self).options == old(self).options && final(self).filter == old(self).filter
            && final(self).setsum == old(self).setsum && final(self).smallest_timestamp == old(self).smallest_timestamp && final(self).biggest_timestamp == old(self).biggest_timestamp,
//@ >>
//@ bodystart <<
        let ghost o = *self;
//@ >>
//@ before `self.index_block` <<
        proof {
            let bs0 = o.done(); let c = o.cur(); let s = o.stream();
            assert(self.done() == bs0.push(c));
            lemma_flat_push(bs0, c);
            assert(self.stream() =~= s);
            assert(o.last_key@ == c.last().key && o.last_timestamp == c.last().ts) by { assert(s.last() == c.last()); }
            // the divider: not below the last entry of the block, below the next entry
            lemma_lex_order_total();
            let d = dividing_key@;
            assert(lex_le(c.last().key, d));
            assert(lex_le(d, key@));
            // every key of the block is at most the last key of the block
            assert forall|j: int| 0 <= j < c.len() implies lex_le(#[trigger] c[j].key, d) by {
                let base = flat(bs0, bs0.len() as int).len() as int;
                assert(s[base + j] == c[j] && s[base + c.len() - 1] == c.last());
                lemma_sorted_keys(s, base + j, base + c.len() - 1);
                lemma_lex_trans(c[j].key, c.last().key, d);
            }
        }
//@ >>
//@ end
}

proof fn lemma_sorted_push(s: Seq<Ent>, e: Ent)
    requires sorted(s), s.len() > 0 ==> kt_lt(s.last().key, s.last().ts, e.key, e.ts)
    ensures sorted(s.push(e))
{
    let t = s.push(e);
    assert forall|i: int, j: int| 0 <= i < j < t.len() implies kt_lt(t[i].key, t[i].ts, t[j].key, t[j].ts) by {
        if j < s.len() { assert(kt_lt(s[i].key, s[i].ts, s[j].key, s[j].ts)); }
        else if i < s.len() - 1 {
            assert(kt_lt(s[i].key, s[i].ts, s.last().key, s.last().ts));
            lemma_kt_trans(s[i].key, s[i].ts, s.last().key, s.last().ts, e.key, e.ts);
        }
    }
}
proof fn lemma_kt_trans(k1: Seq<u8>, t1: u64, k2: Seq<u8>, t2: u64, k3: Seq<u8>, t3: u64)
    requires kt_lt(k1, t1, k2, t2), kt_lt(k2, t2, k3, t3)
    ensures kt_lt(k1, t1, k3, t3)
{
    if lex_lt(k1, k2) {
        if lex_lt(k2, k3) { lemma_lex_trans(k1, k2, k3); if k1 == k3 { lemma_lex_antisym(k1, k2); } }
    } else {
        if lex_lt(k2, k3) { }
    }
}

impl SstBuilder {
    // make sure there is a current block with room; X15: the `&mut BlockBuilder` it returns is
    // `self.block_builder.as_mut().unwrap()` literally, which the callers use directly
//@ extract sst/src/lib.rs | impl SstBuilder :: fn get_block
//@ ret r
//@ rewrite X15 `-> Result<&mut BlockBuilder, SError>` => `-> Result<(), SError>`
//@ rewrite X15 `Ok(self.block_builder.as_mut().unwrap())` => `Ok(())`
//@ pre <<
        old(self).swf(), old(self).bytes_written <= 0x4000_0000,
        kt_lt(old(self).last_key@, old(self).last_timestamp, key@, timestamp),
//@ >>
//@ post <<
        r is Ok ==> final(self).block_builder is Some && final(self).block_builder->Some_0.bwf(),
        r is Ok ==> final(self).flushed_ok(),
        r is Ok ==> final(self).stream() == old(self).stream(),
        r is Ok ==> final(self).sizes_ok() && final(self).filter == old(self).filter,
        r is Ok ==> final(self).setsum == old(self).setsum && final(self).smallest_timestamp == old(self).smallest_timestamp && final(self).biggest_timestamp == old(self).biggest_timestamp,
        r is Ok ==> final(self).last_key == old(self).last_key && final(self).last_timestamp == old(self).last_timestamp,
        r is Ok && final(self).done().len() > 0 ==> lex_le(final(self).divs().last(), key@),
        r is Ok && final(self).done().len() > 0 ==> forall|j: int| 0 <= j < final(self).cur().len() ==> lex_le(final(self).divs().last(), #[trigger] final(self).cur()[j].key),
//@ >>
//@ bodystart <<
        let ghost o = *self;
        proof {
            // the last divider is not above the last accepted key, which is not above the new key
            lemma_lex_order_total();
            let s = o.stream();
            if o.done().len() > 0 && o.cur().len() > 0 {
                assert(s.last() == o.cur().last());
                lemma_lex_refl(key@);
                assert(lex_le(o.cur().last().key, key@));
                lemma_lex_trans(o.divs().last(), o.cur().last().key, key@);
            }
            assert(flat(o.done(), o.done().len() as int) + Seq::<Ent>::empty() =~= flat(o.done(), o.done().len() as int));
        }
//@ >>
//@ end

//@ extract sst/src/lib.rs | impl Builder for SstBuilder :: fn put
//@ ret r
//@ rewrite-re? X9 `self\.last_key != key\b` => `!bytes_eq(self.last_key.as_slice(), key)`
//@ rewrite-re? X9 `self\.last_key == key\b` => `bytes_eq(self.last_key.as_slice(), key)`
//@ rewrite-re? X9 `self\.last_key\.as_slice\(\) != key\b` => `!bytes_eq(self.last_key.as_slice(), key)`
//@ rewrite-re X15 `let block = self\.get_block\(key, timestamp\)\?;\s*block\.put\(key, timestamp, value\)\?;` => `self.get_block(key, timestamp)?; self.block_builder.as_mut().unwrap().put(key, timestamp, value)?;`
//@ rewrite-re? X7 `Filter::defer_insert\(key\)` => `filter_hash(key)`
//@ pre <<
        old(self).swf(),
//@ >>
//@ post <<
        r is Ok ==> final(self).swf() && final(self).stream() == old(self).stream().push(Ent { key: key@, ts: timestamp, val: Some(value@) }),
        old(self).stream().len() > 0 && !kt_lt(old(self).last_key@, old(self).last_timestamp, key@, timestamp) ==> r is Err,
        key@.len() > 16384 || value@.len() > 32768 ==> r is Err,
//@ >>
//@ bodystart <<
        let ghost o = *self;
//@ >>
//@ after? `self.filter.push(filter_hash(key));` <<
        proof {
            let st = self.stream();
            assert forall|i: int| 0 <= i < st.len() implies self.filter@.contains(hash_of(#[trigger] st[i].key)) by {
                if i < o.stream().len() {
                    let h = hash_of(o.stream()[i].key);
                    assert(o.filter@.contains(h));
                    let w = choose|w: int| 0 <= w < o.filter@.len() && o.filter@[w] == h;
                    assert(self.filter@[w] == h);
                } else {
                    assert(self.filter@[self.filter@.len() - 1] == hash_of(key@));
                    assert(st[i].key == key@);
                }
            }
            assert(self.filter_ok());
        }
//@ >>
//@ after `self.get_block(key, timestamp)?; self.block_builder.as_mut().unwrap().put(key, timestamp, value)?;` <<
        proof {
            let e = Ent { key: key@, ts: timestamp, val: Some(value@) };
            assert(self.stream() =~= o.stream().push(e));
            lemma_sorted_push(o.stream(), e);
            lemma_ts_push(o.stream(), e, o.smallest_timestamp, o.biggest_timestamp);
        }
//@ >>
//@ end

//@ extract sst/src/lib.rs | impl Builder for SstBuilder :: fn del
//@ ret r
//@ rewrite-re? X9 `self\.last_key != key\b` => `!bytes_eq(self.last_key.as_slice(), key)`
//@ rewrite-re? X9 `self\.last_key == key\b` => `bytes_eq(self.last_key.as_slice(), key)`
//@ rewrite-re? X9 `self\.last_key\.as_slice\(\) != key\b` => `!bytes_eq(self.last_key.as_slice(), key)`
//@ rewrite-re X15 `let block = self\.get_block\(key, timestamp\)\?;\s*block\.del\(key, timestamp\)\?;` => `self.get_block(key, timestamp)?; self.block_builder.as_mut().unwrap().del(key, timestamp)?;`
//@ rewrite-re? X7 `Filter::defer_insert\(key\)` => `filter_hash(key)`
//@ pre <<
        old(self).swf(),
//@ >>
//@ post <<
        r is Ok ==> final(self).swf() && final(self).stream() == old(self).stream().push(Ent { key: key@, ts: timestamp, val: None }),
        old(self).stream().len() > 0 && !kt_lt(old(self).last_key@, old(self).last_timestamp, key@, timestamp) ==> r is Err,
//@ >>
//@ bodystart <<
        let ghost o = *self;
//@ >>
//@ after? `self.filter.push(filter_hash(key));` <<
        proof {
            let st = self.stream();
            assert forall|i: int| 0 <= i < st.len() implies self.filter@.contains(hash_of(#[trigger] st[i].key)) by {
                if i < o.stream().len() {
                    let h = hash_of(o.stream()[i].key);
                    assert(o.filter@.contains(h));
                    let w = choose|w: int| 0 <= w < o.filter@.len() && o.filter@[w] == h;
                    assert(self.filter@[w] == h);
                } else {
                    assert(self.filter@[self.filter@.len() - 1] == hash_of(key@));
                    assert(st[i].key == key@);
                }
            }
            assert(self.filter_ok());
        }
//@ >>
//@ after `self.get_block(key, timestamp)?; self.block_builder.as_mut().unwrap().del(key, timestamp)?;` <<
        proof {
            let e = Ent { key: key@, ts: timestamp, val: None };
            assert(self.stream() =~= o.stream().push(e));
            lemma_sorted_push(o.stream(), e);
            lemma_ts_push(o.stream(), e, o.smallest_timestamp, o.biggest_timestamp);
        }
//@ >>
//@ end
}


// the state SstBuilder::new starts from (the struct literal at the end of the function; opening the file is dropped):
// the builder invariant holds and nothing has been accepted
//@ extract sst/src/lib.rs | impl SstBuilder :: fn new
//@ region `Ok(SstBuilder {` ..$
//@ region-sig <<
fn new_state(options: SstOptions, block_options: BlockBuilderOptions) -> (r: Result<SstBuilder, SError>)
//@ >>
//@ region-tail <<
//@ >>
//@ rewrite X7 `setsum: Setsum::default(),` => `setsum: SetsumAcc::default(),`
//@ rewrite X7 `output: BufWriter::with_capacity(write_buffer_size, output),` => `output: Sink::fresh(),`
//@ rewrite-re X7 `\s*path: path\.as_ref\(\)\.to_path_buf\(\),` => ``
//@ post <<
        r is Ok && r->Ok_0.swf() && r->Ok_0.stream() == Seq::<Ent>::empty(),
//@ >>
//@ end
//@ extract sst/src/lib.rs | struct FinalBlock
//@ end
// the part of SstBuilder::seal that fills in the final block (the metadata Sst::metadata reports): setsum of exactly the
// accepted entries, their smallest and biggest timestamp (0, 0 for an empty table), the offset of the final block
//@ extract sst/src/lib.rs | impl Builder for SstBuilder :: fn seal
//@ region `if builder.smallest_timestamp` .. `let final_block = FinalBlock {`
//@ region-sig <<
fn seal_final(builder: &mut SstBuilder, index_block: BlockMetadata, filter_block: BlockMetadata) -> (r: FinalBlock)
//@ >>
//@ region-tail <<
    ;
    final_block
//@ >>
//@ pre <<
        old(builder).meta_ok(),
//@ >>
//@ post <<
        r.setsum@ == digest_of(old(builder).stream()),
        old(builder).stream().len() == 0 ==> r.smallest_timestamp == 0 && r.biggest_timestamp == 0,
        old(builder).stream().len() > 0 ==> ts_ok(old(builder).stream(), r.smallest_timestamp, r.biggest_timestamp),
        r.final_block_offset == old(builder).bytes_written as u64, r.index_block == index_block, r.filter_block == filter_block,
//@ >>
//@ end

// what SstBuilder::seal's last flush leaves: the table shape the cursor proofs rely on, holding exactly the accepted entries
proof fn lemma_sealed_table(b: SstBuilder)
    requires b.flushed_ok(), b.block_builder is None, sorted(b.stream()), b.done().len() >= 1
    ensures table_pred(b.done(), b.divs()), flat(b.done(), b.done().len() as int) == b.stream()
{
    assert(b.stream() =~= flat(b.done(), b.done().len() as int));
    lemma_table(b.done(), b.divs());
}

//@ contract-lemma lemma_sealed_table
//@ contract-lemma lemma_table
//@ min-verified 7
} // verus!
fn main() {}
