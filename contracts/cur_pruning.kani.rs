//@ package sst
//@ modfile sst/src/pruning_cursor.rs
//@ flags --lib --no-default-features

#[cfg(kani)]
pub(crate) mod __verif_pruning {
    use super::*;
//@ include arrcursor.inc.rs

    // entry i is what a reader at timestamp t sees for its key: the newest version not newer than t,
    // and it is a value (a tombstone hides the key)
    fn newest_le(c: &ArrCursor, t: u64, i: usize) -> bool {
        if i >= c.n || c.ts[i] > t { return false; }
        let mut ok = true; let mut j = 0;
        while j < ARR_N { if j < i && c.keys[j][0] == c.keys[i][0] && c.ts[j] <= t { ok = false; } j += 1; }
        ok
    }
    // `keep` = PruningCursor::with_tombstones: the newest version is yielded even when it is a tombstone
    fn visible(c: &ArrCursor, t: u64, i: usize, keep: bool) -> bool { newest_le(c, t, i) && (keep || c.has_val[i]) }
    fn plen(c: &ArrCursor, t: u64, keep: bool) -> isize { let mut k = 0; let mut i = 0; while i < ARR_N { if visible(c, t, i, keep) { k += 1; } i += 1; } k }
    fn rank(c: &ArrCursor, t: u64, i: usize, keep: bool) -> isize { let mut k = 0; let mut j = 0; while j < ARR_N { if j < i && visible(c, t, j, keep) { k += 1; } j += 1; } k }
    fn nth(c: &ArrCursor, t: u64, r: isize, keep: bool) -> usize { let mut k = 0; let mut res = ARR_N; let mut j = 0; while j < ARR_N { if visible(c, t, j, keep) { if k == r && res == ARR_N { res = j; } k += 1; } j += 1; } res }

    fn view(pc: &PruningCursor<ArrCursor>) -> Option<isize> {
        let ch = &pc.cursor; let c = ch.pos; let n = ch.n as isize;
        if c == -1 { if pc.skip_key.is_none() { Some(-1) } else { None } }
        else if c == n { Some(plen(ch, pc.timestamp, pc.retain_tombstones)) }
        else if c >= 0 && c < n && visible(ch, pc.timestamp, c as usize, pc.retain_tombstones) {
            match &pc.skip_key { Some(k) => if k.len() == 1 && k[0] == ch.keys[c as usize][0] { Some(rank(ch, pc.timestamp, c as usize, pc.retain_tombstones)) } else { None }, None => None }
        } else { None }
    }
    fn any_state() -> (PruningCursor<ArrCursor>, isize) {
        let mut ch = ArrCursor::any_sorted();
        let q: isize = kani::any(); kani::assume(q >= -1 && q <= ch.n as isize); ch.pos = q;
        let t: u64 = kani::any(); kani::assume(t <= 8);
        let skip_key = if kani::any() { None } else { let k: u8 = kani::any(); kani::assume(k <= 6); let mut v: Vec<u8> = Vec::with_capacity(1); v.push(k); Some(v) };
        let pc = PruningCursor { cursor: ch, timestamp: t, skip_key, retain_tombstones: kani::any() };
        let r = match view(&pc) { Some(r) => r, None => { kani::assume(false); 0 } };
        (pc, r)
    }
    fn check_at(pc: &PruningCursor<ArrCursor>, r: isize) {
        let ch = &pc.cursor;
        assert!(view(pc) == Some(r));
        if r >= 0 && r < plen(ch, pc.timestamp, pc.retain_tombstones) {
            let i = nth(ch, pc.timestamp, r, pc.retain_tombstones);
            match pc.key() { Some(k) => { assert!(k.key[0] == ch.keys[i][0] && k.timestamp == ch.ts[i]); } None => { assert!(false); } }
            match pc.value() { Some(v) => { assert!(ch.has_val[i] && v[0] == ch.vals[i][0]); } None => { assert!(pc.retain_tombstones && !ch.has_val[i]); } }
        } else { assert!(pc.key().is_none() && pc.value().is_none()); }
    }
    fn ok(r: Result<(), SError>) { match r { Ok(()) => {}, Err(e) => { core::mem::forget(e); assert!(false); } } }

    //@ H kind=bounded tier=quick timeout=1800 bound="child <=3 entries, keys 0..=5, ts 0..=7, read timestamp 0..=8, every rest state" oblig="sst::PruningCursor::next==prune.next"
    #[kani::proof]
    #[kani::unwind(6)]
    fn pruning_next() {
        let (mut pc, r) = any_state();
        let len = plen(&pc.cursor, pc.timestamp, pc.retain_tombstones);
        ok(pc.next());
        check_at(&pc, if r < len { r + 1 } else { len });
        kani::cover!(r == 0 && len == 2);
        core::mem::forget(pc);
    }

    fn prev_case(maxn: usize) {
        let (mut pc, r) = any_state();
        kani::assume(pc.cursor.n <= maxn);
        ok(pc.prev());
        check_at(&pc, if r > -1 { r - 1 } else { -1 });
        kani::cover!(r == 1);
        core::mem::forget(pc);
    }

    //@ H kind=bounded tier=quick timeout=1800 bound="child <=2 entries, keys 0..=5, ts 0..=7, read timestamp 0..=8, every rest state" oblig="sst::PruningCursor::prev==prune.prev (n<=2)"
    #[kani::proof]
    #[kani::unwind(4)]
    fn pruning_prev() { prev_case(2); }

    //@ H kind=bounded tier=experimental timeout=7200 bound="child <=3 entries, keys 0..=5, ts 0..=7, read timestamp 0..=8, every rest state" oblig="sst::PruningCursor::prev==prune.prev (n<=3)"
    #[kani::proof]
    #[kani::unwind(5)]
    fn pruning_prev_3() { prev_case(3); }

    //@ H kind=bounded tier=quick timeout=1800 bound="child <=3 entries, keys 0..=5, ts 0..=7, read timestamp 0..=8, every rest state, seek keys 0..=6" oblig="sst::PruningCursor::seek==prune.seek"
    #[kani::proof]
    #[kani::unwind(6)]
    fn pruning_seek() {
        let (mut pc, _r) = any_state();
        let k: [u8; 1] = kani::any(); kani::assume(k[0] <= 6);
        ok(pc.seek(&k[..]));
        let len = plen(&pc.cursor, pc.timestamp, pc.retain_tombstones);
        let mut want = len; let mut j = ARR_N;
        while j > 0 { j -= 1; if visible(&pc.cursor, pc.timestamp, j, pc.retain_tombstones) && pc.cursor.keys[j][0] >= k[0] { want = rank(&pc.cursor, pc.timestamp, j, pc.retain_tombstones); } }
        check_at(&pc, want);
        kani::cover!(want < len && want > 0);
        core::mem::forget(pc);
    }

    //@ H kind=bounded tier=quick timeout=1800 bound="child <=3 entries, keys 0..=5, ts 0..=7, read timestamp 0..=8, every rest state" oblig="sst::PruningCursor::seek_to_first/last+new"
    #[kani::proof]
    #[kani::unwind(6)]
    fn pruning_ends_and_new() {
        let (mut pc, _r) = any_state();
        let len = plen(&pc.cursor, pc.timestamp, pc.retain_tombstones);
        if kani::any() { ok(pc.seek_to_first()); check_at(&pc, -1); } else { ok(pc.seek_to_last()); check_at(&pc, len); }
        core::mem::forget(pc);
        let mut ch = ArrCursor::any_sorted();
        let q: isize = kani::any(); kani::assume(q >= -1 && q <= ch.n as isize); ch.pos = q;
        let t: u64 = kani::any(); kani::assume(t <= 8);
        let r2 = if kani::any() { PruningCursor::new(ch, t) } else { PruningCursor::with_tombstones(ch, t) };
        match r2 { Ok(p2) => { check_at(&p2, -1); core::mem::forget(p2); } Err(e) => { core::mem::forget(e); assert!(false); } }
        kani::cover!(len == 2);
    }
}
