// Unit sst_lookup (C10 point lookups; reused by C01): Block::load, for tables of EVERY size.
//
// "a timestamped point lookup returns the newest version not newer than the timestamp or reports its
// tombstone".  The block's cursor is abstract here: `BlockCursor` is an opaque type whose methods carry
// the Cursor contract of sst/src/reference.rs (ASSUMED for BlockCursor in this unit -- the byte-level
// decoder is out of both verifiers' reach, see DESIGN C10); what is PROVED is that the real body of
// Block::load, on top of any contract-obeying cursor, computes exactly the newest version <= timestamp
// and sets the tombstone flag iff that version is a tombstone.
use vstd::prelude::*;
verus! {
global size_of usize == 8;

#[verifier::external_body]
struct SError { _p: u8 }
//@ stubs sst/src/lib.rs -> SError

struct Ent { key: Seq<u8>, ts: u64, val: Option<Seq<u8>> }

spec fn lex_le(a: Seq<u8>, b: Seq<u8>) -> bool
    decreases a.len()
{
    if a.len() == 0 { true }
    else if b.len() == 0 { false }
    else if a[0] < b[0] { true }
    else if a[0] > b[0] { false }
    else { lex_le(a.subrange(1, a.len() as int), b.subrange(1, b.len() as int)) }
}
spec fn lex_lt(a: Seq<u8>, b: Seq<u8>) -> bool { lex_le(a, b) && a != b }
proof fn lemma_lex_trans(a: Seq<u8>, b: Seq<u8>, c: Seq<u8>)
    requires lex_le(a, b), lex_le(b, c)
    ensures lex_le(a, c)
    decreases a.len()
{
    if a.len() == 0 { } else if b.len() == 0 { } else if c.len() == 0 { } else if a[0] < b[0] { } else if b[0] < c[0] { } else {
        lemma_lex_trans(a.subrange(1, a.len() as int), b.subrange(1, b.len() as int), c.subrange(1, c.len() as int));
    }
}
proof fn lemma_lex_antisym(a: Seq<u8>, b: Seq<u8>)
    requires lex_le(a, b), lex_le(b, a)
    ensures a == b
    decreases a.len()
{
    if a.len() == 0 { assert(b.len() == 0); assert(a =~= b); } else if b.len() == 0 { } else {
        let a1 = a.subrange(1, a.len() as int); let b1 = b.subrange(1, b.len() as int);
        lemma_lex_antisym(a1, b1);
        assert(a =~= seq![a[0]] + a1);
        assert(b =~= seq![b[0]] + b1);
    }
}
proof fn lemma_lex_total(a: Seq<u8>, b: Seq<u8>)
    ensures lex_le(a, b) || lex_le(b, a)
    decreases a.len()
{
    if a.len() == 0 { } else if b.len() == 0 { } else if a[0] != b[0] { } else {
        lemma_lex_total(a.subrange(1, a.len() as int), b.subrange(1, b.len() as int));
    }
}
proof fn lemma_lex_refl(a: Seq<u8>)
    ensures lex_le(a, a)
    decreases a.len()
{
    if a.len() != 0 { lemma_lex_refl(a.subrange(1, a.len() as int)); }
}

// the entry order: key ascending, then timestamp DESCENDING
spec fn kt_lt(k1: Seq<u8>, t1: u64, k2: Seq<u8>, t2: u64) -> bool { lex_lt(k1, k2) || (k1 == k2 && t1 > t2) }
spec fn sorted(s: Seq<Ent>) -> bool { forall|i: int, j: int| 0 <= i < j < s.len() ==> kt_lt(s[i].key, s[i].ts, s[j].key, s[j].ts) }
// first index whose key is >= k  (what Cursor::seek(k) positions at)
spec fn is_lower_bound(s: Seq<Ent>, k: Seq<u8>, p: int) -> bool {
    &&& 0 <= p <= s.len()
    &&& forall|i: int| 0 <= i < p ==> lex_lt(#[trigger] s[i].key, k)
    &&& forall|i: int| p <= i < s.len() ==> lex_le(k, #[trigger] s[i].key)
}

// ---------------------------------------------------------------- abstract block + cursor (ASSUMED contract)
#[verifier::external_body]
struct Block { _p: u8 }
#[verifier::external_body]
struct BlockCursor { _p: u8 }

//@ extract sst/src/lib.rs | struct KeyRef
//@ end
//@ extract sst/src/lib.rs | struct KeyValueRef
//@ end

impl Block {
    uninterp spec fn ents(&self) -> Seq<Ent>;

    #[verifier::external_body]
    fn cursor(&self) -> (c: BlockCursor)
        ensures c.ents() == self.ents(), c.wf(),
    { unimplemented!() }
}
impl BlockCursor {
    uninterp spec fn ents(&self) -> Seq<Ent>;
    uninterp spec fn pos(&self) -> int;
    spec fn wf(&self) -> bool { sorted(self.ents()) && -1 <= self.pos() <= self.ents().len() }

    #[verifier::external_body]
    fn seek(&mut self, key: &[u8]) -> (r: Result<(), SError>)
        requires old(self).wf(),
        ensures r is Ok ==> final(self).wf() && final(self).ents() == old(self).ents() && is_lower_bound(final(self).ents(), key@, final(self).pos()),
    { unimplemented!() }
    #[verifier::external_body]
    fn next(&mut self) -> (r: Result<(), SError>)
        requires old(self).wf(),
        ensures r is Ok ==> final(self).wf() && final(self).ents() == old(self).ents()
            && final(self).pos() == (if old(self).pos() < old(self).ents().len() { old(self).pos() + 1 } else { old(self).pos() }),
    { unimplemented!() }
    #[verifier::external_body]
    fn seek_to_first(&mut self) -> (r: Result<(), SError>)
        requires old(self).wf(),
        ensures r is Ok ==> final(self).wf() && final(self).ents() == old(self).ents() && final(self).pos() == -1,
    { unimplemented!() }
    #[verifier::external_body]
    fn seek_to_last(&mut self) -> (r: Result<(), SError>)
        requires old(self).wf(),
        ensures r is Ok ==> final(self).wf() && final(self).ents() == old(self).ents() && final(self).pos() == final(self).ents().len(),
    { unimplemented!() }
    #[verifier::external_body]
    fn prev(&mut self) -> (r: Result<(), SError>)
        requires old(self).wf(),
        ensures r is Ok ==> final(self).wf() && final(self).ents() == old(self).ents()
            && final(self).pos() == (if old(self).pos() >= 0 { old(self).pos() - 1 } else { old(self).pos() }),
    { unimplemented!() }
    #[verifier::external_body]
    fn key(&self) -> (r: Option<KeyRef<'_>>)
        requires self.wf(),
        ensures
            0 <= self.pos() < self.ents().len() ==> r is Some && r->Some_0.key@ == self.ents()[self.pos()].key && r->Some_0.timestamp == self.ents()[self.pos()].ts,
            !(0 <= self.pos() < self.ents().len()) ==> r is None,
    { unimplemented!() }
    #[verifier::external_body]
    fn key_value(&self) -> (r: Option<KeyValueRef<'_>>)
        requires self.wf(),
        ensures
            0 <= self.pos() < self.ents().len() ==> r is Some && r->Some_0.key@ == self.ents()[self.pos()].key && r->Some_0.timestamp == self.ents()[self.pos()].ts
                && (match (r->Some_0.value, self.ents()[self.pos()].val) { (Some(a), Some(b)) => a@ == b, (None, None) => true, _ => false }),
            !(0 <= self.pos() < self.ents().len()) ==> r is None,
    { unimplemented!() }
}

// `kr >= target` on KeyRef (PartialOrd via Ord::cmp; KeyRef::cmp == the entry order is PROVED in unit sst_kernels)
#[verifier::external_body]
fn keyref_ge(a: &KeyRef, b: &KeyRef) -> (r: bool)
    ensures r == !kt_lt(a.key@, a.timestamp, b.key@, b.timestamp),
{ unimplemented!() }
#[verifier::external_body]
fn keyref_gt(a: &KeyRef, b: &KeyRef) -> (r: bool)
    ensures r == kt_lt(b.key@, b.timestamp, a.key@, a.timestamp),
{ unimplemented!() }
#[verifier::external_body]
fn keyref_le(a: &KeyRef, b: &KeyRef) -> (r: bool)
    ensures r == !kt_lt(b.key@, b.timestamp, a.key@, a.timestamp),
{ unimplemented!() }
#[verifier::external_body]
fn keyref_lt(a: &KeyRef, b: &KeyRef) -> (r: bool)
    ensures r == kt_lt(a.key@, a.timestamp, b.key@, b.timestamp),
{ unimplemented!() }
#[verifier::external_body]
fn bytes_eq(a: &[u8], b: &[u8]) -> (r: bool)
    ensures r == (a@ == b@),
{ unimplemented!() }
pub assume_specification<T: Clone> [<[T]>::to_vec] (s: &[T]) -> (r: Vec<T>)
    ensures r@ == s@;
fn opt_to_vec(o: &Option<&[u8]>) -> (r: Option<Vec<u8>>)
    ensures match (*o, r) { (Some(a), Some(b)) => a@ == b@, (None, None) => true, _ => false },
{
    match o { Some(v) => Some(v.to_vec()), None => None }
}

// ---------------------------------------------------------------- the definition
// index of the newest version of `k` that is not newer than `t`, if any
spec fn is_newest_le(s: Seq<Ent>, k: Seq<u8>, t: u64, i: int) -> bool {
    &&& 0 <= i < s.len() && s[i].key == k && s[i].ts <= t
    &&& forall|j: int| 0 <= j < s.len() && #[trigger] s[j].key == k && s[j].ts <= t ==> s[j].ts <= s[i].ts
}
spec fn no_version_le(s: Seq<Ent>, k: Seq<u8>, t: u64) -> bool {
    forall|j: int| 0 <= j < s.len() ==> !(#[trigger] s[j].key == k && s[j].ts <= t)
}

// in a sorted table the first entry that is not below (k, t) decides the lookup
proof fn lemma_first_ge_decides(s: Seq<Ent>, k: Seq<u8>, t: u64, p: int)
    requires
        sorted(s), 0 <= p <= s.len(),
        forall|i: int| 0 <= i < p ==> kt_lt(#[trigger] s[i].key, s[i].ts, k, t),
        p < s.len() ==> !kt_lt(s[p].key, s[p].ts, k, t),
    ensures
        p < s.len() && s[p].key == k ==> is_newest_le(s, k, t, p),
        !(p < s.len() && s[p].key == k) ==> no_version_le(s, k, t),
{
    if p < s.len() && s[p].key == k {
        assert forall|j: int| 0 <= j < s.len() && #[trigger] s[j].key == k && s[j].ts <= t implies s[j].ts <= s[p].ts by {
            if j < p { assert(kt_lt(s[j].key, s[j].ts, k, t)); }
            else if j > p { assert(kt_lt(s[p].key, s[p].ts, s[j].key, s[j].ts)); }
        }
    } else {
        assert forall|j: int| 0 <= j < s.len() implies !(#[trigger] s[j].key == k && s[j].ts <= t) by {
            if s[j].key == k && s[j].ts <= t {
                if j < p { assert(kt_lt(s[j].key, s[j].ts, k, t)); }
                else {
                    // j >= p, and s[p] is not below (k,t): s[p].key > k or (== k, excluded here) ; s[j] >= s[p]
                    assert(p < s.len());
                    lemma_lex_total(s[p].key, k);
                    if j > p {
                        assert(kt_lt(s[p].key, s[p].ts, s[j].key, s[j].ts));
                        if lex_lt(s[p].key, k) { }
                        else if lex_le(k, s[p].key) && lex_le(s[p].key, k) { lemma_lex_antisym(k, s[p].key); }
                        else { lemma_lex_trans(k, s[p].key, s[j].key); lemma_lex_antisym(k, s[p].key); }
                    }
                }
            }
        }
    }
}

impl Block {
//@ extract sst/src/block.rs | impl Block :: fn load
//@ ret r
//@ rewrite-re? X9 `if kr >= target \{` => `if keyref_ge(&kr, &target) {`
//@ rewrite-re? X9 `if kr > target \{` => `if keyref_gt(&kr, &target) {`
//@ rewrite-re? X9 `if kr <= target \{` => `if keyref_le(&kr, &target) {`
//@ rewrite-re? X9 `if kr < target \{` => `if keyref_lt(&kr, &target) {`
//@ rewrite-re? X9 `if kvr\.key == key \{` => `if bytes_eq(kvr.key, key) {`
//@ rewrite-re? X9 `if kvr\.key != key \{` => `if !bytes_eq(kvr.key, key) {`
//@ rewrite X12 `kvr.value.as_ref().map(|v| v.to_vec())` => `opt_to_vec(&kvr.value)`
//@ pre <<
        sorted(self.ents()),
//@ >>
//@ post <<
        r is Ok ==> (
            (exists|i: int| is_newest_le(self.ents(), key@, timestamp, i)
                && *final(is_tombstone) == (self.ents()[i].val is None)
                && (match (r->Ok_0, self.ents()[i].val) { (Some(a), Some(b)) => a@ == b, (None, None) => true, _ => false }))
            || (no_version_le(self.ents(), key@, timestamp) && r->Ok_0 is None && !*final(is_tombstone))
        ),
//@ >>
//@ loop 0 <<
            invariant
                cursor.wf(), cursor.ents() == self.ents(), sorted(self.ents()),
                target.key@ == key@, target.timestamp == timestamp,
                0 <= cursor.pos() <= cursor.ents().len(),
                forall|i: int| 0 <= i < cursor.pos() ==> kt_lt(#[trigger] cursor.ents()[i].key, cursor.ents()[i].ts, key@, timestamp), /* contract-inv */
            ensures
                cursor.wf(), cursor.ents() == self.ents(),
                0 <= cursor.pos() <= cursor.ents().len(),
                forall|i: int| 0 <= i < cursor.pos() ==> kt_lt(#[trigger] cursor.ents()[i].key, cursor.ents()[i].ts, key@, timestamp),
                cursor.pos() < cursor.ents().len() ==> !kt_lt(cursor.ents()[cursor.pos()].key, cursor.ents()[cursor.pos()].ts, key@, timestamp),
            decreases cursor.ents().len() - cursor.pos(),
//@ >>
//@ after `cursor.seek(key)?;` <<
        proof {
            assert forall|i: int| 0 <= i < cursor.pos() implies kt_lt(#[trigger] cursor.ents()[i].key, cursor.ents()[i].ts, key@, timestamp) by { }
        }
//@ >>
//@ before `if let Some(kvr) = cursor.key_value() {` <<
        proof { lemma_first_ge_decides(self.ents(), key@, timestamp, cursor.pos()); }
//@ >>
//@ end
}


// ---------------------------------------------------------------- Sst::load: the same kernel behind the bloom filter
//@ extract sst/src/lib.rs | struct BlockMetadata
//@ end
//@ extract sst/src/lib.rs | struct FinalBlock
//@ end
//@ extract sst/src/lib.rs | struct SstMetadata
//@ end
#[verifier::external_body]
struct SstCursor { _p: u8 }
#[verifier::external_body]
struct Filter { _p: u8 }
#[verifier::external_body]
struct SstBody { _p: u8 }
// only the field Sst::load touches; every other field of the real struct is behind `body`
struct Sst { filter: Filter, final_block: FinalBlock, file_size: u64, body: SstBody }

impl Filter {
    uninterp spec fn may_contain(&self, k: Seq<u8>) -> bool;
    // ASSUMED here, PROVED for the filter block in unit sst_sbbf (no false negatives): check answers may_contain
    #[verifier::external_body]
    fn check(&self, item: &[u8]) -> (r: bool)
        ensures r == self.may_contain(item@),
    { unimplemented!() }
}
impl Sst {
    uninterp spec fn ents(&self) -> Seq<Ent>;
    // the builder inserts every key it accepts into the filter (Sst invariant, assumed)
    spec fn filter_ok(&self) -> bool { forall|i: int| 0 <= i < self.ents().len() ==> self.filter.may_contain(#[trigger] self.ents()[i].key) }
    #[verifier::external_body]
    fn cursor(&self) -> (c: SstCursor)
        ensures c.ents() == self.ents(), c.wf(),
    { unimplemented!() }
}
impl SstCursor {
    uninterp spec fn ents(&self) -> Seq<Ent>;
    uninterp spec fn pos(&self) -> int;
    spec fn wf(&self) -> bool { sorted(self.ents()) && -1 <= self.pos() <= self.ents().len() }

    #[verifier::external_body]
    fn seek(&mut self, key: &[u8]) -> (r: Result<(), SError>)
        requires old(self).wf(),
        ensures r is Ok ==> final(self).wf() && final(self).ents() == old(self).ents() && is_lower_bound(final(self).ents(), key@, final(self).pos()),
    { unimplemented!() }
    #[verifier::external_body]
    fn next(&mut self) -> (r: Result<(), SError>)
        requires old(self).wf(),
        ensures r is Ok ==> final(self).wf() && final(self).ents() == old(self).ents()
            && final(self).pos() == (if old(self).pos() < old(self).ents().len() { old(self).pos() + 1 } else { old(self).pos() }),
    { unimplemented!() }
    #[verifier::external_body]
    fn seek_to_first(&mut self) -> (r: Result<(), SError>)
        requires old(self).wf(),
        ensures r is Ok ==> final(self).wf() && final(self).ents() == old(self).ents() && final(self).pos() == -1,
    { unimplemented!() }
    #[verifier::external_body]
    fn seek_to_last(&mut self) -> (r: Result<(), SError>)
        requires old(self).wf(),
        ensures r is Ok ==> final(self).wf() && final(self).ents() == old(self).ents() && final(self).pos() == final(self).ents().len(),
    { unimplemented!() }
    #[verifier::external_body]
    fn prev(&mut self) -> (r: Result<(), SError>)
        requires old(self).wf(),
        ensures r is Ok ==> final(self).wf() && final(self).ents() == old(self).ents()
            && final(self).pos() == (if old(self).pos() >= 0 { old(self).pos() - 1 } else { old(self).pos() }),
    { unimplemented!() }
    #[verifier::external_body]
    fn key(&self) -> (r: Option<KeyRef<'_>>)
        requires self.wf(),
        ensures
            0 <= self.pos() < self.ents().len() ==> r is Some && r->Some_0.key@ == self.ents()[self.pos()].key && r->Some_0.timestamp == self.ents()[self.pos()].ts,
            !(0 <= self.pos() < self.ents().len()) ==> r is None,
    { unimplemented!() }
    #[verifier::external_body]
    fn key_value(&self) -> (r: Option<KeyValueRef<'_>>)
        requires self.wf(),
        ensures
            0 <= self.pos() < self.ents().len() ==> r is Some && r->Some_0.key@ == self.ents()[self.pos()].key && r->Some_0.timestamp == self.ents()[self.pos()].ts
                && (match (r->Some_0.value, self.ents()[self.pos()].val) { (Some(a), Some(b)) => a@ == b, (None, None) => true, _ => false }),
            !(0 <= self.pos() < self.ents().len()) ==> r is None,
    { unimplemented!() }
}


impl Sst {
//@ extract sst/src/lib.rs | impl Sst<W> :: fn load
//@ ret r
//@ rewrite-re? X9 `if kr >= target \{` => `if keyref_ge(&kr, &target) {`
//@ rewrite-re? X9 `if kr > target \{` => `if keyref_gt(&kr, &target) {`
//@ rewrite-re? X9 `if kr <= target \{` => `if keyref_le(&kr, &target) {`
//@ rewrite-re? X9 `if kr < target \{` => `if keyref_lt(&kr, &target) {`
//@ rewrite-re? X9 `if kvr\.key == key \{` => `if bytes_eq(kvr.key, key) {`
//@ rewrite-re? X9 `if kvr\.key != key \{` => `if !bytes_eq(kvr.key, key) {`
//@ rewrite X12 `kvr.value.as_ref().map(|v| v.to_vec())` => `opt_to_vec(&kvr.value)`
//@ pre <<
        sorted(self.ents()), self.filter_ok(),
//@ >>
//@ post <<
        r is Ok ==> (
            (exists|i: int| is_newest_le(self.ents(), key@, timestamp, i)
                && *final(is_tombstone) == (self.ents()[i].val is None)
                && (match (r->Ok_0, self.ents()[i].val) { (Some(a), Some(b)) => a@ == b, (None, None) => true, _ => false }))
            || (no_version_le(self.ents(), key@, timestamp) && r->Ok_0 is None && !*final(is_tombstone))
        ),
//@ >>
//@ loop 0 <<
            invariant
                cursor.wf(), cursor.ents() == self.ents(), sorted(self.ents()),
                target.key@ == key@, target.timestamp == timestamp,
                0 <= cursor.pos() <= cursor.ents().len(),
                forall|i: int| 0 <= i < cursor.pos() ==> kt_lt(#[trigger] cursor.ents()[i].key, cursor.ents()[i].ts, key@, timestamp), /* contract-inv */
            ensures
                cursor.wf(), cursor.ents() == self.ents(),
                0 <= cursor.pos() <= cursor.ents().len(),
                forall|i: int| 0 <= i < cursor.pos() ==> kt_lt(#[trigger] cursor.ents()[i].key, cursor.ents()[i].ts, key@, timestamp),
                cursor.pos() < cursor.ents().len() ==> !kt_lt(cursor.ents()[cursor.pos()].key, cursor.ents()[cursor.pos()].ts, key@, timestamp),
            decreases cursor.ents().len() - cursor.pos(),
//@ >>
//@ after `cursor.seek(key)?;` <<
        proof {
            assert forall|i: int| 0 <= i < cursor.pos() implies kt_lt(#[trigger] cursor.ents()[i].key, cursor.ents()[i].ts, key@, timestamp) by { }
        }
//@ >>
//@ before `if let Some(kvr) = cursor.key_value() {` <<
        proof { lemma_first_ge_decides(self.ents(), key@, timestamp, cursor.pos()); }
//@ >>
//@ end
}

// the key that stands for "no last key" in the metadata of an empty table
// `MAX_KEY.to_vec()` (MAX_KEY = &[0xff; 11]; Verus takes no const of reference type)
spec fn max_key() -> Seq<u8> { Seq::new(11, |i: int| 0xffu8) }
#[verifier::external_body]
fn max_key_vec() -> (r: Vec<u8>) ensures r@ == max_key() { unimplemented!() }
#[verifier::external_body]
fn vec_from(s: &[u8]) -> (r: Vec<u8>) ensures r@ == s@ { unimplemented!() }

impl Sst {
    // the metadata of a table: first and last key read through the cursor, the rest copied from the final block
//@ extract sst/src/lib.rs | impl Sst<W> :: fn metadata
//@ ret r
//@ rewrite-re X7 `Vec::from\(kr\.key\)` => `vec_from(kr.key)`
//@ rewrite X7 `MAX_KEY.to_vec()` => `max_key_vec()`
//@ pre <<
        sorted(self.ents()),
//@ >>
//@ post <<
        r is Ok ==> ({
            let m = r->Ok_0; let e = self.ents();
            &&& (e.len() > 0 ==> m.first_key@ == e[0].key && m.last_key@ == e.last().key)
            &&& (e.len() == 0 ==> m.first_key@.len() == 0 && m.last_key@ == max_key())
            &&& m.setsum == self.final_block.setsum && m.smallest_timestamp == self.final_block.smallest_timestamp
            &&& m.biggest_timestamp == self.final_block.biggest_timestamp && m.file_size == self.file_size
        }),
//@ >>
//@ end
}

//@ min-verified 11
} // verus!
fn main() {}
