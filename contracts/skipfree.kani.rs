//@ package skipfree
//@ modfile skipfree/src/lib.rs
//@ flags --lib

#[cfg(kani)]
mod __verif_skip {
    use super::*;

    // sequential kernel of C17 (and the ownership clause shared with C07).  MAX_HEIGHT = 3 and the
    // tower height of every inserted node is SYMBOLIC in 1..=3 (random_height uses thread_rng, which
    // CBMC cannot execute): every tower shape over the inserted keys is explored.
    type SL<const MH: usize> = SkipList<u8, u8, MH>;
    fn stub_height<K: Eq + Ord + Default, V: Default, const MAX_HEIGHT: usize>() -> usize {
        let h: usize = kani::any();
        kani::assume(h >= 1 && h <= MAX_HEIGHT);
        h
    }

    // insert n <= NK distinct symbolic keys in symbolic order with symbolic heights
    fn build<const MH: usize, const NK: usize>() -> (SL<MH>, [u8; NK], usize) {
        let sl = SL::<MH>::default();
        let keys: [u8; NK] = kani::any();
        let n: usize = kani::any();
        kani::assume(n <= NK);
        let mut a = 0; while a < NK { let mut b = a + 1; while b < NK { kani::assume(keys[a] != keys[b]); b += 1; } a += 1; }
        let mut i = 0;
        while i < NK { if i < n { sl.insert(keys[i], keys[i] ^ 0x5a); } i += 1; }
        (sl, keys, n)
    }
    fn count_lt<const NK: usize>(keys: &[u8; NK], n: usize, k: u8) -> usize { let mut c = 0; let mut i = 0; while i < NK { if i < n && keys[i] < k { c += 1; } i += 1; } c }
    fn member<const NK: usize>(keys: &[u8; NK], n: usize, k: u8) -> bool { let mut m = false; let mut i = 0; while i < NK { if i < n && keys[i] == k { m = true; } i += 1; } m }

    // every iteration yields strictly increasing keys, each inserted key exactly once, forward and backward;
    // every returned insert is found by contains; nothing else is.
    fn insert_iterate_g<const MH: usize, const NK: usize>() {
        let (sl, keys, n) = build::<MH, NK>();
        let mut it = sl.iter();
        it.seek_to_first();
        // NOTE: skipfree's seek_to_first lands ON the first element (its doc comment says otherwise);
        // the contract here is the behaviour lsmtk's wrapper relies on.
        let mut seen = 0usize;
        let mut last: u16 = 0x100;
        let mut j = 0;
        while j < NK + 1 {
            if it.is_valid() {
                let k = *it.key();
                assert!(member(&keys, n, k));
                assert!(*it.value() == k ^ 0x5a);
                assert!(last == 0x100 || (last as u8) < k);
                assert!(count_lt(&keys, n, k) == seen);
                last = k as u16;
                seen += 1;
                it.next();
            }
            j += 1;
        }
        assert!(seen == n);
        assert!(!it.is_valid());
        // backward from the end
        it.seek_to_last();
        let mut seen_b = 0usize;
        let mut j = 0;
        while j < NK + 1 {
            it.prev();
            if it.is_valid() {
                let k = *it.key();
                assert!(count_lt(&keys, n, k) + seen_b + 1 == n);
                seen_b += 1;
            }
            j += 1;
        }
        assert!(seen_b == n);
        let probe: u8 = kani::any();
        assert!(sl.contains(&probe) == member(&keys, n, probe));
        kani::cover!(n == NK);
        core::mem::forget(sl);
    }

    // seek / next / prev move to the nearest existing key in their direction
    fn seek_nearest_g<const MH: usize, const NK: usize>() {
        let (sl, keys, n) = build::<MH, NK>();
        let mut it = sl.iter();
        let target: u8 = kani::any();
        it.seek(&target);
        let below = count_lt(&keys, n, target);
        if below == n { assert!(!it.is_valid()); } else {
            assert!(it.is_valid());
            let k = *it.key();
            assert!(k >= target && member(&keys, n, k) && count_lt(&keys, n, k) == below);
        }
        // prev from the seek position: the greatest key < target (or nothing)
        let mut back = it.clone();
        back.prev();
        if below == 0 { assert!(!back.is_valid()); } else {
            assert!(back.is_valid());
            let k = *back.key();
            assert!(k < target && member(&keys, n, k) && count_lt(&keys, n, k) + 1 == below);
        }
        // next from the seek position: the successor
        if it.is_valid() {
            let k0 = *it.key();
            it.next();
            if below + 1 == n { assert!(!it.is_valid()); } else {
                assert!(it.is_valid());
                let k = *it.key();
                assert!(k > k0 && member(&keys, n, k) && count_lt(&keys, n, k) == below + 1);
            }
        }
        kani::cover!(n == NK && below == 1);
        core::mem::forget(sl);
    }

    // "An iterator remains valid for as long as it is held" / the crate's own doc: "This iterator will
    // keep the body of the skiplist in-memory even after the skiplist itself goes out of scope."
    // Kani checks every dereference against live allocations.
    fn iterator_outlives_list_g<const MH: usize, const NK: usize>() {
        let (sl, keys, n) = build::<MH, NK>();
        kani::assume(n >= 1);
        let mut it = sl.iter();
        it.seek_to_first();
        drop(sl);
        assert!(it.is_valid());
        let k = *it.key();
        assert!(member(&keys, n, k) && count_lt(&keys, n, k) == 0);
        it.next();
        if n >= 2 { assert!(it.is_valid()); let k2 = *it.key(); assert!(count_lt(&keys, n, k2) == 1); }
        it.prev();
        assert!(it.is_valid() && *it.key() == k);
        kani::cover!(n == NK);
    }

    //@ H kind=bounded tier=quick timeout=1500 bound="<= 2 inserts of distinct u8 keys in every order, every tower height in 1..=2 (MAX_HEIGHT = 2), single thread" oblig="skipfree::SkipList::insert+iter::ordered-complete"
    #[kani::proof]
    #[kani::unwind(8)]
    #[kani::stub(SkipList::random_height, stub_height)]
    fn insert_iterate() { insert_iterate_g::<2, 2>(); }

    //@ H kind=bounded tier=quick timeout=1500 bound="<= 2 inserts of distinct u8 keys in every order, every tower height in 1..=2, every seek key" oblig="skipfree::SkipListIterator::seek/next/prev::nearest"
    #[kani::proof]
    #[kani::unwind(8)]
    #[kani::stub(SkipList::random_height, stub_height)]
    fn seek_nearest() { seek_nearest_g::<2, 2>(); }

    //@ H kind=bounded tier=quick timeout=1500 native=no bound="<= 2 inserts, every tower height in 1..=2; program: iter, position, drop(list), read+step iterator" oblig="skipfree::SkipListIterator::outlives-list (ownership)"
    #[kani::proof]
    #[kani::unwind(8)]
    #[kani::stub(SkipList::random_height, stub_height)]
    fn iterator_outlives_list() { iterator_outlives_list_g::<2, 2>(); }

    //@ H kind=bounded tier=experimental timeout=1500 native=no bound="1 insert, tower height in 1..=2; program: iter, position, drop(list), read+step iterator" oblig="skipfree::SkipListIterator::outlives-list (ownership, 1 key)"
    #[kani::proof]
    #[kani::unwind(6)]
    #[kani::stub(SkipList::random_height, stub_height)]
    fn iterator_outlives_list_1() { iterator_outlives_list_g::<2, 1>(); }

    //@ H kind=bounded tier=experimental timeout=1500 bound="1 insert, tower height in 1..=2" oblig="skipfree::insert+iter (1 key)"
    #[kani::proof]
    #[kani::unwind(6)]
    #[kani::stub(SkipList::random_height, stub_height)]
    fn insert_iterate_1() { insert_iterate_g::<2, 1>(); }

    //@ H kind=bounded tier=thorough timeout=14400 bound="<= 3 inserts, every order, every tower height in 1..=3 (MAX_HEIGHT = 3)" oblig="skipfree::SkipList::insert+iter::ordered-complete (3x3)"
    #[kani::proof]
    #[kani::unwind(10)]
    #[kani::stub(SkipList::random_height, stub_height)]
    fn insert_iterate_3() { insert_iterate_g::<3, 3>(); }

    //@ H kind=bounded tier=thorough timeout=14400 bound="<= 3 inserts, every order, every tower height in 1..=3, every seek key" oblig="skipfree::SkipListIterator::seek/next/prev::nearest (3x3)"
    #[kani::proof]
    #[kani::unwind(10)]
    #[kani::stub(SkipList::random_height, stub_height)]
    fn seek_nearest_3() { seek_nearest_g::<3, 3>(); }
}
