//@ package sst
//@ modfile sst/src/gc.rs
//@ flags --lib --no-default-features

#[cfg(kani)]
pub(crate) mod __verif_gc {
    use super::*;
//@ include arrcursor.inc.rs

    // ---- determiners, one step from any scalar state ----
    //@ H kind=complete tier=quick timeout=600 oblig="sst::gc::VersionsDeterminer::retain::step"
    #[kani::proof]
    #[kani::unwind(4)]
    fn versions_determiner_step() {
        let number: u64 = kani::any(); kani::assume(number >= 1);
        let count: u64 = kani::any(); kani::assume(count < (1u64 << 62));
        let k_old: u8 = kani::any(); let k_new: u8 = kani::any();
        let mut key: Vec<u8> = Vec::with_capacity(1); key.push(k_old);
        let mut d = VersionsDeterminer { number: NonZeroU64::new(number).unwrap(), key, count };
        let has_tombs: bool = kani::any();
        let tombs = [7u64];
        let t: &[u64] = if has_tombs { &tombs[..] } else { &tombs[..0] };
        let newk = [k_new];
        let r = d.retain(&newk[..], t, kani::any());
        let cost = if has_tombs { 2 } else { 1 };
        let want_count = if k_old != k_new { cost } else { count + cost };
        assert!(d.count == want_count);
        assert!(r == (want_count <= number));
        assert!(d.key.len() == 1 && d.key[0] == k_new);
        // the newest entry of a key, when it is a value, is always retained (any N >= 1)
        if k_old != k_new && !has_tombs { assert!(r); }
        kani::cover!(k_old == k_new && r);
        core::mem::forget(d);
    }

    //@ H kind=complete tier=quick timeout=600 oblig="sst::gc::ExpiresDeterminer::retain+threshold"
    #[kani::proof]
    fn expires_determiner() {
        let now: u64 = kani::any(); let micros: u64 = kani::any(); kani::assume(micros >= 1);
        let exists: u64 = kani::any();
        let threshold = now.saturating_sub(micros);
        let mut d = ExpiresDeterminer::new(threshold);
        let k = [0u8];
        let r = d.retain(&k[..], &[], exists);
        // retained iff not older than now - ttl (saturating at 0)
        let want = if now >= micros { exists >= now - micros } else { true };
        assert!(r == want);
        kani::cover!(!r);
    }

    //@ H kind=bounded tier=quick timeout=900 bound="any/all over two leaves (versions=N, ttl)" oblig="sst::gc::Any/AllDeterminer::pointwise"
    #[kani::proof]
    #[kani::unwind(4)]
    fn any_all_pointwise() {
        let number: u64 = kani::any(); kani::assume(number >= 1 && number <= 3);
        let threshold: u64 = kani::any();
        let exists: u64 = kani::any();
        let has_tombs: bool = kani::any();
        let tombs = [7u64];
        let t: &[u64] = if has_tombs { &tombs[..] } else { &tombs[..0] };
        let k = [1u8];
        let mk = |n: u64, th: u64| -> Vec<Box<dyn Determiner>> {
            let mut v: Vec<Box<dyn Determiner>> = Vec::with_capacity(2);
            v.push(Box::new(VersionsDeterminer::new(NonZeroU64::new(n).unwrap())));
            v.push(Box::new(ExpiresDeterminer::new(th)));
            v
        };
        let cost = if has_tombs { 2 } else { 1 };
        let r_versions = cost <= number;
        let r_expires = exists >= threshold;
        let mut any = AnyDeterminer::new(mk(number, threshold));
        let mut all = AllDeterminer::new(mk(number, threshold));
        assert!(any.retain(&k[..], t, exists) == (r_versions || r_expires));
        assert!(all.retain(&k[..], t, exists) == (r_versions && r_expires));
        kani::cover!(r_versions && !r_expires);
        core::mem::forget(any); core::mem::forget(all);
    }

    // ---- the collector against an independent reading of `versions = N` ----
    // Per key, newest to oldest: a value costs 1; a run of tombstones followed by a value costs 2 and
    // is emitted as (oldest tombstone of the run, value); entries are kept while the running cost
    // stays <= N; a trailing run of tombstones with no older value is dropped.
    const GN: usize = 3;
    fn spec_versions(c: &ArrCursor, number: u64, out: &mut [(u8, u64); 4]) -> usize {
        let mut n_out = 0usize;
        let mut i = 0usize;
        let mut cur_key: u16 = 0x100; let mut count: u64 = 0;
        let mut run_oldest: u64 = 0; let mut in_run = false;
        while i < GN {
            if i < c.n {
                let k = c.keys[i][0] as u16;
                if k != cur_key { cur_key = k; count = 0; in_run = false; }
                if !c.has_val[i] { in_run = true; run_oldest = c.ts[i]; }
                else {
                    count += if in_run { 2 } else { 1 };
                    if count <= number {
                        if in_run { out[n_out] = (c.keys[i][0], run_oldest); n_out += 1; }
                        out[n_out] = (c.keys[i][0], c.ts[i]); n_out += 1;
                    }
                    in_run = false;
                }
            }
            i += 1;
        }
        n_out
    }

    fn collector_case(maxn: usize) {
        let mut ch = ArrCursor::any_sorted();
        kani::assume(ch.n <= maxn);
        ch.pos = 0; // positioned at the first key, as collector() requires
        let number: u64 = kani::any(); kani::assume(number >= 1 && number <= 3);
        let mut want = [(0u8, 0u64); 4];
        let n_want = spec_versions(&ch, number, &mut want);
        let policy = GarbageCollectionPolicy::Versions { number: NonZeroU64::new(number).unwrap() };
        let mut gc = match policy.collector(ch, 0) { Ok(gc) => gc, Err(e) => { core::mem::forget(e); return; } };
        let mut j = 0usize;
        while j < maxn + 2 {
            match gc.next() {
                Ok(Some(kr)) => { assert!(j < n_want); assert!(kr.key.len() == 1 && kr.key[0] == want[j].0 && kr.timestamp == want[j].1); }
                Ok(None) => { assert!(j >= n_want); }
                Err(e) => { core::mem::forget(e); assert!(false); }
            }
            j += 1;
        }
        // safety clause: for every key whose newest entry is a value, that entry is retained
        let mut i = 0;
        while i < GN {
            if i < ch.n && ch.has_val[i] && (i == 0 || ch.keys[i - 1][0] != ch.keys[i][0]) {
                let mut found = false; let mut q = 0; while q < 4 { if q < n_want && want[q].0 == ch.keys[i][0] && want[q].1 == ch.ts[i] { found = true; } q += 1; }
                assert!(found);
            }
            i += 1;
        }
        kani::cover!(n_want == maxn);
        kani::cover!(n_want == 0 && ch.n == maxn);
        core::mem::forget(gc);
    }

    //@ H kind=bounded tier=experimental timeout=14400 bound="tables <= 2 entries over keys 0..=5, ts 0..=7, versions = 1..=3" oblig="sst::gc::GarbageCollector::next==retained(versions=N) (n<=2)"
    #[kani::proof]
    #[kani::unwind(6)]
    fn collector_matches_versions_policy() { collector_case(2); }

    //@ H kind=bounded tier=experimental timeout=10800 bound="tables <= 3 entries over keys 0..=5, ts 0..=7, versions = 1..=3" oblig="sst::gc::GarbageCollector::next==retained(versions=N) (n<=3)"
    #[kani::proof]
    #[kani::unwind(6)]
    fn collector_matches_versions_policy_3() { collector_case(3); }
}
