// Unit sync_waitlist (C20: discharges what unit lsmtk_wake assumes of the wait list; the wait-list clause of C18):
// sync42/src/wait_list.rs -- Waiter::{new, initialize, deinitialize, store}, WaitList::{new, link, unlink, _unlink,
// notify_head, index_waitlist, assert_invariants}, WaitGuard::{is_head, count, get_waiter}, Drop for WaitGuard and
// WaitIterator::next -- extracted and proved as a MONITOR: every access to the list's state (head, tail, the `linked`
// flags) happens inside a critical section of the one `state` mutex, so each critical section is a sequential function
// on that state; the proof shows every critical section preserves the monitor invariant
//     0 < n,  head <= tail <= head + n,  head < tail ==> ticket `head` is linked,  no slot outside [head, tail) is linked,
// and a condition-variable wait inside a critical section is read as "any state satisfying the invariant" (what the other
// threads' critical sections can leave behind).  That holds for every schedule, because the invariant is established by
// new() and re-established before every release of the mutex.  On top of it, per critical section:
//   * assert_invariants and the assert! in _unlink never fire; no counter wraps; no index is out of range;
//   * link hands out the ticket `tail` (tickets strictly increase, so no two guards share one), linked, inside the window,
//     and changes the linked flag of no other ticket in the window;
//   * _unlink clears exactly its own ticket's flag, and the head moves to the NEXT linked ticket (or to tail): the head
//     position is handed to the next waiter when the head leaves, and only then; every other linked ticket stays linked
//     and inside the window;
//   * is_head answers `ticket == head`: under the invariant the head ticket is linked whenever anything is, so among the
//     linked guards exactly one -- the one with the smallest ticket -- is head;
//   * notify_head changes nothing and signals the condition variable of ticket `head` when the list is not empty.
// The stable per-guard fact a caller's owned guard carries (its ticket is linked and inside the window) is a
// precondition of _unlink; it is stable because every critical section's postcondition leaves other tickets alone.
// Extraction rules (stated: what is dropped): X23 `Mutex<X>` is read as `X`, `let state = self.state.lock().unwrap();`
// disappears and `state.f` is `self.state.f`; a MutexGuard threaded through a call and handed back (`g = x.f(g, a)`) is
// read as `x.f(a)`; X20 `&self` is read as `&mut self` (the critical section has exclusive access to what the mutex
// guards; the AtomicBool `linked` is only touched under that mutex and is read as a bool); X24 the `list: &WaitList` a
// guard carries is passed to its methods as an explicit parameter; biometrics counters (`X.click()`) are dropped.
// ASSUMED: fewer than 2^63 links in the life of a list and fewer than 2^63 threads parked in link at once (machine
// arithmetic); Condvar, the value cell and seq_no are not interpreted (no wake-up is claimed here).
use vstd::prelude::*;
use vstd::arithmetic::div_mod::*;
verus! {
global size_of usize == 8;

// std::sync::atomic::{AtomicBool, Ordering}: the flag is only ever touched with the list's mutex held
enum Ordering { Relaxed, SeqCst }
struct AtomicBool { v: bool }
impl AtomicBool {
    fn new(v: bool) -> (r: AtomicBool) ensures r.v == v { AtomicBool { v } }
    fn load(&self, o: Ordering) -> (r: bool) ensures r == self.v { self.v }
    fn store(&mut self, v: bool, o: Ordering) ensures final(self).v == v { self.v = v; }
}
#[verifier::external_body]
struct AtomicU64 { _p: u8 }
impl AtomicU64 {
    #[verifier::external_body]
    fn new(v: u64) -> (r: AtomicU64) { unimplemented!() }
    #[verifier::external_body]
    fn fetch_add(&self, v: u64, o: Ordering) -> (r: u64) { unimplemented!() }
}
#[verifier::external_body]
struct Condvar { _p: u8 }
impl Condvar {
    #[verifier::external_body]
    fn new() -> (r: Condvar) { unimplemented!() }
    #[verifier::external_body]
    fn notify_one(&self) { unimplemented!() }
}

//@ extract sync42/src/lib.rs | const MAX_CONCURRENCY
//@ post <<
        MAX_CONCURRENCY == 65536,
//@ >>
//@ bodystart <<
    proof { assert(1usize << 16 == 65536) by (bit_vector); }
//@ >>
//@ end

//@ extract sync42/src/wait_list.rs | struct Waiter
//@ rewrite-re X23 `Mutex<(.+)>,` => `\1,`
//@ end
//@ extract sync42/src/wait_list.rs | struct WaitListState
//@ end
//@ extract sync42/src/wait_list.rs | struct WaitList
//@ rewrite-re X23 `Mutex<(.+)>,` => `\1,`
//@ end
// X24: the guard's `list: &'a WaitList<T>` is an explicit parameter of its methods
struct WaitGuard { index: u64, owned: bool }
struct WaitIterator { index: u64 }

impl<T: Clone> Waiter<T> {
//@ extract sync42/src/wait_list.rs | impl Waiter<T> :: fn new
//@ ret r
//@ rewrite-re X23 `Mutex::new\((\w+)\)` => `\1`
//@ post <<
        !r.linked.v,
//@ >>
//@ end
//@ extract sync42/src/wait_list.rs | impl Waiter<T> :: fn store
//@ rewrite-re X23 `fn (\w+)<'a, M>\(\s*&self,\s*(?:mut )?(?:guard|state): MutexGuard<'a, \w+>,?\s*` => `fn \1(&mut self, `
//@ rewrite-re X23 `\) -> MutexGuard<'a, \w+> \{` => `) {`
//@ rewrite-re X23 `(?m)^\s*(?:guard|state)\n` => ``
//@ rewrite X23 `*self.value.lock().unwrap() = Some(t);` => `self.value = Some(t);`
//@ post <<
        final(self).linked == old(self).linked,
//@ >>
//@ end
//@ extract sync42/src/wait_list.rs | impl Waiter<T> :: fn initialize
//@ rewrite-re X23 `fn (\w+)<'a, M>\(\s*&self,\s*(?:mut )?(?:guard|state): MutexGuard<'a, \w+>,?\s*` => `fn \1(&mut self, `
//@ rewrite-re X23 `\) -> MutexGuard<'a, \w+> \{` => `) {`
//@ rewrite-re X23 `(?m)^(\s*)(?:let _?(?:state|guard)|state|guard) = (.*?)\((?:state|guard)(?=[,)])(?:, )?(.*)\);$` => `\1\2(\3);`
//@ rewrite-re X23 `(?m)^\s*(?:guard|state)\n` => ``
//@ post <<
        final(self).linked.v,
//@ >>
//@ end
//@ extract sync42/src/wait_list.rs | impl Waiter<T> :: fn deinitialize
//@ rewrite-re X23 `fn (\w+)<'a, M>\(\s*&self,\s*(?:mut )?(?:guard|state): MutexGuard<'a, \w+>,?\s*` => `fn \1(&mut self, `
//@ rewrite-re X23 `\) -> MutexGuard<'a, \w+> \{` => `) {`
//@ rewrite-re X23 `(?m)^\s*(?:guard|state)\n` => ``
//@ rewrite X23 `self.value.lock().unwrap().take();` => `self.value.take();`
//@ post <<
        final(self).linked == old(self).linked,
//@ >>
//@ end
}

// ---------------------------------------------------------------- modular arithmetic of the ring of slots
proof fn lemma_slot_distinct(a: int, b: int, n: int)
    requires 0 < n, 0 <= a, a <= b < a + n, a % n == b % n
    ensures a == b
{
    lemma_mod_equivalence(b, a, n);
    lemma_small_mod((b - a) as nat, n as nat);
}
proof fn lemma_slot_wrap(h: int, n: int)
    requires 0 < n, 0 <= h
    ensures (h + n) % n == h % n
{
    lemma_mod_add_multiples_vanish(h, n);
}

// is the slot of ticket i flagged linked
spec fn la<T: Clone>(w: Seq<Waiter<T>>, i: int) -> bool { w[i % (w.len() as int)].linked.v }

impl<T: Clone> WaitList<T> {
    spec fn n(&self) -> int { self.waiters@.len() as int }
    spec fn linked_at(&self, i: int) -> bool { la(self.waiters@, i) }
    spec fn inv_base(&self) -> bool {
        &&& 0 < self.n() <= 0x1_0000_0000
        &&& self.state.head <= self.state.tail <= self.state.head + self.n()
        // no slot outside the window is linked
        &&& forall|i: int| self.state.tail <= i < self.state.head + self.n() ==> !#[trigger] la(self.waiters@, i)
    }
    // THE MONITOR INVARIANT (what assert_invariants checks, and what makes is_head meaningful)
    spec fn inv(&self) -> bool {
        &&& self.inv_base()
        &&& self.state.head < self.state.tail ==> self.linked_at(self.state.head as int)
    }
    // ASSUMED (machine arithmetic): counters far from wrapping
    spec fn no_wrap(&self) -> bool {
        self.state.tail < 0x8000_0000_0000_0000 && self.state.waiting_for_available < 0x8000_0000_0000_0000
    }
    // a guard's stable fact: its ticket is linked and inside the window
    spec fn holds(&self, ticket: u64) -> bool {
        self.state.head <= ticket < self.state.tail && self.linked_at(ticket as int)
    }
    // under the invariant the head is the smallest linked ticket: exactly one linked guard is head
    proof fn lemma_one_head(&self, a: u64, b: u64)
        requires self.inv(), self.holds(a), self.holds(b)
        ensures
            // there IS a head among the linked guards ...
            self.holds(self.state.head),
            // ... every linked guard is at or behind it, and two guards that are both head are the same guard
            self.state.head <= a, (a == self.state.head && b == self.state.head) ==> a == b,
    { }

    // `state = self.wait_waiter_available.wait(state).unwrap();`: the mutex is released and re-acquired; whatever the
    // other threads' critical sections did, they left the invariant; this thread's own `waiting_for_available += 1` is
    // still counted (each thread adds and removes only its own)
    #[verifier::external_body]
    fn cv_wait(&mut self)
        requires old(self).inv(), old(self).state.waiting_for_available >= 1,
        ensures final(self).inv(), final(self).no_wrap(), final(self).state.waiting_for_available >= 1, final(self).n() == old(self).n(),
    { unimplemented!() }

// index_waitlist verbatim (reads), and once more with `&mut` for the callers that write through the slot (X20)
//@ extract sync42/src/wait_list.rs | impl WaitList<T> :: fn index_waitlist
//@ ret r
//@ pre <<
        0 < self.n(),
//@ >>
//@ post <<
        *r == self.waiters@[(index as int) % self.n()],
//@ >>
//@ end
//@ extract sync42/src/wait_list.rs | impl WaitList<T> :: fn index_waitlist
//@ ret r
//@ rewrite X20 `fn index_waitlist(&self, index: u64) -> &Waiter<T>` => `fn index_waitlist_mut(&mut self, index: u64) -> &mut Waiter<T>`
//@ rewrite X20 `&self.waiters[` => `&mut self.waiters[`
//@ pre <<
        0 < old(self).n(),
//@ >>
//@ post <<
        *r == old(self).waiters@[(index as int) % old(self).n()],
        final(self).state == old(self).state,
        final(self).wait_waiter_available == old(self).wait_waiter_available,
        final(self).waiters@ == old(self).waiters@.update((index as int) % old(self).n(), *final(r)),
//@ >>
//@ end

//@ extract sync42/src/wait_list.rs | impl WaitList<T> :: fn assert_invariants
//@ rewrite-re X23 `fn (\w+)<'a(?:, M)?>\(\s*&self,\s*(?:mut )?(?:guard|state): MutexGuard<'a, \w+>,?\s*` => `fn \1(&self, `
//@ rewrite-re X23 `\) -> MutexGuard<'a, \w+> \{` => `) {`
//@ rewrite-re X23 `(?m)^\s*(?:guard|state)\n` => ``
//@ rewrite-re X23 `(?<![.\w])state\.` => `self.state.`
//@ pre <<
        self.inv(),
//@ >>
//@ end

//@ extract sync42/src/wait_list.rs | impl WaitList<T> :: fn new
//@ ret r
//@ rewrite-re X23 `Mutex::new\((\w+)\)` => `\1`
//@ rewrite X13 `for _ in 0..MAX_CONCURRENCY {` => `for k in 0..MAX_CONCURRENCY {`
//@ post <<
        r.inv(), r.state.head == 0, r.state.tail == 0, r.state.waiting_for_available == 0,
//@ >>
//@ loop 0 <<
            invariant waiters@.len() == k, forall|s: int| 0 <= s < waiters@.len() ==> !waiters@[s].linked.v,
//@ >>
//@ end

//@ extract sync42/src/wait_list.rs | impl WaitList<T> :: fn link
//@ ret r
//@ prefix #[verifier::exec_allows_no_decreases_clause]
//@ rewrite X24 `fn link(&self, t: T) -> WaitGuard<'_, T>` => `fn link(&mut self, t: T) -> WaitGuard`
//@ rewrite-re X23 `(?m)^\s*let (?:mut )?state = self\.state\.lock\(\)\.unwrap\(\);\n` => ``
//@ rewrite X23 `state = self.wait_waiter_available.wait(state).unwrap();` => `self.cv_wait();`
//@ rewrite-re X23 `(?m)^(\s*)(?:let _?(?:state|guard)|state|guard) = (.*?)\((?:state|guard)(?=[,)])(?:, )?(.*)\);$` => `\1\2(\3);`
//@ rewrite-re X20 `self\s*\.index_waitlist\((\w+(?:\.\w+)*)\)\s*\.(initialize|deinitialize)\(` => `self.index_waitlist_mut(\1).\2(`
//@ rewrite-re X23 `(?<![.\w])state\.` => `self.state.`
//@ rewrite-re X24 `(?m)^\s*list: self,\n` => ``
//@ pre <<
        old(self).inv(), old(self).no_wrap(),
//@ >>
//@ post <<
        final(self).inv(), final(self).n() == old(self).n(),
        // a fresh ticket -- the old tail -- linked and inside the window, owned by the caller
        r.owned, r.index + 1 == final(self).state.tail, final(self).holds(r.index),
//@ >>
//@ loop 0 <<
            invariant self.inv(), self.no_wrap(), self.n() == old(self).n(),
//@ >>
//@ before `let index = self.state.tail;` <<
        let ghost pre = *self;
//@ >>
//@ before#3 `self.assert_invariants();` <<
        proof {
            let n = self.n();
            assert(n == pre.n());
            // the critical section that allocates the ticket touches no other ticket's slot
            assert forall|j: int| pre.state.head <= j < pre.state.head + n && j != index implies la(self.waiters@, j) == la(pre.waiters@, j) by {
                if j % n == (index as int) % n {
                    if j < index { lemma_slot_distinct(j, index as int, n); } else { lemma_slot_distinct(index as int, j, n); }
                }
            }
            assert forall|i: int| self.state.tail <= i < self.state.head + n implies !#[trigger] la(self.waiters@, i) by {
                assert(la(self.waiters@, i) == la(pre.waiters@, i));
            }
            if pre.state.head < pre.state.tail { assert(la(self.waiters@, pre.state.head as int) == la(pre.waiters@, pre.state.head as int)); }
        }
//@ >>
//@ end

//@ extract sync42/src/wait_list.rs | impl WaitList<T> :: fn _unlink
//@ rewrite X24 `fn _unlink(&self, guard: &mut WaitGuard<T>)` => `fn _unlink(&mut self, guard: &mut WaitGuard)`
//@ rewrite-re X23 `(?m)^\s*let (?:mut )?state = self\.state\.lock\(\)\.unwrap\(\);\n` => ``
//@ rewrite-re X23 `(?m)^(\s*)(?:let _?(?:state|guard)|state|guard) = (.*?)\((?:state|guard)(?=[,)])(?:, )?(.*)\);$` => `\1\2(\3);`
//@ rewrite-re X20 `self\s*\.index_waitlist\((\w+(?:\.\w+)*)\)\s*\.(initialize|deinitialize)\(` => `self.index_waitlist_mut(\1).\2(`
//@ rewrite X20 `let waiter = self.index_waitlist(index);` => `let waiter = self.index_waitlist_mut(index);`
//@ rewrite-re X23 `(?<![.\w])state\.` => `self.state.`
//@ pre <<
        old(self).inv(), old(self).holds(old(guard).index),
//@ >>
//@ post <<
        final(self).inv(), final(self).n() == old(self).n(), final(self).state.tail == old(self).state.tail,
        // exactly this ticket's flag is cleared: every other linked ticket stays linked and inside the window
        forall|j: int| old(self).state.head <= j < old(self).state.tail && j != old(guard).index && old(self).linked_at(j)
            ==> final(self).state.head <= j && final(self).linked_at(j),
        forall|j: int| final(self).state.head <= j < final(self).state.tail ==> final(self).linked_at(j) == (j != old(guard).index && old(self).linked_at(j)),
        // the head moves only when the head leaves, and then to the next linked ticket (or to tail)
        old(self).state.head <= final(self).state.head <= final(self).state.tail,
        old(guard).index != old(self).state.head ==> final(self).state.head == old(self).state.head,
        forall|j: int| old(self).state.head <= j < final(self).state.head ==> j == old(guard).index || !old(self).linked_at(j),
        !final(guard).owned,
//@ >>
//@ loop 0 <<
                invariant self.inv_base(), self.n() == old(self).n(), self.state.tail == old(self).state.tail,
                    old(self).state.head <= self.state.head <= self.state.tail,
                    old(self).state.head <= index < old(self).state.tail <= old(self).state.head + self.n(),
                    self.state.waiting_for_available == old(self).state.waiting_for_available,
                    forall|s: int| 0 <= s < self.n() ==> self.waiters@[s].linked.v == (s != (index as int) % self.n() && old(self).waiters@[s].linked.v), /* contract-inv */
                    forall|j: int| old(self).state.head <= j < self.state.head ==> j == index || !old(self).linked_at(j), /* contract-inv */
                decreases self.state.tail - self.state.head,
//@ >>
//@ before `while self.state.head < self.state.tail` <<
            proof {
                let n = self.n();
                assert forall|i: int| self.state.tail <= i < self.state.head + n implies !#[trigger] la(self.waiters@, i) by {
                    assert(!la(old(self).waiters@, i));
                }
            }
//@ >>
//@ startloop 0 <<
                let ghost w0 = self.waiters@;
                let ghost h = self.state.head as int;
                proof { assert(!la(w0, h)); }
//@ >>
//@ endloop 0 <<
                proof {
                    let n = self.n();
                    // deinitialize leaves every flag alone
                    assert forall|i: int| la(self.waiters@, i) == la(w0, i) by { }
                    lemma_slot_wrap(h, n);
                    assert forall|i: int| self.state.tail <= i < self.state.head + n implies !#[trigger] la(self.waiters@, i) by {
                        if i == h + n { assert(la(w0, i) == la(w0, h)); } else { assert(!la(w0, i)); }
                    }
                    // the ticket just passed was not linked: it is ours, or it was not linked on entry either
                    if h != index {
                        if h % n == (index as int) % n {
                            if h < index { lemma_slot_distinct(h, index as int, n); } else { lemma_slot_distinct(index as int, h, n); }
                        }
                        assert(!la(old(self).waiters@, h));
                    }
                }
//@ >>
//@ afterloop 0 <<
            proof {
                let n = self.n();
                // inside the window a ticket's slot is its own: what the slots say is what the tickets say
                assert forall|j: int| old(self).state.head <= j < old(self).state.tail implies la(self.waiters@, j) == (j != index && la(old(self).waiters@, j)) by {
                    if j != index && j % n == (index as int) % n {
                        if j < index { lemma_slot_distinct(j, index as int, n); } else { lemma_slot_distinct(index as int, j, n); }
                    }
                }
            }
//@ >>
//@ end

//@ extract sync42/src/wait_list.rs | impl WaitList<T> :: fn unlink
//@ rewrite X24 `fn unlink(&self, mut guard: WaitGuard<T>)` => `fn unlink(&mut self, mut guard: WaitGuard)`
//@ rewrite-re X7 `(?s)assert!\(\s*guard\.owned,\s*"[^"]*"\s*\);` => `assert!(guard.owned);`
//@ pre <<
        old(self).inv(), old(self).holds(guard.index), guard.owned,
//@ >>
//@ post <<
        final(self).inv(), final(self).n() == old(self).n(), final(self).state.tail == old(self).state.tail,
        forall|j: int| old(self).state.head <= j < old(self).state.tail && j != guard.index && old(self).linked_at(j)
            ==> final(self).state.head <= j && final(self).linked_at(j),
        guard.index != old(self).state.head ==> final(self).state.head == old(self).state.head,
//@ >>
//@ end

//@ extract sync42/src/wait_list.rs | impl WaitList<T> :: fn notify_head
//@ rewrite-re X23 `(?m)^\s*let (?:mut )?state = self\.state\.lock\(\)\.unwrap\(\);\n` => ``
//@ rewrite-re X23 `(?<![.\w])state\.` => `self.state.`
//@ pre <<
        self.inv(),
//@ >>
//@ end
}

impl WaitGuard {
//@ extract sync42/src/wait_list.rs | impl WaitGuard<'a, T> :: fn is_head
//@ ret r
//@ rewrite X24 `fn is_head(&mut self) -> bool` => `fn is_head<T: Clone>(&mut self, list: &WaitList<T>) -> bool`
//@ rewrite-re X23 `(?m)^\s*let (?:mut )?state = self\.list\.state\.lock\(\)\.unwrap\(\);\n` => ``
//@ rewrite-re X23 `(?m)^(\s*)(?:let _?(?:state|guard)|state|guard) = (.*?)\((?:state|guard)(?=[,)])(?:, )?(.*)\);$` => `\1\2(\3);`
//@ rewrite-re X24 `\bself\.list\.` => `list.`
//@ rewrite-re X23 `(?<![.\w])state\.` => `list.state.`
//@ pre <<
        list.inv(),
//@ >>
//@ post <<
        r == (list.state.head == old(self).index),
        *final(self) == *old(self),
//@ >>
//@ end
//@ extract sync42/src/wait_list.rs | impl WaitGuard<'a, T> :: fn count
//@ ret r
//@ rewrite X24 `fn count(&mut self) -> u64` => `fn count<T: Clone>(&mut self, list: &WaitList<T>) -> u64`
//@ rewrite-re X23 `(?m)^\s*let (?:mut )?state = self\.list\.state\.lock\(\)\.unwrap\(\);\n` => ``
//@ rewrite-re X23 `(?<![.\w])state\.` => `list.state.`
//@ pre <<
        list.inv(),
//@ >>
//@ post <<
        r == list.state.tail - list.state.head,
//@ >>
//@ end
//@ extract sync42/src/wait_list.rs | impl WaitGuard<'a, T> :: fn get_waiter
//@ ret r
//@ rewrite X24 `fn get_waiter<'c, 'b: 'c>(&'b mut self, index: u64) -> Option<WaitGuard<'c, T>>` => `fn get_waiter<T: Clone>(&mut self, list: &WaitList<T>, index: u64) -> Option<WaitGuard>`
//@ rewrite-re X23 `(?m)^\s*let (?:mut )?state = self\.list\.state\.lock\(\)\.unwrap\(\);\n` => ``
//@ rewrite-re X24 `(?m)^\s*list: self\.list,\n` => ``
//@ rewrite-re X24 `\bself\s*\.list\s*\.` => `list.`
//@ rewrite-re X23 `(?<![.\w])state\.` => `list.state.`
//@ pre <<
        list.inv(),
//@ >>
//@ post <<
        // a guard is handed out only for a ticket at or behind our own that is linked right now; it is never an owning one
        r is Some ==> r->Some_0.index == index && !r->Some_0.owned && old(self).index <= index < list.state.tail && list.linked_at(index as int),
//@ >>
//@ end
    // Drop for WaitGuard (the trait-impl header is dropped): an owned guard unlinks itself
//@ extract sync42/src/wait_list.rs | impl Drop for WaitGuard<'a, T> :: fn drop
//@ rewrite X24 `fn drop(&mut self)` => `fn drop<T: Clone>(&mut self, list: &mut WaitList<T>)`
//@ rewrite-re X24 `\bself\.list\.` => `list.`
//@ pre <<
        old(list).inv(), old(self).owned ==> old(list).holds(old(self).index),
//@ >>
//@ post <<
        final(list).inv(), !final(self).owned,
        old(self).owned ==> (forall|j: int| old(list).state.head <= j < old(list).state.tail && j != old(self).index && old(list).linked_at(j)
            ==> final(list).state.head <= j && final(list).linked_at(j)),
//@ >>
//@ end
}

impl WaitIterator {
    // Iterator::next (trait-impl header dropped; the borrowed guard is only the way to the list: X24)
//@ extract sync42/src/wait_list.rs | impl Iterator for WaitIterator<'a, T> :: fn next
//@ ret r
//@ rewrite X24 `fn next(&mut self) -> Option<Self::Item>` => `fn next<T: Clone>(&mut self, list: &WaitList<T>) -> Option<WaitGuard>`
//@ rewrite-re X23 `(?m)^\s*let (?:mut )?state = self\.guard\.list\.state\.lock\(\)\.unwrap\(\);\n` => ``
//@ rewrite-re X24 `(?m)^\s*list: self\.guard\.list,\n` => ``
//@ rewrite-re X23 `(?<![.\w])state\.` => `list.state.`
//@ pre <<
        list.inv(),
//@ >>
//@ post <<
        // tickets are visited in order, each once, up to the tail; the guards handed out never own
        r is Some <==> old(self).index < list.state.tail,
        r is Some ==> r->Some_0.index == old(self).index && !r->Some_0.owned && final(self).index == old(self).index + 1,
        r is None ==> final(self).index == old(self).index,
//@ >>
//@ end
}

//@ min-verified 16
} // verus!
fn main() {}
