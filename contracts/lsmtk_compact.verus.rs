// Unit lsmtk_compact (C05, compaction half and GC bookkeeping): the two copy loops of lsmtk/src/tree/mod.rs --
// LsmTree::perform_compaction and LsmTree::perform_garbage_collection -- extracted as REGIONS of those functions (rule
// X16: the loop statement is taken verbatim, the template supplies a signature whose parameters are the loop's free
// variables) and proved over ANY cursor obeying the Cursor contract, tables of every size:
//   * a compaction that is not a GC hands the multi-builder every entry of the merged input, once, in order
//     (with unit cur_merging: merged input = the sorted union of the input files => the multiset of entries is conserved);
//   * a GC hands the multi-builder exactly the entries whose (key, timestamp) the collector emits, adds every other entry
//     to the discard accumulator, and loses or duplicates nothing: retained ++ discarded is a re-ordering of the input.
//   * the WHOLE of perform_compaction and perform_garbage_collection, the loop text replaced by a call to the region
//     function just proved: compaction_finish receives the edit and input setsum compaction_setup produced, and either
//     (zero discard, files = the merged inputs) or, bottom level only, (files = what the collector retains, discard = the rest).
// SstMultiBuilder::put/del append the entry to its output: contract PROVED in unit sst_multi (blocks: units sst_blockb/sst_block);
// the three-statement setsum update is read as `discard += setsum(entry)`; KeyRef ordering as proved in sst_kernels.
use vstd::prelude::*;
use std::cmp::Ordering;
verus! {
global size_of usize == 8;

//@ include cursor_spec.inc.rs

// Compaction / CompactionCore: only the fields the extracted code touches; the Arc between them is read through (X18)
#[verifier::external_body]
struct OtherCore { _p: u8 }
struct CompactionCore { lower_level: usize, upper_level: usize, rest: OtherCore }
struct Compaction { core: CompactionCore }
#[verifier::external_body]
#[derive(Clone, Copy)]
struct Setsum { _p: u8 }
//@ extract lsmtk/src/tree/mod.rs | const NUM_LEVELS
//@ end
impl Compaction {
    // GC is restricted to compactions whose upper level is the last level
//@ extract lsmtk/src/tree/mod.rs | impl Compaction :: fn top_level
//@ ret r
//@ post <<
        r == (self.core.upper_level == NUM_LEVELS - 1),
//@ >>
//@ end
    // compaction.inputs(): `self.core.inputs.iter().copied()`
    uninterp spec fn n_inputs(&self) -> nat;
    #[verifier::external_body]
    fn inputs_len(&self) -> (r: usize) ensures r == self.n_inputs() { unimplemented!() }
    #[verifier::external_body]
    fn input(&self, idx: usize) -> (r: Setsum) requires idx < self.n_inputs() { unimplemented!() }
}
#[verifier::external_body]
struct SplitHint { _p: u8 }
impl SplitHint {
    #[verifier::external_body]
    fn witness(&mut self, key: &[u8]) -> (r: bool) { unimplemented!() }
}
// the multi-builder: what it has been given so far
#[verifier::external_body]
struct SstMultiBuilder { _p: u8 }
impl SstMultiBuilder {
    uninterp spec fn out(&self) -> Seq<Ent>;
    #[verifier::external_body]
    fn put(&mut self, key: &[u8], timestamp: u64, value: &[u8]) -> (r: Result<(), SError>)
        ensures r is Ok ==> final(self).out() == old(self).out().push(Ent { key: key@, ts: timestamp, val: Some(value@) }),
    { unimplemented!() }
    #[verifier::external_body]
    fn del(&mut self, key: &[u8], timestamp: u64) -> (r: Result<(), SError>)
        ensures r is Ok ==> final(self).out() == old(self).out().push(Ent { key: key@, ts: timestamp, val: None }),
    { unimplemented!() }
    #[verifier::external_body]
    fn split_hint(&mut self) -> (r: Result<(), SError>)
        ensures r is Ok ==> final(self).out() == old(self).out(),
    { unimplemented!() }
}

spec fn ent_of(kvr: KeyValueRef<'_>) -> Ent {
    Ent { key: kvr.key@, ts: kvr.timestamp, val: match kvr.value { Some(v) => Some(v@), None => None } }
}
proof fn lemma_kvref(kvr: KeyValueRef<'_>, s: Seq<Ent>, p: int)
    requires kvref_is(Some(kvr), s, p)
    ensures 0 <= p < s.len(), ent_of(kvr) == s[p]
{ }

// ---------------------------------------------------------------- compaction: copy everything
//@ extract lsmtk/src/tree/mod.rs | impl LsmTree :: fn perform_compaction
//@ region `'looping: loop {`
//@ region-sig <<
fn compaction_copy<C: Cursor>(cursor: &mut C, sstmb: &mut SstMultiBuilder, compaction: &Compaction, split_hint: &mut SplitHint) -> (r: Result<(), SError>)
//@ >>
//@ region-tail <<
    Ok(())
//@ >>
//@ pre <<
        old(cursor).wf(), old(cursor).pos() == -1,
//@ >>
//@ post <<
        r is Ok ==> final(sstmb).out() == old(sstmb).out() + old(cursor).ents() && final(cursor).ents() == old(cursor).ents(),
//@ >>
//@ bodystart <<
    let ghost ee = cursor.ents();
    let ghost out0 = sstmb.out();
    proof { assert(out0 + ee.subrange(0, 0) =~= out0); }
//@ >>
//@ loop 0 <<
        invariant_except_break
            cursor.wf(), -1 <= cursor.pos() < ee.len(),
            /* contract-inv */ sstmb.out() == out0 + ee.subrange(0, cursor.pos() + 1),
        invariant
            cursor.ents() == ee,
        ensures
            sstmb.out() == out0 + ee,
        decreases ee.len() - cursor.pos(),
//@ >>
//@ after `cursor.next()?;` <<
        proof { cursor.lemma_cursor_laws(); }
//@ >>
//@ before `break 'looping;` <<
                    proof { assert(cursor.pos() == ee.len()); assert(ee.subrange(0, ee.len() as int) =~= ee); }
//@ >>
//@ before `if !compaction.top_level() && split_hint.witness(kvr.key) {` <<
        let ghost p = cursor.pos();
        proof { lemma_kvref(kvr, ee, p); }
//@ >>
//@ endloop 0 <<
        proof { assert(out0 + ee.subrange(0, p).push(ee[p]) =~= out0 + ee.subrange(0, p + 1)); assert((out0 + ee.subrange(0, p)).push(ee[p]) =~= out0 + ee.subrange(0, p).push(ee[p])); }
//@ >>
//@ end

// ---------------------------------------------------------------- garbage collection: keep what the collector emits
//@ extract sst/src/lib.rs | fn logic_error
//@ external-body
//@ optional
//@ end
#[verifier::external_body]
fn logic_error_gc(msg: &str) -> (r: SError) { unimplemented!() }

// the collector (sst::gc::GarbageCollector, contract of its next() proved in unit sst_gc): what it will still emit
#[verifier::external_body]
struct Gc { _p: u8 }
type KT = (Seq<u8>, u64);
impl Gc {
    uninterp spec fn rest(&self) -> Seq<KT>;
    #[verifier::external_body]
    // (the stub returns a KeyRef that does not borrow the collector, so that the proof may look at the collector while
    // the loop holds the key; the real one borrows -- the loop itself compiles under either signature)
    fn next(&mut self) -> (r: Result<Option<KeyRef<'static>>, SError>)
        ensures r is Ok ==> match r->Ok_0 {
            Some(k) => old(self).rest().len() > 0 && (k.key@, k.timestamp) == old(self).rest()[0] && final(self).rest() == old(self).rest().drop_first(),
            None => old(self).rest().len() == 0 && final(self).rest() == old(self).rest(),
        },
    { unimplemented!() }
}
// the discard accumulator: `let mut setsum = sst::Setsum::default(); setsum.insert(kvr); discard += setsum.into_inner();`
// adds the setsum of one entry (setsum algebra: C14)
#[verifier::external_body]
struct Discard { _p: u8 }
impl Discard {
    uninterp spec fn items(&self) -> Seq<Ent>;
    #[verifier::external_body]
    fn new() -> (r: Discard)
        ensures r.items() == Seq::<Ent>::empty(),
    { unimplemented!() }
    #[verifier::external_body]
    fn add_entry(&mut self, kvr: KeyValueRef<'_>)
        ensures final(self).items() == old(self).items().push(ent_of(kvr)),
    { unimplemented!() }
}
// `gcn.cmp(&KeyRef::from(&kvr))`: the entry order on (key, timestamp) (KeyRef::cmp, proved in sst_kernels / sst_blockb)
fn keyref_cmp(gcn: &KeyRef<'_>, kvr: &KeyValueRef<'_>) -> (r: Ordering)
    ensures r == Ordering::Equal <==> (gcn.key@ == kvr.key@ && gcn.timestamp == kvr.timestamp),
        r == Ordering::Less <==> kt_lt(gcn.key@, gcn.timestamp, kvr.key@, kvr.timestamp),
{
    proof { lemma_lex_order_total(); }
    if bytes_lt(gcn.key, kvr.key) { Ordering::Less }
    else if bytes_lt(kvr.key, gcn.key) { Ordering::Greater }
    else if gcn.timestamp > kvr.timestamp { Ordering::Less }
    else if gcn.timestamp < kvr.timestamp { Ordering::Greater }
    else { Ordering::Equal }
}

// what is kept and what is dropped of the entries from index i on, given what the collector still emits
spec fn kept(e: Seq<Ent>, i: int, g: Seq<KT>) -> Seq<Ent>
    decreases e.len() - i
{
    if i < 0 || i >= e.len() { Seq::<Ent>::empty() }
    else if g.len() > 0 && g[0] == (e[i].key, e[i].ts) { seq![e[i]] + kept(e, i + 1, g.drop_first()) }
    else { kept(e, i + 1, g) }
}
spec fn dropped(e: Seq<Ent>, i: int, g: Seq<KT>) -> Seq<Ent>
    decreases e.len() - i
{
    if i < 0 || i >= e.len() { Seq::<Ent>::empty() }
    else if g.len() > 0 && g[0] == (e[i].key, e[i].ts) { dropped(e, i + 1, g.drop_first()) }
    else { seq![e[i]] + dropped(e, i + 1, g) }
}
// nothing is lost, nothing is duplicated: kept and dropped together are the entries, as multisets
proof fn lemma_conserved(e: Seq<Ent>, i: int, g: Seq<KT>)
    requires 0 <= i <= e.len()
    ensures kept(e, i, g).to_multiset().add(dropped(e, i, g).to_multiset()) == e.subrange(i, e.len() as int).to_multiset()
    decreases e.len() - i
{
    broadcast use vstd::seq_lib::group_to_multiset_ensures;
    if i == e.len() {
        assert(e.subrange(i, e.len() as int) =~= Seq::<Ent>::empty());
    } else {
        let tail = e.subrange(i + 1, e.len() as int);
        assert(e.subrange(i, e.len() as int) =~= seq![e[i]] + tail);
        vstd::seq_lib::lemma_multiset_commutative(seq![e[i]], tail);
        if g.len() > 0 && g[0] == (e[i].key, e[i].ts) {
            lemma_conserved(e, i + 1, g.drop_first());
            vstd::seq_lib::lemma_multiset_commutative(seq![e[i]], kept(e, i + 1, g.drop_first()));
        } else {
            lemma_conserved(e, i + 1, g);
            vstd::seq_lib::lemma_multiset_commutative(seq![e[i]], dropped(e, i + 1, g));
        }
        assert(seq![e[i]].to_multiset() =~= vstd::multiset::Multiset::singleton(e[i]));
    }
}
spec fn gseq(n: Option<KeyRef<'_>>, rest: Seq<KT>) -> Seq<KT> {
    match n { Some(k) => seq![(k.key@, k.timestamp)] + rest, None => rest }
}

//@ extract lsmtk/src/tree/mod.rs | impl LsmTree :: fn perform_garbage_collection
//@ region `let mut gc_next = gc.next()?;` .. `'looping: loop {`
//@ region-sig <<
fn gc_copy<C: Cursor>(cursor: &mut C, gc: &mut Gc, sstmb: &mut SstMultiBuilder) -> (r: Result<Discard, SError>)
//@ >>
//@ region-tail <<
    Ok(discard)
//@ >>
//@ rewrite X7 `let mut discard = Setsum::default();` => `let mut discard = Discard::new();`
//@ rewrite-re X7 `let mut setsum = sst::Setsum::default\(\);\s*setsum\.insert\(kvr\);\s*discard \+= setsum\.into_inner\(\);` => `discard.add_entry(kvr);`
//@ rewrite-re X9 `match gcn\.cmp\(&KeyRef::from\(&kvr\)\) \{` => `match keyref_cmp(&gcn, &kvr) {`
//@ rewrite X7 `return Err(logic_error("gc iterator out of sync with inputs"));` => `return Err(logic_error_gc("gc iterator out of sync with inputs"));`
//@ pre <<
        old(cursor).wf(), old(cursor).pos() == -1,
//@ >>
//@ post <<
        r is Ok ==> final(cursor).ents() == old(cursor).ents()
            && final(sstmb).out() == old(sstmb).out() + kept(old(cursor).ents(), 0, old(gc).rest())
            && r->Ok_0.items() == dropped(old(cursor).ents(), 0, old(gc).rest()),
//@ >>
//@ bodystart <<
    let ghost ee = cursor.ents();
    let ghost out0 = sstmb.out();
    let ghost g0 = gc.rest();
//@ >>
//@ before `'looping: loop {` <<
    proof {
        assert(gseq(gc_next, gc.rest()) =~= g0);
        assert(out0 + kept(ee, 0, g0) =~= sstmb.out() + kept(ee, 0, g0));
        assert(Seq::<Ent>::empty() + dropped(ee, 0, g0) =~= dropped(ee, 0, g0));
    }
//@ >>
//@ loop 0 <<
        invariant_except_break
            cursor.wf(), -1 <= cursor.pos() < ee.len(),
            /* contract-inv */ out0 + kept(ee, 0, g0) == sstmb.out() + kept(ee, cursor.pos() + 1, gseq(gc_next, gc.rest())),
            /* contract-inv */ dropped(ee, 0, g0) == discard.items() + dropped(ee, cursor.pos() + 1, gseq(gc_next, gc.rest())),
            gc_next is None ==> gc.rest().len() == 0,
        invariant
            cursor.ents() == ee,
        ensures
            sstmb.out() == out0 + kept(ee, 0, g0), discard.items() == dropped(ee, 0, g0),
        decreases ee.len() - cursor.pos(),
//@ >>
//@ startloop 0 <<
        let ghost gcur = gseq(gc_next, gc.rest());
        let ghost outp = sstmb.out();
        let ghost disp = discard.items();
//@ >>
//@ after `cursor.next()?;` <<
        proof { cursor.lemma_cursor_laws(); }
//@ >>
//@ before `break 'looping;` <<
                    proof {
                        assert(cursor.pos() == ee.len());
                        assert(sstmb.out() + Seq::<Ent>::empty() =~= sstmb.out());
                        assert(discard.items() + Seq::<Ent>::empty() =~= discard.items());
                    }
//@ >>
//@ before `let retain = if let Some(gcn) = gc_next {` <<
        let ghost p = cursor.pos();
        proof { lemma_kvref(kvr, ee, p); }
//@ >>
//@ endloop 0 <<
        proof {
            // extensionality hints only, each guarded by its own truth so that a failing step shows up as the failing invariant
            let gnew = gseq(gc_next, gc.rest());
            if gcur.len() > 0 && gnew.len() == gcur.len() - 1 && (forall|i: int| 0 <= i < gnew.len() ==> gnew[i] == gcur[i + 1]) { assert(gnew =~= gcur.drop_first()); }
            if gnew.len() == gcur.len() && (forall|i: int| 0 <= i < gnew.len() ==> gnew[i] == gcur[i]) { assert(gnew =~= gcur); }
            assert(outp + (seq![ee[p]] + kept(ee, p + 1, gnew)) =~= outp.push(ee[p]) + kept(ee, p + 1, gnew));
            assert(disp + (seq![ee[p]] + dropped(ee, p + 1, gnew)) =~= disp.push(ee[p]) + dropped(ee, p + 1, gnew));
        }
//@ >>
//@ end

// ---------------------------------------------------------------- which compactions collect garbage
// the head of perform_compaction: a single-input compaction is a move, a compaction into the last level is a garbage
// collection, everything else is copied entry for entry (compaction_copy above).  The obligations are the call-site
// preconditions: perform_garbage_collection is entered only with upper_level == NUM_LEVELS - 1.
#[verifier::external_body]
struct LsmTree { _p: u8 }
// ---- the whole of perform_compaction / perform_garbage_collection: the copy loops are the region functions above (their
// text is replaced by a call to them), everything around them is stubbed by contract; what is decided here is the GLUE:
// that the edit, the input setsum, the cursor over the merged inputs, the discard and the output files reach
// compaction_finish unchanged, so that -- with the contracts of the loops -- a compaction hands compaction_finish files
// that hold exactly the merged inputs (discard zero), and a garbage collection files that hold exactly what the collector
// retains together with a discard made of exactly the rest.
#[verifier::external_body]
struct Edit { _p: u8 }
impl Edit {
    #[verifier::external_body]
    fn default() -> (r: Edit) { unimplemented!() }
}
#[verifier::external_body]
struct DirPath { _p: u8 }
impl DirPath {
    #[verifier::external_body]
    fn clone(&self) -> (r: DirPath) { unimplemented!() }
}
#[verifier::external_body]
struct Paths { _p: u8 }
impl Paths { uninterp spec fn content(&self) -> Seq<Ent>; }
impl SstMultiBuilder {
    // Builder::seal (unit sst_multi): the files handed back hold exactly what was accepted
    #[verifier::external_body]
    fn seal(self) -> (r: Result<Paths, SError>)
        ensures r is Ok ==> r->Ok_0.content() == self.out(),
    { unimplemented!() }
}
// MergingCursor<SstCursor> over the input files (C11: the sorted union of the inputs)
#[verifier::external_body]
struct MCursor { _p: u8 }
uninterp spec fn mc_ents(c: MCursor) -> Seq<Ent>;
uninterp spec fn mc_pos(c: MCursor) -> int;
uninterp spec fn mc_wf_base(c: MCursor) -> bool;
uninterp spec fn mc_wf(c: MCursor) -> bool;
uninterp spec fn mc_key(c: MCursor) -> Option<(Seq<u8>, u64)>;
uninterp spec fn mc_val(c: MCursor) -> Option<Seq<u8>>;
impl Cursor for MCursor {
    spec fn ents(&self) -> Seq<Ent> { mc_ents(*self) }
    spec fn pos(&self) -> int { mc_pos(*self) }
    spec fn wf_base(&self) -> bool { mc_wf_base(*self) }
    spec fn wf(&self) -> bool { mc_wf(*self) }
    spec fn key_spec(&self) -> Option<(Seq<u8>, u64)> { mc_key(*self) }
    spec fn val_spec(&self) -> Option<Seq<u8>> { mc_val(*self) }
    #[verifier::external_body]
    proof fn lemma_cursor_laws(&self) { }
    #[verifier::external_body]
    fn seek_to_first(&mut self) -> Result<(), SError> { unimplemented!() }
    #[verifier::external_body]
    fn seek_to_last(&mut self) -> Result<(), SError> { unimplemented!() }
    #[verifier::external_body]
    fn seek(&mut self, key: &[u8]) -> Result<(), SError> { unimplemented!() }
    #[verifier::external_body]
    fn prev(&mut self) -> Result<(), SError> { unimplemented!() }
    #[verifier::external_body]
    fn next(&mut self) -> Result<(), SError> { unimplemented!() }
    #[verifier::external_body]
    fn key(&self) -> Option<KeyRef<'_>> { unimplemented!() }
    #[verifier::external_body]
    fn value(&self) -> Option<&[u8]> { unimplemented!() }
}
// what compaction_setup establishes between the compaction, the edit and the setsum it returns (unit lsmtk_balance:
// every input removed by the edit, the setsum is their sum), and the entries of the inputs
uninterp spec fn setup_ok(c: Compaction, e: Edit, s: Setsum) -> bool;
uninterp spec fn inputs_ents(c: Compaction) -> Seq<Ent>;
// what the configured policy retains of a table when the collector is handed a cursor standing at position `from`
// ("a cursor positioned at the first key to be considered": unit sst_gc)
uninterp spec fn gc_plan(e: Seq<Ent>, from: int) -> Seq<KT>;
impl MCursor {
    #[verifier::external_body]
    fn clone(&self) -> (r: MCursor) ensures r == *self { unimplemented!() }
}
impl Setsum {
    uninterp spec fn is_zero(&self) -> bool;
    #[verifier::external_body]
    fn default() -> (r: Setsum) ensures r.is_zero() { unimplemented!() }
}
impl Discard {
    // the accumulated discard as the setsum handed to compaction_finish
    uninterp spec fn of(s: Setsum) -> Seq<Ent>;
}
impl LsmTree {
    #[verifier::external_body]
    fn apply_moving_compaction(&self, compaction: Compaction, output: Setsum) -> (r: Result<(), SError>)
        requires compaction.n_inputs() == 1,
    { unimplemented!() }
    #[verifier::external_body]
    fn compaction_setup(&self, compaction: &Compaction, mani_edit: &mut Edit) -> (r: Result<(Setsum, MCursor, DirPath), SError>)
        ensures r is Ok ==> setup_ok(*compaction, *final(mani_edit), r->Ok_0.0) && r->Ok_0.1.wf_base() && r->Ok_0.1.ents() == inputs_ents(*compaction),
    { unimplemented!() }
    // `let version = self.take_snapshot(); let mut split_hint = SplitHint::new(version.version.clone());`
    #[verifier::external_body]
    fn new_split_hint(&self) -> (r: SplitHint) { unimplemented!() }
    // `SstMultiBuilder::new(compaction_dir.clone(), ".sst".to_string(), self.options.sst.clone())` (unit sst_multi)
    #[verifier::external_body]
    fn new_multi_builder(&self, dir: DirPath) -> (r: SstMultiBuilder) ensures r.out() == Seq::<Ent>::empty() { unimplemented!() }
    // `self.options.gc_policy.collector(gc_cursor, 0)`: the collector works from where the cursor it is given stands
    #[verifier::external_body]
    fn new_collector(&self, cursor: MCursor) -> (r: Result<Gc, SError>)
        requires cursor.wf(),
        ensures r is Ok ==> r->Ok_0.rest() == gc_plan(cursor.ents(), cursor.pos()),
    { unimplemented!() }
    // compaction_finish: what it may assume of its arguments (unit lsmtk_balance carries on from setup_ok)
    #[verifier::external_body]
    fn compaction_finish(&self, compaction: Compaction, compaction_dir: DirPath, paths: Paths, input_setsum: Setsum, discard_setsum: Setsum, mani_edit: Edit) -> (r: Result<(), SError>)
        requires setup_ok(compaction, mani_edit, input_setsum),
            // the output files and the discard account for the inputs: nothing else is written, nothing else is dropped
            // either a plain compaction: the files hold exactly the merged inputs and nothing is discarded ...
            (discard_setsum.is_zero() && paths.content() == inputs_ents(compaction))
            // ... or a garbage collection of the bottom level: the files hold what the policy retains, the discard is the rest
            || (compaction.core.upper_level == NUM_LEVELS - 1
                && paths.content() == kept(inputs_ents(compaction), 0, gc_plan(inputs_ents(compaction), 0))
                && Discard::of(discard_setsum) == dropped(inputs_ents(compaction), 0, gc_plan(inputs_ents(compaction), 0))),
    { unimplemented!() }

//@ extract lsmtk/src/tree/mod.rs | impl LsmTree :: fn perform_compaction
//@ ret r
//@ rewrite X13 `compaction.inputs().count()` => `compaction.inputs_len()`
//@ rewrite X13 `compaction.inputs().next().unwrap()` => `compaction.input(0)`
//@ rewrite-re X7 `let version = self\.take_snapshot\(\);` => `let version = ();`
//@ rewrite-re X7 `SplitHint::new\(version\.version\.clone\(\)\)` => `self.new_split_hint()`
//@ rewrite-re X7 `(?s)SstMultiBuilder::new\(\s*compaction_dir\.clone\(\),\s*"\.sst"\.to_string\(\),\s*self\.options\.sst\.clone\(\),\s*\)` => `self.new_multi_builder(compaction_dir.clone())`
//@ rewrite-re X16 `(?s)'looping: loop \{.*?\n        \}\n        drop\(cursor\);` => `compaction_copy(&mut cursor, &mut sstmb, &compaction, &mut split_hint)?;`
//@ end

//@ extract lsmtk/src/tree/mod.rs | impl LsmTree :: fn perform_garbage_collection
//@ ret r
//@ rewrite-re X7 `self\.options\.gc_policy\.collector\((\w+), 0\)` => `self.new_collector(\1)`
//@ rewrite-re X7 `(?s)SstMultiBuilder::new\(\s*compaction_dir\.clone\(\),\s*"\.sst"\.to_string\(\),\s*self\.options\.sst\.clone\(\),\s*\)` => `self.new_multi_builder(compaction_dir.clone())`
//@ rewrite-re X16 `(?s)let mut gc_next = gc\.next\(\)\?;.*?\n        \}\n        drop\(cursor\);` => `let discard = gc_copy(&mut cursor, &mut gc, &mut sstmb)?.into_setsum();`
//@ pre <<
        compaction.core.upper_level == NUM_LEVELS - 1,
//@ >>
//@ end
}
impl Discard {
    // `discard` (a setsum::Setsum accumulated entry by entry) as handed on
    #[verifier::external_body]
    fn into_setsum(self) -> (r: Setsum) ensures Discard::of(r) == self.items() { unimplemented!() }
}
//@ extract lsmtk/src/tree/mod.rs | impl LsmTree :: fn perform_compaction
//@ region `if compaction.inputs_len()` .. `compaction.top_level()`
//@ region-sig <<
fn compaction_dispatch(tree: &LsmTree, compaction: Compaction) -> (r: Result<(), SError>)
//@ >>
//@ region-tail <<
    Ok(())
//@ >>
//@ rewrite X13 `compaction.inputs().count()` => `compaction.inputs_len()`
//@ rewrite X13 `compaction.inputs().next().unwrap()` => `compaction.input(0)`
//@ rewrite-re X18 `\bself\.` => `tree.`
//@ end

//@ contract-lemma lemma_conserved
//@ min-verified 7
} // verus!
fn main() {}
