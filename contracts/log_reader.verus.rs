// Unit log_reader (C09 for the write-ahead log, and the reader half of C12's framing arithmetic):
// LogIterator::{next_header, true_up} on ARBITRARY input.  The reader (`BufReader<R>`) is an opaque
// type whose calls return arbitrary results of the right shape, the header decoder returns an ARBITRARY
// Header -- so every obligation below holds for every byte string a damaged file can contain:
//   * no slice index out of bounds (the 19-byte header buffer is indexed by a size byte read from the file),
//   * no arithmetic overflow/underflow (`trued_up - offset`),
//   * a returned header never announces more than TABLE_FULL_SIZE payload bytes (bounded allocation),
//   * zero padding is skipped only up to the next 2^20 boundary and never by more than HEADER_MAX_SIZE.
use vstd::prelude::*;
use std::io::SeekFrom;
verus! {
global size_of usize == 8;

#[verifier::external_type_specification]
pub struct ExSeekFrom(std::io::SeekFrom);

#[verifier::external_body]
struct SError { _p: u8 }
//@ stubs sst/src/lib.rs -> SError
#[verifier::external_body]
struct IoError { _p: u8 }
// BufReader<R: Read + Seek>: opaque; its calls may return anything
#[verifier::external_body]
struct Input { _p: u8 }
spec fn seek_start(to: SeekFrom) -> Option<u64> { match to { SeekFrom::Start(x) => Some(x), _ => None } }
impl Input {
    // where the reader stands (any value; reads move it arbitrarily)
    uninterp spec fn at(&self) -> u64;
    #[verifier::external_body]
    fn read_exact(&mut self, buf: &mut [u8]) -> (r: Result<(), IoError>)
        ensures final(buf)@.len() == old(buf)@.len(),
    { unimplemented!() }
    // ASSUMED: stream positions are file offsets (representable as i64)
    #[verifier::external_body]
    fn stream_position(&mut self) -> (r: Result<u64, IoError>)
        ensures r is Ok ==> r->Ok_0 <= 0x7fff_ffff_ffff_ffff && r->Ok_0 == old(self).at(), final(self).at() == old(self).at(),
    { unimplemented!() }
    #[verifier::external_body]
    fn seek(&mut self, to: SeekFrom) -> (r: Result<u64, IoError>)
        ensures r is Ok && seek_start(to) is Some ==> final(self).at() == seek_start(to)->Some_0,
            r is Err ==> final(self).at() == old(self).at(),
    { unimplemented!() }
    // `self.input.stream_position().unwrap_or(0)` (only ever an argument of an error constructor)
    #[verifier::external_body]
    fn position_or_zero(&mut self) -> (r: u64)
        ensures final(self).at() == old(self).at(),
    { unimplemented!() }
}
#[verifier::external_body]
fn is_unexpected_eof(err: &IoError) -> (r: bool) { unimplemented!() }
#[verifier::external_body]
fn io_result<T>(result: Result<T, IoError>) -> (r: Result<T, SError>)
    ensures (r is Ok) == (result is Ok), r is Ok ==> r->Ok_0 == result->Ok_0,
{ unimplemented!() }
#[verifier::external_body]
fn system_error(err: IoError) -> (r: SError) { unimplemented!() }

//@ extract sst/src/log.rs | const BLOCK_BITS
//@ end
//@ extract sst/src/log.rs | const BLOCK_SIZE
//@ post <<
        BLOCK_SIZE == 1048576,
//@ >>
//@ bodystart <<
    proof { assert(1u64 << 20 == 1048576) by (bit_vector); }
//@ >>
//@ end
//@ extract sst/src/log.rs | const HEADER_MAX_SIZE
//@ post <<
        HEADER_MAX_SIZE == 19,
//@ >>
//@ end
//@ extract sst/src/lib.rs | const TABLE_FULL_SIZE
//@ post <<
        TABLE_FULL_SIZE == 1073741824 - 67108864,
//@ >>
//@ bodystart <<
    proof { assert(1usize << 30 == 1073741824) by (bit_vector); assert(1usize << 26 == 67108864) by (bit_vector); }
//@ >>
//@ end
//@ extract sst/src/log.rs | struct Header
//@ end

// the derive-generated decoder: ANY header may come back (contents of a damaged file are arbitrary)
#[verifier::external_body]
fn unpack_header(buf: &[u8]) -> (r: Result<Header, SError>) { unimplemented!() }

//@ extract sst/src/lib.rs | fn corruption_header_size_exceeds_max
//@ external-body
//@ optional
//@ end
//@ extract sst/src/lib.rs | fn corruption_entry_size_exceeds_max
//@ external-body
//@ optional
//@ end
//@ extract sst/src/lib.rs | fn corruption_true_up_exceeds_header_max
//@ external-body
//@ optional
//@ end

spec fn is_boundary(x: int) -> bool { x % 1048576 == 0 }
proof fn lemma_shift(offset: u64)
    ensures (offset >> 20) as int == offset as int / 1048576, (offset >> 20) < 0x1000_0000_0000,
        offset <= 0x7fff_ffff_ffff_ffff ==> (offset >> 20) < 0x800_0000_0000,
{
    assert((offset >> 20) == offset / 1048576) by (bit_vector);
    assert((offset >> 20) < 0x1000_0000_0000) by (bit_vector);
    assert(offset <= 0x7fff_ffff_ffff_ffff ==> (offset >> 20) < 0x800_0000_0000) by (bit_vector);
}
proof fn lemma_shl(k: u64)
    requires k < 0x1000_0000_0000
    ensures (k << 20) as int == k as int * 1048576
{
    assert(k < 0x1000_0000_0000 ==> (k << 20) == k * 1048576) by (bit_vector);
}
//@ extract sst/src/log.rs | fn block_offset
//@ ret r
//@ post <<
        r as int == offset as int / 1048576, r < 0x1000_0000_0000,
//@ >>
//@ bodystart <<
    proof { lemma_shift(offset); }
//@ >>
//@ end
//@ extract sst/src/log.rs | fn next_boundary
//@ ret r
//@ pre <<
        offset <= 0x7fff_ffff_ffff_ffff,
//@ >>
//@ post <<
        (r as int) > (offset as int), (r as int) - (offset as int) <= 1048576, is_boundary(r as int),
//@ >>
//@ bodystart <<
    proof {
        lemma_shift(offset);
        lemma_shl(((offset >> 20) + 1) as u64);
        let q = offset as int / 1048576;
        assert(offset as int == q * 1048576 + offset as int % 1048576) by { vstd::arithmetic::div_mod::lemma_fundamental_div_mod(offset as int, 1048576); }
        assert(((q + 1) * 1048576) % 1048576 == 0) by { vstd::arithmetic::div_mod::lemma_mod_multiples_basic(q + 1, 1048576); }
        assert((q + 1) * 1048576 == q * 1048576 + 1048576) by (nonlinear_arith);
    }
//@ >>
//@ end
//@ extract sst/src/log.rs | fn compute_true_up
//@ ret r
//@ pre <<
        offset <= 0x7fff_ffff_ffff_ffff,
//@ >>
//@ post <<
        r >= offset, is_boundary(r as int), (r as int) - (offset as int) < 1048576,
//@ >>
//@ bodystart <<
    proof {
        lemma_shift(offset);
        lemma_shl((offset >> 20) as u64);
        let q = offset as int / 1048576;
        vstd::arithmetic::div_mod::lemma_fundamental_div_mod(offset as int, 1048576);
        vstd::arithmetic::div_mod::lemma_mod_multiples_basic(q, 1048576);
        assert(offset as int == 1048576 * q + offset as int % 1048576);
        assert(1048576 * q == q * 1048576) by (nonlinear_arith);
    }
//@ >>
//@ end

// only the fields these methods touch (the real struct is generic over R: Read + Seek)
struct LogIterator { input: Input, buffer: Vec<u8>, buffer_idx: usize }
//@ extract sst/src/lib.rs | struct KeyValueRef
//@ end
//@ extract sst/src/log.rs | const HEADER_WHOLE
//@ end
//@ extract sst/src/log.rs | const HEADER_FIRST
//@ end
//@ extract sst/src/log.rs | const HEADER_SECOND
//@ end
//@ extract sst/src/lib.rs | fn corruption_crc_checksum_failed
//@ external-body
//@ optional
//@ end
//@ extract sst/src/lib.rs | fn corruption_truncation_no_second_header
//@ external-body
//@ optional
//@ end
//@ extract sst/src/lib.rs | fn corruption_invalid_discriminant
//@ external-body
//@ optional
//@ end

// `self.buffer.resize(n, 0); let buffer = &mut self.buffer[start..]; io_result(self.input.read_exact(buffer))?;`
// is read through this helper (Verus has no mutable sub-slice borrow of a Vec): the buffer has n bytes afterwards,
// with ARBITRARY contents, and the read may fail
#[verifier::external_body]
fn read_tail(input: &mut Input, buffer: &mut Vec<u8>, start: usize, n: usize) -> (r: Result<(), IoError>)
    requires start == old(buffer)@.len(), start <= n,
    ensures final(buffer)@.len() == n,
{ unimplemented!() }
#[verifier::external_body]
fn tail_of(buffer: &Vec<u8>, start: usize) -> (r: &[u8])
    requires start <= buffer@.len(),
    ensures r@ == buffer@.subrange(start as int, buffer@.len() as int),
{ unimplemented!() }
// CRC32C of damaged bytes: any value
#[verifier::external_body]
fn crc32c_of(buffer: &[u8]) -> (r: u32) { unimplemented!() }

impl LogIterator {
    // entry decoding inside a loaded batch: the derive-generated KeyValueEntry decoder (C15 harnesses), not interpreted here
//@ extract sst/src/log.rs | impl LogIterator<R> :: fn next_from_buffer
//@ ret r
//@ post <<
        final(self).buffer@ == old(self).buffer@,
//@ >>
//@ external-body
//@ end

    // a frame never makes the buffer grow by more than TABLE_FULL_SIZE: bounded allocation whatever the file holds
//@ extract sst/src/log.rs | impl LogIterator<R> :: fn next_frame
//@ ret r
//@ rewrite-re X7 `self\.buffer\.resize\(buffer_new_sz, 0\);\s*let buffer = &mut self\.buffer\[buffer_start_sz\.\.\];\s*io_result\(self\.input\.read_exact\(buffer\)\)\?;` => `io_result(read_tail(&mut self.input, &mut self.buffer, buffer_start_sz, buffer_new_sz))?; let buffer = tail_of(&self.buffer, buffer_start_sz);`
//@ rewrite-re X7 `crc32c::crc32c\(` => `crc32c_of(`
//@ rewrite-re X7 `self\.input\.stream_position\(\)\.unwrap_or\(0\)` => `self.input.position_or_zero()`
//@ pre <<
        old(self).buffer@.len() <= 0x4000_0000,
//@ >>
//@ post <<
        final(self).buffer@.len() <= old(self).buffer@.len() + (1073741824 - 67108864),
//@ >>
//@ end

    // a call of next() that has to load a batch: never more than two frames, so never more than 2 * TABLE_FULL_SIZE bytes
//@ extract sst/src/log.rs | impl LogIterator<R> :: fn next
//@ ret r
//@ rewrite-re X7 `self\.input\.stream_position\(\)\.unwrap_or\(0\)` => `self.input.position_or_zero()`
//@ post <<
        final(self).buffer@.len() <= old(self).buffer@.len() + 2 * (1073741824 - 67108864) || final(self).buffer@.len() <= 2 * (1073741824 - 67108864),
//@ >>
//@ end

//@ extract sst/src/log.rs | impl LogIterator<R> :: fn true_up
//@ ret r
//@ post <<
        final(self).buffer@ == old(self).buffer@,
        // padding is skipped only up to the next 2^20 boundary and never by more than HEADER_MAX_SIZE bytes
        r is Ok ==> final(self).input.at() >= old(self).input.at() && final(self).input.at() - old(self).input.at() <= 19
            && is_boundary(final(self).input.at() as int),
//@ >>
//@ end

//@ extract sst/src/log.rs | impl LogIterator<R> :: fn next_header
//@ ret r
//@ prefix #[verifier::exec_allows_no_decreases_clause]
//@ rewrite X7 `if err.kind() == ErrorKind::UnexpectedEof {` => `if is_unexpected_eof(&err) {`
//@ rewrite-re X7 `self\.input\.stream_position\(\)\.unwrap_or\(0\)` => `self.input.position_or_zero()`
//@ rewrite-re X7 `<Header as Unpackable>::unpack\(header\)\s*\.map_err\(unpack_log_header\)\?\s*\.0` => `unpack_header(header)?`
//@ post <<
        r is Ok && r->Ok_0 is Some ==> r->Ok_0->Some_0.size <= 1073741824 - 67108864,
        final(self).buffer@ == old(self).buffer@,
//@ >>
//@ loop 0 <<
            invariant self.buffer@ == old(self).buffer@,
//@ >>
//@ end
}

// ---- the consumers of the iterator that run at store recovery (lsmtk KeyValueStore::recover_one -> log_to_builder) and
// in log verification (log_to_setsum): with `next` returning ANYTHING its contract above allows -- in particular Err, which
// is what a log cut inside a header or a payload produces (log_read::lemma_torn_tail) -- the loops must not panic.
// `Result::unwrap` carries vstd's precondition `self is Ok`, so an `.unwrap()` of the iterator's result is an obligation
// that fails here.
#[verifier::external_body]
struct LogOptions { _p: u8 }
#[verifier::external_body]
struct LogPath { _p: u8 }
#[verifier::external_body]
struct Setsum { _p: u8 }
impl Setsum {
    #[verifier::external_body]
    fn default() -> (r: Setsum) { unimplemented!() }
    #[verifier::external_body]
    fn put(&mut self, key: &[u8], timestamp: u64, value: &[u8]) { unimplemented!() }
    #[verifier::external_body]
    fn del(&mut self, key: &[u8], timestamp: u64) { unimplemented!() }
}
#[verifier::external_body]
struct KeyValuePair { _p: u8 }
impl KeyValuePair {
    #[verifier::external_body]
    fn from(kvr: KeyValueRef<'_>) -> (r: KeyValuePair) { unimplemented!() }
}
impl LogIterator {
    // LogIterator::new(options, path): opening may fail; an opened iterator starts with an empty buffer
    #[verifier::external_body]
    fn open(log_options: LogOptions, log_path: &LogPath) -> (r: Result<LogIterator, SError>)
        ensures r is Ok ==> r->Ok_0.buffer@.len() == 0,
    { unimplemented!() }
}

//@ extract sst/src/log.rs | fn log_to_setsum
//@ ret r
//@ prefix #[verifier::exec_allows_no_decreases_clause]
//@ rewrite-re X4 `<P: AsRef<Path>>` => ``
//@ rewrite-re X4 `log_path: P,` => `log_path: &LogPath,`
//@ rewrite X7 `LogIterator::new(log_options, log_path)?` => `LogIterator::open(log_options, log_path)?`
//@ end

// the reading half of log_to_builder (the statements up to the sort): every entry of the log is collected, or the error
// of the iterator is returned
//@ extract sst/src/log.rs | fn log_to_builder
//@ prefix #[verifier::exec_allows_no_decreases_clause]
//@ region `let mut log_iter = LogIterator::open` .. `while let Some(kvr) = log_iter.next()`
//@ region-sig <<
fn log_to_builder_read(log_options: LogOptions, log_path: &LogPath) -> (r: Result<Vec<KeyValuePair>, SError>)
//@ >>
//@ region-tail <<
    Ok(kvrs)
//@ >>
//@ rewrite X7 `LogIterator::new(log_options, log_path)?` => `LogIterator::open(log_options, log_path)?`
//@ end

//@ min-verified 14
} // verus!
// `Result::unwrap` wants E: Debug; the formatting itself is never interpreted
impl std::fmt::Debug for SError { fn fmt(&self, _f: &mut std::fmt::Formatter<'_>) -> std::fmt::Result { Ok(()) } }
fn main() {}
