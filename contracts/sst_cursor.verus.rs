// Unit sst_cursor (C10): SstCursor -- the two-level cursor over an SST (index entries -> data blocks).
// "the sealed table enumerates exactly that sequence forward and backward, seek(k) positions at the first
// entry whose key is at least k": every trait method of the real `impl Cursor for SstCursor<W>`, extracted
// each run, is proved against the Cursor contract with  ents() = the concatenation of the data blocks,
// for tables with ANY number of blocks of ANY size, over any contract-obeying block cursor, GIVEN the
// index invariant that SstBuilder::flush_block establishes through divide_keys:
//     the blocks are consecutive pieces of one sorted stream and  keys of block i <= divider_i <= keys of block i+1
// (not strict: the versions of one key may straddle a block boundary).
// The block cursors are any cursors obeying the contract (BlockCursor: unit sst_block);
// seek_index == partition_point over dividers sorted ascending; load_block_cursor(i) opens block i.
use vstd::prelude::*;
verus! {
global size_of usize == 8;

//@ include cursor_spec.inc.rs

// ---------------------------------------------------------------- abstract block cursor (ASSUMED to obey the contract)
#[verifier::external_body]
struct BlockCursor { _p: u8 }
impl BlockCursor {
    uninterp spec fn ents(&self) -> Seq<Ent>;
    uninterp spec fn pos(&self) -> int;
    spec fn wf(&self) -> bool { sorted(self.ents()) && -1 <= self.pos() <= self.ents().len() }

    #[verifier::external_body]
    fn seek_to_first(&mut self) -> (r: Result<(), SError>)
        ensures r is Ok ==> final(self).ents() == old(self).ents() && final(self).pos() == -1,
    { unimplemented!() }
    #[verifier::external_body]
    fn seek_to_last(&mut self) -> (r: Result<(), SError>)
        ensures r is Ok ==> final(self).ents() == old(self).ents() && final(self).pos() == final(self).ents().len(),
    { unimplemented!() }
    #[verifier::external_body]
    fn seek(&mut self, key: &[u8]) -> (r: Result<(), SError>)
        requires sorted(old(self).ents()),
        ensures r is Ok ==> final(self).ents() == old(self).ents() && is_lower_bound(final(self).ents(), key@, final(self).pos()),
    { unimplemented!() }
    #[verifier::external_body]
    fn prev(&mut self) -> (r: Result<(), SError>)
        requires old(self).wf(),
        ensures r is Ok ==> final(self).ents() == old(self).ents() && final(self).pos() == (if old(self).pos() > -1 { old(self).pos() - 1 } else { -1 }),
    { unimplemented!() }
    #[verifier::external_body]
    fn next(&mut self) -> (r: Result<(), SError>)
        requires old(self).wf(),
        ensures r is Ok ==> final(self).ents() == old(self).ents()
            && final(self).pos() == (if old(self).pos() < old(self).ents().len() { old(self).pos() + 1 } else { old(self).pos() }),
    { unimplemented!() }
    #[verifier::external_body]
    fn key(&self) -> (r: Option<KeyRef<'_>>)
        requires self.wf(),
        ensures keyref_is(r, key_at(self.ents(), self.pos())),
    { unimplemented!() }
    #[verifier::external_body]
    fn value(&self) -> (r: Option<&[u8]>)
        requires self.wf(),
        ensures slice_is(r, val_at(self.ents(), self.pos())),
    { unimplemented!() }
    #[verifier::external_body]
    fn key_value(&self) -> (r: Option<KeyValueRef<'_>>)
        requires self.wf(),
        ensures (r is Some) == (0 <= self.pos() < self.ents().len()), kvref_is(r, self.ents(), self.pos()),
    { unimplemented!() }
}
// the sealed index block and the cursor over it
#[verifier::external_body]
struct Block { _p: u8 }
impl Block {
    uninterp spec fn ents(&self) -> Seq<Ent>;
    #[verifier::external_body]
    fn cursor(&self) -> (r: BlockCursor)
        ensures r.ents() == self.ents(), sorted(r.ents()), -1 <= r.pos() <= r.ents().len(),
    { unimplemented!() }
}

// ---------------------------------------------------------------- the table
#[verifier::external_body]
struct BlockMetadata { _p: u8 }
//@ extract sst/src/lib.rs | struct SstIndexEntry
//@ end
#[verifier::external_body]
struct SstRest { _p: u8 }
// only the field SstCursor touches directly (`Arc<Vec<_>>` in the repository; `.len()` / indexing read through it)
struct Sst { index_entries: Vec<SstIndexEntry>, rest: SstRest }


pub assume_specification<T: Clone> [<[T]>::to_vec] (s: &[T]) -> (r: Vec<T>)
    ensures r@ == s@;
// the decoder of one index value (derive-generated BlockMetadata::unpack): anything may come back
#[verifier::external_body]
fn unpack_metadata(value: &[u8]) -> (r: Result<BlockMetadata, SError>) { unimplemented!() }
// a tombstone in the index is an error; everything else decodes to Some(metadata) or an error -- never to "stop here"
//@ extract sst/src/lib.rs | impl SstCursor<W> :: fn metadata_from_kvr
//@ ret r
//@ rewrite-re X7 `let mut up = Unpacker::new\(value\);\s*let metadata: BlockMetadata = up\.unpack\(\)\.map_err\(unpack_block_metadata\)\?;` => `let metadata: BlockMetadata = unpack_metadata(value)?;`
//@ post <<
        r is Ok ==> r->Ok_0 is Some,
//@ >>
//@ end
spec fn entry_keys(v: Seq<SstIndexEntry>) -> Seq<Seq<u8>> { Seq::new(v.len(), |i: int| v[i].key@) }
spec fn ent_keys(s: Seq<Ent>) -> Seq<Seq<u8>> { Seq::new(s.len(), |i: int| s[i].key) }

// the index entries an opened table holds are, key for key and in order, a prefix of the entries of its index block --
// all of them unless a value fails to decode (error) or decodes to "nothing" (stop): the dividers the builder wrote are
// the dividers the cursor searches
//@ extract sst/src/lib.rs | impl Sst<W> :: fn load_index_entries
//@ ret r
//@ rewrite-re X4 `SstCursor::<W>::metadata_from_kvr\(&kvr\)\?` => `metadata_from_kvr(&kvr)?`
//@ rewrite-re X12 `let Some\(metadata\) = metadata_from_kvr\(&kvr\)\? else \{\s*break;\s*\};` => `let metadata = match metadata_from_kvr(&kvr)? { Some(m) => m, None => { break; } };`
//@ post <<
        r is Ok ==> entry_keys(r->Ok_0@) == ent_keys(index_block.ents()),
//@ >>
//@ bodystart <<
        let ghost ie = index_block.ents();
//@ >>
//@ loop 0 <<
            invariant
                cursor.wf(), cursor.ents() == ie, 0 <= cursor.pos() <= ie.len(),
                entries@.len() == cursor.pos(),
                entry_keys(entries@) == ent_keys(ie).subrange(0, entries@.len() as int),
            ensures
                entries@.len() == ie.len(),
            decreases ie.len() - cursor.pos(),
//@ >>
//@ endloop 0 <<
            proof { assert(entry_keys(entries@) =~= ent_keys(ie).subrange(0, entries@.len() as int)); }
//@ >>
//@ before `Ok(entries)` <<
        proof { assert(ent_keys(ie).subrange(0, ie.len() as int) =~= ent_keys(ie)); }
//@ >>
//@ before `while let Some(kvr) = cursor.key_value() {` <<
        proof { assert(entry_keys(entries@) =~= ent_keys(ie).subrange(0, 0)); }
//@ >>
//@ end

//@ include flat.inc.rs
//@ include sst_table.inc.rs

impl Sst {
    uninterp spec fn blocks(&self) -> Seq<Seq<Ent>>;
    spec fn div(&self, i: int) -> Seq<u8> { self.index_entries@[i].key@ }
    spec fn divs(&self) -> Seq<Seq<u8>> { Seq::new(self.index_entries@.len(), |i: int| self.index_entries@[i].key@) }
    // what the builder establishes (unit sst_builder proves it does): see table_pred
    spec fn table_ok(&self) -> bool { table_pred(self.blocks(), self.divs()) }
}

// keys do not decrease from one block to a later one (through the dividers)
proof fn lemma_block_order(t: &Sst, i1: int, j1: int, i2: int, j2: int)
    requires t.table_ok(), 0 <= i1 < i2 < t.blocks().len(), 0 <= j1 < t.blocks()[i1].len(), 0 <= j2 < t.blocks()[i2].len()
    ensures lex_le(t.blocks()[i1][j1].key, t.blocks()[i2][j2].key)
    decreases i2 - i1
{
    let bs = t.blocks();
    if i1 + 1 == i2 {
        lemma_lex_trans(bs[i1][j1].key, t.div(i1), bs[i2][j2].key);
    } else {
        lemma_block_order(t, i1, j1, i2 - 1, 0);
        lemma_block_order(t, i2 - 1, 0, i2, j2);
        lemma_lex_trans(bs[i1][j1].key, bs[i2 - 1][0].key, bs[i2][j2].key);
    }
}
proof fn lemma_flat_sorted(t: &Sst)
    requires t.table_ok()
    ensures sorted(flat(t.blocks(), t.blocks().len() as int))
{ }

spec fn block_below(t: &Sst, i: int, k: Seq<u8>) -> bool { forall|j: int| 0 <= j < t.blocks()[i].len() ==> lex_lt(#[trigger] t.blocks()[i][j].key, k) }

proof fn lemma_seek_lands(t: &Sst, k: Seq<u8>, bi: int, bj: int)
    requires
        t.table_ok(), 0 <= bi < t.blocks().len(), 0 <= bj < t.blocks()[bi].len(),
        is_lower_bound(t.blocks()[bi], k, bj),
        forall|i: int| 0 <= i < bi ==> block_below(t, i, k),
    ensures is_lower_bound(flat(t.blocks(), t.blocks().len() as int), k, off(t.blocks(), bi) + bj)
{
    let bs = t.blocks(); let n = bs.len() as int; let f = flat(bs, n); let p = off(bs, bi) + bj;
    lemma_flat_index(bs, n, bi, bj);
    lemma_lex_order_total();
    assert forall|g: int| 0 <= g < p implies lex_lt(#[trigger] f[g].key, k) by {
        let a = lemma_flat_locate(bs, n, g);
        if a.0 > bi { lemma_off_mono(bs, bi + 1, a.0); assert(flat(bs, bi + 1) == flat(bs, bi) + bs[bi]); }
        if a.0 < bi { assert(block_below(t, a.0, k)); }
    }
    assert forall|g: int| p <= g < f.len() implies lex_le(k, #[trigger] f[g].key) by {
        let a = lemma_flat_locate(bs, n, g);
        if a.0 < bi { lemma_off_mono(bs, a.0 + 1, bi); assert(flat(bs, a.0 + 1) == flat(bs, a.0) + bs[a.0]); }
        if a.0 > bi { lemma_block_order(t, bi, bj, a.0, a.1); lemma_lex_trans(k, bs[bi][bj].key, bs[a.0][a.1].key); }
    }
}
proof fn lemma_seek_past_end(t: &Sst, k: Seq<u8>)
    requires t.table_ok(), forall|i: int| 0 <= i < t.blocks().len() ==> block_below(t, i, k)
    ensures is_lower_bound(flat(t.blocks(), t.blocks().len() as int), k, off(t.blocks(), t.blocks().len() as int))
{
    let bs = t.blocks(); let n = bs.len() as int; let f = flat(bs, n);
    assert forall|g: int| 0 <= g < f.len() implies lex_lt(#[trigger] f[g].key, k) by {
        let a = lemma_flat_locate(bs, n, g);
        assert(block_below(t, a.0, k));
    }
}
// blocks whose divider is below k lie entirely below k
proof fn lemma_below_by_divider(t: &Sst, k: Seq<u8>, r: int)
    requires t.table_ok(), is_seek_index(t, k, r)
    ensures forall|i: int| 0 <= i < r ==> block_below(t, i, k)
{
    lemma_lex_order_total();
    assert forall|i: int| 0 <= i < r implies block_below(t, i, k) by {
        assert forall|j: int| 0 <= j < t.blocks()[i].len() implies lex_lt(#[trigger] t.blocks()[i][j].key, k) by {
            assert(lex_lt(t.div(i), k));
            lemma_lex_trans(t.blocks()[i][j].key, t.div(i), k);
            if t.blocks()[i][j].key == k { lemma_lex_antisym(k, t.div(i)); }
        }
    }
}

struct SstCursor { table: Sst, meta_idx: usize, block_cursor: Option<BlockCursor> }

spec fn is_seek_index(t: &Sst, k: Seq<u8>, r: int) -> bool {
    &&& 0 <= r <= t.index_entries@.len()
    &&& forall|i: int| 0 <= i < r ==> lex_lt(#[trigger] t.div(i), k)
    &&& forall|i: int| r <= i < t.index_entries@.len() ==> lex_le(k, #[trigger] t.div(i))
}

impl SstCursor {
    spec fn bs(&self) -> Seq<Seq<Ent>> { self.table.blocks() }
    spec fn nb(&self) -> int { self.table.blocks().len() as int }

//@ extract sst/src/lib.rs | impl SstCursor<W> :: fn new
//@ ret r
//@ rewrite-re? X4 `table: Sst<W>` => `table: Sst`
//@ pre <<
        table.table_ok(),
//@ >>
//@ post <<
        r.wf(), r.pos() == -1, r.table == table,
//@ >>
//@ end
    // ASSUMED: partition_point over the dividers (sorted ascending by table_ok)
//@ extract sst/src/lib.rs | impl SstCursor<W> :: fn seek_index
//@ ret r
//@ pre <<
        self.table.table_ok(),
//@ >>
//@ post <<
        is_seek_index(&self.table, key@, r as int),
//@ >>
//@ external-body
//@ end

    // ASSUMED: opens data block idx and returns a cursor over it
//@ extract sst/src/lib.rs | impl SstCursor<W> :: fn load_block_cursor
//@ ret r
//@ pre <<
        idx < self.table.index_entries@.len(),
//@ >>
//@ post <<
        r is Ok ==> r->Ok_0.ents() == self.bs()[idx as int] && -1 <= r->Ok_0.pos() <= r->Ok_0.ents().len(),
//@ >>
//@ external-body
//@ end
}

impl Cursor for SstCursor {
    spec fn ents(&self) -> Seq<Ent> { flat(self.bs(), self.nb()) }
    spec fn pos(&self) -> int {
        match self.block_cursor {
            None => if self.meta_idx == 0 { -1 } else { off(self.bs(), self.nb()) },
            Some(c) => off(self.bs(), self.meta_idx as int) + c.pos(),
        }
    }
    spec fn wf_base(&self) -> bool { self.table.table_ok() && (self.block_cursor is Some ==> self.block_cursor->Some_0.wf()) }
    spec fn wf(&self) -> bool {
        &&& self.wf_base() && self.meta_idx <= self.nb()
        &&& match self.block_cursor {
            None => self.meta_idx == 0 || self.meta_idx == self.nb(),
            Some(c) => self.meta_idx < self.nb() && c.ents() == self.bs()[self.meta_idx as int] && 0 <= c.pos() < c.ents().len(),
        }
    }
    spec fn key_spec(&self) -> Option<(Seq<u8>, u64)> { match self.block_cursor { None => None, Some(c) => key_at(c.ents(), c.pos()) } }
    spec fn val_spec(&self) -> Option<Seq<u8>> { match self.block_cursor { None => None, Some(c) => val_at(c.ents(), c.pos()) } }

    proof fn lemma_cursor_laws(&self) {
        if self.table.table_ok() {
            lemma_flat_sorted(&self.table);
            lemma_off_mono(self.bs(), 0, self.nb());
            if self.wf() {
                if self.block_cursor is Some {
                    let c = self.block_cursor->Some_0;
                    lemma_flat_index(self.bs(), self.nb(), self.meta_idx as int, c.pos());
                }
            }
        }
    }

//@ extract sst/src/lib.rs | impl Cursor for SstCursor<W> :: fn seek_to_first
//@ bodystart <<
        proof { lemma_off_mono(self.bs(), 0, self.nb()); }
//@ >>
//@ end
//@ extract sst/src/lib.rs | impl Cursor for SstCursor<W> :: fn seek_to_last
//@ bodystart <<
        proof { lemma_off_mono(self.bs(), 0, self.nb()); }
//@ >>
//@ end



//@ extract sst/src/lib.rs | impl Cursor for SstCursor<W> :: fn seek
//@ bodystart <<
        proof { lemma_off_mono(self.bs(), 0, self.nb()); lemma_lex_order_total(); }
//@ >>
//@ after `let mut idx = self.seek_index(key);` <<
        let ghost r0 = idx as int;
        proof { lemma_below_by_divider(&self.table, key@, r0); }
//@ >>
//@ beforeall `return self.seek_to_last();` <<
            proof { lemma_seek_past_end(&self.table, key@); }
//@ >>
//@ before `if block_cursor.key().is_none() {` <<
        proof { assert(sorted(self.bs()[idx as int])); }
//@ >>
//@ before `idx += 1;` <<
            proof { assert(block_below(&self.table, r0, key@)); }
//@ >>
//@ before `self.block_cursor = Some(block_cursor);` <<
        proof {
            let bi = idx as int;
            assert(sorted(self.bs()[bi]));
            if bi == r0 + 1 {
                // every entry of the next block is above divider r0 >= key: its lower bound is 0
                if block_cursor.pos() > 0 { assert(lex_lt(self.bs()[bi][0].key, key@)); assert(lex_lt(self.table.div(r0), self.bs()[bi][0].key)); lemma_lex_trans(key@, self.table.div(r0), self.bs()[bi][0].key); }
            }
            lemma_seek_lands(&self.table, key@, bi, block_cursor.pos());
        }
//@ >>
//@ end

//@ extract sst/src/lib.rs | impl Cursor for SstCursor<W> :: fn prev
//@ bodystart <<
        let ghost total = off(self.bs(), self.nb());
        let ghost tgt = if self.pos() > -1 { self.pos() - 1 } else { -1 };
        proof {
            self.lemma_cursor_laws();
            lemma_off_mono(self.bs(), 0, self.nb());
        }
//@ >>
//@ loop 0 <<
            invariant
                self.table == old(self).table, self.table.table_ok(), self.meta_idx <= self.nb(),
                total == off(self.bs(), self.nb()), tgt == (if old(self).pos() > -1 { old(self).pos() - 1 } else { -1 }),
                -1 <= old(self).pos() <= total, old(self).ents().len() == total,
                self.block_cursor is Some ==> self.wf() && self.pos() == old(self).pos(),
                self.block_cursor is None ==> off(self.bs(), self.meta_idx as int) - 1 == tgt,
            decreases self.meta_idx * 2 + (if self.block_cursor is Some { 1int } else { 0int }),
//@ >>
//@ startloop 0 <<
            let ghost m0 = self.meta_idx as int;
            proof {
                lemma_off_mono(self.bs(), 0, m0);
                if m0 > 0 { assert(flat(self.bs(), m0) == flat(self.bs(), m0 - 1) + self.bs()[m0 - 1]); lemma_off_mono(self.bs(), 0, m0 - 1); }
                if self.block_cursor is Some { lemma_flat_index(self.bs(), self.nb(), m0, self.block_cursor->Some_0.pos()); }
            }
//@ >>
//@ end

//@ extract sst/src/lib.rs | impl Cursor for SstCursor<W> :: fn next
//@ bodystart <<
        let ghost total = off(self.bs(), self.nb());
        let ghost tgt = if self.pos() < total { self.pos() + 1 } else { total };
        proof {
            self.lemma_cursor_laws();
            lemma_off_mono(self.bs(), 0, self.nb());
            lemma_flat_index(self.bs(), self.nb(), 0, 0);
        }
//@ >>
//@ loop 0 <<
            invariant
                self.table == old(self).table, self.table.table_ok(), self.meta_idx <= self.nb(),
                total == off(self.bs(), self.nb()), tgt == (if old(self).pos() < total { old(self).pos() + 1 } else { total }),
                -1 <= old(self).pos() <= total, old(self).ents().len() == total,
                self.block_cursor is Some ==> self.wf() && self.pos() == old(self).pos() && old(self).pos() < total,
                self.block_cursor is None ==> off(self.bs(), self.meta_idx as int) == tgt,
            decreases (self.nb() - self.meta_idx) * 2 + (if self.block_cursor is Some { 1int } else { 0int }),
//@ >>
//@ startloop 0 <<
            let ghost m0 = self.meta_idx as int;
            let ghost was_some = self.block_cursor is Some;
            proof {
                if m0 < self.nb() { assert(flat(self.bs(), m0 + 1) == flat(self.bs(), m0) + self.bs()[m0]); }
                if was_some { lemma_flat_index(self.bs(), self.nb(), m0, self.block_cursor->Some_0.pos()); lemma_off_mono(self.bs(), m0 + 1, self.nb()); }
            }
//@ >>
//@ end

//@ extract sst/src/lib.rs | impl Cursor for SstCursor<W> :: fn key
//@ bodystart <<
        proof { self.lemma_cursor_laws(); }
//@ >>
//@ end
//@ extract sst/src/lib.rs | impl Cursor for SstCursor<W> :: fn value
//@ bodystart <<
        proof { self.lemma_cursor_laws(); }
//@ >>
//@ end
}

//@ min-verified 20
} // verus!
fn main() {}
