// Unit cur_bounds (C11): BoundsCursor<C> over ANY child cursor obeying the Cursor contract, tables of
// EVERY size.  "a bounds cursor behaves as the underlying cursor restricted to the interval ... for every
// sequence of seek, next and prev calls, including direction reversals, and for entries that are
// tombstones": every trait method of the real impl (extracted each run) is proved against the trait
// contract with  ents() = the child's entries inside the interval  and a representation invariant over
// (bounds state, child position); the induction over call programs is the trait contract itself.
use vstd::prelude::*;
use std::ops::Bound;
verus! {
global size_of usize == 8;

//@ include cursor_spec.inc.rs

// ---------------------------------------------------------------- bounds
enum SB { Unbounded, Incl(Seq<u8>), Excl(Seq<u8>) }
spec fn in_lo(k: Seq<u8>, b: SB) -> bool { match b { SB::Unbounded => true, SB::Incl(x) => lex_le(x, k), SB::Excl(x) => lex_lt(x, k) } }
spec fn in_hi(k: Seq<u8>, b: SB) -> bool { match b { SB::Unbounded => true, SB::Incl(y) => lex_le(k, y), SB::Excl(y) => lex_lt(k, y) } }
spec fn sb_vec(b: Bound<Vec<u8>>) -> SB {
    match b { Bound::Unbounded => SB::Unbounded, Bound::Included(x) => SB::Incl(x@), Bound::Excluded(x) => SB::Excl(x@) }
}
proof fn lemma_in_lo_mono(x: Seq<u8>, y: Seq<u8>, b: SB)
    requires lex_le(x, y), in_lo(x, b)
    ensures in_lo(y, b)
{
    match b { SB::Unbounded => {}, SB::Incl(s) => { lemma_lex_trans(s, x, y); }, SB::Excl(s) => { lemma_lex_trans(s, x, y); if s == y { lemma_lex_antisym(s, x); } } }
}
proof fn lemma_in_hi_mono(x: Seq<u8>, y: Seq<u8>, b: SB)
    requires lex_le(x, y), in_hi(y, b)
    ensures in_hi(x, b)
{
    match b { SB::Unbounded => {}, SB::Incl(s) => { lemma_lex_trans(x, y, s); }, SB::Excl(s) => { lemma_lex_trans(x, y, s); if x == s { lemma_lex_antisym(s, y); } } }
}
// lo = first index whose key satisfies the start bound; hi = first index whose key violates the end bound
spec fn is_lo(s: Seq<Ent>, b: SB, lo: int) -> bool {
    &&& 0 <= lo <= s.len()
    &&& forall|i: int| 0 <= i < lo ==> !in_lo(#[trigger] s[i].key, b)
    &&& forall|i: int| lo <= i < s.len() ==> in_lo(#[trigger] s[i].key, b)
}
spec fn is_hi(s: Seq<Ent>, b: SB, hi: int) -> bool {
    &&& 0 <= hi <= s.len()
    &&& forall|i: int| 0 <= i < hi ==> in_hi(#[trigger] s[i].key, b)
    &&& forall|i: int| hi <= i < s.len() ==> !in_hi(#[trigger] s[i].key, b)
}
spec fn lo_of(s: Seq<Ent>, b: SB) -> int { choose|lo: int| is_lo(s, b, lo) }
spec fn hi_of(s: Seq<Ent>, b: SB) -> int { choose|hi: int| is_hi(s, b, hi) }
proof fn scan_lo(s: Seq<Ent>, b: SB, k: int) -> (lo: int)
    requires sorted(s), 0 <= k <= s.len(), forall|i: int| 0 <= i < k ==> !in_lo(#[trigger] s[i].key, b)
    ensures is_lo(s, b, lo)
    decreases s.len() - k
{
    if k == s.len() { k }
    else if in_lo(s[k].key, b) {
        assert forall|i: int| k <= i < s.len() implies in_lo(#[trigger] s[i].key, b) by { lemma_sorted_keys(s, k, i); lemma_in_lo_mono(s[k].key, s[i].key, b); }
        k
    } else { scan_lo(s, b, k + 1) }
}
proof fn scan_hi(s: Seq<Ent>, b: SB, k: int) -> (hi: int)
    requires sorted(s), 0 <= k <= s.len(), forall|i: int| 0 <= i < k ==> in_hi(#[trigger] s[i].key, b)
    ensures is_hi(s, b, hi)
    decreases s.len() - k
{
    if k == s.len() { k }
    else if !in_hi(s[k].key, b) {
        assert forall|i: int| k <= i < s.len() implies !in_hi(#[trigger] s[i].key, b) by { lemma_sorted_keys(s, k, i); if in_hi(s[i].key, b) { lemma_in_hi_mono(s[k].key, s[i].key, b); } }
        k
    } else { scan_hi(s, b, k + 1) }
}
proof fn lemma_lo_hi(s: Seq<Ent>, lo_b: SB, hi_b: SB)
    requires sorted(s)
    ensures is_lo(s, lo_b, lo_of(s, lo_b)), is_hi(s, hi_b, hi_of(s, hi_b))
{
    let a = scan_lo(s, lo_b, 0);
    let b = scan_hi(s, hi_b, 0);
}
proof fn lemma_lo_unique(s: Seq<Ent>, b: SB, c: int)
    requires sorted(s), 0 <= c <= s.len(), forall|i: int| 0 <= i < c ==> !in_lo(#[trigger] s[i].key, b), c < s.len() ==> in_lo(s[c].key, b)
    ensures c == lo_of(s, b)
{
    let lo = scan_lo(s, b, 0);
    let l2 = lo_of(s, b);
    if l2 < c { assert(!in_lo(s[l2].key, b)); } else if l2 > c { assert(in_lo(s[c].key, b)); }
}
proof fn lemma_hi_unique(s: Seq<Ent>, b: SB, c: int)
    requires sorted(s), 0 <= c <= s.len(), forall|i: int| 0 <= i < c ==> in_hi(#[trigger] s[i].key, b), c < s.len() ==> !in_hi(s[c].key, b)
    ensures c == hi_of(s, b)
{
    let hi = scan_hi(s, b, 0);
    let h2 = hi_of(s, b);
    if h2 < c { assert(in_hi(s[h2].key, b)); } else if h2 > c { assert(!in_hi(s[c].key, b)); }
}
// the restricted sequence is exactly the entries whose key lies in the interval (C11's definition)
proof fn lemma_restricted_is_interval(s: Seq<Ent>, lo_b: SB, hi_b: SB, i: int)
    requires sorted(s), 0 <= i < s.len()
    ensures (lo_of(s, lo_b) <= i < hi_of(s, hi_b)) == (in_lo(s[i].key, lo_b) && in_hi(s[i].key, hi_b))
{
    lemma_lo_hi(s, lo_b, hi_b);
}

//@ extract sst/src/bounds_cursor.rs | enum Bounds
//@ prefix #[derive(Eq, PartialEq, Structural)]
//@ end
//@ extract sst/src/bounds_cursor.rs | struct BoundsCursor
//@ end

spec fn rlen(lo: int, hi: int) -> int { if hi > lo { hi - lo } else { 0 } }

impl<C: Cursor> BoundsCursor<C> {
    spec fn s(&self) -> Seq<Ent> { self.cursor.ents() }
    spec fn lo(&self) -> int { lo_of(self.cursor.ents(), sb_vec(self.start_bound)) }
    spec fn hi(&self) -> int { hi_of(self.cursor.ents(), sb_vec(self.end_bound)) }
    // representation invariant over (bounds state, child position), as validated call by call
    spec fn rep(&self) -> bool {
        let c = self.cursor.pos(); let n = self.s().len() as int; let lo = self.lo(); let hi = self.hi();
        match self.bounds {
            Bounds::Positioned => c == -1 || (lo <= c < hi) || (c == n && (hi == n || lo == n)),
            Bounds::BeforeStart => c < lo || (c == n && lo == n),
            Bounds::AfterEnd => c == hi || (hi <= lo && hi <= c <= lo),
        }
    }

//@ extract sst/src/bounds_cursor.rs | impl BoundsCursor<C> :: fn check_for_start_bound_exceeded
//@ rewrite-re? X9 `kr\.key\s*<=\s*key\b` => `bytes_le(kr.key, key.as_slice())`
//@ rewrite-re? X9 `kr\.key\s*<(?!=)\s*key\b` => `bytes_lt(kr.key, key.as_slice())`
//@ rewrite-re? X9 `kr\.key\s*>=\s*key\b` => `bytes_le(key.as_slice(), kr.key)`
//@ rewrite-re? X9 `kr\.key\s*>(?!=)\s*key\b` => `bytes_lt(key.as_slice(), kr.key)`
//@ rewrite-re? X9 `kr\.key\s*==\s*key\b` => `bytes_eq(kr.key, key.as_slice())`
//@ rewrite-re? X9 `kr\.key\s*!=\s*key\b` => `!bytes_eq(kr.key, key.as_slice())`
//@ pre <<
        old(self).cursor.wf(),
//@ >>
//@ post <<
        final(self).cursor == old(self).cursor, final(self).start_bound == old(self).start_bound, final(self).end_bound == old(self).end_bound,
        final(self).bounds == (if old(self).bounds == Bounds::Positioned && 0 <= old(self).cursor.pos() < old(self).s().len()
                && !in_lo(old(self).s()[old(self).cursor.pos()].key, sb_vec(old(self).start_bound)) { Bounds::BeforeStart } else { old(self).bounds }),
//@ >>
//@ bodystart <<
        proof { self.cursor.lemma_cursor_laws(); lemma_lex_order_total(); }
//@ >>
//@ end

//@ extract sst/src/bounds_cursor.rs | impl BoundsCursor<C> :: fn check_for_end_bound_exceeded
//@ rewrite-re? X9 `kr\.key\s*<=\s*key\b` => `bytes_le(kr.key, key.as_slice())`
//@ rewrite-re? X9 `kr\.key\s*<(?!=)\s*key\b` => `bytes_lt(kr.key, key.as_slice())`
//@ rewrite-re? X9 `kr\.key\s*>=\s*key\b` => `bytes_le(key.as_slice(), kr.key)`
//@ rewrite-re? X9 `kr\.key\s*>(?!=)\s*key\b` => `bytes_lt(key.as_slice(), kr.key)`
//@ rewrite-re? X9 `kr\.key\s*==\s*key\b` => `bytes_eq(kr.key, key.as_slice())`
//@ rewrite-re? X9 `kr\.key\s*!=\s*key\b` => `!bytes_eq(kr.key, key.as_slice())`
//@ pre <<
        old(self).cursor.wf(),
//@ >>
//@ post <<
        final(self).cursor == old(self).cursor, final(self).start_bound == old(self).start_bound, final(self).end_bound == old(self).end_bound,
        final(self).bounds == (if old(self).bounds == Bounds::Positioned && 0 <= old(self).cursor.pos() < old(self).s().len()
                && !in_hi(old(self).s()[old(self).cursor.pos()].key, sb_vec(old(self).end_bound)) { Bounds::AfterEnd } else { old(self).bounds }),
//@ >>
//@ bodystart <<
        proof { self.cursor.lemma_cursor_laws(); lemma_lex_order_total(); }
//@ >>
//@ end
}

// `key.as_ref()` yields the bytes of the key (AsRef is an external trait; ASSUMED, rule X7)
uninterp spec fn bytes_of<T>(t: T) -> Seq<u8>;
spec fn sb_of<T>(b: Bound<T>) -> SB {
    match b { Bound::Unbounded => SB::Unbounded, Bound::Included(x) => SB::Incl(bytes_of(x)), Bound::Excluded(x) => SB::Excl(bytes_of(x)) }
}
//@ extract sst/src/bounds_cursor.rs | impl BoundsCursor<C> :: fn new :: fn as_ref_to_vec
//@ prefix #[verifier::allow(undeclared_external_trait)]
//@ ret r
//@ post <<
        sb_vec(r) == sb_of(*b),
//@ >>
//@ external-body
//@ end

// the entries of s whose keys lie within the bounds (a contiguous run, s being sorted)
spec fn restricted(s: Seq<Ent>, lo: SB, hi: SB) -> Seq<Ent> {
    if hi_of(s, hi) > lo_of(s, lo) { s.subrange(lo_of(s, lo), hi_of(s, hi)) } else { Seq::<Ent>::empty() }
}
impl<C: Cursor> BoundsCursor<C> {
    // the constructor: the nested helper above is hoisted out of the body (X14), nothing else changes
//@ extract sst/src/bounds_cursor.rs | impl BoundsCursor<C> :: fn new
//@ prefix #[verifier::allow(undeclared_external_trait)]
//@ ret r
//@ rewrite-re X14 `(?s)fn as_ref_to_vec<U: AsRef<\[u8\]>>\(b: &Bound<U>\) -> Bound<Vec<u8>> \{.*?\n        \}\n` => ``
//@ pre <<
        cursor.wf_base(),
//@ >>
//@ post <<
        r is Ok ==> r->Ok_0.wf() && r->Ok_0.pos() == -1
            && r->Ok_0.ents() == restricted(cursor.ents(), sb_of(*start_bound), sb_of(*end_bound)),
//@ >>
//@ end
}

impl<C: Cursor> Cursor for BoundsCursor<C> {
    spec fn ents(&self) -> Seq<Ent> {
        if self.hi() > self.lo() { self.cursor.ents().subrange(self.lo(), self.hi()) } else { Seq::<Ent>::empty() }
    }
    spec fn pos(&self) -> int {
        let c = self.cursor.pos();
        match self.bounds {
            Bounds::BeforeStart => -1,
            Bounds::AfterEnd => rlen(self.lo(), self.hi()),
            Bounds::Positioned => if c == -1 { -1 } else if self.lo() <= c < self.hi() { c - self.lo() } else { rlen(self.lo(), self.hi()) },
        }
    }
    spec fn wf_base(&self) -> bool { self.cursor.wf_base() }
    spec fn wf(&self) -> bool { self.cursor.wf() && self.rep() }
    spec fn key_spec(&self) -> Option<(Seq<u8>, u64)> { if self.bounds == Bounds::Positioned { self.cursor.key_spec() } else { None } }
    spec fn val_spec(&self) -> Option<Seq<u8>> { if self.bounds == Bounds::Positioned { self.cursor.val_spec() } else { None } }

    proof fn lemma_cursor_laws(&self) {
        self.cursor.lemma_cursor_laws();
        if self.cursor.wf_base() {
            lemma_lo_hi(self.s(), sb_vec(self.start_bound), sb_vec(self.end_bound));
        }
    }

//@ extract sst/src/bounds_cursor.rs | impl Cursor for BoundsCursor<C> :: fn seek_to_first
//@ afterall `self.cursor.seek(start_bound)?;` <<
                proof {
                    if self.start_bound is Included { lemma_lo_unique(self.s(), sb_vec(self.start_bound), self.cursor.pos()); }
                    else { let lo = self.lo(); let p = self.cursor.pos(); if lo < p { assert(lex_lt(self.s()[lo].key, start_bound@)); assert(in_lo(self.s()[lo].key, sb_vec(self.start_bound))); } }
                }
//@ >>
//@ bodystart <<
        proof { self.cursor.lemma_cursor_laws(); lemma_lex_order_total(); lemma_lo_hi(self.s(), sb_vec(self.start_bound), sb_vec(self.end_bound)); }
//@ >>
//@ end

//@ extract sst/src/bounds_cursor.rs | impl Cursor for BoundsCursor<C> :: fn seek_to_last
//@ rewrite-re? X9 `key\.key\s*==\s*end_bound\b` => `bytes_eq(key.key, end_bound.as_slice())`
//@ rewrite-re? X9 `key\.key\s*!=\s*end_bound\b` => `!bytes_eq(key.key, end_bound.as_slice())`
//@ rewrite-re? X9 `key\.key\s*<=\s*end_bound\b` => `bytes_le(key.key, end_bound.as_slice())`
//@ rewrite-re? X9 `key\.key\s*>=\s*end_bound\b` => `bytes_le(end_bound.as_slice(), key.key)`
//@ loop 0 <<
                    invariant
                        self.cursor.wf(), self.cursor.wf_base(), self.cursor.ents() == old(self).cursor.ents(), self.bounds == Bounds::AfterEnd,
                        self.start_bound == old(self).start_bound, self.end_bound == old(self).end_bound,
                        self.end_bound == Bound::<Vec<u8>>::Included(*end_bound),
                        0 <= self.cursor.pos() <= self.s().len(),
                        forall|i: int| 0 <= i < self.cursor.pos() ==> lex_le(#[trigger] self.s()[i].key, end_bound@),
                        forall|i: int| self.cursor.pos() <= i < self.s().len() ==> lex_le(end_bound@, #[trigger] self.s()[i].key),
                    ensures
                        self.cursor.wf(), self.cursor.ents() == old(self).cursor.ents(), self.bounds == Bounds::AfterEnd,
                        self.start_bound == old(self).start_bound, self.end_bound == old(self).end_bound,
                        0 <= self.cursor.pos() <= self.s().len(),
                        forall|i: int| 0 <= i < self.cursor.pos() ==> lex_le(#[trigger] self.s()[i].key, end_bound@),
                        self.cursor.pos() < self.s().len() ==> !lex_le(self.s()[self.cursor.pos()].key, end_bound@),
                    decreases self.s().len() - self.cursor.pos(),
//@ >>
//@ after `while let Some(key) = self.cursor.key() {` <<
                    proof { lemma_lex_refl(end_bound@); lemma_lex_order_total(); self.cursor.lemma_cursor_laws(); }
//@ >>
//@ afterloop 0 <<
                proof { lemma_hi_unique(self.s(), sb_vec(self.end_bound), self.cursor.pos()); }
//@ >>
//@ afterall `self.cursor.seek(end_bound)?;` <<
                proof { if self.end_bound is Excluded { lemma_hi_unique(self.s(), sb_vec(self.end_bound), self.cursor.pos()); } }
//@ >>
//@ after `self.cursor.seek_to_last()?;` <<
                proof { lemma_hi_unique(self.s(), sb_vec(self.end_bound), self.cursor.pos()); }
//@ >>
//@ bodystart <<
        proof { self.cursor.lemma_cursor_laws(); lemma_lex_order_total(); lemma_lo_hi(self.s(), sb_vec(self.start_bound), sb_vec(self.end_bound)); }
//@ >>
//@ end

//@ extract sst/src/bounds_cursor.rs | impl Cursor for BoundsCursor<C> :: fn seek
//@ bodystart <<
        proof { self.cursor.lemma_cursor_laws(); lemma_lex_order_total(); lemma_lo_hi(self.s(), sb_vec(self.start_bound), sb_vec(self.end_bound)); }
//@ >>
//@ end

//@ extract sst/src/bounds_cursor.rs | impl Cursor for BoundsCursor<C> :: fn prev
//@ bodystart <<
        proof { self.cursor.lemma_cursor_laws(); lemma_lex_order_total(); lemma_lo_hi(self.s(), sb_vec(self.start_bound), sb_vec(self.end_bound)); }
//@ >>
//@ end

//@ extract sst/src/bounds_cursor.rs | impl Cursor for BoundsCursor<C> :: fn next
//@ loop 0 <<
            invariant
                self.wf(), self.cursor.ents() == old(self).cursor.ents(),
                self.start_bound == old(self).start_bound, self.end_bound == old(self).end_bound,
                self.pos() == old(self).pos(),
                sorted(self.s()), -1 <= self.cursor.pos() <= self.s().len(),
                is_lo(self.s(), sb_vec(self.start_bound), self.lo()), is_hi(self.s(), sb_vec(self.end_bound), self.hi()),
            decreases self.s().len() - self.cursor.pos(),
//@ >>
//@ before `self.cursor.next()?;` <<
            proof { lemma_lex_order_total(); self.cursor.lemma_cursor_laws(); }
//@ >>
//@ afterloop 0 <<
        proof { self.cursor.lemma_cursor_laws(); }
//@ >>
//@ before `self.check_for_start_bound_exceeded();` <<
            proof { self.cursor.lemma_cursor_laws(); }
//@ >>
//@ bodystart <<
        proof { self.cursor.lemma_cursor_laws(); lemma_lex_order_total(); lemma_lo_hi(self.s(), sb_vec(self.start_bound), sb_vec(self.end_bound)); }
//@ >>
//@ end

//@ extract sst/src/bounds_cursor.rs | impl Cursor for BoundsCursor<C> :: fn key
//@ bodystart <<
        proof { self.lemma_cursor_laws(); }
//@ >>
//@ end

//@ extract sst/src/bounds_cursor.rs | impl Cursor for BoundsCursor<C> :: fn value
//@ bodystart <<
        proof { self.lemma_cursor_laws(); }
//@ >>
//@ end
}

//@ min-verified 20
} // verus!
fn main() {}
