// Unit tuple_key_str (C16, strings of EVERY length): the 7-bit chunker that tuple_key v1 writes string elements with
// (tuple_key/src/iter7.rs, Iterate7BitChunks::next) and the combiner that reads them back (tuple_key/src/combine7.rs,
// Combine7BitChunks::next), both extracted verbatim.  The chunker against a specification of everything it still has
// to emit -- `enc(rest of the bytes, pending bits, width)` -- and, over that specification, the theorem the property
// needs: for byte strings s < t (lexicographically, any lengths) the chunk sequence of s is lexicographically below the
// chunk sequence of t.  Strict monotonicity of a total order also gives injectivity (different strings, different
// encodings).  Proof: induction over the chunker's own state machine; once the pending bits of the two runs differ, the
// very next chunk decides (lemma_pending_decides); every step is a small bit-vector fact (by(bit_vector), widths <= 15).
// The code is tied to the specification by the postcondition of next(): what was still to be emitted before the call
// is the byte handed out followed by what is still to be emitted after it (and nothing when None is returned); the
// unmasked garbage the code keeps above `remains_bits` in `remains` is shown never to reach an output.
// The combiner is tied in the same way to `dec(rest of the chunks, pending bits, width)`, and over the two specifications:
// dec(enc(s)) == s for every byte string s (theorem_chunks_round_trip) -- a joint induction over both state machines with
// the invariant that the bits in flight between them are a whole number of bytes, so the zero padding of the last chunk
// never completes a byte.
// Around the two walks, `impl Element for String` (append_to / parse_from, tuple_key/src/lib.rs) and TupleKey::append_bytes are
// extracted too: a string is written as its chunks, or as the single byte 0 when it is empty, and read back as the empty
// string from a single byte and through the combiner otherwise; a non-empty string has at least two chunks, so the two
// cases never meet, and parse_from(append_to(s)) hands back the bytes of s (theorem_string_round_trip).
// ASSUMED there: String::from_utf8 keeps the bytes it accepts; Iterator::collect is `next() until None` (X13).
// Not here: the continuation-bit discipline (unit tuple_key_walk), the descending direction (known finding C16-desc-string-prefix).
use vstd::prelude::*;
verus! {
global size_of usize == 8;

spec fn chunk_top(p: u64, w: u64) -> u8 { ((((p >> ((w - 7) as u64)) as u8) & 0x7f) << 1u8) | 1u8 }
spec fn chunk_last(p: u64, w: u64) -> u8 { (p as u8) << ((8 - w) as u8) }
spec fn low(p: u64, w: u64) -> u64 { p & (((1u64 << w) - 1) as u64) }

// everything the chunker still has to say: `w` pending bits `p` (p < 2^w), then the bytes of s
spec fn enc(s: Seq<u8>, p: u64, w: u64) -> Seq<u8>
    decreases s.len(), w
{
    if w > 7 {
        seq![chunk_top(p, w)] + enc(s, low(p, (w - 7) as u64), (w - 7) as u64)
    } else if s.len() > 0 {
        enc(s.drop_first(), (p << 8u64) | (s[0] as u64), (w + 8) as u64)
    } else if w > 0 {
        seq![chunk_last(p, w)]
    } else {
        Seq::<u8>::empty()
    }
}

spec fn lex_lt(a: Seq<u8>, b: Seq<u8>) -> bool
    decreases a.len()
{
    if b.len() == 0 { false } else if a.len() == 0 { true } else if a[0] != b[0] { a[0] < b[0] } else { lex_lt(a.drop_first(), b.drop_first()) }
}

proof fn lemma_cons_lt(c: u8, d: u8, x: Seq<u8>, y: Seq<u8>)
    requires c < d || (c == d && lex_lt(x, y))
    ensures lex_lt(seq![c] + x, seq![d] + y)
{
    let a = seq![c] + x; let b = seq![d] + y;
    assert(a[0] == c && b[0] == d);
    assert(a.drop_first() =~= x);
    assert(b.drop_first() =~= y);
}

// ---- bit-vector facts
proof fn bv_split(p: u64, q: u64, w: u64)
    requires 8 <= w <= 15, p < q, q < (1u64 << w)
    ensures ({
        let cp = ((p >> ((w - 7) as u64)) as u8) & 0x7f; let cq = ((q >> ((w - 7) as u64)) as u8) & 0x7f;
        &&& cp <= cq
        &&& (((cp << 1u8) | 1u8) < ((cq << 1u8) | 1u8)) == (cp < cq)
        &&& cp == cq ==> low(p, (w - 7) as u64) < low(q, (w - 7) as u64)
        &&& low(p, (w - 7) as u64) < (1u64 << ((w - 7) as u64)) && low(q, (w - 7) as u64) < (1u64 << ((w - 7) as u64))
    })
{
    assert({
        let cp = ((p >> ((w - 7) as u64)) as u8) & 0x7f; let cq = ((q >> ((w - 7) as u64)) as u8) & 0x7f;
        &&& cp <= cq
        &&& (((cp << 1u8) | 1u8) < ((cq << 1u8) | 1u8)) == (cp < cq)
        &&& cp == cq ==> (p & (((1u64 << ((w - 7) as u64)) - 1) as u64)) < (q & (((1u64 << ((w - 7) as u64)) - 1) as u64))
        &&& (p & (((1u64 << ((w - 7) as u64)) - 1) as u64)) < (1u64 << ((w - 7) as u64)) && (q & (((1u64 << ((w - 7) as u64)) - 1) as u64)) < (1u64 << ((w - 7) as u64))
    }) by (bit_vector)
        requires 8 <= w <= 15, p < q, q < (1u64 << w);
}

proof fn bv_consume(p: u64, q: u64, w: u64, a: u8, b: u8)
    requires w <= 7, p < q, q < (1u64 << w)
    ensures ((p << 8u64) | (a as u64)) < ((q << 8u64) | (b as u64)), ((q << 8u64) | (b as u64)) < (1u64 << ((w + 8) as u64))
{
    assert(((p << 8u64) | (a as u64)) < ((q << 8u64) | (b as u64)) && ((q << 8u64) | (b as u64)) < (1u64 << ((w + 8) as u64))) by (bit_vector)
        requires w <= 7, p < q, q < (1u64 << w);
}
proof fn bv_consume_same(p: u64, w: u64, a: u8, b: u8)
    requires w <= 7, p < (1u64 << w), a <= b
    ensures (a < b) == (((p << 8u64) | (a as u64)) < ((p << 8u64) | (b as u64))), ((p << 8u64) | (b as u64)) < (1u64 << ((w + 8) as u64))
{
    assert(((a < b) == (((p << 8u64) | (a as u64)) < ((p << 8u64) | (b as u64)))) && ((p << 8u64) | (b as u64)) < (1u64 << ((w + 8) as u64))) by (bit_vector)
        requires w <= 7, p < (1u64 << w), a <= b;
}
// s has ended, t goes on: the final partial chunk of s is below the next full chunk of t  (p <= q)
proof fn bv_end_vs_more(p: u64, q: u64, w: u64, b: u8)
    requires 1 <= w <= 7, p <= q, q < (1u64 << w)
    ensures chunk_last(p, w) < chunk_top((q << 8u64) | (b as u64), (w + 8) as u64)
{
    assert(((p as u8) << ((8 - w) as u8)) < ((((((q << 8u64) | (b as u64)) >> ((((w + 8) as u64) - 7) as u64)) as u8) & 0x7f) << 1u8) | 1u8) by (bit_vector)
        requires 1 <= w <= 7, p <= q, q < (1u64 << w);
}
// s goes on, t has ended, p < q
proof fn bv_more_vs_end(p: u64, q: u64, w: u64, a: u8)
    requires 1 <= w <= 7, p < q, q < (1u64 << w)
    ensures chunk_top((p << 8u64) | (a as u64), (w + 8) as u64) < chunk_last(q, w)
{
    assert((((((((p << 8u64) | (a as u64)) >> ((((w + 8) as u64) - 7) as u64)) as u8) & 0x7f) << 1u8) | 1u8) < ((q as u8) << ((8 - w) as u8))) by (bit_vector)
        requires 1 <= w <= 7, p < q, q < (1u64 << w);
}
proof fn bv_end_vs_end(p: u64, q: u64, w: u64)
    requires 1 <= w <= 7, p < q, q < (1u64 << w)
    ensures chunk_last(p, w) < chunk_last(q, w)
{
    assert(((p as u8) << ((8 - w) as u8)) < ((q as u8) << ((8 - w) as u8))) by (bit_vector)
        requires 1 <= w <= 7, p < q, q < (1u64 << w);
}
proof fn bv_low_bound(p: u64, w: u64)
    requires 8 <= w <= 15
    ensures low(p, (w - 7) as u64) < (1u64 << ((w - 7) as u64))
{
    assert((p & (((1u64 << ((w - 7) as u64)) - 1) as u64)) < (1u64 << ((w - 7) as u64))) by (bit_vector) requires 8 <= w <= 15;
}

// B: once the pending bits differ (p < q, same width) the order is decided, whatever follows
proof fn lemma_pending_decides(s: Seq<u8>, t: Seq<u8>, p: u64, q: u64, w: u64)
    requires 1 <= w <= 15, p < q, q < (1u64 << w)
    ensures lex_lt(enc(s, p, w), enc(t, q, w))
    decreases s.len() + t.len(), w
{
    reveal_with_fuel(enc, 2);
    if w > 7 {
        bv_split(p, q, w);
        let w2 = (w - 7) as u64;
        let cp = (#[verifier::truncate] ((p >> w2) as u8)) & 0x7f; let cq = (#[verifier::truncate] ((q >> w2) as u8)) & 0x7f;
        if cp == cq { lemma_pending_decides(s, t, low(p, w2), low(q, w2), w2); }
        lemma_cons_lt(chunk_top(p, w), chunk_top(q, w), enc(s, low(p, w2), w2), enc(t, low(q, w2), w2));
    } else if s.len() > 0 && t.len() > 0 {
        bv_consume(p, q, w, s[0], t[0]);
        lemma_pending_decides(s.drop_first(), t.drop_first(), (p << 8u64) | (s[0] as u64), (q << 8u64) | (t[0] as u64), (w + 8) as u64);
    } else if s.len() == 0 && t.len() > 0 {
        let q2 = (q << 8u64) | (t[0] as u64); let w2 = (w + 8) as u64;
        bv_end_vs_more(p, q, w, t[0]);
        assert(enc(t, q, w) == seq![chunk_top(q2, w2)] + enc(t.drop_first(), low(q2, (w2 - 7) as u64), (w2 - 7) as u64));
        assert(enc(s, p, w) =~= seq![chunk_last(p, w)] + Seq::<u8>::empty());
        lemma_cons_lt(chunk_last(p, w), chunk_top(q2, w2), Seq::<u8>::empty(), enc(t.drop_first(), low(q2, (w2 - 7) as u64), (w2 - 7) as u64));
    } else if s.len() > 0 && t.len() == 0 {
        let p2 = (p << 8u64) | (s[0] as u64); let w2 = (w + 8) as u64;
        bv_more_vs_end(p, q, w, s[0]);
        assert(enc(s, p, w) == seq![chunk_top(p2, w2)] + enc(s.drop_first(), low(p2, (w2 - 7) as u64), (w2 - 7) as u64));
        assert(enc(t, q, w) =~= seq![chunk_last(q, w)] + Seq::<u8>::empty());
        lemma_cons_lt(chunk_top(p2, w2), chunk_last(q, w), enc(s.drop_first(), low(p2, (w2 - 7) as u64), (w2 - 7) as u64), Seq::<u8>::empty());
    } else {
        bv_end_vs_end(p, q, w);
        assert(enc(s, p, w) =~= seq![chunk_last(p, w)] + Seq::<u8>::empty());
        assert(enc(t, q, w) =~= seq![chunk_last(q, w)] + Seq::<u8>::empty());
        lemma_cons_lt(chunk_last(p, w), chunk_last(q, w), Seq::<u8>::empty(), Seq::<u8>::empty());
    }
}

// A: from the same pending state, the order of what follows is the order of the encodings
proof fn lemma_enc_monotone(s: Seq<u8>, t: Seq<u8>, p: u64, w: u64)
    requires w <= 15, p < (1u64 << w), lex_lt(s, t)
    ensures lex_lt(enc(s, p, w), enc(t, p, w))
    decreases s.len() + t.len(), w
{
    reveal_with_fuel(enc, 2);
    if w > 7 {
        let w2 = (w - 7) as u64;
        bv_low_bound(p, w);
        lemma_enc_monotone(s, t, low(p, w2), w2);
        lemma_cons_lt(chunk_top(p, w), chunk_top(p, w), enc(s, low(p, w2), w2), enc(t, low(p, w2), w2));
    } else if s.len() == 0 {
        // t goes on
        let q2 = (p << 8u64) | (t[0] as u64); let w2 = (w + 8) as u64;
        assert(enc(t, p, w) == seq![chunk_top(q2, w2)] + enc(t.drop_first(), low(q2, (w2 - 7) as u64), (w2 - 7) as u64));
        if w == 0 {
            assert(enc(s, p, w) =~= Seq::<u8>::empty());
        } else {
            bv_end_vs_more(p, p, w, t[0]);
            assert(enc(s, p, w) =~= seq![chunk_last(p, w)] + Seq::<u8>::empty());
            lemma_cons_lt(chunk_last(p, w), chunk_top(q2, w2), Seq::<u8>::empty(), enc(t.drop_first(), low(q2, (w2 - 7) as u64), (w2 - 7) as u64));
        }
    } else {
        let a = s[0]; let b = t[0];
        bv_consume_same(p, w, a, b);
        if a == b {
            lemma_enc_monotone(s.drop_first(), t.drop_first(), (p << 8u64) | (a as u64), (w + 8) as u64);
        } else {
            lemma_pending_decides(s.drop_first(), t.drop_first(), (p << 8u64) | (a as u64), (p << 8u64) | (b as u64), (w + 8) as u64);
        }
    }
}

// the theorem: the chunked form of byte strings compares as the strings do
proof fn theorem_chunks_preserve_order(s: Seq<u8>, t: Seq<u8>)
    requires lex_lt(s, t)
    ensures lex_lt(enc(s, 0, 0), enc(t, 0, 0))
{
    assert(0u64 < (1u64 << 0u64)) by (bit_vector);
    lemma_enc_monotone(s, t, 0, 0);
}

// ------------------------------------------------------------------ the inverse walk (Combine7BitChunks)
spec fn top8(d: u64, v: u64) -> u8 { (d >> ((v - 8) as u64)) as u8 }
// everything the combiner still hands out: v pending bits d (d < 2^v), then the chunks c
spec fn dec(c: Seq<u8>, d: u64, v: u64) -> Seq<u8>
    decreases c.len(), v
{
    if v >= 8 {
        seq![top8(d, v)] + dec(c, low(d, (v - 8) as u64), (v - 8) as u64)
    } else if c.len() > 0 {
        dec(c.drop_first(), (d << 7u64) | ((c[0] >> 1u8) as u64), (v + 7) as u64)
    } else {
        Seq::<u8>::empty()
    }
}
// the bytes themselves, seen through a byte-aligned window of u in {0, 8, 16} bits in flight
spec fn whole(s: Seq<u8>, q: u64, u: u64) -> Seq<u8>
    decreases s.len(), u
{
    if u >= 8 {
        seq![top8(q, u)] + whole(s, low(q, (u - 8) as u64), (u - 8) as u64)
    } else if s.len() > 0 {
        whole(s.drop_first(), (q << 8u64) | (s[0] as u64), (u + 8) as u64)
    } else {
        Seq::<u8>::empty()
    }
}

proof fn lemma_whole_is_identity(s: Seq<u8>)
    ensures whole(s, 0, 0) == s
    decreases s.len()
{
    reveal_with_fuel(whole, 3);
    if s.len() > 0 {
        let b = s[0];
        assert(top8((0u64 << 8u64) | (b as u64), 8) == b && low((0u64 << 8u64) | (b as u64), 0) == 0) by (bit_vector);
        lemma_whole_is_identity(s.drop_first());
        assert(whole(s, 0, 0) == whole(s.drop_first(), (0u64 << 8u64) | (b as u64), 8));
        assert(whole(s.drop_first(), (0u64 << 8u64) | (b as u64), 8) == seq![b] + whole(s.drop_first(), 0, 0));
        assert(seq![b] + s.drop_first() =~= s);
    }
}

// w > 7, decoder holds v < 8 bits: the chunk passes its 7 bits on
proof fn bv_rt_top_v0(p: u64, w: u64)
    requires 8 <= w <= 15, p < (1u64 << w)
    ensures ({
        let d2 = (0u64 << 7u64) | ((chunk_top(p, w) >> 1u8) as u64);
        ((d2 << ((w - 7) as u64)) | low(p, (w - 7) as u64)) == ((0u64 << w) | p) && d2 < (1u64 << 7u64) && low(p, (w - 7) as u64) < (1u64 << ((w - 7) as u64))
    })
{
    assert({
        let ct = ((((p >> ((w - 7) as u64)) as u8) & 0x7f) << 1u8) | 1u8;
        let d2 = (0u64 << 7u64) | ((ct >> 1u8) as u64);
        let pl = p & (((1u64 << ((w - 7) as u64)) - 1) as u64);
        ((d2 << ((w - 7) as u64)) | pl) == ((0u64 << w) | p) && d2 < (1u64 << 7u64) && pl < (1u64 << ((w - 7) as u64))
    }) by (bit_vector) requires 8 <= w <= 15, p < (1u64 << w);
}
proof fn bv_rt_top(p: u64, w: u64, d: u64, v: u64)
    requires 8 <= w <= 15, p < (1u64 << w), 1 <= v <= 7, d < (1u64 << v), v + w == 16
    ensures ({
        let d2 = (d << 7u64) | ((chunk_top(p, w) >> 1u8) as u64);
        let dd = low(d2, (v - 1) as u64);
        let q = (d << w) | p;
        &&& top8(d2, (v + 7) as u64) == top8(q, 16)
        &&& ((dd << ((w - 7) as u64)) | low(p, (w - 7) as u64)) == low(q, 8)
        &&& dd < (1u64 << ((v - 1) as u64)) && low(p, (w - 7) as u64) < (1u64 << ((w - 7) as u64))
    })
{
    assert({
        let ct = ((((p >> ((w - 7) as u64)) as u8) & 0x7f) << 1u8) | 1u8;
        let d2 = (d << 7u64) | ((ct >> 1u8) as u64);
        let dd = d2 & (((1u64 << ((v - 1) as u64)) - 1) as u64);
        let pl = p & (((1u64 << ((w - 7) as u64)) - 1) as u64);
        let q = (d << w) | p;
        &&& ((d2 >> ((((v + 7) as u64) - 8) as u64)) as u8) == ((q >> ((16u64 - 8) as u64)) as u8)
        &&& ((dd << ((w - 7) as u64)) | pl) == (q & (((1u64 << 8u64) - 1) as u64))
        &&& dd < (1u64 << ((v - 1) as u64)) && pl < (1u64 << ((w - 7) as u64))
    }) by (bit_vector) requires 8 <= w <= 15, p < (1u64 << w), 1 <= v <= 7, d < (1u64 << v), v + w == 16;
}

proof fn bv_rt_consume(p: u64, w: u64, d: u64, v: u64, b: u8)
    requires w <= 7, p < (1u64 << w), v <= 7, d < (1u64 << v), v + w == 8
    ensures ({
        let p2 = (p << 8u64) | (b as u64);
        let q = (d << w) | p;
        let q2 = (d << ((w + 8) as u64)) | p2;
        &&& top8(q2, 16) == top8(q, 8)
        &&& low(q2, 8) == (low(q, 0) << 8u64) | (b as u64)
        &&& p2 < (1u64 << ((w + 8) as u64))
    })
{
    assert({
        let p2 = (p << 8u64) | (b as u64);
        let q = (d << w) | p;
        let q2 = (d << ((w + 8) as u64)) | p2;
        &&& ((q2 >> ((16u64 - 8) as u64)) as u8) == ((q >> ((8u64 - 8) as u64)) as u8)
        &&& (q2 & (((1u64 << 8u64) - 1) as u64)) == ((q & (((1u64 << 0u64) - 1) as u64)) << 8u64) | (b as u64)
        &&& p2 < (1u64 << ((w + 8) as u64))
    }) by (bit_vector) requires w <= 7, p < (1u64 << w), v <= 7, d < (1u64 << v), v + w == 8;
}
proof fn bv_rt_consume0(b: u8)
    ensures (((0u64 << 0u64) | 0u64) << 8u64) | (b as u64) == (0u64 << 8u64) | ((0u64 << 8u64) | (b as u64)), ((0u64 << 8u64) | (b as u64)) < (1u64 << 8u64)
{
    assert((((0u64 << 0u64) | 0u64) << 8u64) | (b as u64) == (0u64 << 8u64) | ((0u64 << 8u64) | (b as u64)) && ((0u64 << 8u64) | (b as u64)) < (1u64 << 8u64)) by (bit_vector);
}
proof fn bv_rt_last(p: u64, w: u64, d: u64, v: u64)
    requires 1 <= w <= 7, p < (1u64 << w), 1 <= v <= 7, d < (1u64 << v), v + w == 8
    ensures ({
        let d2 = (d << 7u64) | ((chunk_last(p, w) >> 1u8) as u64);
        top8(d2, (v + 7) as u64) == top8((d << w) | p, 8)
    })
{
    assert({
        let cl = (p as u8) << ((8 - w) as u8);
        let d2 = (d << 7u64) | ((cl >> 1u8) as u64);
        ((d2 >> ((((v + 7) as u64) - 8) as u64)) as u8) == ((((d << w) | p) >> ((8u64 - 8) as u64)) as u8)
    }) by (bit_vector) requires 1 <= w <= 7, p < (1u64 << w), 1 <= v <= 7, d < (1u64 << v), v + w == 8;
}
proof fn bv_zero_width(x: u64)
    requires x < (1u64 << 0u64)
    ensures x == 0
{
    assert(x == 0) by (bit_vector) requires x < (1u64 << 0u64);
}

// the combiner run over the chunker's output hands back the bytes in flight and then the bytes still to be chunked
proof fn lemma_round_trip(s: Seq<u8>, p: u64, w: u64, d: u64, v: u64)
    requires w <= 15, p < (1u64 << w), v <= 7, d < (1u64 << v), (v + w) % 8 == 0
    ensures dec(enc(s, p, w), d, v) == whole(s, (d << w) | p, (v + w) as u64)
    decreases s.len(), w
{
    reveal_with_fuel(enc, 2);
    reveal_with_fuel(dec, 3);
    reveal_with_fuel(whole, 3);
    let q = (d << w) | p;
    if w > 7 {
        let w2 = (w - 7) as u64; let pl = low(p, w2);
        let ct = chunk_top(p, w); let x = enc(s, pl, w2);
        let e = seq![ct] + x;
        assert(e[0] == ct && e.drop_first() =~= x);
        let d2 = (d << 7u64) | ((ct >> 1u8) as u64);
        assert(dec(e, d, v) == dec(x, d2, (v + 7) as u64));
        if v == 0 {
            bv_zero_width(d);
            bv_rt_top_v0(p, w);
            lemma_round_trip(s, pl, w2, d2, 7);
        } else {
            bv_rt_top(p, w, d, v);
            let dd = low(d2, (v - 1) as u64);
            lemma_round_trip(s, pl, w2, dd, (v - 1) as u64);
            assert(dec(x, d2, (v + 7) as u64) == seq![top8(d2, (v + 7) as u64)] + dec(x, dd, (v - 1) as u64));
            assert(whole(s, q, 16) == seq![top8(q, 16)] + whole(s, low(q, 8), 8));
        }
    } else if s.len() > 0 {
        let b = s[0]; let p2 = (p << 8u64) | (b as u64);
        if v + w == 0 {
            bv_zero_width(d); bv_zero_width(p);
            bv_rt_consume0(b);
            lemma_round_trip(s.drop_first(), p2, 8, d, v);
            assert(whole(s, q, 0) == whole(s.drop_first(), (q << 8u64) | (b as u64), 8));
        } else {
            bv_rt_consume(p, w, d, v, b);
            lemma_round_trip(s.drop_first(), p2, (w + 8) as u64, d, v);
            let q2 = (d << ((w + 8) as u64)) | p2;
            assert(whole(s.drop_first(), q2, 16) == seq![top8(q2, 16)] + whole(s.drop_first(), low(q2, 8), 8));
            assert(whole(s, q, 8) == seq![top8(q, 8)] + whole(s, low(q, 0), 0));
            assert(whole(s, low(q, 0), 0) == whole(s.drop_first(), (low(q, 0) << 8u64) | (b as u64), 8));
        }
    } else if w > 0 {
        bv_rt_last(p, w, d, v);
        let cl = chunk_last(p, w);
        let e = seq![cl];
        assert(enc(s, p, w) == e);
        assert(e[0] == cl && e.drop_first() =~= Seq::<u8>::empty());
        let d2 = (d << 7u64) | ((cl >> 1u8) as u64);
        assert(dec(e, d, v) == dec(Seq::<u8>::empty(), d2, (v + 7) as u64));
        assert(dec(Seq::<u8>::empty(), d2, (v + 7) as u64) == seq![top8(d2, (v + 7) as u64)] + dec(Seq::<u8>::empty(), low(d2, (v - 1) as u64), (v - 1) as u64));
        assert(dec(Seq::<u8>::empty(), low(d2, (v - 1) as u64), (v - 1) as u64) == Seq::<u8>::empty());
        assert(whole(s, q, 8) == seq![top8(q, 8)] + whole(s, low(q, 0), 0));
        assert(whole(s, low(q, 0), 0) == Seq::<u8>::empty());
    } else {
        assert(enc(s, p, w) == Seq::<u8>::empty());
    }
}

// the theorem: combining the chunks of a byte string gives the byte string back
proof fn theorem_chunks_round_trip(s: Seq<u8>)
    ensures dec(enc(s, 0, 0), 0, 0) == s
{
    assert(0u64 < (1u64 << 0u64) && (0u64 << 0u64) | 0u64 == 0u64) by (bit_vector);
    lemma_round_trip(s, 0, 0, 0, 0);
    lemma_whole_is_identity(s);
}

// ---- the code's shift register against the specification (remains carries garbage above remains_bits)
proof fn bv_link_top(r: u64, w: usize)
    requires 8 <= w <= 15
    ensures
        (((((r >> ((w - 7) as usize)) as u8) & 0x7f) << 1u8) | 1u8) == chunk_top(low(r, w as u64), w as u64),
        low(r, ((w - 7) as usize) as u64) == low(low(r, w as u64), ((w as u64) - 7) as u64),
{
    assert((((((r >> ((w - 7) as usize)) as u8) & 0x7f) << 1u8) | 1u8) == (((((r & (((1u64 << (w as u64)) - 1) as u64)) >> (((w as u64) - 7) as u64)) as u8) & 0x7f) << 1u8) | 1u8
        && (r & (((1u64 << (((w - 7) as usize) as u64)) - 1) as u64)) == ((r & (((1u64 << (w as u64)) - 1) as u64)) & (((1u64 << (((w as u64) - 7) as u64)) - 1) as u64))) by (bit_vector)
        requires 8 <= w <= 15;
}
proof fn bv_link_consume(r: u64, w: usize, b: u8)
    requires w <= 7
    ensures low((r << 8u64) | (b as u64), ((w + 8) as usize) as u64) == (low(r, w as u64) << 8u64) | (b as u64),
        low(r, w as u64) < (1u64 << (w as u64)),
        // (the same register written with ^ or +: the low byte of r << 8 is clear)
        (r << 8u64) ^ (b as u64) == (r << 8u64) | (b as u64), (r << 8u64) + (b as u64) == (r << 8u64) | (b as u64),
{
    assert(((r << 8u64) ^ (b as u64)) == ((r << 8u64) | (b as u64)) && (r << 8u64) <= 0xffff_ffff_ffff_ff00u64
        && (((r << 8u64) | (b as u64)) - (r << 8u64)) as u64 == (b as u64) && ((r << 8u64) | (b as u64)) >= (r << 8u64)) by (bit_vector);
    assert((((r << 8u64) | (b as u64)) & (((1u64 << (((w + 8) as usize) as u64)) - 1) as u64)) == (((r & (((1u64 << (w as u64)) - 1) as u64)) << 8u64) | (b as u64))
        && (r & (((1u64 << (w as u64)) - 1) as u64)) < (1u64 << (w as u64))) by (bit_vector)
        requires w <= 7;
}
proof fn bv_low0(r: u64)
    ensures low(r, 0) == 0
{
    assert(r & (((1u64 << 0u64) - 1) as u64) == 0u64) by (bit_vector);
}
proof fn bv_link_last(r: u64, w: usize)
    requires 1 <= w <= 7
    ensures ((r as u8) << ((8 - w) as usize)) == chunk_last(low(r, w as u64), w as u64)
{
    assert(((r as u8) << ((8 - w) as usize)) == (((r & (((1u64 << (w as u64)) - 1) as u64)) as u8) << ((8 - (w as u64)) as u8))) by (bit_vector)
        requires 1 <= w <= 7;
}

//@ extract tuple_key/src/iter7.rs | struct Iterate7BitChunks
//@ end
impl<'a> Iterate7BitChunks<'a> {
    spec fn wf(&self) -> bool { self.offset <= self.bytes@.len() && self.remains_bits <= 8 }
    // everything this iterator still has to hand out
    spec fn to_come(&self) -> Seq<u8> {
        enc(self.bytes@.subrange(self.offset as int, self.bytes@.len() as int), low(self.remains, self.remains_bits as u64), self.remains_bits as u64)
    }
//@ extract tuple_key/src/iter7.rs | impl Iterate7BitChunks<'a> :: fn new
//@ ret r
//@ post <<
        r.wf(), r.bytes@ == bytes@, r.to_come() == enc(bytes@, 0, 0),
//@ >>
//@ bodystart <<
        proof {
            assert(0u64 & (((1u64 << 0u64) - 1) as u64) == 0u64) by (bit_vector);
            assert(bytes@.subrange(0, bytes@.len() as int) =~= bytes@);
        }
//@ >>
//@ end
    // Iterator::next (the trait-impl header is dropped)
//@ extract tuple_key/src/iter7.rs | impl Iterator for Iterate7BitChunks<'_> :: fn next
//@ ret r
//@ pre <<
        old(self).offset <= old(self).bytes@.len(), old(self).remains_bits <= 15,
//@ >>
//@ post <<
        final(self).wf(), final(self).bytes@ == old(self).bytes@,
        // the byte handed out is the head of what was to come, and what is to come now is its tail
        old(self).to_come() == (match r { Some(x) => seq![x] + final(self).to_come(), None => Seq::<u8>::empty() }),
        r is None ==> final(self).to_come() == old(self).to_come(),
//@ >>
//@ bodystart <<
        // (all hints are stated here, over the entry state, so that no hint is anchored at the very expressions the
        // postcondition constrains)
        let ghost s0 = self.bytes@.subrange(self.offset as int, self.bytes@.len() as int);
        let ghost r0 = self.remains;
        let ghost w0 = self.remains_bits;
        proof {
            if w0 > 7 { bv_link_top(r0, w0); }
            if w0 <= 7 && self.offset < self.bytes@.len() {
                bv_link_consume(r0, w0, self.bytes@[self.offset as int]);
                assert(s0.drop_first() =~= self.bytes@.subrange(self.offset as int + 1, self.bytes@.len() as int));
                assert(s0[0] == self.bytes@[self.offset as int]);
            }
            if 1 <= w0 <= 7 { bv_link_last(r0, w0); }
            bv_low0(r0);
            assert(s0.len() == self.bytes@.len() - self.offset);
            assert forall|x: u8| seq![x] + Seq::<u8>::empty() =~= #[trigger] seq![x] by { }
        }
//@ >>
//@ dec <<
        (old(self).bytes@.len() - old(self).offset) * 2 + (if old(self).remains_bits > 7 { 0int } else { 1int }),
//@ >>
//@ end
}


// ---- the combiner's shift register against `dec`
proof fn bv_link_absorb(r: u64, w: usize, b: u8)
    requires w < 8
    ensures low((r << 7u64) | ((b >> 1u8) as u64), ((w + 7) as usize) as u64) == (low(r, w as u64) << 7u64) | ((b >> 1u8) as u64),
        // (the same register written with ^ or +)
        (r << 7u64) ^ ((b >> 1u8) as u64) == (r << 7u64) | ((b >> 1u8) as u64), (r << 7u64) + ((b >> 1u8) as u64) == (r << 7u64) | ((b >> 1u8) as u64),
{
    assert((((r << 7u64) | ((b >> 1u8) as u64)) & (((1u64 << (((w + 7) as usize) as u64)) - 1) as u64)) == (((r & (((1u64 << (w as u64)) - 1) as u64)) << 7u64) | ((b >> 1u8) as u64))) by (bit_vector)
        requires w < 8;
    assert(((r << 7u64) ^ ((b >> 1u8) as u64)) == ((r << 7u64) | ((b >> 1u8) as u64)) && (r << 7u64) <= 0xffff_ffff_ffff_ff80u64
        && (((r << 7u64) | ((b >> 1u8) as u64)) - (r << 7u64)) as u64 == ((b >> 1u8) as u64) && ((r << 7u64) | ((b >> 1u8) as u64)) >= (r << 7u64)) by (bit_vector);
}
proof fn bv_link_emit(r: u64, w: usize)
    requires 8 <= w <= 14
    ensures ((r >> ((w - 8) as usize)) as u8) == top8(low(r, w as u64), w as u64),
        low(r, ((w - 8) as usize) as u64) == low(low(r, w as u64), ((w as u64) - 8) as u64),
{
    assert(((r >> ((w - 8) as usize)) as u8) == (((r & (((1u64 << (w as u64)) - 1) as u64)) >> (((w as u64) - 8) as u64)) as u8)
        && (r & (((1u64 << (((w - 8) as usize) as u64)) - 1) as u64)) == ((r & (((1u64 << (w as u64)) - 1) as u64)) & (((1u64 << (((w as u64) - 8) as u64)) - 1) as u64))) by (bit_vector)
        requires 8 <= w <= 14;
}

//@ extract tuple_key/src/combine7.rs | struct Combine7BitChunks
//@ end
impl<'a> Combine7BitChunks<'a> {
    spec fn wf(&self) -> bool { self.offset <= self.bytes@.len() && self.remains_bits < 8 }
    // everything this iterator still has to hand out
    spec fn to_come(&self) -> Seq<u8> {
        dec(self.bytes@.subrange(self.offset as int, self.bytes@.len() as int), low(self.remains, self.remains_bits as u64), self.remains_bits as u64)
    }
//@ extract tuple_key/src/combine7.rs | impl Combine7BitChunks<'a> :: fn new
//@ ret r
//@ post <<
        r.wf(), r.bytes@ == bytes@, r.to_come() == dec(bytes@, 0, 0),
//@ >>
//@ bodystart <<
        proof {
            assert(0u64 & (((1u64 << 0u64) - 1) as u64) == 0u64) by (bit_vector);
            assert(bytes@.subrange(0, bytes@.len() as int) =~= bytes@);
        }
//@ >>
//@ end
//@ extract tuple_key/src/combine7.rs | impl Iterator for Combine7BitChunks<'_> :: fn next
//@ ret r
//@ pre <<
        old(self).wf(),
//@ >>
//@ post <<
        final(self).wf(), final(self).bytes@ == old(self).bytes@,
        old(self).to_come() == (match r { Some(x) => seq![x] + final(self).to_come(), None => Seq::<u8>::empty() }),
        r is None ==> final(self).to_come() == old(self).to_come(),
//@ >>
//@ loop 0 <<
            invariant self.offset <= self.bytes@.len(), self.remains_bits < 15, self.bytes@ == old(self).bytes@,
                self.to_come() == old(self).to_come(), /* contract-inv */
            ensures self.offset <= self.bytes@.len(), self.remains_bits < 15, self.bytes@ == old(self).bytes@,
                self.to_come() == old(self).to_come(),
                self.remains_bits < 8 ==> self.offset == self.bytes@.len(),
            decreases self.bytes@.len() - self.offset,
//@ >>
//@ startloop 0 <<
            let ghost s1 = self.bytes@.subrange(self.offset as int, self.bytes@.len() as int);
            proof {
                bv_link_absorb(self.remains, self.remains_bits, self.bytes@[self.offset as int]);
                assert(s1.drop_first() =~= self.bytes@.subrange(self.offset as int + 1, self.bytes@.len() as int));
                assert(s1[0] == self.bytes@[self.offset as int]);
            }
//@ >>
//@ afterloop 0 <<
        proof {
            if 8 <= self.remains_bits { bv_link_emit(self.remains, self.remains_bits); }
            assert(self.bytes@.subrange(self.offset as int, self.bytes@.len() as int).len() == self.bytes@.len() - self.offset);
        }
//@ >>
//@ end
}


// ---------------------------------------------------------------- the String element around the two walks
spec fn str_enc(b: Seq<u8>) -> Seq<u8> { if enc(b, 0, 0).len() == 0 { seq![0u8] } else { enc(b, 0, 0) } }
spec fn str_dec(buf: Seq<u8>) -> Seq<u8> { if buf.len() == 1 { Seq::<u8>::empty() } else { dec(buf, 0, 0) } }
// a non-empty string has at least two chunks (so the one-byte form is the empty string's alone)
proof fn lemma_enc_at_least_two(s: Seq<u8>)
    requires s.len() > 0
    ensures enc(s, 0, 0).len() >= 2
{
    reveal_with_fuel(enc, 5);
    let p1 = (0u64 << 8u64) | (s[0] as u64);
    let t = s.drop_first();
    assert(enc(s, 0, 0) == seq![chunk_top(p1, 8)] + enc(t, low(p1, 1), 1));
    if t.len() > 0 {
        let p2 = (low(p1, 1) << 8u64) | (t[0] as u64);
        assert(enc(t, low(p1, 1), 1) == seq![chunk_top(p2, 9)] + enc(t.drop_first(), low(p2, 2), 2));
    } else {
        assert(enc(t, low(p1, 1), 1) == seq![chunk_last(low(p1, 1), 1)]);
    }
}
proof fn theorem_string_round_trip(b: Seq<u8>)
    ensures str_dec(str_enc(b)) == b
{
    if b.len() == 0 {
        reveal_with_fuel(enc, 2);
        assert(enc(b, 0, 0) =~= Seq::<u8>::empty());
        assert(b =~= Seq::<u8>::empty());
    } else {
        lemma_enc_at_least_two(b);
        theorem_chunks_round_trip(b);
    }
}

// a Vec of bytes never holds more than isize::MAX of them
#[verifier::external_body]
proof fn axiom_vec_len(v: &Vec<u8>) ensures v@.len() <= 0x7fff_ffff_ffff_ffff { }
struct TupleKey { buf: Vec<u8> }
impl TupleKey {
    // append_bytes at the iterator type the String element hands it (generic `impl Iterator<Item = u8>`: X25)
//@ extract tuple_key/src/lib.rs | impl TupleKey :: fn append_bytes
//@ ret r
//@ rewrite X25 `iter: impl Iterator<Item = u8>` => `iter: Iterate7BitChunks<'_>`
//@ rewrite X13 `for c in iter {` => `let mut iter = iter; while let Some(c) = iter.next() {`
//@ pre <<
        iter.wf(),
//@ >>
//@ post <<
        final(self).buf@ == old(self).buf@ + iter.to_come(), r == iter.to_come().len(),
//@ >>
//@ loop 0 <<
            invariant iter.wf(), count == self.buf@.len() - old(self).buf@.len(),
                /* contract-inv */ self.buf@ + iter.to_come() == old(self).buf@ + all,
            ensures count == self.buf@.len() - old(self).buf@.len(), self.buf@ == old(self).buf@ + all,
            decreases iter.to_come().len(),
//@ >>
//@ bodystart <<
        let ghost all = iter.to_come();
        proof { assert(self.buf@ + all == old(self).buf@ + all); }
//@ >>
//@ startloop 0 <<
            let ghost before = self.buf@;
            proof { axiom_vec_len(&self.buf); }
//@ >>
//@ endloop 0 <<
            proof { assert(before.push(c) + iter.to_come() =~= before + (seq![c] + iter.to_come())); }
//@ >>
//@ end
    // `key.append_bytes(&mut [0u8].iter().copied())`: one zero byte
    #[verifier::external_body]
    fn append_zero_byte(&mut self) -> (r: usize) ensures final(self).buf@ == old(self).buf@.push(0u8), r == 1 { unimplemented!() }
}
// Iterator::collect over the combiner: next() until None (X13)
fn collect_chunks(c: Combine7BitChunks<'_>) -> (r: Vec<u8>)
    requires c.wf()
    ensures r@ == c.to_come()
{
    let mut c = c;
    let ghost all = c.to_come();
    let mut out: Vec<u8> = Vec::new();
    proof { assert(out@ + all =~= all); }
    while let Some(x) = c.next()
        invariant c.wf(), out@ + c.to_come() == all,
        ensures out@ == all,
        decreases c.to_come().len(),
    {
        let ghost before = out@;
        out.push(x);
        proof { assert(before.push(x) + c.to_come() =~= before + (seq![x] + c.to_come())); }
    }
    out
}
uninterp spec fn str_bytes(s: String) -> Seq<u8>;
#[verifier::external_body]
fn string_bytes(s: &String) -> (r: &[u8]) ensures r@ == str_bytes(*s) { unimplemented!() }
#[verifier::external_body]
fn string_empty() -> (r: String) ensures str_bytes(r) == Seq::<u8>::empty() { unimplemented!() }
// String::from_utf8(v).map_err(..): the string it accepts has exactly those bytes
#[verifier::external_body]
fn string_from_utf8(v: Vec<u8>) -> (r: Result<String, &'static str>) ensures r is Ok ==> str_bytes(r->Ok_0) == v@ { unimplemented!() }

struct ElementForString { }
impl ElementForString {
//@ extract tuple_key/src/lib.rs | impl Element for String :: fn append_to
//@ rewrite X24 `fn append_to(&self, key: &mut TupleKey)` => `fn append_to(this: &String, key: &mut TupleKey)`
//@ rewrite-re X7 `\bself\.as_bytes\(\)` => `string_bytes(this)`
//@ rewrite-re? X7 `key\.append_bytes\(&mut \[0u8\]\.iter\(\)\.copied\(\)\);` => `key.append_zero_byte();`
//@ post <<
        final(key).buf@ == old(key).buf@ + str_enc(str_bytes(*this)),
//@ >>
//@ end
//@ extract tuple_key/src/lib.rs | impl Element for String :: fn parse_from
//@ ret r
//@ rewrite X24 `fn parse_from(buf: &[u8]) -> Result<Self, &'static str>` => `fn parse_from(buf: &[u8]) -> Result<String, &'static str>`
//@ rewrite X7 `String::new()` => `string_empty()`
//@ rewrite-re X13 `String::from_utf8\((\w+)\.collect\(\)\)\.map_err\(\|_\| "[^"]*"\)` => `string_from_utf8(collect_chunks(\1))`
//@ post <<
        r is Ok ==> str_bytes(r->Ok_0) == str_dec(buf@),
//@ >>
//@ end
}

//@ contract-lemma theorem_chunks_preserve_order
//@ contract-lemma theorem_string_round_trip
//@ contract-lemma theorem_chunks_round_trip
//@ min-verified 45
} // verus!
fn main() {}
