//@ package sst
//@ modfile sst/src/merging_cursor.rs
//@ flags --lib --no-default-features

#[cfg(kani)]
pub(crate) mod __verif_merging {
    use super::*;
//@ include arrcursor.inc.rs

    const NC: usize = 3;
    const CN: usize = 2; // entries per child in this unit
    // entry order: key ascending, then timestamp descending
    fn lt(k1: u8, t1: u64, k2: u8, t2: u64) -> bool { k1 < k2 || (k1 == k2 && t1 > t2) }
    fn any_children() -> [ArrCursor; NC] {
        let cs = [ArrCursor::any_sorted(), ArrCursor::any_sorted(), ArrCursor::any_sorted()];
        let mut a = 0;
        while a < NC {
            kani::assume(cs[a].n <= CN);
            // (key, timestamp) pairs are unique across the inputs (timestamps are unique in the store)
            let mut b = a + 1;
            while b < NC {
                let mut i = 0; while i < CN { let mut j = 0; while j < CN {
                    if i < cs[a].n && j < cs[b].n { kani::assume(!(cs[a].keys[i][0] == cs[b].keys[j][0] && cs[a].ts[i] == cs[b].ts[j])); }
                    j += 1; } i += 1; }
                b += 1;
            }
            a += 1;
        }
        cs
    }
    fn total(cs: &[ArrCursor; NC]) -> isize { (cs[0].n + cs[1].n + cs[2].n) as isize }
    // number of entries of the union strictly below (k,t)
    fn rank(cs: &[ArrCursor; NC], k: u8, t: u64) -> isize {
        let mut r = 0; let mut a = 0;
        while a < NC { let mut i = 0; while i < CN { if i < cs[a].n && lt(cs[a].keys[i][0], cs[a].ts[i], k, t) { r += 1; } i += 1; } a += 1; }
        r
    }
    // the entry of rank g in the sorted union: (child, index)
    fn nth(cs: &[ArrCursor; NC], g: isize) -> (usize, usize) {
        let mut res = (0usize, 0usize); let mut a = 0;
        while a < NC { let mut i = 0; while i < CN { if i < cs[a].n && rank(cs, cs[a].keys[i][0], cs[a].ts[i]) == g { res = (a, i); } i += 1; } a += 1; }
        res
    }
    fn first_gt(c: &ArrCursor, k: u8, t: u64) -> isize { let mut r = c.n as isize; let mut i = CN; while i > 0 { i -= 1; if i < c.n && lt(k, t, c.keys[i][0], c.ts[i]) { r = i as isize; } } r }
    fn last_lt(c: &ArrCursor, k: u8, t: u64) -> isize { let mut r = -1isize; let mut i = 0; while i < CN { if i < c.n && lt(c.keys[i][0], c.ts[i], k, t) { r = i as isize; } i += 1; } r }

    // abstraction function over (comparator, heap order, child positions); None = not a rest state.
    // `orig` are the children in their original order, used only to compute ranks.
    fn view(mc: &MergingCursor<ArrCursor>) -> Option<isize> {
        let v = &mc.cursors;
        let cs = [v[0], v[1], v[2]];
        let tot = total(&cs);
        let top = &v[0];
        let fwd = mc.comparator == Comparator::Forward;
        match top.at() {
            Some(i) => {
                let (k, t) = (top.keys[i][0], top.ts[i]);
                let mut ok = true; let mut j = 1;
                while j < NC {
                    let want = if fwd { first_gt(&v[j], k, t) } else { last_lt(&v[j], k, t) };
                    ok = ok & (v[j].pos == want);
                    j += 1;
                }
                if ok { Some(rank(&cs, k, t)) } else { None }
            }
            None => {
                if fwd {
                    if top.pos == -1 {
                        // fresh from seek_to_first: top rewound, it owns the smallest first entry, others on their first entry
                        let mut ok = true; let mut j = 1;
                        while j < NC {
                            ok = ok & (v[j].pos == 0);
                            if top.n > 0 && v[j].n > 0 { ok = ok & lt(top.keys[0][0], top.ts[0], v[j].keys[0][0], v[j].ts[0]); }
                            if top.n == 0 { ok = ok & (v[j].n == 0); }
                            j += 1;
                        }
                        if ok { Some(-1) } else { None }
                    } else {
                        let mut ok = true; let mut j = 1; while j < NC { ok = ok & (v[j].pos == v[j].n as isize); j += 1; }
                        if ok { Some(tot) } else { None }
                    }
                } else {
                    if top.pos == top.n as isize && !(top.n == 0 && top.pos == -1) {
                        let mut ok = true; let mut j = 1;
                        while j < NC {
                            ok = ok & (v[j].pos == v[j].n as isize - 1);
                            if top.n > 0 && v[j].n > 0 { ok = ok & lt(v[j].keys[v[j].n - 1][0], v[j].ts[v[j].n - 1], top.keys[top.n - 1][0], top.ts[top.n - 1]); }
                            if top.n == 0 { ok = ok & (v[j].n == 0); }
                            j += 1;
                        }
                        if ok { Some(tot) } else { None }
                    } else {
                        let mut ok = true; let mut j = 1; while j < NC { ok = ok & (v[j].pos == -1); j += 1; }
                        if ok { Some(-1) } else { None }
                    }
                }
            }
        }
    }
    fn any_state() -> (MergingCursor<ArrCursor>, isize) {
        let mut cs = any_children();
        let mut i = 0; while i < NC { let q: isize = kani::any(); kani::assume(q >= -1 && q <= cs[i].n as isize); cs[i].pos = q; i += 1; }
        let mut v: Vec<ArrCursor> = Vec::with_capacity(NC);
        v.push(cs[0]); v.push(cs[1]); v.push(cs[2]);
        let comparator = if kani::any() { Comparator::Forward } else { Comparator::Reverse };
        let mc = MergingCursor { comparator, cursors: v };
        let g = match view(&mc) { Some(g) => g, None => { kani::assume(false); 0 } };
        (mc, g)
    }
    fn check_at(mc: &MergingCursor<ArrCursor>, g: isize) {
        let v = &mc.cursors;
        let cs = [v[0], v[1], v[2]];
        assert!(view(mc) == Some(g));
        if g >= 0 && g < total(&cs) {
            let (a, i) = nth(&cs, g);
            match mc.key() { Some(k) => { assert!(k.key[0] == cs[a].keys[i][0] && k.timestamp == cs[a].ts[i]); } None => { assert!(false); } }
            match mc.value() { Some(x) => { assert!(cs[a].has_val[i] && x[0] == cs[a].vals[i][0]); } None => { assert!(!cs[a].has_val[i]); } }
        } else { assert!(mc.key().is_none() && mc.value().is_none()); }
    }
    fn ok(r: Result<(), SError>) { match r { Ok(()) => {}, Err(e) => { core::mem::forget(e); assert!(false); } } }

    //@ H kind=bounded tier=quick timeout=2400 bound="3 children x <=2 entries, keys 0..=5, ts 0..=7, unique (key,ts); every rest state in both heap directions" oblig="sst::MergingCursor::next==merge.next"
    #[kani::proof]
    #[kani::unwind(5)]
    fn merging_next() {
        let (mut mc, g) = any_state();
        let tot = total(&[mc.cursors[0], mc.cursors[1], mc.cursors[2]]);
        ok(mc.next());
        check_at(&mc, if g < tot { g + 1 } else { tot });
        kani::cover!(mc.comparator == Comparator::Forward && g == 2);
        core::mem::forget(mc);
    }

    //@ H kind=bounded tier=quick timeout=2400 bound="3 children x <=2 entries, keys 0..=5, ts 0..=7, unique (key,ts); every rest state in both heap directions" oblig="sst::MergingCursor::prev==merge.prev"
    #[kani::proof]
    #[kani::unwind(5)]
    fn merging_prev() {
        let (mut mc, g) = any_state();
        ok(mc.prev());
        check_at(&mc, if g > -1 { g - 1 } else { -1 });
        kani::cover!(g == 3);
        core::mem::forget(mc);
    }

    //@ H kind=bounded tier=quick timeout=2400 bound="3 children x <=2 entries, keys 0..=5, ts 0..=7, unique (key,ts); every rest state; seek keys 0..=6" oblig="sst::MergingCursor::seek==merge.seek"
    #[kani::proof]
    #[kani::unwind(5)]
    fn merging_seek() {
        let (mut mc, _g) = any_state();
        let k: [u8; 1] = kani::any(); kani::assume(k[0] <= 6);
        ok(mc.seek(&k[..]));
        let cs = [mc.cursors[0], mc.cursors[1], mc.cursors[2]];
        // number of entries with key < k = rank of the first entry with key >= k
        let mut want = 0; let mut a = 0;
        while a < NC { let mut i = 0; while i < CN { if i < cs[a].n && cs[a].keys[i][0] < k[0] { want += 1; } i += 1; } a += 1; }
        check_at(&mc, want);
        kani::cover!(want > 0 && want < total(&cs));
        core::mem::forget(mc);
    }

    //@ H kind=bounded tier=quick timeout=2400 bound="3 children x <=2 entries; every rest state" oblig="sst::MergingCursor::seek_to_first/last+new"
    #[kani::proof]
    #[kani::unwind(5)]
    fn merging_ends_and_new() {
        let (mut mc, _g) = any_state();
        let tot = total(&[mc.cursors[0], mc.cursors[1], mc.cursors[2]]);
        if kani::any() { ok(mc.seek_to_first()); check_at(&mc, -1); } else { ok(mc.seek_to_last()); check_at(&mc, tot); }
        core::mem::forget(mc);
        let cs = any_children();
        let mut v: Vec<ArrCursor> = Vec::with_capacity(NC);
        v.push(cs[0]); v.push(cs[1]); v.push(cs[2]);
        match MergingCursor::new(v) { Ok(m2) => { check_at(&m2, -1); core::mem::forget(m2); } Err(e) => { core::mem::forget(e); assert!(false); } }
        kani::cover!(tot == 6);
    }
}
