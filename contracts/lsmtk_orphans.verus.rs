// Unit lsmtk_orphans (C08, function-local clauses only): the two places where the running store moves an SST to trash.
//   * LsmTree::cleanup_orphans (orphan clean-up on open), extracted entire: it replays the edits of every manifest
//     fragment, keeps the set of setsums whose LAST mention is a removal, and moves exactly those files to trash.
//     Proved, for any number of fragments and edits: no file it moves is listed by the manifest as it stands after all
//     those edits -- "orphan clean-up on open never removes a file that the current manifest lists".
//   * LsmTree::explicit_unref: an SST is moved to trash only when the last reference to it is dropped, i.e. only for a
//     setsum for which ReferenceCounter::dec reported that the count fell to zero ("no live reader snapshot depends on it").
// The manifest's listing is a set of digest strings; a file is named by its setsum; the two are tied by hexdigest /
// from_hexdigest being inverse (assumed, as in unit lsmtk_balance).  The listing after an edit is (listing - removed) + added
// (Manifest::apply_edit removes first, then adds: read from mani/src/lib.rs, assumed).
// ASSUMED: what mani::ManifestIterator yields for a fragment is its sequence of edits; the FIRST edit of every fragment is
// the roll-over snapshot of the listing at that moment, so it does not change the listing (C13, not applicable); iterating
// a HashSet visits exactly its elements; file-system calls may fail arbitrarily; rule X13 (iterator loops as index loops).
// Not here: the offline verifier's own removals, logs, crash points, reader snapshots other than through the counter.
use vstd::prelude::*;
verus! {
global size_of usize == 8;

#[verifier::external_body]
struct SError { _p: u8 }
#[verifier::external_body]
#[derive(Clone, Copy)]
struct Setsum { _p: u8 }
type Digest = Seq<char>;
uninterp spec fn hexdigest(s: Setsum) -> Digest;
#[verifier::external_body]
struct Str { _p: u8 }
impl Str { uninterp spec fn view(&self) -> Digest; }
// hexdigest / from_hexdigest are inverse: the string names the setsum
uninterp spec fn from_hex(d: Digest) -> Option<Setsum>;
#[verifier::external_body]
proof fn axiom_hex_inverse(d: Digest)
    ensures from_hex(d) is Some ==> hexdigest(from_hex(d)->Some_0) == d,
        forall|x: Setsum| hexdigest(x) == d ==> from_hex(d) == Some(x),
{ }
impl Setsum {
    #[verifier::external_body]
    fn from_hexdigest(s: &Str) -> (r: Option<Setsum>) ensures r == from_hex(s@) { unimplemented!() }
}
// HashSet<Setsum>
#[verifier::external_body]
struct SetsumSet { _p: u8 }
impl SetsumSet {
    uninterp spec fn view(&self) -> ISet<Setsum>;
    #[verifier::external_body]
    fn new() -> (r: SetsumSet) ensures r@ == ISet::<Setsum>::empty() { unimplemented!() }
    #[verifier::external_body]
    fn insert(&mut self, x: Setsum) -> (r: bool) ensures final(self)@ == old(self)@.insert(x) { unimplemented!() }
    #[verifier::external_body]
    fn remove(&mut self, x: &Setsum) -> (r: bool) ensures final(self)@ == old(self)@.remove(*x) { unimplemented!() }
    // `for setsum in ssts_to_remove.into_iter()`
    #[verifier::external_body]
    fn into_vec(self) -> (r: Vec<Setsum>) ensures forall|x: Setsum| r@.contains(x) <==> self@.contains(x) { unimplemented!() }
}

// one edit as the manifest applies it
struct EditView { rm: Seq<Digest>, add: Seq<Digest> }
spec fn apply(listing: ISet<Digest>, e: EditView) -> ISet<Digest> {
    ISet::new(|d: Digest| (listing.contains(d) && !e.rm.contains(d)) || e.add.contains(d))
}
// the listing after the edits 1.. of the first f fragments and the edits 1..j of fragment f (edit 0 of a fragment is its snapshot)
spec fn listing_at(l0: ISet<Digest>, h: Seq<Seq<EditView>>, f: int, j: int) -> ISet<Digest>
    decreases f, j
{
    if f < 0 { l0 }
    else if j <= 1 { if f == 0 { l0 } else { listing_at(l0, h, f - 1, h[f - 1].len() as int) } }
    else { apply(listing_at(l0, h, f, j - 1), h[f][j - 1]) }
}
spec fn listing_final(l0: ISet<Digest>, h: Seq<Seq<EditView>>) -> ISet<Digest> {
    if h.len() == 0 { l0 } else { listing_at(l0, h, h.len() as int - 1, h[h.len() as int - 1].len() as int) }
}

#[verifier::external_body]
struct Edit { _p: u8 }
impl Edit {
    uninterp spec fn view(&self) -> EditView;
    // `edit.rmed()` / `edit.added()` (iterators over the strings of the edit)
    #[verifier::external_body]
    fn rmed_vec(&self) -> (r: Vec<Str>) ensures r@.len() == self@.rm.len(), forall|i: int| 0 <= i < r@.len() ==> (#[trigger] r@[i])@ == self@.rm[i] { unimplemented!() }
    #[verifier::external_body]
    fn added_vec(&self) -> (r: Vec<Str>) ensures r@.len() == self@.add.len(), forall|i: int| 0 <= i < r@.len() ==> (#[trigger] r@[i])@ == self@.add[i] { unimplemented!() }
}
#[verifier::external_body]
struct PathBuf { _p: u8 }
#[verifier::external_body]
struct Root { _p: u8 }
// ManifestIterator over one fragment
#[verifier::external_body]
struct ManifestIterator { _p: u8 }
impl ManifestIterator {
    uninterp spec fn edits(&self) -> Seq<EditView>;
    #[verifier::external_body]
    fn len(&self) -> (r: usize) ensures r == self.edits().len() { unimplemented!() }
    // the j-th item the iterator yields
    #[verifier::external_body]
    fn edit_at(&self, j: usize) -> (r: Result<Edit, SError>)
        requires j < self.edits().len(),
        ensures r is Ok ==> r->Ok_0@ == self.edits()[j as int],
    { unimplemented!() }
}
// SST_FILE(root, setsum) / TRASH_SST(root, setsum)
#[verifier::external_body]
struct SstPath { _p: u8 }
impl SstPath {
    uninterp spec fn names(&self) -> Setsum;
    #[verifier::external_body]
    fn exists(&self) -> (r: bool) { unimplemented!() }
}
#[verifier::external_body]
fn sst_file(root: &Root, setsum: Setsum) -> (r: SstPath) ensures r.names() == setsum { unimplemented!() }
#[verifier::external_body]
fn trash_sst(root: &Root, setsum: Setsum) -> (r: SstPath) ensures r.names() == setsum { unimplemented!() }

// ghost: the files moved so far; the edits the fragments hold; the listing the oldest fragment starts from
// lsmtk::reference_counter::ReferenceCounter<Setsum>: how many live versions list a file (a HashMap under a mutex)
#[verifier::external_body]
struct ReferenceCounter { _p: u8 }
impl ReferenceCounter {
    uninterp spec fn count(&self, x: Setsum) -> nat;
    // true iff this was the last reference (the entry is then removed); an absent entry is left alone
    #[verifier::external_body]
    fn dec(&mut self, x: Setsum) -> (r: bool)
        ensures r ==> final(self).count(x) == 0,
            !r ==> final(self).count(x) == (if old(self).count(x) == 0 { 0nat } else { (old(self).count(x) - 1) as nat }) && (old(self).count(x) == 0 || old(self).count(x) >= 2),
            forall|y: Setsum| y != x ==> final(self).count(y) == old(self).count(y),
    { unimplemented!() }
}
// Arc<Version>
#[verifier::external_body]
struct VersionArc { _p: u8 }
impl VersionArc {
    uninterp spec fn holders(&self) -> nat;
    #[verifier::external_body]
    fn setsums(&self) -> (r: Vec<Setsum>) { unimplemented!() }
}
// Arc::strong_count(version)
#[verifier::external_body]
fn strong_count(v: &VersionArc) -> (r: usize) ensures r == v.holders() { unimplemented!() }
struct LsmTree { root: Root, moved: Ghost<ISet<Setsum>>, history: Ghost<Seq<Seq<EditView>>>, base: Ghost<ISet<Digest>>, references: ReferenceCounter }
impl LsmTree {
    // verifier::list_mani_fragments(&self.root): the fragments, oldest first, the live MANIFEST last
    #[verifier::external_body]
    fn list_mani_fragments(&self) -> (r: Result<Vec<PathBuf>, SError>)
        ensures r is Ok ==> r->Ok_0@.len() == self.history@.len(),
    { unimplemented!() }
    #[verifier::external_body]
    fn open_fragment(&self, manis: &Vec<PathBuf>, i: usize) -> (r: Result<ManifestIterator, SError>)
        requires i < manis@.len(), manis@.len() == self.history@.len(),
        ensures r is Ok ==> r->Ok_0.edits() == self.history@[i as int],
    { unimplemented!() }
    // std::fs::rename(sst_path, trash_path): the file named by this setsum leaves the sst directory (or the call fails)
    #[verifier::external_body]
    fn rename(&mut self, from: SstPath, to: SstPath) -> (r: Result<(), SError>)
        ensures final(self).moved@ == old(self).moved@.insert(from.names()) || final(self).moved@ == old(self).moved@,
            final(self).history == old(self).history, final(self).base == old(self).base, final(self).references == old(self).references,
    { unimplemented!() }
}

// what the replay has established so far: nothing in the set is listed
spec fn disjoint(set: ISet<Setsum>, listing: ISet<Digest>) -> bool { forall|x: Setsum| set.contains(x) ==> !listing.contains(#[trigger] hexdigest(x)) }
// the setsums named by the first n strings
spec fn parsed(d: Seq<Digest>, n: int) -> ISet<Setsum> { ISet::new(|x: Setsum| exists|i: int| 0 <= i < n && i < d.len() && from_hex(#[trigger] d[i]) == Some(x)) }
proof fn lemma_parsed_step(d: Seq<Digest>, n: int)
    requires 0 <= n < d.len()
    ensures parsed(d, n + 1) =~= (if from_hex(d[n]) is Some { parsed(d, n).insert(from_hex(d[n])->Some_0) } else { parsed(d, n) })
{
    let r = from_hex(d[n]);
    assert forall|x: Setsum| parsed(d, n + 1).contains(x) <==> (parsed(d, n).contains(x) || (r is Some && x == r->Some_0)) by {
        if parsed(d, n + 1).contains(x) {
            let i = choose|i: int| 0 <= i < n + 1 && i < d.len() && from_hex(#[trigger] d[i]) == Some(x);
            if i < n { assert(parsed(d, n).contains(x)); }
        }
        if parsed(d, n).contains(x) {
            let i = choose|i: int| 0 <= i < n && i < d.len() && from_hex(#[trigger] d[i]) == Some(x);
            assert(0 <= i < n + 1);
        }
        if r is Some && x == r->Some_0 { assert(from_hex(d[n]) == Some(x)); }
    }
}
// one edit: (set + removed - added) stays clear of (listing - removed + added)
proof fn lemma_edit_step(set: ISet<Setsum>, listing: ISet<Digest>, e: EditView)
    requires disjoint(set, listing)
    ensures disjoint(set.union(parsed(e.rm, e.rm.len() as int)).difference(parsed(e.add, e.add.len() as int)), apply(listing, e))
{
    let s2 = set.union(parsed(e.rm, e.rm.len() as int)).difference(parsed(e.add, e.add.len() as int));
    assert forall|x: Setsum| s2.contains(x) implies !apply(listing, e).contains(#[trigger] hexdigest(x)) by {
        let hx = hexdigest(x);
        axiom_hex_inverse(hx);
        if e.add.contains(hx) {
            let i = choose|i: int| 0 <= i < e.add.len() && e.add[i] == hx;
            assert(from_hex(e.add[i]) == Some(x));
            assert(parsed(e.add, e.add.len() as int).contains(x));
        }
        if parsed(e.rm, e.rm.len() as int).contains(x) {
            let i = choose|i: int| 0 <= i < e.rm.len() && i < e.rm.len() && from_hex(#[trigger] e.rm[i]) == Some(x);
            axiom_hex_inverse(e.rm[i]);
            assert(e.rm[i] == hx);
            assert(e.rm.contains(hx));
        }
    }
}

impl LsmTree {
//@ extract lsmtk/src/tree/mod.rs | impl LsmTree :: fn cleanup_orphans
//@ ret r
//@ rewrite X7 `let manis = verifier::list_mani_fragments(&self.root)?;` => `let manis = self.list_mani_fragments()?;`
//@ rewrite X7 `let mut ssts_to_remove = HashSet::new();` => `let mut ssts_to_remove = SetsumSet::new();`
//@ rewrite X13 `for mani in manis.into_iter() {` => `for fidx in 0..manis.len() {`
//@ rewrite X7 `let mani_iter = ManifestIterator::open(mani)?;` => `let mani_iter = self.open_fragment(&manis, fidx)?;`
//@ rewrite X13 `for edit in mani_iter {` => `let mut eidx: usize = 0; while eidx < mani_iter.len() { let edit = mani_iter.edit_at(eidx); eidx += 1;`
//@ rewrite X13 `for rmed in edit.rmed() {` => `let rmv = edit.rmed_vec(); for ridx in 0..rmv.len() { let rmed = &rmv[ridx];`
//@ rewrite X13 `for added in edit.added() {` => `let addv = edit.added_vec(); for aidx in 0..addv.len() { let added = &addv[aidx];`
//@ rewrite X13 `for setsum in ssts_to_remove.into_iter() {` => `let to_remove = ssts_to_remove.into_vec(); for sidx in 0..to_remove.len() { let setsum = to_remove[sidx];`
//@ rewrite-re X7 `SST_FILE\(&self\.root, (\w+)\)` => `sst_file(&self.root, \1)`
//@ rewrite-re X7 `TRASH_SST\(&self\.root, (\w+)\)` => `trash_sst(&self.root, \1)`
//@ rewrite-re X7 `let _ = rename\((\w+), (\w+)\);` => `let _ = self.rename(\1, \2);`
//@ pre <<
        old(self).moved@ == ISet::<Setsum>::empty(),
//@ >>
//@ post <<
        // whatever was moved to trash is not listed by the manifest as it stands after every edit of every fragment
        r is Ok ==> disjoint(final(self).moved@, listing_final(old(self).base@, old(self).history@)),
        r is Err ==> final(self).moved@ == ISet::<Setsum>::empty(),
//@ >>
//@ bodystart <<
        let ghost l0 = self.base@;
        let ghost h = self.history@;
//@ >>
//@ loop 0 <<
            invariant *self == *old(self), self.moved@ == ISet::<Setsum>::empty(), manis@.len() == h.len(), h == self.history@, l0 == self.base@,
                /* contract-inv */ disjoint(ssts_to_remove@, listing_at(l0, h, fidx as int, 0)),
//@ >>
//@ loop 1 <<
                invariant *self == *old(self), self.moved@ == ISet::<Setsum>::empty(), manis@.len() == h.len(), h == self.history@, l0 == self.base@, fidx < h.len(), mani_iter.edits() == h[fidx as int],
                    eidx <= mani_iter.edits().len(), first <==> eidx == 0,
                    /* contract-inv */ disjoint(ssts_to_remove@, listing_at(l0, h, fidx as int, eidx as int)),
                decreases mani_iter.edits().len() - eidx,
//@ >>
//@ loop 2 <<
                    invariant rmv@.len() == edit@.rm.len(), forall|i: int| 0 <= i < rmv@.len() ==> (#[trigger] rmv@[i])@ == edit@.rm[i],
                        /* contract-inv */ ssts_to_remove@ =~= set1.union(parsed(edit@.rm, ridx as int)),
//@ >>
//@ loop 3 <<
                    invariant addv@.len() == edit@.add.len(), forall|i: int| 0 <= i < addv@.len() ==> (#[trigger] addv@[i])@ == edit@.add[i],
                        /* contract-inv */ ssts_to_remove@ =~= set2.difference(parsed(edit@.add, aidx as int)),
//@ >>
//@ loop 4 <<
            invariant self.history@ == h, self.base@ == l0, forall|x: Setsum| to_remove@.contains(x) <==> set_final.contains(x),
                /* contract-inv */ forall|x: Setsum| self.moved@.contains(x) ==> set_final.contains(x),
//@ >>
//@ before `let rmv = edit.rmed_vec();` <<
                let ghost set1 = ssts_to_remove@;
                proof { assert(parsed(edit@.rm, 0) =~= ISet::<Setsum>::empty()); }
//@ >>
//@ endloop 2 <<
                    proof { lemma_parsed_step(edit@.rm, ridx as int); }
//@ >>
//@ before `let addv = edit.added_vec();` <<
                let ghost set2 = ssts_to_remove@;
                proof { assert(parsed(edit@.add, 0) =~= ISet::<Setsum>::empty()); }
//@ >>
//@ endloop 3 <<
                    proof { lemma_parsed_step(edit@.add, aidx as int); }
//@ >>
//@ afterloop 3 <<
                proof {
                    lemma_edit_step(set1, listing_at(l0, h, fidx as int, eidx as int - 1), edit@);
                    assert(listing_at(l0, h, fidx as int, eidx as int) == apply(listing_at(l0, h, fidx as int, eidx as int - 1), h[fidx as int][eidx as int - 1]));
                }
//@ >>
//@ before `let to_remove = ssts_to_remove.into_vec();` <<
        let ghost set_final = ssts_to_remove@;
//@ >>
//@ end
}
impl LsmTree {
//@ extract lsmtk/src/tree/mod.rs | impl LsmTree :: fn explicit_unref
//@ rewrite X20 `fn explicit_unref(&self, version: &Arc<Version>)` => `fn explicit_unref(&mut self, version: &VersionArc)`
//@ rewrite-re? X18 `Arc::strong_count\(version\)` => `strong_count(version)`
//@ rewrite X13 `for setsum in version.setsums() {` => `let listed = version.setsums(); for sidx in 0..listed.len() { let setsum = listed[sidx];`
//@ rewrite-re X7 `SST_FILE\(&self\.root, (\w+)\)` => `sst_file(&self.root, \1)`
//@ rewrite-re X7 `TRASH_SST\(&self\.root, (\w+)\)` => `trash_sst(&self.root, \1)`
//@ rewrite-re X7 `let _ = rename\((\w+), (\w+)\);` => `let _ = self.rename(\1, \2);`
//@ post <<
        // a file goes to trash only when no live version references it any more, and only if it was this version's
        forall|x: Setsum| final(self).moved@.contains(x) && !old(self).moved@.contains(x) ==> final(self).references.count(x) == 0,
        // ... and only by the last holder of the version
        version.holders() != 1 ==> final(self).moved@ == old(self).moved@ && final(self).references == old(self).references,
//@ >>
//@ loop 0 <<
            invariant
                /* contract-inv */ forall|x: Setsum| self.moved@.contains(x) && !old(self).moved@.contains(x) ==> self.references.count(x) == 0,
//@ >>
//@ end
}

//@ min-verified 2
} // verus!
fn main() {}
