// Unit lsmtk_orphans (C08, function-local clauses only): the two places where the running store moves an SST to trash.
//   * LsmTree::cleanup_orphans (orphan clean-up on open), extracted entire: it replays the edits of every manifest
//     fragment, keeps the set of setsums whose LAST mention is a removal, and moves exactly those files to trash.
//     Proved, for any number of fragments and edits: no file it moves is listed by the manifest as it stands after all
//     those edits -- "orphan clean-up on open never removes a file that the current manifest lists".
//   * LsmTree::explicit_unref: an SST is moved to trash only when the last reference to it is dropped, i.e. only for a
//     setsum for which ReferenceCounter::dec reported that the count fell to zero ("no live reader snapshot depends on it").
// The manifest's listing is a set of digest strings; a file is named by its setsum; the two are tied by hexdigest /
// from_hexdigest being inverse (assumed, as in unit lsmtk_balance).  The listing after an edit is (listing - removed) + added
// (Manifest::apply_edit removes first, then adds: read from mani/src/lib.rs, assumed).
// ASSUMED: what mani::ManifestIterator yields for a fragment is its sequence of edits; the FIRST edit of every fragment is
// the roll-over snapshot of the listing at that moment, so it does not change the listing (C13, not applicable); iterating
// a HashSet visits exactly its elements; file-system calls may fail arbitrarily; rule X13 (iterator loops as index loops).
//   * the offline verifier: LsmVerifier::possibly_complete_processing (entire) and the recording region of process_one
//     (further down): it unlinks only the fragment its own manifest records as processed and trash entries whose names
//     were recorded from what verify_one returned for a verified fragment.
// Not here: logs of the key-value store, crash points, reader snapshots other than through the counter.
use vstd::prelude::*;
verus! {
global size_of usize == 8;

#[verifier::external_body]
struct SError { _p: u8 }
#[verifier::external_body]
#[derive(Clone, Copy)]
struct Setsum { _p: u8 }
type Digest = Seq<char>;
uninterp spec fn hexdigest(s: Setsum) -> Digest;
#[verifier::external_body]
struct Str { _p: u8 }
impl Str { uninterp spec fn view(&self) -> Digest; }
// hexdigest / from_hexdigest are inverse: the string names the setsum
uninterp spec fn from_hex(d: Digest) -> Option<Setsum>;
#[verifier::external_body]
proof fn axiom_hex_inverse(d: Digest)
    ensures from_hex(d) is Some ==> hexdigest(from_hex(d)->Some_0) == d,
        forall|x: Setsum| hexdigest(x) == d ==> from_hex(d) == Some(x),
{ }
impl Setsum {
    #[verifier::external_body]
    fn from_hexdigest(s: &Str) -> (r: Option<Setsum>) ensures r == from_hex(s@) { unimplemented!() }
}
// HashSet<Setsum>
#[verifier::external_body]
struct SetsumSet { _p: u8 }
impl SetsumSet {
    uninterp spec fn view(&self) -> ISet<Setsum>;
    #[verifier::external_body]
    fn new() -> (r: SetsumSet) ensures r@ == ISet::<Setsum>::empty() { unimplemented!() }
    #[verifier::external_body]
    fn insert(&mut self, x: Setsum) -> (r: bool) ensures final(self)@ == old(self)@.insert(x) { unimplemented!() }
    #[verifier::external_body]
    fn remove(&mut self, x: &Setsum) -> (r: bool) ensures final(self)@ == old(self)@.remove(*x) { unimplemented!() }
    // `for setsum in ssts_to_remove.into_iter()`
    #[verifier::external_body]
    fn into_vec(self) -> (r: Vec<Setsum>) ensures forall|x: Setsum| r@.contains(x) <==> self@.contains(x) { unimplemented!() }
}

// one edit as the manifest applies it
struct EditView { rm: Seq<Digest>, add: Seq<Digest> }
spec fn apply(listing: ISet<Digest>, e: EditView) -> ISet<Digest> {
    ISet::new(|d: Digest| (listing.contains(d) && !e.rm.contains(d)) || e.add.contains(d))
}
// the listing after the edits 1.. of the first f fragments and the edits 1..j of fragment f (edit 0 of a fragment is its snapshot)
spec fn listing_at(l0: ISet<Digest>, h: Seq<Seq<EditView>>, f: int, j: int) -> ISet<Digest>
    decreases f, j
{
    if f < 0 { l0 }
    else if j <= 1 { if f == 0 { l0 } else { listing_at(l0, h, f - 1, h[f - 1].len() as int) } }
    else { apply(listing_at(l0, h, f, j - 1), h[f][j - 1]) }
}
spec fn listing_final(l0: ISet<Digest>, h: Seq<Seq<EditView>>) -> ISet<Digest> {
    if h.len() == 0 { l0 } else { listing_at(l0, h, h.len() as int - 1, h[h.len() as int - 1].len() as int) }
}

#[verifier::external_body]
struct Edit { _p: u8 }
impl Edit {
    uninterp spec fn view(&self) -> EditView;
    // `edit.rmed()` / `edit.added()` (iterators over the strings of the edit)
    #[verifier::external_body]
    fn rmed_vec(&self) -> (r: Vec<Str>) ensures r@.len() == self@.rm.len(), forall|i: int| 0 <= i < r@.len() ==> (#[trigger] r@[i])@ == self@.rm[i] { unimplemented!() }
    #[verifier::external_body]
    fn added_vec(&self) -> (r: Vec<Str>) ensures r@.len() == self@.add.len(), forall|i: int| 0 <= i < r@.len() ==> (#[trigger] r@[i])@ == self@.add[i] { unimplemented!() }
}
#[verifier::external_body]
struct PathBuf { _p: u8 }
#[verifier::external_body]
struct Root { _p: u8 }
// ManifestIterator over one fragment
#[verifier::external_body]
struct ManifestIterator { _p: u8 }
impl ManifestIterator {
    uninterp spec fn edits(&self) -> Seq<EditView>;
    #[verifier::external_body]
    fn len(&self) -> (r: usize) ensures r == self.edits().len() { unimplemented!() }
    // the j-th item the iterator yields
    #[verifier::external_body]
    fn edit_at(&self, j: usize) -> (r: Result<Edit, SError>)
        requires j < self.edits().len(),
        ensures r is Ok ==> r->Ok_0@ == self.edits()[j as int],
    { unimplemented!() }
}
// SST_FILE(root, setsum) / TRASH_SST(root, setsum)
#[verifier::external_body]
struct SstPath { _p: u8 }
impl SstPath {
    uninterp spec fn names(&self) -> Setsum;
    #[verifier::external_body]
    fn exists(&self) -> (r: bool) { unimplemented!() }
}
#[verifier::external_body]
fn sst_file(root: &Root, setsum: Setsum) -> (r: SstPath) ensures r.names() == setsum { unimplemented!() }
#[verifier::external_body]
fn trash_sst(root: &Root, setsum: Setsum) -> (r: SstPath) ensures r.names() == setsum { unimplemented!() }

// ghost: the files moved so far; the edits the fragments hold; the listing the oldest fragment starts from
// lsmtk::reference_counter::ReferenceCounter<Setsum>: how many live versions list a file (a HashMap under a mutex)
#[verifier::external_body]
struct ReferenceCounter { _p: u8 }
impl ReferenceCounter {
    uninterp spec fn count(&self, x: Setsum) -> nat;
    // true iff this was the last reference (the entry is then removed); an absent entry is left alone
    #[verifier::external_body]
    fn dec(&mut self, x: Setsum) -> (r: bool)
        ensures r ==> final(self).count(x) == 0 && old(self).count(x) == 1,
            !r ==> final(self).count(x) == (if old(self).count(x) == 0 { 0nat } else { (old(self).count(x) - 1) as nat }) && (old(self).count(x) == 0 || old(self).count(x) >= 2),
            forall|y: Setsum| y != x ==> final(self).count(y) == old(self).count(y),
    { unimplemented!() }
}
impl ReferenceCounter {
    // one more reference (same bounded comparison with the real counter as dec)
    #[verifier::external_body]
    fn inc(&mut self, x: Setsum)
        ensures final(self).count(x) == old(self).count(x) + 1, forall|y: Setsum| y != x ==> final(self).count(y) == old(self).count(y),
    { unimplemented!() }
}
// Arc<Version>
#[verifier::external_body]
struct VersionArc { _p: u8 }
impl VersionArc {
    uninterp spec fn holders(&self) -> nat;
    // the setsums of the files the version holds, as setsums() yields them
    uninterp spec fn files(&self) -> Seq<Setsum>;
    #[verifier::external_body]
    fn setsums(&self) -> (r: Vec<Setsum>) ensures r@ == self.files() { unimplemented!() }
}
spec fn one_if(b: bool) -> nat { if b { 1 } else { 0 } }
// Arc::strong_count(version)
#[verifier::external_body]
fn strong_count(v: &VersionArc) -> (r: usize) ensures r == v.holders() { unimplemented!() }
struct LsmTree { root: Root, moved: Ghost<ISet<Setsum>>, history: Ghost<Seq<Seq<EditView>>>, base: Ghost<ISet<Digest>>, references: ReferenceCounter, version: VersionArc }
impl LsmTree {
    // verifier::list_mani_fragments(&self.root): the fragments, oldest first, the live MANIFEST last
    #[verifier::external_body]
    fn list_mani_fragments(&self) -> (r: Result<Vec<PathBuf>, SError>)
        ensures r is Ok ==> r->Ok_0@.len() == self.history@.len(),
    { unimplemented!() }
    #[verifier::external_body]
    fn open_fragment(&self, manis: &Vec<PathBuf>, i: usize) -> (r: Result<ManifestIterator, SError>)
        requires i < manis@.len(), manis@.len() == self.history@.len(),
        ensures r is Ok ==> r->Ok_0.edits() == self.history@[i as int],
    { unimplemented!() }
    // std::fs::rename(sst_path, trash_path): the file named by this setsum leaves the sst directory (or the call fails)
    #[verifier::external_body]
    fn rename(&mut self, from: SstPath, to: SstPath) -> (r: Result<(), SError>)
        ensures final(self).moved@ == old(self).moved@.insert(from.names()) || final(self).moved@ == old(self).moved@,
            final(self).history == old(self).history, final(self).base == old(self).base, final(self).references == old(self).references,
            final(self).version == old(self).version, final(self).root == old(self).root,
    { unimplemented!() }
}

// what the replay has established so far: nothing in the set is listed
spec fn disjoint(set: ISet<Setsum>, listing: ISet<Digest>) -> bool { forall|x: Setsum| set.contains(x) ==> !listing.contains(#[trigger] hexdigest(x)) }
// the setsums named by the first n strings
spec fn parsed(d: Seq<Digest>, n: int) -> ISet<Setsum> { ISet::new(|x: Setsum| exists|i: int| 0 <= i < n && i < d.len() && from_hex(#[trigger] d[i]) == Some(x)) }
proof fn lemma_parsed_step(d: Seq<Digest>, n: int)
    requires 0 <= n < d.len()
    ensures parsed(d, n + 1) =~= (if from_hex(d[n]) is Some { parsed(d, n).insert(from_hex(d[n])->Some_0) } else { parsed(d, n) })
{
    let r = from_hex(d[n]);
    assert forall|x: Setsum| parsed(d, n + 1).contains(x) <==> (parsed(d, n).contains(x) || (r is Some && x == r->Some_0)) by {
        if parsed(d, n + 1).contains(x) {
            let i = choose|i: int| 0 <= i < n + 1 && i < d.len() && from_hex(#[trigger] d[i]) == Some(x);
            if i < n { assert(parsed(d, n).contains(x)); }
        }
        if parsed(d, n).contains(x) {
            let i = choose|i: int| 0 <= i < n && i < d.len() && from_hex(#[trigger] d[i]) == Some(x);
            assert(0 <= i < n + 1);
        }
        if r is Some && x == r->Some_0 { assert(from_hex(d[n]) == Some(x)); }
    }
}
// one edit: (set + removed - added) stays clear of (listing - removed + added)
proof fn lemma_edit_step(set: ISet<Setsum>, listing: ISet<Digest>, e: EditView)
    requires disjoint(set, listing)
    ensures disjoint(set.union(parsed(e.rm, e.rm.len() as int)).difference(parsed(e.add, e.add.len() as int)), apply(listing, e))
{
    let s2 = set.union(parsed(e.rm, e.rm.len() as int)).difference(parsed(e.add, e.add.len() as int));
    assert forall|x: Setsum| s2.contains(x) implies !apply(listing, e).contains(#[trigger] hexdigest(x)) by {
        let hx = hexdigest(x);
        axiom_hex_inverse(hx);
        if e.add.contains(hx) {
            let i = choose|i: int| 0 <= i < e.add.len() && e.add[i] == hx;
            assert(from_hex(e.add[i]) == Some(x));
            assert(parsed(e.add, e.add.len() as int).contains(x));
        }
        if parsed(e.rm, e.rm.len() as int).contains(x) {
            let i = choose|i: int| 0 <= i < e.rm.len() && i < e.rm.len() && from_hex(#[trigger] e.rm[i]) == Some(x);
            axiom_hex_inverse(e.rm[i]);
            assert(e.rm[i] == hx);
            assert(e.rm.contains(hx));
        }
    }
}

impl LsmTree {
//@ extract lsmtk/src/tree/mod.rs | impl LsmTree :: fn cleanup_orphans
//@ ret r
//@ rewrite X7 `let manis = verifier::list_mani_fragments(&self.root)?;` => `let manis = self.list_mani_fragments()?;`
//@ rewrite X7 `let mut ssts_to_remove = HashSet::new();` => `let mut ssts_to_remove = SetsumSet::new();`
//@ rewrite X13 `for mani in manis.into_iter() {` => `for fidx in 0..manis.len() {`
//@ rewrite X7 `let mani_iter = ManifestIterator::open(mani)?;` => `let mani_iter = self.open_fragment(&manis, fidx)?;`
//@ rewrite X13 `for edit in mani_iter {` => `let mut eidx: usize = 0; while eidx < mani_iter.len() { let edit = mani_iter.edit_at(eidx); eidx += 1;`
//@ rewrite X13 `for rmed in edit.rmed() {` => `let rmv = edit.rmed_vec(); for ridx in 0..rmv.len() { let rmed = &rmv[ridx];`
//@ rewrite X13 `for added in edit.added() {` => `let addv = edit.added_vec(); for aidx in 0..addv.len() { let added = &addv[aidx];`
//@ rewrite X13 `for setsum in ssts_to_remove.into_iter() {` => `let to_remove = ssts_to_remove.into_vec(); for sidx in 0..to_remove.len() { let setsum = to_remove[sidx];`
//@ rewrite-re X7 `SST_FILE\(&self\.root, (\w+)\)` => `sst_file(&self.root, \1)`
//@ rewrite-re X7 `TRASH_SST\(&self\.root, (\w+)\)` => `trash_sst(&self.root, \1)`
//@ rewrite-re X7 `let _ = rename\((\w+), (\w+)\);` => `let _ = self.rename(\1, \2);`
//@ pre <<
        old(self).moved@ == ISet::<Setsum>::empty(),
//@ >>
//@ post <<
        // whatever was moved to trash is not listed by the manifest as it stands after every edit of every fragment
        r is Ok ==> disjoint(final(self).moved@, listing_final(old(self).base@, old(self).history@)),
        r is Err ==> final(self).moved@ == ISet::<Setsum>::empty(),
//@ >>
//@ bodystart <<
        let ghost l0 = self.base@;
        let ghost h = self.history@;
//@ >>
//@ loop `for fidx in` <<
            invariant *self == *old(self), self.moved@ == ISet::<Setsum>::empty(), manis@.len() == h.len(), h == self.history@, l0 == self.base@,
                /* contract-inv */ disjoint(ssts_to_remove@, listing_at(l0, h, fidx as int, 0)),
//@ >>
//@ loop `while eidx <` <<
                invariant *self == *old(self), self.moved@ == ISet::<Setsum>::empty(), manis@.len() == h.len(), h == self.history@, l0 == self.base@, fidx < h.len(), mani_iter.edits() == h[fidx as int],
                    eidx <= mani_iter.edits().len(), first <==> eidx == 0,
                    /* contract-inv */ disjoint(ssts_to_remove@, listing_at(l0, h, fidx as int, eidx as int)),
                decreases mani_iter.edits().len() - eidx,
//@ >>
//@ loop `for ridx in` <<
                    invariant rmv@.len() == edit@.rm.len(), forall|i: int| 0 <= i < rmv@.len() ==> (#[trigger] rmv@[i])@ == edit@.rm[i],
                        /* contract-inv */ ssts_to_remove@ =~= set_r.union(parsed(edit@.rm, ridx as int)),
//@ >>
//@ loop `for aidx in` <<
                    invariant addv@.len() == edit@.add.len(), forall|i: int| 0 <= i < addv@.len() ==> (#[trigger] addv@[i])@ == edit@.add[i],
                        /* contract-inv */ ssts_to_remove@ =~= set_a.difference(parsed(edit@.add, aidx as int)),
//@ >>
//@ loop `for sidx in` <<
            invariant self.history@ == h, self.base@ == l0, forall|x: Setsum| to_remove@.contains(x) <==> set_final.contains(x),
                /* contract-inv */ forall|x: Setsum| self.moved@.contains(x) ==> set_final.contains(x),
//@ >>
//@ startloop `while eidx <` <<
                let ghost set0 = ssts_to_remove@;
//@ >>
//@ before `let rmv = edit.rmed_vec();` <<
                let ghost set_r = ssts_to_remove@;
                proof { assert(parsed(edit@.rm, 0) =~= ISet::<Setsum>::empty()); }
//@ >>
//@ endloop `for ridx in` <<
                    proof { lemma_parsed_step(edit@.rm, ridx as int); }
//@ >>
//@ before `let addv = edit.added_vec();` <<
                let ghost set_a = ssts_to_remove@;
                proof { assert(parsed(edit@.add, 0) =~= ISet::<Setsum>::empty()); }
//@ >>
//@ endloop `for aidx in` <<
                    proof { lemma_parsed_step(edit@.add, aidx as int); }
//@ >>
//@ endloop `while eidx <` <<
                proof {
                    // one edit: removals into the set first, additions out of it afterwards -- the order Manifest::apply_edit uses
                    lemma_edit_step(set0, listing_at(l0, h, fidx as int, eidx as int - 1), edit@);
                    assert(listing_at(l0, h, fidx as int, eidx as int) == apply(listing_at(l0, h, fidx as int, eidx as int - 1), h[fidx as int][eidx as int - 1]));
                }
//@ >>
//@ before `let to_remove = ssts_to_remove.into_vec();` <<
        let ghost set_final = ssts_to_remove@;
//@ >>
//@ end
}
impl LsmTree {
//@ extract lsmtk/src/tree/mod.rs | impl LsmTree :: fn explicit_unref
//@ rewrite X20 `fn explicit_unref(&self, version: &Arc<Version>)` => `fn explicit_unref(&mut self, version: &VersionArc)`
//@ rewrite-re? X18 `Arc::strong_count\(version\)` => `strong_count(version)`
//@ rewrite X13 `for setsum in version.setsums() {` => `let listed = version.setsums(); for sidx in 0..listed.len() { let setsum = listed[sidx];`
//@ rewrite-re X7 `SST_FILE\(&self\.root, (\w+)\)` => `sst_file(&self.root, \1)`
//@ rewrite-re X7 `TRASH_SST\(&self\.root, (\w+)\)` => `trash_sst(&self.root, \1)`
//@ rewrite-re X7 `let _ = rename\((\w+), (\w+)\);` => `let _ = self.rename(\1, \2);`
//@ post <<
        // a file goes to trash only when no live version references it any more, and only if it was this version's
        forall|x: Setsum| final(self).moved@.contains(x) && !old(self).moved@.contains(x) ==> final(self).references.count(x) == 0,
        // ... and only by the last holder of the version
        version.holders() != 1 ==> final(self).moved@ == old(self).moved@ && final(self).references == old(self).references,
        // a count drops by at most one, and only for a file of this version; nothing else of the tree changes
        version.files().no_duplicates() ==> forall|x: Setsum| final(self).references.count(x) + one_if(version.files().contains(x)) >= old(self).references.count(x),
        forall|x: Setsum| final(self).moved@.contains(x) ==> old(self).moved@.contains(x) || version.files().contains(x),
        final(self).version == old(self).version,
//@ >>
//@ loop 0 <<
            invariant listed@ == version.files(), self.version == old(self).version,
                /* contract-inv */ forall|x: Setsum| self.moved@.contains(x) && !old(self).moved@.contains(x) ==> self.references.count(x) == 0,
                /* contract-inv */ version.files().no_duplicates() ==> forall|x: Setsum| self.references.count(x) + one_if(listed@.take(sidx as int).contains(x)) >= old(self).references.count(x),
                /* contract-inv */ forall|x: Setsum| self.moved@.contains(x) ==> old(self).moved@.contains(x) || listed@.take(sidx as int).contains(x),
//@ >>
//@ endloop 0 <<
            proof { lemma_take_contains(listed@, sidx as int); }
//@ >>
//@ afterloop 0 <<
        proof { assert(listed@.take(listed@.len() as int) =~= listed@); }
//@ >>
//@ end

    // LsmTree::explicit_ref: every file of the version gains a reference, nothing loses one
//@ extract lsmtk/src/tree/mod.rs | impl LsmTree :: fn explicit_ref
//@ rewrite-re X20 `fn explicit_ref\(references: &ReferenceCounter<Setsum>, version: &Version\)` => `fn explicit_ref(references: &mut ReferenceCounter, version: &VersionArc)`
//@ rewrite X13 `for setsum in version.setsums() {` => `let listed = version.setsums(); for sidx in 0..listed.len() { let setsum = listed[sidx];`
//@ post <<
        forall|x: Setsum| final(references).count(x) >= old(references).count(x) + one_if(version.files().contains(x)),
        forall|x: Setsum| !version.files().contains(x) ==> final(references).count(x) == old(references).count(x),
//@ >>
//@ loop 0 <<
            invariant listed@ == version.files(),
                /* contract-inv */ forall|x: Setsum| references.count(x) >= old(references).count(x) + one_if(listed@.take(sidx as int).contains(x)),
                /* contract-inv */ forall|x: Setsum| !listed@.take(sidx as int).contains(x) ==> references.count(x) == old(references).count(x),
//@ >>
//@ endloop 0 <<
            proof { lemma_take_contains(listed@, sidx as int); }
//@ >>
//@ afterloop 0 <<
        proof { assert(listed@.take(listed@.len() as int) =~= listed@); }
//@ >>
//@ end

    // LsmTree::install_version: the new version's files are referenced BEFORE it replaces the old one, and the old one's
    // references are dropped only afterwards -- so installing never sends a file of the version being installed to trash,
    // and the files of the installed version stay referenced (the invariant the next install starts from).
//@ extract lsmtk/src/tree/mod.rs | impl LsmTree :: fn install_version
//@ rewrite-re X20 `fn install_version\(&self, mut version2: Arc<Version>\)` => `fn install_version(&mut self, version2: VersionArc)`
//@ rewrite-re? X20 `Self::explicit_ref\(&self\.references, ` => `Self::explicit_ref(&mut self.references, `
//@ rewrite-re? X23 `(?m)^\s*let mut version1 = self\.version\.lock\(\)\.unwrap\(\);\n` => ``
//@ rewrite-re? X23 `&mut \*version1\b` => `&mut self.version`
//@ rewrite-re? X23 `&\*?version1\b` => `&self.version`
//@ bodystart <<
        let mut version2 = version2;   // X22: Verus has no `mut` parameter; the body works on this binding
//@ >>
//@ pre <<
        // the installed version's files are referenced, and listed once each
        forall|x: Setsum| old(self).version.files().contains(x) ==> old(self).references.count(x) >= 1,
        old(self).version.files().no_duplicates(),
//@ >>
//@ post <<
        final(self).version == version2,
        forall|x: Setsum| version2.files().contains(x) ==> final(self).references.count(x) >= 1,
        forall|x: Setsum| final(self).moved@.contains(x) && !old(self).moved@.contains(x) ==> !version2.files().contains(x) && old(self).version.files().contains(x),
//@ >>
//@ end
}
// opening (LsmTree::from_manifest, from the fresh reference counter to the construction of the tree): every file of the
// version the store opens with holds a reference -- the precondition install_version starts from.  The cache line between
// the two statements is dropped; the version mutex is read through (X23).
impl ReferenceCounter {
    #[verifier::external_body]
    fn default() -> (r: ReferenceCounter) ensures forall|x: Setsum| r.count(x) == 0 { unimplemented!() }
}
//@ extract lsmtk/src/tree/mod.rs | impl LsmTree :: fn from_manifest
//@ region `let mut references = ReferenceCounter::default();` ..< `let mut db = Self {`
//@ region-sig <<
fn open_refs(version: &VersionArc) -> (references: ReferenceCounter)
//@ >>
//@ region-tail <<
    references
//@ >>
//@ rewrite X20 `let references = ReferenceCounter::default();` => `let mut references = ReferenceCounter::default();`
//@ rewrite-re? X12 `(?m)^\s*let sst_cache = Arc::new\(LeastRecentlyUsedCache::new\(options\.sst_cache_bytes\)\);\n` => ``
//@ rewrite-re? X23 `Self::explicit_ref\(&references, &version\.lock\(\)\.unwrap\(\)\);` => `LsmTree::explicit_ref(&mut references, version);`
//@ post <<
        forall|x: Setsum| version.files().contains(x) ==> references.count(x) >= 1,
//@ >>
//@ end

proof fn lemma_take_contains(s: Seq<Setsum>, i: int)
    requires 0 <= i < s.len()
    ensures forall|x: Setsum| #![trigger s.take(i + 1).contains(x)] #![trigger s.take(i).contains(x)] s.take(i + 1).contains(x) <==> s.take(i).contains(x) || x == s[i],
        s.take(i + 1).contains(s[i]),
        s.no_duplicates() ==> !s.take(i).contains(s[i]),
{
    let a = s.take(i); let b = s.take(i + 1);
    assert(b =~= a.push(s[i]));
    assert(b[i] == s[i]);
    assert forall|x: Setsum| b.contains(x) <==> a.contains(x) || x == s[i] by {
        if a.contains(x) { let k = choose|k: int| 0 <= k < a.len() && a[k] == x; assert(b[k] == x); }
        if x == s[i] { assert(b[i] == x); }
        if b.contains(x) { let k = choose|k: int| 0 <= k < b.len() && b[k] == x; if k < i { assert(a[k] == x); } }
    }
    if s.no_duplicates() && a.contains(s[i]) { let k = choose|k: int| 0 <= k < a.len() && a[k] == s[i]; assert(s[k] == s[i]); }
}


// ---------------------------------------------------------------- the offline verifier's removals (lsmtk/src/verifier.rs)
// LsmVerifier::possibly_complete_processing is the only place the verifier unlinks anything.  Extracted entire: it unlinks
// (a) the manifest fragment `entry`, and only when the verifier's own manifest records that very fragment as processed
// ('M' names the same backup number), and (b) files TRASH_ROOT/<name> for names its own manifest lists -- nothing else.
// The recording half is the region of process_one that builds the edit: the names it adds are exactly the trash names of the
// ssts and logs verify_one returned for the fragment it has just verified, each of which must already be in trash.
// ASSUMED: TRASH_ROOT(root).join(basename(TRASH_SST(root, s))) is TRASH_SST(root, s) (path algebra); Manifest::apply applies
// the edit; error decoration (`.with_debug_field(..)`) is dropped.
#[verifier::external_body]
struct VPath { _p: u8 }
impl VPath {
    #[verifier::external_body]
    fn exists(&self) -> (r: bool) { unimplemented!() }
}
// what a path names: a manifest fragment, a file in trash by its recorded name, or something else
enum PV { Fragment(Option<u64>), Trash(Digest), Other }
uninterp spec fn pv(p: VPath) -> PV;
// mani::extract_backup(path): the backup number of a fragment name
#[verifier::external_body]
fn extract_backup_str(s: &Str) -> (r: Option<u64>) ensures r == backup_no(s@) { unimplemented!() }
uninterp spec fn backup_no(name: Digest) -> Option<u64>;
#[verifier::external_body]
fn extract_backup_path(p: &VPath) -> (r: Option<u64>) ensures pv(*p) is Fragment ==> r == pv(*p)->Fragment_0 { unimplemented!() }
fn opt_gt(a: Option<u64>, b: Option<u64>) -> (r: bool)
    ensures r == (match (a, b) { (Some(x), Some(y)) => x > y, (Some(_), None) => true, _ => false })
{ match (a, b) { (Some(x), Some(y)) => x > y, (Some(_), None) => true, _ => false } }
fn opt_eq(a: Option<u64>, b: Option<u64>) -> (r: bool) ensures r == (a == b)
{ match (a, b) { (Some(x), Some(y)) => x == y, (None, None) => true, _ => false } }
impl Root {
    // any other path under the store's root
    #[verifier::external_body]
    fn join(&self, name: &Str) -> (r: VPath) ensures pv(r) == PV::Other { unimplemented!() }
}
// TRASH_ROOT(&self.root).join(name)
#[verifier::external_body]
fn trash_join(root: &Root, name: &Str) -> (r: VPath) ensures pv(r) == PV::Trash(name@) { unimplemented!() }
impl Edit {
    #[verifier::external_body]
    fn default() -> (r: Edit) ensures r@.rm == Seq::<Digest>::empty(), r@.add == Seq::<Digest>::empty(), r.info_m() is None { unimplemented!() }
    #[verifier::external_body]
    fn rm(&mut self, s: &Str) -> (r: Result<(), SError>) ensures final(self).info_m() == old(self).info_m(), r is Ok ==> final(self)@.rm == old(self)@.rm.push(s@) && final(self)@.add == old(self)@.add, r is Err ==> final(self)@ == old(self)@ { unimplemented!() }
    #[verifier::external_body]
    fn add(&mut self, s: &Str) -> (r: Result<(), SError>) ensures final(self).info_m() == old(self).info_m(), r is Ok ==> final(self)@.add == old(self)@.add.push(s@) && final(self)@.rm == old(self)@.rm, r is Err ==> final(self)@ == old(self)@ { unimplemented!() }
    // the 'M' info of the edit (the fragment it records as processed)
    uninterp spec fn info_m(&self) -> Option<Digest>;
    #[verifier::external_body]
    fn info(&mut self, c: char, s: &Str) -> (r: Result<(), SError>)
        ensures final(self)@ == old(self)@, r is Ok && c == 'M' ==> final(self).info_m() == Some(s@), c != 'M' ==> final(self).info_m() == old(self).info_m(),
    { unimplemented!() }
}
// the verifier's own manifest
#[verifier::external_body]
struct VMani { _p: u8 }
impl VMani {
    uninterp spec fn strs(&self) -> Seq<Digest>;
    uninterp spec fn info_m(&self) -> Option<Digest>;
    // `self.mani.info('M')`
    #[verifier::external_body]
    fn info(&self, c: char) -> (r: Option<Str>) ensures c == 'M' ==> (r is Some) == (self.info_m() is Some) && (r is Some ==> r->Some_0@ == self.info_m()->Some_0) { unimplemented!() }
    #[verifier::external_body]
    fn strs_vec(&self) -> (r: Vec<Str>) ensures r@.len() == self.strs().len(), forall|i: int| 0 <= i < r@.len() ==> (#[trigger] r@[i])@ == self.strs()[i] { unimplemented!() }
    // Manifest::apply: removals, then additions, then infos (a failed apply leaves the manifest poisoned: nothing is claimed)
    #[verifier::external_body]
    fn apply(&mut self, e: Edit) -> (r: Result<(), SError>)
        ensures r is Ok && e@.rm.len() == 0 ==> final(self).strs() == old(self).strs() + e@.add && (e.info_m() is Some ==> final(self).info_m() == e.info_m()),
    { unimplemented!() }
}
#[verifier::external_body]
fn corruption_out_of_order() -> (r: SError) { unimplemented!() }
struct LsmVerifier { root: Root, mani: VMani, unlinked: Ghost<Seq<PV>> }
impl LsmVerifier {
    // std::fs::remove_file(path)
    #[verifier::external_body]
    fn remove_file(&mut self, p: &VPath) -> (r: Result<(), SError>)
        ensures final(self).mani == old(self).mani, final(self).unlinked@ == old(self).unlinked@.push(pv(*p)) || final(self).unlinked@ == old(self).unlinked@,
    { unimplemented!() }

//@ extract lsmtk/src/verifier.rs | impl LsmVerifier :: fn possibly_complete_processing
//@ ret r
//@ rewrite X7 `entry: &PathBuf` => `entry: &VPath`
//@ rewrite X7 `mani::extract_backup(last_entry_processed)` => `extract_backup_str(&last_entry_processed)`
//@ rewrite X7 `mani::extract_backup(entry)` => `extract_backup_path(entry)`
//@ rewrite-re? X4 `\blog_num_old > log_num_new\b` => `opt_gt(log_num_old, log_num_new)`
//@ rewrite-re? X4 `\blog_num_old >= log_num_new\b` => `(opt_gt(log_num_old, log_num_new) || opt_eq(log_num_old, log_num_new))`
//@ rewrite-re? X4 `\blog_num_old < log_num_new\b` => `opt_gt(log_num_new, log_num_old)`
//@ rewrite-re? X4 `\blog_num_old <= log_num_new\b` => `(opt_gt(log_num_new, log_num_old) || opt_eq(log_num_old, log_num_new))`
//@ rewrite-re? X4 `\blog_num_old == log_num_new\b` => `opt_eq(log_num_old, log_num_new)`
//@ rewrite-re? X4 `\blog_num_old != log_num_new\b` => `!opt_eq(log_num_old, log_num_new)`
//@ rewrite-re X7 `(?s)return Err\(corruption\("clean up saw log out of order"\).*?\);` => `return Err(corruption_out_of_order());`
//@ rewrite-re X7 `\.with_debug_field\("path", \w+\)` => ``
//@ rewrite-re X7 `\bremove_file\(&?(\w+)\)` => `self.remove_file(&\1)`
//@ rewrite X13 `for path in self.mani.strs() {` => `let names = self.mani.strs_vec(); for nidx in 0..names.len() { let path = &names[nidx];`
//@ rewrite-re? X7 `TRASH_ROOT\(&self\.root\)\.join\(path\)` => `trash_join(&self.root, path)`
//@ pre <<
        pv(*entry) is Fragment,
//@ >>
//@ post <<
        // whatever was unlinked is the processed fragment itself or a trash file the verifier's manifest lists by name
        forall|k: int| old(self).unlinked@.len() <= k < final(self).unlinked@.len() ==>
            (#[trigger] final(self).unlinked@[k] == pv(*entry) && old(self).mani.info_m() is Some && backup_no(old(self).mani.info_m()->Some_0) == pv(*entry)->Fragment_0)
            || (exists|i: int| 0 <= i < old(self).mani.strs().len() && final(self).unlinked@[k] == PV::Trash(old(self).mani.strs()[i])),
        final(self).unlinked@.len() >= old(self).unlinked@.len(),
        forall|k: int| 0 <= k < old(self).unlinked@.len() ==> final(self).unlinked@[k] == old(self).unlinked@[k],
//@ >>
//@ loop 0 <<
                invariant self.mani == old(self).mani, names@.len() == old(self).mani.strs().len(),
                    forall|i: int| 0 <= i < names@.len() ==> (#[trigger] names@[i])@ == old(self).mani.strs()[i],
                    self.unlinked@.len() >= old(self).unlinked@.len(),
                    forall|k: int| 0 <= k < old(self).unlinked@.len() ==> self.unlinked@[k] == old(self).unlinked@[k],
                    /* contract-inv */ forall|k: int| old(self).unlinked@.len() <= k < self.unlinked@.len() ==>
                        (#[trigger] self.unlinked@[k] == pv(*entry) && old(self).mani.info_m() is Some && backup_no(old(self).mani.info_m()->Some_0) == pv(*entry)->Fragment_0)
                        || (exists|i: int| 0 <= i < old(self).mani.strs().len() && self.unlinked@[k] == PV::Trash(old(self).mani.strs()[i])),
//@ >>
//@ end
}
// what the verifier records before it unlinks: TRASH_SST / TRASH_LOG names of what verify_one returned for the fragment
uninterp spec fn sst_trash_name(s: Setsum) -> Digest;
uninterp spec fn log_trash_name(n: u64) -> Digest;
spec fn sst_names(v: Seq<Setsum>) -> Seq<Digest> { Seq::new(v.len(), |i: int| sst_trash_name(v[i])) }
spec fn log_names(v: Seq<u64>) -> Seq<Digest> { Seq::new(v.len(), |i: int| log_trash_name(v[i])) }
#[verifier::external_body]
fn trash_sst_path(root: &Root, s: Setsum) -> (r: VPath) ensures pv(r) == PV::Trash(sst_trash_name(s)) { unimplemented!() }
// SST_FILE(root, s): a live file, not a trash entry
#[verifier::external_body]
fn live_sst_path(root: &Root, s: Setsum) -> (r: VPath) ensures pv(r) == PV::Other { unimplemented!() }
#[verifier::external_body]
fn trash_log_path(root: &Root, n: u64) -> (r: VPath) ensures pv(r) == PV::Trash(log_trash_name(n)) { unimplemented!() }
// basename_string(path): the file name of a trash path is the name the verifier's manifest will list; of a fragment, its name
#[verifier::external_body]
fn basename_string(p: &VPath) -> (r: Result<Str, SError>)
    ensures r is Ok && pv(*p) is Trash ==> r->Ok_0@ == pv(*p)->Trash_0,
        r is Ok && pv(*p) is Fragment ==> backup_no(r->Ok_0@) == pv(*p)->Fragment_0,
{ unimplemented!() }
#[verifier::external_body]
fn backoff(name: Str) -> (r: SError) { unimplemented!() }
#[verifier::external_body]
fn hexdigest_str(s: Setsum) -> (r: Str) { unimplemented!() }

//@ extract lsmtk/src/verifier.rs | impl LsmVerifier :: fn process_one
//@ region `let mut edit = Edit::default();` ..; `v.mani.apply(edit)?;`
//@ region-sig <<
fn process_one_record(v: &mut LsmVerifier, entry: &VPath, output_setsum: Setsum, ssts_to_rm: Vec<Setsum>, logs_to_rm: Vec<u64>) -> (r: Result<(), SError>)
//@ >>
//@ region-tail <<
    Ok(())
//@ >>
//@ rewrite-re X18 `\bself\.` => `v.`
//@ rewrite X13 `for sst in ssts_to_rm.iter() {` => `for sidx in 0..ssts_to_rm.len() { let sst = &ssts_to_rm[sidx];`
//@ rewrite X13 `for log_num in logs_to_rm.iter() {` => `for lidx in 0..logs_to_rm.len() { let log_num = &logs_to_rm[lidx];`
//@ rewrite-re? X7 `TRASH_SST\(&v\.root, (\*?\w+)\)` => `trash_sst_path(&v.root, \1)`
//@ rewrite-re? X7 `SST_FILE\(&v\.root, (\*?\w+)\)` => `live_sst_path(&v.root, \1)`
//@ rewrite-re X7 `TRASH_LOG\(&v\.root, (\*?\w+)\)` => `trash_log_path(&v.root, \1)`
//@ rewrite-re X7 `basename_string\(&?(\w+)\)` => `basename_string(&\1)`
//@ rewrite X7 `&output_setsum.hexdigest()` => `&hexdigest_str(output_setsum)`
//@ pre <<
        pv(*entry) is Fragment,
//@ >>
//@ post <<
        // nothing is unlinked while recording; what is recorded are the trash names of what verify_one returned for the
        // fragment, and that fragment
        final(v).unlinked == old(v).unlinked,
        r is Ok ==> final(v).mani.strs() == old(v).mani.strs() + (sst_names(ssts_to_rm@) + log_names(logs_to_rm@))
            && final(v).mani.info_m() is Some && backup_no(final(v).mani.info_m()->Some_0) == pv(*entry)->Fragment_0,
//@ >>
//@ loop 0 <<
        invariant *v == *old(v), edit.info_m() is None, edit@.rm.len() == 0,
            /* contract-inv */ edit@.add == sst_names(ssts_to_rm@).subrange(0, sidx as int),
//@ >>
//@ loop 1 <<
        invariant *v == *old(v), edit.info_m() is None, edit@.rm.len() == 0,
            /* contract-inv */ edit@.add == sst_names(ssts_to_rm@) + log_names(logs_to_rm@).subrange(0, lidx as int),
//@ >>
//@ endloop 0 <<
        proof { let n = sst_names(ssts_to_rm@); assert(n.subrange(0, sidx as int + 1) =~= n.subrange(0, sidx as int).push(n[sidx as int])); }
//@ >>
//@ afterloop 0 <<
    proof { let n = sst_names(ssts_to_rm@); assert(n.subrange(0, n.len() as int) =~= n); assert(n + log_names(logs_to_rm@).subrange(0, 0) =~= n); }
//@ >>
//@ endloop 1 <<
        proof { let n = log_names(logs_to_rm@); assert(n.subrange(0, lidx as int + 1) =~= n.subrange(0, lidx as int).push(n[lidx as int]));
                assert(sst_names(ssts_to_rm@) + n.subrange(0, lidx as int).push(n[lidx as int]) =~= (sst_names(ssts_to_rm@) + n.subrange(0, lidx as int)).push(n[lidx as int])); }
//@ >>
//@ afterloop 1 <<
    proof { let n = log_names(logs_to_rm@); assert(n.subrange(0, n.len() as int) =~= n); }
//@ >>
//@ end

//@ min-verified 8

} // verus!
fn main() {}
