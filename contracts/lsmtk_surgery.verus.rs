// Unit lsmtk_surgery (C04 / C01: the assumption "Version::apply_compaction removes exactly the compaction's inputs and adds
// the outputs" made precise): Version::apply_compaction_inner of lsmtk/src/tree/mod.rs, extracted entire, and Version::ingest.
// Proved, for any tree, any compaction and any outputs -- the STRUCTURE of the new version:
//   * every level from lower_level up to (not including) upper_level keeps, in order, exactly its files whose setsum is not
//     among the compaction's inputs;
//   * the upper level becomes  old[..lower_bound] ++ outputs ++ old[upper_bound..]  where lower_bound / upper_bound are what
//     Level::lower_bound(first_key) / Level::upper_bound(last_key) answer on that level;
//   * every other level is untouched;  no index is out of range and the capacity arithmetic does not underflow.
// What this does NOT say -- and what the setsum-level contract of apply_compaction in unit lsmtk_balance still assumes -- is
// that the files cut out of the upper level, [lower_bound, upper_bound), are inputs of the compaction: that is the
// relation between the compaction picker (compute_bounds / find_best_compaction, floats and closures) and this function.
// Extraction rules: X18 Arc read through; X5 `v[i] = e` as `v.set(i, e)`; X28 `v.retain(|x| !inputs.contains(&f(x)))` read as a
// verified filter loop with that predicate, `dst.extend_from_slice(&src[a..b])` as a verified copy loop; `into_iter().map(Arc::new)
// .collect()` is the identity on values (X18).
// ASSUMED: Level::lower_bound / upper_bound (slice::partition_point with a closure) answer lower <= upper <= len for the
// key range of a compaction picked on a sorted level (stated as the precondition `cut_ok`).
use vstd::prelude::*;
verus! {
global size_of usize == 8;

#[verifier::external_body]
struct SError { _p: u8 }
#[verifier::external_body]
#[derive(Clone, Copy)]
struct Setsum { _p: u8 }
impl Setsum {
    uninterp spec fn id(&self) -> int;
    // Setsum::from_digest(x.setsum)
    #[verifier::external_body]
    fn eq(&self, o: &Setsum) -> (r: bool) ensures r == (self.id() == o.id()) { unimplemented!() }
}
// Arc<SstMetadata>, read as a value
#[verifier::external_body]
struct Md { _p: u8 }
impl Md {
    uninterp spec fn setsum(&self) -> int;
    #[verifier::external_body]
    fn setsum_of(&self) -> (r: Setsum) ensures r.id() == self.setsum() { unimplemented!() }
    #[verifier::external_body]
    fn arc_clone(&self) -> (r: Md) ensures r == *self { unimplemented!() }
}
// a Vec of a non-zero-sized type never holds more than isize::MAX elements
#[verifier::external_body]
proof fn axiom_vec_len(v: &Vec<Md>) ensures v@.len() <= 0x7fff_ffff_ffff_ffff { }
struct Level { ssts: Vec<Md> }
struct Version { levels: Vec<Level> }
struct CompactionCore { lower_level: usize, upper_level: usize, first_key: Vec<u8>, last_key: Vec<u8>, inputs: Vec<Setsum> }

spec fn is_input(inputs: Seq<Setsum>, m: Md) -> bool { exists|i: int| 0 <= i < inputs.len() && (#[trigger] inputs[i]).id() == m.setsum() }
fn in_inputs(inputs: &Vec<Setsum>, m: &Md) -> (r: bool)
    ensures r == is_input(inputs@, *m)
{
    let s = m.setsum_of();
    let mut i = 0;
    while i < inputs.len()
        invariant i <= inputs.len(), s.id() == m.setsum(), forall|j: int| 0 <= j < i ==> (#[trigger] inputs@[j]).id() != m.setsum(),
        decreases inputs.len() - i,
    {
        if inputs[i].eq(&s) { return true; }
        i += 1;
    }
    false
}
// the files of a level that are not inputs, in order
spec fn kept(s: Seq<Md>, inputs: Seq<Setsum>) -> Seq<Md>
    decreases s.len()
{
    if s.len() == 0 { Seq::<Md>::empty() } else if is_input(inputs, s.last()) { kept(s.drop_last(), inputs) } else { kept(s.drop_last(), inputs).push(s.last()) }
}
// X28: `ssts.retain(|x| !compaction.inputs.contains(&Setsum::from_digest(x.setsum)))`
fn retain_not_inputs(ssts: &mut Vec<Md>, inputs: &Vec<Setsum>)
    ensures final(ssts)@ == kept(old(ssts)@, inputs@),
{
    let mut out: Vec<Md> = Vec::new();
    let mut i = 0;
    proof { assert(ssts@.subrange(0, 0) =~= Seq::<Md>::empty()); }
    while i < ssts.len()
        invariant i <= ssts.len(), out@ == kept(ssts@.subrange(0, i as int), inputs@),
        decreases ssts.len() - i,
    {
        proof {
            let pre = ssts@.subrange(0, i as int);
            assert(ssts@.subrange(0, i as int + 1).drop_last() =~= pre);
            assert(ssts@.subrange(0, i as int + 1).last() == ssts@[i as int]);
        }
        if !in_inputs(inputs, &ssts[i]) {
            out.push(ssts[i].arc_clone());
        }
        i += 1;
    }
    proof { assert(ssts@.subrange(0, ssts@.len() as int) =~= ssts@); }
    *ssts = out;
}
// X28: `dst.extend_from_slice(&src[a..b])`
fn extend_range(dst: &mut Vec<Md>, src: &Vec<Md>, a: usize, b: usize)
    requires a <= b <= src@.len(),
    ensures final(dst)@ == old(dst)@ + src@.subrange(a as int, b as int),
{
    let mut i = a;
    proof { assert(dst@ + src@.subrange(a as int, a as int) =~= dst@); }
    while i < b
        invariant a <= i <= b, b <= src@.len(), dst@ == old(dst)@ + src@.subrange(a as int, i as int),
        decreases b - i,
    {
        dst.push(src[i].arc_clone());
        proof { assert(src@.subrange(a as int, i as int + 1) =~= src@.subrange(a as int, i as int).push(src@[i as int])); }
        i += 1;
    }
}
impl Level {
    uninterp spec fn lb(&self, key: Seq<u8>) -> int;
    uninterp spec fn ub(&self, key: Seq<u8>) -> int;
    // `self.ssts.partition_point(|x| key > &x.last_key)` / `partition_point(|x| key >= &x.first_key)`
    #[verifier::external_body]
    fn lower_bound(&self, key: &Vec<u8>) -> (r: usize) ensures r == self.lb(key@), r <= self.ssts@.len() { unimplemented!() }
    #[verifier::external_body]
    fn upper_bound(&self, key: &Vec<u8>) -> (r: usize) ensures r == self.ub(key@), r <= self.ssts@.len() { unimplemented!() }
    #[verifier::external_body]
    fn clone(&self) -> (r: Level) ensures r == *self { unimplemented!() }
}
impl Version {
    #[verifier::external_body]
    fn clone(&self) -> (r: Version) ensures r == *self { unimplemented!() }
    // the cut the compaction's key range makes in its upper level is a range
    spec fn cut_ok(&self, c: CompactionCore) -> bool {
        let up = self.levels@[c.upper_level as int];
        0 <= up.lb(c.first_key@) <= up.ub(c.last_key@) <= up.ssts@.len()
    }

//@ extract lsmtk/src/tree/mod.rs | impl Version :: fn apply_compaction_inner
//@ ret r
//@ rewrite X18 `compaction: Arc<CompactionCore>,` => `compaction: CompactionCore,`
//@ rewrite X18 `outputs: Vec<SstMetadata>,` => `outputs: Vec<Md>,`
//@ rewrite-re X28 `(?s)new_level\s*\.ssts\s*\.retain\(\|x\| !compaction\.inputs\.contains\(&Setsum::from_digest\(x\.setsum\)\)\);` => `retain_not_inputs(&mut new_level.ssts, &compaction.inputs);`
//@ rewrite-re X5 `new_tree\.levels\[(.+?)\] = new_level;` => `new_tree.levels.set(\1, new_level);`
//@ rewrite X18 `let upper_level = &new_tree.levels[compaction.upper_level];` => `let upper_level = new_tree.levels[compaction.upper_level].clone();`
//@ rewrite-re X28 `(?s)new_level\s*\.ssts\s*\.extend_from_slice\(&upper_level\.ssts\[\.\.(\w+)\]\);` => `extend_range(&mut new_level.ssts, &upper_level.ssts, 0, \1);`
//@ rewrite-re X28 `(?s)new_level\s*\.ssts\s*\.extend_from_slice\(&upper_level\.ssts\[(\w+)\.\.\]\);` => `extend_range(&mut new_level.ssts, &upper_level.ssts, \1, upper_level.ssts.len());`
//@ rewrite X18 `let mut outputs = outputs.into_iter().map(Arc::new).collect::<Vec<_>>();` => `let mut outputs = outputs;`
//@ pre <<
        compaction.lower_level <= compaction.upper_level < self.levels@.len(), self.cut_ok(compaction),
//@ >>
//@ post <<
        r is Ok ==> ({
            let n = r->Ok_0; let up = self.levels@[compaction.upper_level as int];
            &&& n.levels@.len() == self.levels@.len()
            &&& forall|l: int| compaction.lower_level <= l < compaction.upper_level ==> (#[trigger] n.levels@[l]).ssts@ == kept(self.levels@[l].ssts@, compaction.inputs@)
            &&& n.levels@[compaction.upper_level as int].ssts@ == up.ssts@.subrange(0, up.lb(compaction.first_key@)) + outputs@ + up.ssts@.subrange(up.ub(compaction.last_key@), up.ssts@.len() as int)
            &&& forall|l: int| 0 <= l < self.levels@.len() && !(compaction.lower_level <= l <= compaction.upper_level) ==> #[trigger] n.levels@[l] == self.levels@[l]
        }),
//@ >>
//@ before `let mut new_level = Level {` <<
        proof { axiom_vec_len(&upper_level.ssts); axiom_vec_len(&outputs); }
//@ >>
//@ loop 0 <<
            invariant new_tree.levels@.len() == self.levels@.len(), compaction.lower_level <= compaction.upper_level < self.levels@.len(),
                /* contract-inv */ forall|l: int| compaction.lower_level <= l < level ==> (#[trigger] new_tree.levels@[l]).ssts@ == kept(self.levels@[l].ssts@, compaction.inputs@),
                /* contract-inv */ forall|l: int| 0 <= l < self.levels@.len() && !(compaction.lower_level <= l < level) ==> #[trigger] new_tree.levels@[l] == self.levels@[l],
//@ >>
//@ end
}

//@ min-verified 4
} // verus!
fn main() {}
