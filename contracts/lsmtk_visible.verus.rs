// Unit lsmtk_visible (C06, ONE clause, as a monitor invariant: "all entries of one batch become visible together").
// Readers of the key-value store take their snapshot timestamp from the state under the state mutex; writers are given
// their timestamp under the same mutex but apply their batch to the memtable AFTER releasing it, entry by entry.  A read
// therefore sees a batch whole or not at all only if the timestamp it snapshots at never covers a batch that is still
// being applied.  With  F(s) := "every batch sequenced at or below s has been applied in full"  (a fact that, once true,
// stays true) the monitor invariant of KeyValueStoreState is
//        F(state.visible_seq_no)
// and the unit proves, on regions of the real functions, that
//   * the sequencing critical section of KeyValueStore::write (seq_no + 1, stamping, link into the wait list, rollover)
//     preserves it -- it does not touch what readers snapshot at -- and hands out exactly the timestamp it stamped;
//   * the closing critical section of KeyValueStore::write (wait to be head, publish, leave, notify) preserves it: the
//     writer publishes its own timestamp only when it is head of the wait list, i.e. when every writer sequenced before it
//     has applied its batch and left, and after its own log_and_apply has returned;
//   * KeyValueStore::load and KeyValueStore::range_scan snapshot at a timestamp t with F(t);
//   * the flush thread's roll-over critical section (_memtable_thread: new memtable and log, seq_no + 1, its own turn in
//     the wait list) leaves the published watermark a fully applied prefix, makes the memtable that was being written to the
//     immutable one -- so its entries stay in a read layer -- hands that very memtable to the flush and gives writers a fresh one.
// The invariant is established by open() (nothing is in flight) and holds at every release of the mutex; a wait on a
// condition variable inside a critical section hands back any state satisfying it.
// ASSUMED: writers are linked into the wait list in timestamp order (link and the timestamp assignment share one
// critical section: visible in the first region) and a writer leaves the list only after its log_and_apply has returned
// (program order of write: unit lsmtk_wake), so is_head() == true means every earlier batch is applied (wait list:
// unit sync_waitlist); MemTable::write inserts the whole batch before it returns (unit lsmtk_mem); a failed log append
// applies nothing.  Not decided: linearizability of reads against writes, the flush thread, scans racing compaction.
use vstd::prelude::*;
verus! {
global size_of usize == 8;

#[verifier::external_body]
struct SError { _p: u8 }
// every batch sequenced at or below s has been applied in full
uninterp spec fn all_applied(s: u64) -> bool;
// the batch with timestamp s has been applied in full (or its write failed before anything was applied)
uninterp spec fn applied(s: u64) -> bool;
#[verifier::external_body]
proof fn axiom_applied_step(s: u64)
    requires s >= 1, all_applied((s - 1) as u64), applied(s)
    ensures all_applied(s)
{ }
#[verifier::external_body]
proof fn axiom_applied_mono(a: u64, b: u64)
    requires a <= b, all_applied(b)
    ensures all_applied(a)
{ }

#[verifier::external_body]
struct MemArc { _p: u8 }
#[verifier::external_body]
struct LogArc { _p: u8 }
#[verifier::external_body]
struct VersionRef { _p: u8 }
impl MemArc {
    // which memtable this Arc points to
    uninterp spec fn id(&self) -> int;
    #[verifier::external_body]
    fn approximate_size(&self) -> (r: usize) { unimplemented!() }
    #[verifier::external_body]
    fn arc_clone(&self) -> (r: MemArc) ensures r.id() == self.id() { unimplemented!() }
}
impl LogArc {
    #[verifier::external_body]
    fn arc_clone(&self) -> (r: LogArc) { unimplemented!() }
}
#[verifier::external_body]
fn opt_mem_clone(m: &Option<MemArc>) -> (r: Option<MemArc>) { unimplemented!() }
// KeyValueStoreState: what the state mutex protects (the fields the regions touch)
struct KvState { seq_no: u64, visible_seq_no: u64, mem: MemArc, mem_log: LogArc, imm: Option<MemArc> }
impl KvState {
    // THE MONITOR INVARIANT: what readers snapshot at is a fully applied prefix, and never ahead of what has been handed out
    spec fn inv(&self) -> bool { all_applied(self.visible_seq_no) && self.visible_seq_no <= self.seq_no }
}
struct KeyValuePair { timestamp: u64 }
struct WriteBatch { entries: Vec<KeyValuePair> }
#[verifier::external_body]
struct WaitGuard { _p: u8 }
impl WaitGuard {
    // the timestamp the writer holding this guard was given (linked in the same critical section)
    uninterp spec fn seq(&self) -> u64;
    // head of the wait list: every writer sequenced before this one has applied its batch and left
    #[verifier::external_body]
    fn is_head(&mut self) -> (r: bool)
        ensures final(self).seq() == old(self).seq(), r && old(self).seq() >= 1 ==> all_applied((old(self).seq() - 1) as u64),
    { unimplemented!() }
    // `state = wait_guard.naked_wait(state)`: the mutex is released and re-acquired
    #[verifier::external_body]
    fn naked_wait(&self, state: &mut KvState)
        requires old(state).inv(),
        ensures final(state).inv(), final(state).seq_no >= old(state).seq_no,
    { unimplemented!() }
}
#[verifier::external_body]
struct WaitList { _p: u8 }
impl WaitList {
    #[verifier::external_body]
    fn link(&self, Ghost(seq): Ghost<u64>) -> (r: WaitGuard) ensures r.seq() == seq { unimplemented!() }
    #[verifier::external_body]
    fn notify_head(&self) { unimplemented!() }
}
#[verifier::external_body]
struct Options { _p: u8 }
impl Options {
    #[verifier::external_body]
    fn memtable_size_bytes(&self) -> (r: usize) { unimplemented!() }
}
struct KeyValueStore { wait_list: WaitList, options: Options }
impl KeyValueStore {
    #[verifier::external_body]
    fn rollover_memtable(&self, state: &mut KvState)
        ensures final(state).seq_no == old(state).seq_no, final(state).visible_seq_no == old(state).visible_seq_no,
    { unimplemented!() }
    // `self.tree.take_snapshot()`
    #[verifier::external_body]
    fn take_snapshot(&self) -> (r: VersionRef) { unimplemented!() }
}
fn max_u64(a: u64, b: u64) -> (r: u64) ensures r == (if a >= b { a } else { b }) { if a >= b { a } else { b } }
fn min_u64(a: u64, b: u64) -> (r: u64) ensures r == (if a <= b { a } else { b }) { if a <= b { a } else { b } }
// `drop(wait_guard)`: the guard unlinks itself
#[verifier::external_body]
fn drop_guard(g: WaitGuard) { unimplemented!() }

// ---- the sequencing critical section of write
//@ extract lsmtk/src/kvs/mod.rs | impl KeyValueStore :: fn write
//@ region `let (mut wait_guard, memtable, log`
//@ region-sig <<
fn write_sequence(kvs: &KeyValueStore, state: &mut KvState, batch: &mut WriteBatch) -> (r: (WaitGuard, MemArc, LogArc, u64))
//@ >>
//@ region-tail <<
    ;
    (wait_guard, memtable, log, seq_no)
//@ >>
//@ rewrite-re X18 `\bself\.` => `kvs.`
//@ rewrite-re X23 `(?m)^\s*let mut state = kvs\.state\.lock\(\)\.unwrap\(\);\n` => ``
//@ rewrite X23 `kvs.wait_list.link(())` => `kvs.wait_list.link(Ghost((state.seq_no + 1) as u64))`
//@ rewrite X13 `for entry in batch.entries.iter_mut() {` => `for idx in 0..batch.entries.len() {`
//@ rewrite X13 `entry.timestamp = seq_no;` => `batch.entries[idx].timestamp = seq_no;`
//@ rewrite X23 `state = kvs.rollover_memtable(state);` => `kvs.rollover_memtable(state);`
//@ rewrite X7 `kvs.options.memtable_size_bytes` => `kvs.options.memtable_size_bytes()`
//@ rewrite-re X18 `Arc::clone\(&state\.(\w+)\)` => `state.\1.arc_clone()`
//@ pre <<
        old(state).inv(), old(state).seq_no < 0xffff_ffff_ffff_ffff,
//@ >>
//@ post <<
        // the mutex is released with the invariant intact: what readers snapshot at has not moved
        final(state).inv(), final(state).visible_seq_no == old(state).visible_seq_no,
        // the writer holds the timestamp it stamped its batch with, fresh, and a guard linked under that timestamp
        r.3 == old(state).seq_no + 1, final(state).seq_no == r.3, r.0.seq() == r.3,
        // ... which lies above every timestamp any read has snapshotted at so far: a scan opened earlier never shows this write
        r.3 > old(state).visible_seq_no,
        final(batch).entries@.len() == old(batch).entries@.len(),
        forall|i: int| 0 <= i < final(batch).entries@.len() ==> (#[trigger] final(batch).entries@[i]).timestamp == r.3,
//@ >>
//@ loop 0 <<
                invariant batch.entries@.len() == old(batch).entries@.len(), /* contract-inv */ seq_no == old(state).seq_no + 1 && state.seq_no == seq_no,
                    /* contract-inv */ state.visible_seq_no == old(state).visible_seq_no,
                    state.visible_seq_no <= state.seq_no,
                    wait_guard.seq() == seq_no,
                    forall|i: int| 0 <= i < idx ==> (#[trigger] batch.entries@[i]).timestamp == seq_no,
//@ >>
//@ end

// ---- the closing critical section of write: publish, then leave
//@ extract lsmtk/src/kvs/mod.rs | impl KeyValueStore :: fn write
//@ region `let _closing_critical_section = ();` ..$
//@ region-sig <<
#[verifier::exec_allows_no_decreases_clause]
fn write_publish(kvs: &KeyValueStore, state: &mut KvState, mut wait_guard: WaitGuard, seq_no: u64, result: Result<(), SError>) -> (r: Result<(), SError>)
//@ >>
//@ region-tail <<
//@ >>
//@ rewrite-re X18 `\bself\.` => `kvs.`
//@ rewrite-re X16 `(?m)^(\s*)let result = kvs\.log_and_apply\(.*\);$` => `\1let _closing_critical_section = ();`
//@ rewrite-re? X18 `(?m)^\s*drop\((memtable|log)\);\n` => ``
//@ rewrite-re X23 `(?m)^\s*let mut state = kvs\.state\.lock\(\)\.unwrap\(\);\n` => ``
//@ rewrite X23 `state = wait_guard.naked_wait(state);` => `wait_guard.naked_wait(state);`
//@ rewrite X18 `drop(wait_guard);` => `drop_guard(wait_guard);`
//@ rewrite-re? X4 `std::cmp::max\(` => `max_u64(`
//@ rewrite-re? X4 `std::cmp::min\(` => `min_u64(`
//@ pre <<
        // any state the other threads' critical sections can leave; this writer's log_and_apply has returned
        old(state).inv(), wait_guard.seq() == seq_no, seq_no >= 1, applied(seq_no),
        // this writer's timestamp was handed out earlier; the counter never goes back
        seq_no <= old(state).seq_no,
//@ >>
//@ post <<
        final(state).inv(),
        // the writer's own batch is visible to every read that starts after write returns
        final(state).visible_seq_no >= seq_no,
//@ >>
//@ loop 0 <<
            invariant state.inv(), wait_guard.seq() == seq_no, seq_no >= 1, seq_no <= state.seq_no,
            ensures state.inv(), wait_guard.seq() == seq_no, all_applied((seq_no - 1) as u64), seq_no <= state.seq_no,
//@ >>
//@ afterloop 0 <<
        proof {
            axiom_applied_step(seq_no);
            if state.visible_seq_no > seq_no { } else { }
        }
//@ >>
//@ end


// ---------------------------------------------------------------- KeyValueStore::write entire: the glue between the regions
// The function is extracted whole; the text of its two critical sections is replaced by calls to the region functions proved
// above from that very text (X16), log_and_apply is a stub with the contract unit lsmtk_mem proves of it, and the state
// mutex is one object that is either held or not: what is checked here is that the pieces FIT --
//   * the batch is stamped, logged and applied under the timestamp that is later published, not another one;
//   * when the closing critical section publishes, this writer's own batch has been applied in full or has failed without
//     touching the memtable (the precondition `applied(seq_no)` of write_publish is discharged, not assumed);
//   * the result handed back is log_and_apply's.
impl WriteBatch {
    #[verifier::external_body]
    fn retain_last_write_per_key(&mut self) { unimplemented!() }
}
struct Kvs2 { inner: KeyValueStore }
impl Kvs2 {
    // KeyValueStore::log_and_apply (unit lsmtk_mem): on Ok the whole batch is in the memtable, on Err the memtable is untouched --
    // either way nothing of this batch is left half-applied once it returns
    #[verifier::external_body]
    fn log_and_apply(&self, batch: &mut WriteBatch, memtable: &MemArc, log: &LogArc, Ghost(ts): Ghost<u64>) -> (r: Result<(), SError>)
        requires forall|i: int| 0 <= i < old(batch).entries@.len() ==> (#[trigger] old(batch).entries@[i]).timestamp == ts,
        ensures final(batch).entries@ == old(batch).entries@, applied(ts),
    { unimplemented!() }
    // `self.state.lock().unwrap()` / the guard going out of scope: between two critical sections the other threads may leave any
    // state that satisfies the invariant and never turn the counter back
    #[verifier::external_body]
    fn between_sections(&self, state: &mut KvState)
        requires old(state).inv(),
        ensures final(state).inv(), final(state).seq_no >= old(state).seq_no,
    { unimplemented!() }

//@ extract lsmtk/src/kvs/mod.rs | impl KeyValueStore :: fn write
//@ ret r
//@ prefix #[verifier::exec_allows_no_decreases_clause]
//@ rewrite X23 `fn write(&self, mut batch: WriteBatch) -> Result<(), SError>` => `fn write(&self, state: &mut KvState, mut batch: WriteBatch) -> Result<(), SError>`
//@ rewrite-re X16 `(?s)let \(mut wait_guard, memtable, log, seq_no\) = \{.*?\n        \};` => `let (mut wait_guard, memtable, log, seq_no) = write_sequence(&self.inner, state, &mut batch);\n        self.between_sections(state);`
//@ rewrite-re X16 `(?s)(let result = self\.log_and_apply\([^;]*\);\n)(.*?)[ \t]*let mut state = self\.state\.lock\(\)\.unwrap\(\);.*\n        result\n` => `\1\2        write_publish(&self.inner, state, wait_guard, seq_no, result)\n`
//@ rewrite-re? X18 `(?m)^\s*drop\((memtable|log)\);\n` => ``
//@ rewrite-re X24 `self\.log_and_apply\((.+?)\)` => `self.log_and_apply(\1, Ghost(seq_no))`
//@ pre <<
        old(state).inv(), old(state).seq_no < 0xffff_ffff_ffff_ffff,
//@ >>
//@ post <<
        final(state).inv(),
        // whatever became of the batch, the timestamp it was given has been published: a read that starts now sees it whole
        final(state).visible_seq_no > old(state).visible_seq_no || final(state).visible_seq_no >= old(state).seq_no + 1,
//@ >>
//@ end
}

// ---- what a read snapshots at
//@ extract lsmtk/src/kvs/mod.rs | impl KeyValueStore :: fn load
//@ region `let (mem, imm, version, timestamp) = {`
//@ region-sig <<
fn load_snapshot(kvs: &KeyValueStore, state: &KvState) -> (r: (MemArc, Option<MemArc>, VersionRef, u64))
//@ >>
//@ region-tail <<
    ;
    (mem, imm, version, timestamp)
//@ >>
//@ rewrite-re X18 `\bself\.` => `kvs.`
//@ rewrite-re X23 `(?m)^\s*let state = kvs\.state\.lock\(\)\.unwrap\(\);\n` => ``
//@ rewrite-re X18 `Arc::clone\(&state\.(\w+)\)` => `state.\1.arc_clone()`
//@ rewrite X18 `state.imm.clone()` => `opt_mem_clone(&state.imm)`
//@ rewrite X7 `kvs.tree.take_snapshot()` => `kvs.take_snapshot()`
//@ pre <<
        state.inv(),
//@ >>
//@ post <<
        // the snapshot covers fully applied batches only, and lies at or below every timestamp still to be handed out
        all_applied(r.3), r.3 <= state.seq_no,
//@ >>
//@ end
//@ extract lsmtk/src/kvs/mod.rs | impl KeyValueStore :: fn range_scan
//@ region `let (mem, imm, version, timestamp) = {`
//@ region-sig <<
fn scan_snapshot(kvs: &KeyValueStore, state: &KvState) -> (r: (MemArc, Option<MemArc>, VersionRef, u64))
//@ >>
//@ region-tail <<
    ;
    (mem, imm, version, timestamp)
//@ >>
//@ rewrite-re X18 `\bself\.` => `kvs.`
//@ rewrite-re X23 `(?m)^\s*let state = kvs\.state\.lock\(\)\.unwrap\(\);\n` => ``
//@ rewrite-re X18 `Arc::clone\(&state\.(\w+)\)` => `state.\1.arc_clone()`
//@ rewrite X18 `state.imm.clone()` => `opt_mem_clone(&state.imm)`
//@ rewrite X7 `kvs.tree.take_snapshot()` => `kvs.take_snapshot()`
//@ pre <<
        state.inv(),
//@ >>
//@ post <<
        all_applied(r.3), r.3 <= state.seq_no,
//@ >>
//@ end


// ---- the flush thread's roll-over critical section: a new memtable and log, the sequence number moves on, the published
// watermark does not (nothing is applied here)
#[verifier::external_body]
struct PathBuf { _p: u8 }
#[verifier::external_body]
struct Root { _p: u8 }
struct RollState { seq_no: u64, visible_seq_no: u64, mem: MemArc, mem_log: LogArc, imm: Option<MemArc>, imm_trigger: u64, mem_seq_no: u64, mem_path: PathBuf }
impl RollState {
    spec fn inv(&self) -> bool { all_applied(self.visible_seq_no) && self.visible_seq_no <= self.seq_no }
}
#[verifier::external_body]
fn log_file(root: &Root, n: u64) -> (r: PathBuf) { unimplemented!() }
#[verifier::external_body]
fn swap_paths(a: &mut PathBuf, b: &mut PathBuf) { unimplemented!() }
// `Arc::new(MemTable::default())`: a memtable nobody else points to
#[verifier::external_body]
fn new_memtable(Ghost(not): Ghost<int>) -> (r: MemArc) ensures r.id() != not { unimplemented!() }
#[verifier::external_body]
struct Condvar { _p: u8 }
impl Condvar {
    // `state = self.cnd_needs_memtable_flush.wait(state).unwrap()`
    // (ASSUMED, machine arithmetic: fewer than 2^64 - 1 sequence numbers are ever handed out)
    #[verifier::external_body]
    fn wait_roll(&self, state: &mut RollState) requires old(state).inv() ensures final(state).inv(), final(state).seq_no < 0xffff_ffff_ffff_ffff { unimplemented!() }
}
impl WaitGuard {
    // (only the flush thread, which is this thread, replaces mem / imm: the other threads' critical sections leave them alone)
    #[verifier::external_body]
    fn naked_wait_roll(&self, state: &mut RollState) requires old(state).inv() ensures final(state).inv(), final(state).mem == old(state).mem, final(state).imm == old(state).imm { unimplemented!() }
}
struct FlushStore { root: Root, wait_list: WaitList, cnd_needs_memtable_flush: Condvar }
impl FlushStore {
    #[verifier::external_body]
    fn start_new_log(&self, p: &PathBuf) -> (r: Result<LogArc, SError>) { unimplemented!() }
}
//@ extract lsmtk/src/kvs/mod.rs | impl KeyValueStore :: fn _memtable_thread
//@ region `let (imm, imm_log, imm_path, imm_trigger) = {`
//@ region-sig <<
#[verifier::exec_allows_no_decreases_clause]
fn memtable_rollover(kvs: &FlushStore, state: &mut RollState) -> (r: Result<(MemArc, LogArc, PathBuf, u64), SError>)
//@ >>
//@ region-tail <<
    ;
    Ok((imm, imm_log, imm_path, imm_trigger))
//@ >>
//@ rewrite-re X18 `\bself\.` => `kvs.`
//@ rewrite-re X23 `(?m)^\s*let mut state = kvs\.state\.lock\(\)\.unwrap\(\);\n` => ``
//@ rewrite X23 `state = kvs.cnd_needs_memtable_flush.wait(state).unwrap();` => `kvs.cnd_needs_memtable_flush.wait_roll(state);`
//@ rewrite X23 `state = wait_guard.naked_wait(state);` => `wait_guard.naked_wait_roll(state);`
//@ rewrite-re X18 `Arc::clone\(&state\.(\w+)\)` => `state.\1.arc_clone()`
//@ rewrite-re X7 `LOG_FILE\(&kvs\.root, ([\w.]+)\)` => `log_file(&kvs.root, \1)`
//@ rewrite X7 `std::mem::swap(&mut imm_path, &mut state.mem_path);` => `swap_paths(&mut imm_path, &mut state.mem_path);`
//@ rewrite X18 `Arc::new(MemTable::default())` => `new_memtable(Ghost(old_mem_id))`
//@ rewrite-re X7 `(?s)kvs\.poison\(Self::start_new_log\(\s*&state\.mem_path,\s*kvs\.options\.log\.clone\(\),\s*\)\)\?` => `kvs.start_new_log(&state.mem_path)?`
//@ rewrite X23 `kvs.wait_list.link(())` => `kvs.wait_list.link(Ghost(state.seq_no))`
//@ rewrite X18 `drop(wait_guard);` => `drop_guard(wait_guard);`
//@ rewrite-re? X4 `std::cmp::max\(` => `max_u64(`
//@ rewrite-re? X4 `std::cmp::min\(` => `min_u64(`
//@ pre <<
        old(state).inv(), old(state).seq_no < 0xffff_ffff_ffff_ffff,
//@ >>
//@ post <<
        // however long it waited and whatever it swapped: what readers snapshot at is still a fully applied prefix
        final(state).inv(),
        // the memtable that was being written to is now the immutable one -- readers still find its entries -- it is the one
        // handed to the flush, and writers get a fresh one
        r is Ok ==> final(state).imm is Some && final(state).imm->Some_0.id() == r->Ok_0.0.id() && final(state).mem.id() != r->Ok_0.0.id(),
//@ >>
//@ loop 0 <<
            invariant state.inv(), state.seq_no < 0xffff_ffff_ffff_ffff,
//@ >>
//@ afterloop 0 <<
                let ghost old_mem_id = state.mem.id();
//@ >>
//@ loop 1 <<
            invariant /* contract-inv */ state.inv(),
                /* contract-inv */ state.imm is Some && state.imm->Some_0.id() == imm.id() && imm.id() == old_mem_id && state.mem.id() != old_mem_id,
//@ >>
//@ end

//@ min-verified 6
} // verus!
fn main() {}
