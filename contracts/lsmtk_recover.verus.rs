// Unit lsmtk_recover (C02 / C08, function-local): KeyValueStore::recover_one -- what reopening does with one write-ahead log --
// extracted entire over a ghost file system.  Proved, for every outcome of every file-system call:
//   * the log is moved to trash ONLY after its entries are in an SST that exists under its setsum's name AND the manifest
//     lists that setsum (or the log held nothing): on every error path before that point the log is still where it was, so
//     the next open replays it again -- no acknowledged write is dropped by a failed or interrupted recovery step;
//   * on success the SST the manifest lists holds exactly the log's entries (what sst::log::log_to_builder read) and the
//     returned sequence number is that SST's biggest timestamp.
// The manifest transaction inside (`if !mani.strs().any(..) { .. mani.apply(edit)?; }`) is read as one call that lists the
// setsum (its setsum arithmetic is the region recover_apply of unit lsmtk_balance, C04).
// ASSUMED: log_to_builder hands back an SST holding exactly the log's entries, or None for an empty log (units log_reader,
// sst_builder); Sst::metadata reports the setsum of those entries; hard_link / rename / remove_file do what they say or
// fail and change nothing; the log reader itself decides what a damaged tail means (C12).
use vstd::prelude::*;
verus! {
global size_of usize == 8;

#[verifier::external_body]
struct SError { _p: u8 }
#[verifier::external_body]
struct Options { _p: u8 }
#[verifier::external_body]
#[derive(Clone, Copy)]
struct Setsum { _p: u8 }
struct Ent { key: Seq<u8>, ts: u64, val: Option<Seq<u8>> }
uninterp spec fn setsum_of(e: Seq<Ent>) -> Setsum;
// the ghost world: which log / temp / sst files exist and what they hold, what the manifest lists
struct World {
    log: Option<Seq<Ent>>,             // the log file `number`, if it is still in the store directory
    log_in_trash: bool,
    temp: Option<Seq<Ent>>,            // tmp/log.<number>.sst
    ssts: Map<Setsum, Seq<Ent>>,       // sst/<setsum>.sst
    listed: ISet<Setsum>,              // what the manifest lists
}
#[verifier::external_body]
struct LogPath { _p: u8 }
#[verifier::external_body]
struct TempPath { _p: u8 }
#[verifier::external_body]
struct SstPath { _p: u8 }
impl SstPath { uninterp spec fn names(&self) -> Setsum; }
#[verifier::external_body]
struct TrashPath { _p: u8 }
#[verifier::external_body]
struct FileName { _p: u8 }
#[verifier::external_body]
struct SstBuilder { _p: u8 }
#[verifier::external_body]
struct Sst { _p: u8 }
impl Sst { uninterp spec fn ents(&self) -> Seq<Ent>; }
struct SstMetadata { setsum: Setsum, biggest_timestamp: u64 }
uninterp spec fn biggest_ts(e: Seq<Ent>) -> u64;

struct Store { world: Tracked<World> }
impl Store {
    #[verifier::external_body]
    fn log_file(&self, options: &Options, number: u64) -> (r: LogPath) { unimplemented!() }
    #[verifier::external_body]
    fn temp_file(&self, options: &Options, number: u64) -> (r: TempPath) { unimplemented!() }
    #[verifier::external_body]
    fn sst_file(&self, options: &Options, setsum: Setsum) -> (r: SstPath) ensures r.names() == setsum { unimplemented!() }
    #[verifier::external_body]
    fn trash_path(&self, options: &Options, name: FileName) -> (r: TrashPath) { unimplemented!() }
    #[verifier::external_body]
    fn temp_exists(&self, p: &TempPath) -> (r: bool) ensures r == (self.world@.temp is Some) { unimplemented!() }
    #[verifier::external_body]
    fn sst_exists(&self, p: &SstPath) -> (r: bool) ensures r == self.world@.ssts.dom().contains(p.names()) { unimplemented!() }
    #[verifier::external_body]
    fn remove_temp(&mut self, p: &TempPath) -> (r: Result<(), SError>)
        ensures r is Ok ==> final(self).world@ == (World { temp: None, ..old(self).world@ }), r is Err ==> final(self).world@ == old(self).world@,
    { unimplemented!() }
    // sst::SstBuilder::new(options, &out): creates the (empty) temporary file
    #[verifier::external_body]
    fn new_builder(&mut self, options: &Options, p: &TempPath) -> (r: Result<SstBuilder, SError>)
        requires old(self).world@.temp is None,
        ensures final(self).world@.log == old(self).world@.log, final(self).world@.log_in_trash == old(self).world@.log_in_trash,
            final(self).world@.ssts == old(self).world@.ssts, final(self).world@.listed == old(self).world@.listed,
    { unimplemented!() }
    // sst::log::log_to_builder(options, &log_path, builder): every entry of the log into the builder, sealed; None for an empty log
    #[verifier::external_body]
    fn log_to_builder(&mut self, options: &Options, log: &LogPath, b: SstBuilder) -> (r: Result<Option<Sst>, SError>)
        requires old(self).world@.log is Some,
        ensures final(self).world@.log == old(self).world@.log, final(self).world@.log_in_trash == old(self).world@.log_in_trash,
            final(self).world@.ssts == old(self).world@.ssts, final(self).world@.listed == old(self).world@.listed,
            r is Ok && r->Ok_0 is Some ==> r->Ok_0->Some_0.ents() == old(self).world@.log->Some_0 && final(self).world@.temp == Some(old(self).world@.log->Some_0),
            r is Ok && r->Ok_0 is None ==> old(self).world@.log->Some_0.len() == 0,
    { unimplemented!() }
    // a path built by LOG_FILE always has a file name
    #[verifier::external_body]
    fn log_file_name(&self, log: &LogPath) -> (r: Option<FileName>) ensures r is Some { unimplemented!() }
    // rename(&log_path, TRASH_ROOT.join(file_name))
    #[verifier::external_body]
    fn rename_log_to_trash(&mut self, log: &LogPath, to: TrashPath) -> (r: Result<(), SError>)
        ensures r is Ok ==> final(self).world@ == (World { log: None, log_in_trash: true, ..old(self).world@ }), r is Err ==> final(self).world@ == old(self).world@,
    { unimplemented!() }
    // hard_link(&out, &sst_path)
    #[verifier::external_body]
    fn link_temp_to_sst(&mut self, from: &TempPath, to: &SstPath) -> (r: Result<(), SError>)
        ensures r is Ok ==> old(self).world@.temp is Some && final(self).world@ == (World { ssts: old(self).world@.ssts.insert(to.names(), old(self).world@.temp->Some_0), ..old(self).world@ }),
            r is Err ==> final(self).world@ == old(self).world@,
    { unimplemented!() }
    // the manifest transaction of a recovered log (unit lsmtk_balance, region recover_apply): lists the setsum if it is not listed
    #[verifier::external_body]
    fn record_recovered(&mut self, setsum: Setsum) -> (r: Result<(), SError>)
        ensures r is Ok ==> final(self).world@ == (World { listed: old(self).world@.listed.insert(setsum), ..old(self).world@ }),
            r is Err ==> final(self).world@.log == old(self).world@.log && final(self).world@.log_in_trash == old(self).world@.log_in_trash
                && final(self).world@.ssts == old(self).world@.ssts && final(self).world@.temp == old(self).world@.temp
                && (forall|x: Setsum| old(self).world@.listed.contains(x) ==> final(self).world@.listed.contains(x)),
    { unimplemented!() }
}
impl Sst {
    #[verifier::external_body]
    fn metadata(&self) -> (r: Result<SstMetadata, SError>)
        ensures r is Ok ==> r->Ok_0.setsum == setsum_of(self.ents()) && r->Ok_0.biggest_timestamp == biggest_ts(self.ents()),
    { unimplemented!() }
}
// what it takes for the log to be gone: its entries are safe, or it had none
spec fn log_safe(w: World, entries: Seq<Ent>) -> bool {
    entries.len() == 0 || (w.listed.contains(setsum_of(entries)) && w.ssts.dom().contains(setsum_of(entries)) && w.ssts[setsum_of(entries)] == entries)
}

impl Store {
//@ extract lsmtk/src/kvs/mod.rs | impl KeyValueStore :: fn recover_one
//@ ret r
//@ rewrite-re X7 `(?s)fn recover_one\(\s*options: &LsmtkOptions,\s*number: u64,\s*mani: &mut Manifest,\s*\)` => `fn recover_one(&mut self, options: &Options, number: u64)`
//@ rewrite X7 `LOG_FILE(&options.path, number)` => `self.log_file(options, number)`
//@ rewrite X7 `TEMP_ROOT(&options.path).join(format!("log.{number}.sst"))` => `self.temp_file(options, number)`
//@ rewrite X7 `out.exists()` => `self.temp_exists(&out)`
//@ rewrite-re X7 `\bremove_file\(&?out\)` => `self.remove_temp(&out)`
//@ rewrite X7 `sst::SstBuilder::new(options.sst.clone(), &out)?` => `self.new_builder(options, &out)?`
//@ rewrite X7 `sst::log::log_to_builder(options.log.clone(), &log_path, sst_builder)?` => `self.log_to_builder(options, &log_path, sst_builder)?`
//@ rewrite-re X7 `log_path\.file_name\(\)` => `self.log_file_name(&log_path)`
//@ rewrite-re X7 `\brename\(&log_path, TRASH_ROOT\(&options\.path\)\.join\(file_name\)\)` => `{ let to = self.trash_path(options, file_name); self.rename_log_to_trash(&log_path, to) }`
//@ rewrite X17 `Setsum::from_digest(md.setsum)` => `md.setsum`
//@ rewrite X7 `SST_FILE(&options.path, setsum)` => `self.sst_file(options, setsum)`
//@ rewrite X7 `sst_path.exists()` => `self.sst_exists(&sst_path)`
//@ rewrite-re X7 `\bhard_link\(&out, &sst_path\)` => `self.link_temp_to_sst(&out, &sst_path)`
//@ rewrite-re X16 `(?s)if !mani\.strs\(\)\.any\(\|d\| \*d == setsum\.hexdigest\(\)\) \{.*?mani\.apply\(edit\)\?;\s*\}` => `self.record_recovered(setsum)?;`
//@ pre <<
        old(self).world@.log is Some, !old(self).world@.log_in_trash,
        // an SST already under a setsum's name holds the entries of that setsum (files are named by their content)
        forall|x: Setsum| old(self).world@.ssts.dom().contains(x) ==> setsum_of(#[trigger] old(self).world@.ssts[x]) == x,
        forall|a: Seq<Ent>, b: Seq<Ent>| setsum_of(a) == setsum_of(b) ==> a == b,
//@ >>
//@ post <<
        // the log leaves the store directory only once its entries are safe -- whatever failed, wherever
        final(self).world@.log is None ==> final(self).world@.log_in_trash && log_safe(final(self).world@, old(self).world@.log->Some_0),
        final(self).world@.log is Some ==> final(self).world@.log == old(self).world@.log,
        // success: the log is in trash, its entries are safe, the sequence number is theirs
        r is Ok ==> final(self).world@.log is None && (old(self).world@.log->Some_0.len() > 0 ==> r->Ok_0 == biggest_ts(old(self).world@.log->Some_0)),
        // nothing that was listed or stored is lost
        forall|x: Setsum| old(self).world@.listed.contains(x) ==> final(self).world@.listed.contains(x),
        forall|x: Setsum| old(self).world@.ssts.dom().contains(x) ==> final(self).world@.ssts.dom().contains(x) && final(self).world@.ssts[x] == old(self).world@.ssts[x],
//@ >>
//@ end
}


// ---------------------------------------------------------------- the flush thread, after the copy loop
// KeyValueStore::_memtable_thread, region from sealing the SST to the end of the loop body: the flushed memtable's log is
// retired, and the memtable itself leaves the read layers (state.imm = None), only AFTER the SST has been ingested into the
// tree; every failure before that leaves both in place.
struct FlushWorld { ingested: bool, log_in_trash: bool, imm_cleared: bool, temp_sst: bool }
#[verifier::external_body]
struct FlushBuilder { _p: u8 }
#[verifier::external_body]
struct SealedSst { _p: u8 }
#[verifier::external_body]
struct RawSetsum { _p: u8 }
impl RawSetsum {
    #[verifier::external_body]
    fn ne(&self, o: &RawSetsum) -> (r: bool) { unimplemented!() }
}
#[verifier::external_body]
struct ImmPath { _p: u8 }
#[verifier::external_body]
struct TempSst { _p: u8 }
#[verifier::external_body]
fn checksum_mismatch(a: RawSetsum, b: RawSetsum) -> (r: SError) { unimplemented!() }
struct Flusher { w: Tracked<FlushWorld> }
impl Flusher {
    // builder.seal()?.fast_setsum().into_inner()
    #[verifier::external_body]
    fn seal_setsum(&mut self, b: FlushBuilder) -> (r: Result<RawSetsum, SError>) ensures final(self).w@ == old(self).w@ { unimplemented!() }
    // self.tree._ingest(&sst_path, Some(imm_trigger))
    #[verifier::external_body]
    fn ingest(&mut self, p: &TempSst, trigger: u64) -> (r: Result<(), SError>)
        ensures r is Ok ==> final(self).w@ == (FlushWorld { ingested: true, ..old(self).w@ }), r is Err ==> final(self).w@ == old(self).w@,
    { unimplemented!() }
    #[verifier::external_body]
    fn remove_temp_sst(&mut self, p: TempSst) -> (r: Result<(), SError>)
        ensures r is Ok ==> final(self).w@ == (FlushWorld { temp_sst: false, ..old(self).w@ }), r is Err ==> final(self).w@ == old(self).w@,
    { unimplemented!() }
    #[verifier::external_body]
    fn imm_file_name(&self, p: &ImmPath) -> (r: Option<FileName>) { unimplemented!() }
    #[verifier::external_body]
    fn rename_imm_log_to_trash(&mut self, p: &ImmPath, name: FileName) -> (r: Result<(), SError>)
        ensures r is Ok ==> final(self).w@ == (FlushWorld { log_in_trash: true, ..old(self).w@ }), r is Err ==> final(self).w@ == old(self).w@,
    { unimplemented!() }
    // `state.imm = None;` under the state lock (the lock, imm_trigger and the notification are dropped)
    #[verifier::external_body]
    fn clear_imm(&mut self)
        ensures final(self).w@ == (FlushWorld { imm_cleared: true, ..old(self).w@ }),
    { unimplemented!() }
}
//@ extract lsmtk/src/kvs/mod.rs | impl KeyValueStore :: fn _memtable_thread
//@ region `let got_setsum = flusher.seal_setsum(builder)?;` ..; `flusher.clear_imm();`
//@ region-sig <<
fn flush_tail(flusher: &mut Flusher, builder: FlushBuilder, imm_setsum: RawSetsum, sst_path: TempSst, imm_path: ImmPath, imm_trigger: u64) -> (r: Result<(), SError>)
//@ >>
//@ region-tail <<
    Ok(())
//@ >>
//@ rewrite X7 `builder.seal()?.fast_setsum().into_inner()` => `flusher.seal_setsum(builder)?`
//@ rewrite-re? X4 `\bgot_setsum != imm_setsum\b` => `got_setsum.ne(&imm_setsum)`
//@ rewrite-re X7 `(?s)let err = corruption\("Memtable checksum inconsistent"\).*?;\s*return Err\(err\);` => `return Err(checksum_mismatch(got_setsum, imm_setsum));`
//@ rewrite-re X7 `self\.tree\._ingest\(&sst_path, Some\((\w+)\)\)` => `flusher.ingest(&sst_path, \1)`
//@ rewrite-re X7 `\bremove_file\(sst_path\)` => `flusher.remove_temp_sst(sst_path)`
//@ rewrite-re X7 `imm_path\.file_name\(\)` => `flusher.imm_file_name(&imm_path)`
//@ rewrite-re X7 `\brename\(&imm_path, TRASH_ROOT\(&self\.root\)\.join\(file_name\)\)` => `flusher.rename_imm_log_to_trash(&imm_path, file_name)`
//@ rewrite-re? X23 `(?m)^\s*let mut state = self\.state\.lock\(\)\.unwrap\(\);\n` => ``
//@ rewrite-re X23 `\bstate\.imm = None;` => `flusher.clear_imm();`
//@ rewrite-re? X23 `(?m)^\s*state\.imm_trigger = \w+;\n` => ``
//@ rewrite-re? X23 `(?m)^\s*self\.cnd_memtable_rolled_over\.notify_all\(\);\n` => ``
//@ pre <<
        !old(flusher).w@.ingested, !old(flusher).w@.log_in_trash, !old(flusher).w@.imm_cleared,
//@ >>
//@ post <<
        // the flushed log is retired, and the memtable leaves the read layers, only after the SST is in the tree
        final(flusher).w@.log_in_trash ==> final(flusher).w@.ingested,
        final(flusher).w@.imm_cleared ==> final(flusher).w@.ingested,
        r is Ok ==> final(flusher).w@.ingested && final(flusher).w@.imm_cleared,
//@ >>
//@ end

//@ min-verified 2
} // verus!
fn main() {}
