// Unit lsmtk_recover (C02 / C08, function-local): KeyValueStore::recover_one -- what reopening does with one write-ahead log --
// extracted entire over a ghost file system (KeyValueStore::recover, the loop that calls it for every log of the directory,
// and the tail of the flush thread follow further down).  Proved, for every outcome of every file-system call:
//   * the log is moved to trash ONLY after its entries are in an SST that exists under its setsum's name AND the manifest
//     lists that setsum (or the log held nothing): on every error path before that point the log is still where it was, so
//     the next open replays it again -- no acknowledged write is dropped by a failed or interrupted recovery step;
//   * on success the SST the manifest lists holds exactly the log's entries (what sst::log::log_to_builder read) and the
//     returned sequence number is that SST's biggest timestamp.
// The manifest transaction inside (`if !mani.strs().any(..) { .. mani.apply(edit)?; }`) is read as one call that lists the
// setsum (its setsum arithmetic is the region recover_apply of unit lsmtk_balance, C04).
// ASSUMED: log_to_builder hands back an SST holding exactly the log's entries, or None for an empty log (units log_reader,
// sst_builder); Sst::metadata reports the setsum of those entries; hard_link / rename / remove_file do what they say or
// fail and change nothing; the log reader itself decides what a damaged tail means (C12).
use vstd::prelude::*;
verus! {
global size_of usize == 8;

#[verifier::external_body]
struct SError { _p: u8 }
#[verifier::external_body]
struct Options { _p: u8 }
#[verifier::external_body]
#[derive(Clone, Copy)]
struct Setsum { _p: u8 }
struct Ent { key: Seq<u8>, ts: u64, val: Option<Seq<u8>> }
uninterp spec fn setsum_of(e: Seq<Ent>) -> Setsum;
// the ghost world: which log / temp / sst files exist and what they hold, what the manifest lists
struct World {
    log: Option<Seq<Ent>>,             // the log file `number`, if it is still in the store directory
    log_in_trash: bool,
    temp: Option<Seq<Ent>>,            // tmp/log.<number>.sst
    ssts: Map<Setsum, Seq<Ent>>,       // sst/<setsum>.sst
    listed: ISet<Setsum>,              // what the manifest lists
}
#[verifier::external_body]
struct LogPath { _p: u8 }
#[verifier::external_body]
struct TempPath { _p: u8 }
#[verifier::external_body]
struct SstPath { _p: u8 }
impl SstPath { uninterp spec fn names(&self) -> Setsum; }
#[verifier::external_body]
struct TrashPath { _p: u8 }
#[verifier::external_body]
struct FileName { _p: u8 }
#[verifier::external_body]
struct SstBuilder { _p: u8 }
#[verifier::external_body]
struct Sst { _p: u8 }
impl Sst { uninterp spec fn ents(&self) -> Seq<Ent>; }
struct SstMetadata { setsum: Setsum, biggest_timestamp: u64 }
uninterp spec fn biggest_ts(e: Seq<Ent>) -> u64;

struct Store { world: Tracked<World> }
impl Store {
    #[verifier::external_body]
    fn log_file(&self, options: &Options, number: u64) -> (r: LogPath) { unimplemented!() }
    #[verifier::external_body]
    fn temp_file(&self, options: &Options, number: u64) -> (r: TempPath) { unimplemented!() }
    #[verifier::external_body]
    fn sst_file(&self, options: &Options, setsum: Setsum) -> (r: SstPath) ensures r.names() == setsum { unimplemented!() }
    #[verifier::external_body]
    fn trash_path(&self, options: &Options, name: FileName) -> (r: TrashPath) { unimplemented!() }
    #[verifier::external_body]
    fn temp_exists(&self, p: &TempPath) -> (r: bool) ensures r == (self.world@.temp is Some) { unimplemented!() }
    #[verifier::external_body]
    fn sst_exists(&self, p: &SstPath) -> (r: bool) ensures r == self.world@.ssts.dom().contains(p.names()) { unimplemented!() }
    #[verifier::external_body]
    fn remove_temp(&mut self, p: &TempPath) -> (r: Result<(), SError>)
        ensures r is Ok ==> final(self).world@ == (World { temp: None, ..old(self).world@ }), r is Err ==> final(self).world@ == old(self).world@,
    { unimplemented!() }
    // sst::SstBuilder::new(options, &out): creates the (empty) temporary file
    #[verifier::external_body]
    fn new_builder(&mut self, options: &Options, p: &TempPath) -> (r: Result<SstBuilder, SError>)
        requires old(self).world@.temp is None,
        ensures final(self).world@.log == old(self).world@.log, final(self).world@.log_in_trash == old(self).world@.log_in_trash,
            final(self).world@.ssts == old(self).world@.ssts, final(self).world@.listed == old(self).world@.listed,
    { unimplemented!() }
    // sst::log::log_to_builder(options, &log_path, builder): every entry of the log into the builder, sealed; None for an empty log
    #[verifier::external_body]
    fn log_to_builder(&mut self, options: &Options, log: &LogPath, b: SstBuilder) -> (r: Result<Option<Sst>, SError>)
        requires old(self).world@.log is Some,
        ensures final(self).world@.log == old(self).world@.log, final(self).world@.log_in_trash == old(self).world@.log_in_trash,
            final(self).world@.ssts == old(self).world@.ssts, final(self).world@.listed == old(self).world@.listed,
            r is Ok && r->Ok_0 is Some ==> r->Ok_0->Some_0.ents() == old(self).world@.log->Some_0 && final(self).world@.temp == Some(old(self).world@.log->Some_0),
            r is Ok && r->Ok_0 is None ==> old(self).world@.log->Some_0.len() == 0,
    { unimplemented!() }
    // a path built by LOG_FILE always has a file name
    #[verifier::external_body]
    fn log_file_name(&self, log: &LogPath) -> (r: Option<FileName>) ensures r is Some { unimplemented!() }
    // rename(&log_path, TRASH_ROOT.join(file_name))
    #[verifier::external_body]
    fn rename_log_to_trash(&mut self, log: &LogPath, to: TrashPath) -> (r: Result<(), SError>)
        ensures r is Ok ==> final(self).world@ == (World { log: None, log_in_trash: true, ..old(self).world@ }), r is Err ==> final(self).world@ == old(self).world@,
    { unimplemented!() }
    // hard_link(&out, &sst_path)
    #[verifier::external_body]
    fn link_temp_to_sst(&mut self, from: &TempPath, to: &SstPath) -> (r: Result<(), SError>)
        ensures r is Ok ==> old(self).world@.temp is Some && final(self).world@ == (World { ssts: old(self).world@.ssts.insert(to.names(), old(self).world@.temp->Some_0), ..old(self).world@ }),
            r is Err ==> final(self).world@ == old(self).world@,
    { unimplemented!() }
    // the manifest transaction of a recovered log (unit lsmtk_balance, region recover_apply): lists the setsum if it is not listed
    #[verifier::external_body]
    fn record_recovered(&mut self, setsum: Setsum) -> (r: Result<(), SError>)
        ensures r is Ok ==> final(self).world@ == (World { listed: old(self).world@.listed.insert(setsum), ..old(self).world@ }),
            r is Err ==> final(self).world@.log == old(self).world@.log && final(self).world@.log_in_trash == old(self).world@.log_in_trash
                && final(self).world@.ssts == old(self).world@.ssts && final(self).world@.temp == old(self).world@.temp
                && (forall|x: Setsum| old(self).world@.listed.contains(x) ==> final(self).world@.listed.contains(x)),
    { unimplemented!() }
}
impl Sst {
    #[verifier::external_body]
    fn metadata(&self) -> (r: Result<SstMetadata, SError>)
        ensures r is Ok ==> r->Ok_0.setsum == setsum_of(self.ents()) && r->Ok_0.biggest_timestamp == biggest_ts(self.ents()),
    { unimplemented!() }
}
// what it takes for the log to be gone: its entries are safe, or it had none
spec fn log_safe(w: World, entries: Seq<Ent>) -> bool {
    entries.len() == 0 || (w.listed.contains(setsum_of(entries)) && w.ssts.dom().contains(setsum_of(entries)) && w.ssts[setsum_of(entries)] == entries)
}

impl Store {
//@ extract lsmtk/src/kvs/mod.rs | impl KeyValueStore :: fn recover_one
//@ ret r
//@ rewrite-re X7 `(?s)fn recover_one\(\s*options: &LsmtkOptions,\s*number: u64,\s*mani: &mut Manifest,\s*\)` => `fn recover_one(&mut self, options: &Options, number: u64)`
//@ rewrite X7 `LOG_FILE(&options.path, number)` => `self.log_file(options, number)`
//@ rewrite X7 `TEMP_ROOT(&options.path).join(format!("log.{number}.sst"))` => `self.temp_file(options, number)`
//@ rewrite-re? X7 `\bout\.exists\(\)` => `self.temp_exists(&out)`
//@ rewrite-re? X7 `\bremove_file\(&?out\)` => `self.remove_temp(&out)`
//@ rewrite X7 `sst::SstBuilder::new(options.sst.clone(), &out)?` => `self.new_builder(options, &out)?`
//@ rewrite X7 `sst::log::log_to_builder(options.log.clone(), &log_path, sst_builder)?` => `self.log_to_builder(options, &log_path, sst_builder)?`
//@ rewrite-re X7 `log_path\.file_name\(\)` => `self.log_file_name(&log_path)`
//@ rewrite-re X7 `\brename\(&log_path, TRASH_ROOT\(&options\.path\)\.join\(file_name\)\)` => `{ let to = self.trash_path(options, file_name); self.rename_log_to_trash(&log_path, to) }`
//@ rewrite X17 `Setsum::from_digest(md.setsum)` => `md.setsum`
//@ rewrite X7 `SST_FILE(&options.path, setsum)` => `self.sst_file(options, setsum)`
//@ rewrite X7 `sst_path.exists()` => `self.sst_exists(&sst_path)`
//@ rewrite-re X7 `\bhard_link\(&out, &sst_path\)` => `self.link_temp_to_sst(&out, &sst_path)`
//@ rewrite-re X16 `(?s)if !mani\.strs\(\)\.any\(\|d\| \*d == setsum\.hexdigest\(\)\) \{.*?mani\.apply\(edit\)\?;\s*\}` => `self.record_recovered(setsum)?;`
//@ pre <<
        old(self).world@.log is Some, !old(self).world@.log_in_trash,
        // an SST already under a setsum's name holds the entries of that setsum (files are named by their content)
        forall|x: Setsum| old(self).world@.ssts.dom().contains(x) ==> setsum_of(#[trigger] old(self).world@.ssts[x]) == x,
        forall|a: Seq<Ent>, b: Seq<Ent>| setsum_of(a) == setsum_of(b) ==> a == b,
//@ >>
//@ post <<
        // the log leaves the store directory only once its entries are safe -- whatever failed, wherever
        final(self).world@.log is None ==> final(self).world@.log_in_trash && log_safe(final(self).world@, old(self).world@.log->Some_0),
        final(self).world@.log is Some ==> final(self).world@.log == old(self).world@.log,
        // success: the log is in trash, its entries are safe, the sequence number is theirs
        r is Ok ==> final(self).world@.log is None && (old(self).world@.log->Some_0.len() > 0 ==> r->Ok_0 == biggest_ts(old(self).world@.log->Some_0)),
        // nothing that was listed or stored is lost
        forall|x: Setsum| old(self).world@.listed.contains(x) ==> final(self).world@.listed.contains(x),
        forall|x: Setsum| old(self).world@.ssts.dom().contains(x) ==> final(self).world@.ssts.dom().contains(x) && final(self).world@.ssts[x] == old(self).world@.ssts[x],
//@ >>
//@ end
}


// ---------------------------------------------------------------- the flush thread, after the copy loop
// KeyValueStore::_memtable_thread, region from sealing the SST to the end of the loop body: the flushed memtable's log is
// retired, and the memtable itself leaves the read layers (state.imm = None), only AFTER the SST has been ingested into the
// tree; every failure before that leaves both in place.
struct FlushWorld { ingested: bool, log_in_trash: bool, imm_cleared: bool, temp_sst: bool }
#[verifier::external_body]
struct FlushBuilder { _p: u8 }
#[verifier::external_body]
struct SealedSst { _p: u8 }
#[verifier::external_body]
struct RawSetsum { _p: u8 }
impl RawSetsum {
    #[verifier::external_body]
    fn ne(&self, o: &RawSetsum) -> (r: bool) { unimplemented!() }
}
#[verifier::external_body]
struct ImmPath { _p: u8 }
#[verifier::external_body]
struct TempSst { _p: u8 }
#[verifier::external_body]
fn checksum_mismatch(a: RawSetsum, b: RawSetsum) -> (r: SError) { unimplemented!() }
struct Flusher { w: Tracked<FlushWorld> }
impl Flusher {
    // builder.seal()?.fast_setsum().into_inner()
    #[verifier::external_body]
    fn seal_setsum(&mut self, b: FlushBuilder) -> (r: Result<RawSetsum, SError>) ensures final(self).w@ == old(self).w@ { unimplemented!() }
    // self.tree._ingest(&sst_path, Some(imm_trigger))
    #[verifier::external_body]
    fn ingest(&mut self, p: &TempSst, trigger: u64) -> (r: Result<(), SError>)
        ensures r is Ok ==> final(self).w@ == (FlushWorld { ingested: true, ..old(self).w@ }), r is Err ==> final(self).w@ == old(self).w@,
    { unimplemented!() }
    #[verifier::external_body]
    fn remove_temp_sst(&mut self, p: TempSst) -> (r: Result<(), SError>)
        ensures r is Ok ==> final(self).w@ == (FlushWorld { temp_sst: false, ..old(self).w@ }), r is Err ==> final(self).w@ == old(self).w@,
    { unimplemented!() }
    #[verifier::external_body]
    fn imm_file_name(&self, p: &ImmPath) -> (r: Option<FileName>) { unimplemented!() }
    #[verifier::external_body]
    fn rename_imm_log_to_trash(&mut self, p: &ImmPath, name: FileName) -> (r: Result<(), SError>)
        ensures r is Ok ==> final(self).w@ == (FlushWorld { log_in_trash: true, ..old(self).w@ }), r is Err ==> final(self).w@ == old(self).w@,
    { unimplemented!() }
    // `state.imm = None;` under the state lock (the lock, imm_trigger and the notification are dropped)
    #[verifier::external_body]
    fn clear_imm(&mut self)
        ensures final(self).w@ == (FlushWorld { imm_cleared: true, ..old(self).w@ }),
    { unimplemented!() }
}
//@ extract lsmtk/src/kvs/mod.rs | impl KeyValueStore :: fn _memtable_thread
//@ region `let got_setsum = flusher.seal_setsum(builder)?;` ..; `flusher.clear_imm();`
//@ region-sig <<
fn flush_tail(flusher: &mut Flusher, builder: FlushBuilder, imm_setsum: RawSetsum, sst_path: TempSst, imm_path: ImmPath, imm_trigger: u64) -> (r: Result<(), SError>)
//@ >>
//@ region-tail <<
    Ok(())
//@ >>
//@ rewrite X7 `builder.seal()?.fast_setsum().into_inner()` => `flusher.seal_setsum(builder)?`
//@ rewrite-re? X4 `\bgot_setsum != imm_setsum\b` => `got_setsum.ne(&imm_setsum)`
//@ rewrite-re X7 `(?s)let err = corruption\("Memtable checksum inconsistent"\).*?;\s*return Err\(err\);` => `return Err(checksum_mismatch(got_setsum, imm_setsum));`
//@ rewrite-re X7 `self\.tree\._ingest\(&sst_path, Some\((\w+)\)\)` => `flusher.ingest(&sst_path, \1)`
//@ rewrite-re X7 `\bremove_file\(sst_path\)` => `flusher.remove_temp_sst(sst_path)`
//@ rewrite-re X7 `imm_path\.file_name\(\)` => `flusher.imm_file_name(&imm_path)`
//@ rewrite-re X7 `\brename\(&imm_path, TRASH_ROOT\(&self\.root\)\.join\(file_name\)\)` => `flusher.rename_imm_log_to_trash(&imm_path, file_name)`
//@ rewrite-re? X23 `(?m)^\s*let mut state = self\.state\.lock\(\)\.unwrap\(\);\n` => ``
//@ rewrite-re X23 `\bstate\.imm = None;` => `flusher.clear_imm();`
//@ rewrite-re? X23 `(?m)^\s*state\.imm_trigger = \w+;\n` => ``
//@ rewrite-re? X23 `(?m)^\s*self\.cnd_memtable_rolled_over\.notify_all\(\);\n` => ``
//@ pre <<
        !old(flusher).w@.ingested, !old(flusher).w@.log_in_trash, !old(flusher).w@.imm_cleared,
//@ >>
//@ post <<
        // the flushed log is retired, and the memtable leaves the read layers, only after the SST is in the tree
        final(flusher).w@.log_in_trash ==> final(flusher).w@.ingested,
        final(flusher).w@.imm_cleared ==> final(flusher).w@.ingested,
        r is Ok ==> final(flusher).w@.ingested && final(flusher).w@.imm_cleared,
//@ >>
//@ end

// ---------------------------------------------------------------- reopening: every log of the directory
// KeyValueStore::recover, entire: the directory is listed, every entry whose name parses as a log number is collected, and
// recover_one (above) is called once per number.  Proved, for any directory and any outcome of any call: on Ok NO log is
// left in the store directory, each was retired by recover_one (entries safe or none), and the sequence number handed to
// open is the largest timestamp any of them held (0 when there was none) -- so the first write after reopening is stamped
// above everything recovered (unit lsmtk_open starts from this number); on Err a log is either still in the directory or
// was retired -- none is lost, the next open sees the rest.
// ASSUMED: read_dir lists every log still in the directory, each once, under its canonical name `log.<n>` (parse_log_file
// would also read `log.01` as 1: the store never writes such a name); <[u64]>::sort permutes.
struct DirWorld {
    present: ISet<u64>,    // numbers of the log files in the store directory
    retired: ISet<u64>,    // logs recover_one moved to trash: entries safe, or none
}
#[verifier::external_body]
struct DirEntryName { _p: u8 }
uninterp spec fn log_number(n: DirEntryName) -> Option<u64>;
// the largest timestamp log `n` holds; 0 for an empty log (recover_one's Ok value)
uninterp spec fn log_ts(n: u64) -> u64;
#[verifier::external_body]
struct Listing { _p: u8 }
impl Listing {
    uninterp spec fn view(&self) -> Seq<Result<DirEntryName, SError>>;
    #[verifier::external_body]
    fn len(&self) -> (r: usize) ensures r == self@.len() { unimplemented!() }
    #[verifier::external_body]
    fn take(&self, i: usize) -> (r: Result<DirEntryName, SError>) requires i < self@.len() ensures r == self@[i as int] { unimplemented!() }
}
spec fn lists(l: Seq<Result<DirEntryName, SError>>, n: u64) -> bool {
    exists|i: int| 0 <= i < l.len() && (#[trigger] l[i]) is Ok && log_number(l[i]->Ok_0) == Some(n)
}
#[verifier::external_body]
fn parse_log_file_name(n: DirEntryName) -> (r: Option<u64>) ensures r == log_number(n) { unimplemented!() }
#[verifier::external_body]
fn sort_numbers(v: &mut Vec<u64>)
    ensures final(v)@.len() == old(v)@.len(), forall|x: u64| final(v)@.contains(x) <==> old(v)@.contains(x),
        old(v)@.no_duplicates() ==> final(v)@.no_duplicates(),
{ unimplemented!() }
fn max_u64(a: u64, b: u64) -> (r: u64) ensures r >= a, r >= b, r == a || r == b { if a >= b { a } else { b } }
fn min_u64(a: u64, b: u64) -> (r: u64) ensures r <= a, r <= b, r == a || r == b { if a <= b { a } else { b } }
struct Reopen { w: Tracked<DirWorld> }
impl Reopen {
    #[verifier::external_body]
    fn read_dir(&self, options: &Options) -> (r: Result<Listing, SError>)
        ensures r is Ok ==> (forall|n: u64| self.w@.present.contains(n) <==> lists(r->Ok_0@, n))
            && (forall|i: int, j: int| 0 <= i < j < r->Ok_0@.len() && (#[trigger] r->Ok_0@[i]) is Ok && (#[trigger] r->Ok_0@[j]) is Ok && log_number(r->Ok_0@[i]->Ok_0) is Some
                ==> log_number(r->Ok_0@[i]->Ok_0) != log_number(r->Ok_0@[j]->Ok_0)),
    { unimplemented!() }
    // recover_one as proved above, seen from the directory: Ok means the log is retired; Err means it is retired or untouched
    #[verifier::external_body]
    fn recover_one(&mut self, options: &Options, number: u64) -> (r: Result<u64, SError>)
        requires old(self).w@.present.contains(number),
        ensures
            r is Ok ==> r->Ok_0 == log_ts(number) && final(self).w@ == (DirWorld { present: old(self).w@.present.remove(number), retired: old(self).w@.retired.insert(number) }),
            r is Err ==> final(self).w@ == old(self).w@ || final(self).w@ == (DirWorld { present: old(self).w@.present.remove(number), retired: old(self).w@.retired.insert(number) }),
    { unimplemented!() }

//@ extract lsmtk/src/kvs/mod.rs | impl KeyValueStore :: fn recover
//@ ret r
//@ rewrite-re X7 `fn recover\(\s*options: &LsmtkOptions,\s*mani: &mut Manifest,?\s*\)` => `fn recover(&mut self, options: &Options)`
//@ rewrite-re X13 `for (\w+) in read_dir\(&options\.path\)\? \{` => `let listing = self.read_dir(options)?; for ei in 0..listing.len() { let \1 = listing.take(ei);`
//@ rewrite-re X7 `parse_log_file\((\w+)\?\.file_name\(\)\)` => `parse_log_file_name(\1?)`
//@ rewrite-re X7 `\bnumbers\.sort\(\);` => `sort_numbers(&mut numbers);`
//@ rewrite-re X13 `for number in numbers\.into_iter\(\) \{` => `for ni in 0..numbers.len() { let number = numbers[ni];`
//@ rewrite-re X7 `Self::recover_one\(options, number, mani\)` => `self.recover_one(options, number)`
//@ rewrite-re? X7 `std::cmp::max\(` => `max_u64(`
//@ rewrite-re? X7 `std::cmp::min\(` => `min_u64(`
//@ rewrite-re? X4 `let mut numbers = vec!\[\];` => `let mut numbers: Vec<u64> = Vec::new();`
//@ rewrite-re? X4 `let mut seq_no = 0;` => `let mut seq_no: u64 = 0;`
//@ post <<
        // no log is lost, whatever happens
        forall|n: u64| old(self).w@.present.contains(n) ==> final(self).w@.present.contains(n) || final(self).w@.retired.contains(n),
        // success: every log is retired, and the sequence number is the largest timestamp any of them held
        r is Ok ==> (forall|n: u64| !final(self).w@.present.contains(n))
            && (forall|n: u64| old(self).w@.present.contains(n) ==> final(self).w@.retired.contains(n) && r->Ok_0 >= log_ts(n))
            && (r->Ok_0 == 0 || exists|n: u64| old(self).w@.present.contains(n) && r->Ok_0 == log_ts(n)),
//@ >>
//@ loop `for ei in` <<
        invariant self.w@ == old(self).w@, /* contract-inv */
            forall|n: u64| numbers@.contains(n) <==> lists(listing@.take(ei as int), n), /* contract-inv */
            numbers@.no_duplicates(),
            forall|i: int, j: int| 0 <= i < j < listing@.len() && (#[trigger] listing@[i]) is Ok && (#[trigger] listing@[j]) is Ok && log_number(listing@[i]->Ok_0) is Some
                ==> log_number(listing@[i]->Ok_0) != log_number(listing@[j]->Ok_0),
//@ >>
//@ endloop `for ei in` <<
            proof { lemma_lists_step(listing@, ei as int, old_numbers, numbers@); }
//@ >>
//@ startloop `for ei in` <<
            let ghost old_numbers = numbers@;
//@ >>
//@ afterloop `for ei in` <<
        proof { assert(listing@.take(listing@.len() as int) =~= listing@); }
//@ >>
//@ before `for ni in` <<
        proof { lemma_in_range(numbers@, 0); }
//@ >>
//@ loop `for ni in` <<
        invariant /* contract-inv */
            numbers@.no_duplicates(),
            forall|n: u64| #![trigger old(self).w@.present.contains(n)] #![trigger numbers@.contains(n)] old(self).w@.present.contains(n) <==> numbers@.contains(n), /* contract-inv */
            forall|n: u64| #![trigger self.w@.present.contains(n)] #![trigger in_range(numbers@, ni as int, numbers@.len() as int, n)] self.w@.present.contains(n) <==> in_range(numbers@, ni as int, numbers@.len() as int, n), /* contract-inv */
            forall|n: u64| #![trigger self.w@.retired.contains(n)] #![trigger old(self).w@.retired.contains(n)] #![trigger in_range(numbers@, 0, ni as int, n)] self.w@.retired.contains(n) <==> old(self).w@.retired.contains(n) || in_range(numbers@, 0, ni as int, n), /* contract-inv */
            forall|k: int| 0 <= k < ni ==> seq_no >= log_ts(#[trigger] numbers@[k]), /* contract-inv */
            seq_no == 0 || exists|k: int| 0 <= k < ni && seq_no == log_ts(#[trigger] numbers@[k]), /* contract-inv */
//@ >>
//@ startloop `for ni in` <<
            proof { lemma_in_range(numbers@, ni as int); }
//@ >>
//@ afterloop `for ni in` <<
        proof {
            lemma_in_range(numbers@, numbers@.len() as int);
            if seq_no != 0 {
                let k = choose|k: int| 0 <= k < numbers@.len() && seq_no == log_ts(#[trigger] numbers@[k]);
                assert(numbers@.contains(numbers@[k]));
            }
            assert forall|n: u64| old(self).w@.present.contains(n) implies seq_no >= log_ts(n) by {
                let k = choose|k: int| 0 <= k < numbers@.len() && numbers@[k] == n;
            }
        }
//@ >>
//@ end
}
spec fn in_range(s: Seq<u64>, lo: int, hi: int, n: u64) -> bool { exists|k: int| lo <= k < hi && #[trigger] s[k] == n }
proof fn lemma_in_range(s: Seq<u64>, m: int)
    requires 0 <= m <= s.len(), s.no_duplicates(),
    ensures
        forall|n: u64| #![trigger s.contains(n)] #![trigger in_range(s, 0, s.len() as int, n)] s.contains(n) <==> in_range(s, 0, s.len() as int, n),
        forall|n: u64| !in_range(s, m, m, n),
        forall|n: u64| #![trigger s.contains(n)] #![trigger in_range(s, 0, m, n)] #![trigger in_range(s, m, s.len() as int, n)] s.contains(n) <==> in_range(s, 0, m, n) || in_range(s, m, s.len() as int, n),
        forall|n: u64| !(in_range(s, 0, m, n) && in_range(s, m, s.len() as int, n)),
        m < s.len() ==> (forall|n: u64| #![trigger in_range(s, m, s.len() as int, n)] #![trigger in_range(s, m + 1, s.len() as int, n)] in_range(s, m, s.len() as int, n) <==> n == s[m] || in_range(s, m + 1, s.len() as int, n)),
        m < s.len() ==> (forall|n: u64| #![trigger in_range(s, 0, m + 1, n)] #![trigger in_range(s, 0, m, n)] in_range(s, 0, m + 1, n) <==> n == s[m] || in_range(s, 0, m, n)),
        m < s.len() ==> !in_range(s, m + 1, s.len() as int, s[m]) && !in_range(s, 0, m, s[m]),
{
    assert forall|n: u64| s.contains(n) <==> in_range(s, 0, s.len() as int, n) by {
        if s.contains(n) { let k = choose|k: int| 0 <= k < s.len() && s[k] == n; assert(s[k] == n); }
        if in_range(s, 0, s.len() as int, n) { let k = choose|k: int| 0 <= k < s.len() && #[trigger] s[k] == n; assert(s.contains(n)); }
    }
    assert forall|n: u64| s.contains(n) <==> in_range(s, 0, m, n) || in_range(s, m, s.len() as int, n) by {
        if s.contains(n) { let k = choose|k: int| 0 <= k < s.len() && s[k] == n; assert(s[k] == n); }
        if in_range(s, 0, m, n) { let k = choose|k: int| 0 <= k < m && #[trigger] s[k] == n; assert(s.contains(n)); }
        if in_range(s, m, s.len() as int, n) { let k = choose|k: int| m <= k < s.len() && #[trigger] s[k] == n; assert(s.contains(n)); }
    }
    assert forall|n: u64| !(in_range(s, 0, m, n) && in_range(s, m, s.len() as int, n)) by {
        if in_range(s, 0, m, n) && in_range(s, m, s.len() as int, n) {
            let a = choose|k: int| 0 <= k < m && #[trigger] s[k] == n;
            let b = choose|k: int| m <= k < s.len() && #[trigger] s[k] == n;
            assert(s[a] == s[b]);
        }
    }
    if m < s.len() {
        assert forall|n: u64| in_range(s, m, s.len() as int, n) <==> n == s[m] || in_range(s, m + 1, s.len() as int, n) by {
            if in_range(s, m, s.len() as int, n) { let k = choose|k: int| m <= k < s.len() && #[trigger] s[k] == n; if k > m { assert(s[k] == n); } }
            if in_range(s, m + 1, s.len() as int, n) { let k = choose|k: int| m + 1 <= k < s.len() && #[trigger] s[k] == n; assert(s[k] == n); }
            if n == s[m] { assert(s[m] == n); }
        }
        assert forall|n: u64| in_range(s, 0, m + 1, n) <==> n == s[m] || in_range(s, 0, m, n) by {
            if in_range(s, 0, m + 1, n) { let k = choose|k: int| 0 <= k < m + 1 && #[trigger] s[k] == n; if k < m { assert(s[k] == n); } }
            if in_range(s, 0, m, n) { let k = choose|k: int| 0 <= k < m && #[trigger] s[k] == n; assert(s[k] == n); }
            if n == s[m] { assert(s[m] == n); }
        }
        if in_range(s, m + 1, s.len() as int, s[m]) { let k = choose|k: int| m + 1 <= k < s.len() && #[trigger] s[k] == s[m]; assert(s[k] == s[m]); }
        if in_range(s, 0, m, s[m]) { let k = choose|k: int| 0 <= k < m && #[trigger] s[k] == s[m]; assert(s[k] == s[m]); }
    }
}
// what one step of the collecting loop adds: the entry's log number, if it has one
spec fn collected(l: Seq<Result<DirEntryName, SError>>, ei: int, before: Seq<u64>) -> Seq<u64> {
    if l[ei] is Ok && log_number(l[ei]->Ok_0) is Some { before.push(log_number(l[ei]->Ok_0)->Some_0) } else { before }
}
proof fn lemma_lists_step(l: Seq<Result<DirEntryName, SError>>, ei: int, before: Seq<u64>, after: Seq<u64>)
    requires 0 <= ei < l.len(),
        forall|n: u64| before.contains(n) <==> lists(l.take(ei), n),
        before.no_duplicates(),
        forall|i: int, j: int| 0 <= i < j < l.len() && (#[trigger] l[i]) is Ok && (#[trigger] l[j]) is Ok && log_number(l[i]->Ok_0) is Some
            ==> log_number(l[i]->Ok_0) != log_number(l[j]->Ok_0),
    // (stated as an implication, not as a precondition: a body that collects something else fails the loop invariant, not this call)
    ensures after == collected(l, ei, before) ==> (forall|n: u64| after.contains(n) <==> lists(l.take(ei + 1), n)) && after.no_duplicates(),
{
    if after != collected(l, ei, before) { return; }
    let t0 = l.take(ei);
    let t1 = l.take(ei + 1);
    assert(t1 =~= t0.push(l[ei]));
    let cond = l[ei] is Ok && log_number(l[ei]->Ok_0) is Some;
    if cond { assert(after == before.push(log_number(l[ei]->Ok_0)->Some_0)); } else { assert(after == before); }
    assert(after.len() >= before.len());
    assert(forall|k: int| 0 <= k < before.len() ==> after[k] == before[k]);
    assert forall|n: u64| after.contains(n) <==> lists(t1, n) by {
        if lists(t0, n) {
            let i = choose|i: int| 0 <= i < t0.len() && (#[trigger] t0[i]) is Ok && log_number(t0[i]->Ok_0) == Some(n);
            assert(t1[i] == t0[i]);
            assert(before.contains(n));
            let k = choose|k: int| 0 <= k < before.len() && before[k] == n;
            assert(after[k] == n);
        }
        if l[ei] is Ok && log_number(l[ei]->Ok_0) == Some(n) {
            assert(t1[ei] == l[ei]);
            assert(after[before.len() as int] == n);
        }
        if lists(t1, n) {
            let i = choose|i: int| 0 <= i < t1.len() && (#[trigger] t1[i]) is Ok && log_number(t1[i]->Ok_0) == Some(n);
            if i < ei { assert(t0[i] == t1[i]); assert(lists(t0, n)); }
        }
        if after.contains(n) {
            let k = choose|k: int| 0 <= k < after.len() && after[k] == n;
            if k < before.len() { assert(before[k] == n); assert(before.contains(n)); }
        }
    }
    if l[ei] is Ok && log_number(l[ei]->Ok_0) is Some {
        let x = log_number(l[ei]->Ok_0)->Some_0;
        if before.contains(x) {
            let i = choose|i: int| 0 <= i < t0.len() && (#[trigger] t0[i]) is Ok && log_number(t0[i]->Ok_0) == Some(x);
            assert(t0[i] == l[i]);
            assert(false);
        }
        assert forall|a: int, b: int| 0 <= a < after.len() && 0 <= b < after.len() && a != b implies after[a] != after[b] by {
            if a < before.len() && b < before.len() { assert(before[a] != before[b]); }
            else if a < before.len() { assert(before.contains(before[a])); }
            else { assert(before.contains(before[b])); }
        }
    }
}

//@ min-verified 7
} // verus!
fn main() {}
