//@ package paxos_pb
//@ modfile paxos_pb/src/lib.rs
//@ flags --lib
//@ prepend paxos_pb/src/lib.rs <<
#![cfg_attr(kani, recursion_limit = "1024")]
//@ >>
// Host crate: paxos_pb is used ONLY because it already depends on prototk, prototk_derive, buffertk
// and handled; none of its own code is exercised.  The message types below are expanded by the
// repository's prototk_derive, so the code under proof is the derive-generated pack/unpack code.

#[cfg(kani)]
pub(crate) mod __verif_protomsgs {
    use buffertk::{stack_pack, Unpacker};
    use prototk::Message as _;
    use prototk_derive::Message;
    use handled::SError;

    fn mk() -> SError { SError::from(handled::SExpr::Atom(String::new())) }
    fn stub_u32(_a: u32) -> SError { mk() }
    fn stub_u64(_a: u64) -> SError { mk() }
    fn stub_i64(_a: i64) -> SError { mk() }
    fn stub_usize(_a: usize) -> SError { mk() }
    fn stub_2usize(_a: usize, _b: usize) -> SError { mk() }
    fn stub_ifn(_a: u32, _w: impl AsRef<str>) -> SError { mk() }
    fn stub_0() -> SError { mk() }

    #[derive(Clone, Debug, Default, Message, PartialEq)]
    struct Varints {
        #[prototk(1, int32)] a: i32,
        #[prototk(2, int64)] b: i64,
        #[prototk(3, uint32)] c: u32,
        #[prototk(4, uint64)] d: u64,
    }
    #[derive(Clone, Debug, Default, Message, PartialEq)]
    struct Zigzags {
        #[prototk(1, sint32)] a: i32,
        #[prototk(2, sint64)] b: i64,
        #[prototk(3, Bool)] c: bool,
    }
    #[derive(Clone, Debug, Default, Message, PartialEq)]
    struct Fixeds {
        #[prototk(1, fixed32)] a: u32,
        #[prototk(2, fixed64)] b: u64,
        #[prototk(3, sfixed32)] c: i32,
        #[prototk(4, sfixed64)] d: i64,
    }
    #[derive(Clone, Debug, Default, Message, PartialEq)]
    struct Floats {
        #[prototk(1, float)] a: f32,
        #[prototk(2, double)] b: f64,
    }
    #[derive(Clone, Debug, Default, Message, PartialEq)]
    struct One {
        #[prototk(5, uint64)] d: u64,
    }
    // a writer's view with an extra field the reader (One) does not know
    #[derive(Clone, Debug, Default, Message, PartialEq)]
    struct OnePlus {
        #[prototk(3, sint64)] x: i64,
        #[prototk(5, uint64)] d: u64,
        #[prototk(9, fixed32)] y: u32,
    }
    #[derive(Clone, Debug, Default, Message, PartialEq)]
    struct Nested {
        #[prototk(1, message)] m: One,
        #[prototk(2, uint32)] t: u32,
    }
    #[derive(Clone, Debug, Default, Message, PartialEq)]
    struct Opt {
        #[prototk(1, uint64)] o: Option<u64>,
        #[prototk(2, sint32)] v: Vec<i32>,
    }
    #[derive(Clone, Debug, Message, PartialEq)]
    enum OneOf {
        #[prototk(1, sint64)] A(i64),
        #[prototk(2, message)] B(One),
        #[prototk(3, message)] C,
    }
    impl Default for OneOf { fn default() -> Self { OneOf::C } }
    #[derive(Clone, Debug, Default, Message, PartialEq)]
    struct Bytes<'a> {
        #[prototk(1, bytes)] p: &'a [u8],
        #[prototk(2, bytes16)] q: [u8; 16],
    }

    macro_rules! stubs { ($(#[$m:meta])* fn $name:ident() $body:block) => {
        $(#[$m])*
        #[kani::stub(prototk::buffer_too_short, stub_2usize)]
        #[kani::stub(prototk::invalid_field_number, stub_ifn)]
        #[kani::stub(prototk::unhandled_wire_type, stub_u32)]
        #[kani::stub(prototk::tag_too_large, stub_u64)]
        #[kani::stub(prototk::varint_overflow, stub_usize)]
        #[kani::stub(prototk::unsigned_overflow, stub_u64)]
        #[kani::stub(prototk::signed_overflow, stub_i64)]
        #[kani::stub(prototk::wrong_length, stub_2usize)]
        #[kani::stub(prototk::unknown_discriminant, stub_u32)]
        #[kani::stub(prototk::string_encoding, stub_0)]
        #[kani::stub(buffertk::varint_overflow, stub_usize)]
        #[kani::stub(buffertk::buffer_too_short, stub_2usize)]
        #[kani::stub(buffertk::unsigned_overflow, stub_u64)]
        #[kani::stub(buffertk::signed_overflow, stub_i64)]
        #[kani::stub(buffertk::tag_too_large, stub_u64)]
        #[kani::stub(buffertk::unknown_discriminant, stub_u32)]
        fn $name() $body
    }; }

    macro_rules! roundtrip {
        ($m:expr, $t:ty, $eq:expr) => {{
            let m: $t = $m;
            let mut storage: [u8; 48] = kani::any();
            let sz = buffertk::Packable::pack_sz(&m);
            let buf: &[u8] = stack_pack(&m).into_slice(&mut storage[..]);
            assert!(buf.len() == sz);
            let mut up = Unpacker::new(buf);
            let got: Result<$t, SError> = up.unpack();
            match got {
                Ok(g) => { assert!(($eq)(&m, &g)); assert!(up.remain().len() == 0); core::mem::forget(g); }
                Err(e) => { core::mem::forget(e); assert!(false); }
            }
            core::mem::forget(m);
            (storage, sz)
        }};
    }

    stubs! {
    //@ H name=msg_varints kind=complete tier=experimental timeout=7200 oblig="prototk_derive::varint-fields::size+roundtrip"
    #[kani::proof]
    #[kani::unwind(12)]
    fn msg_varints() {
        let _ = roundtrip!(Varints { a: kani::any(), b: kani::any(), c: kani::any(), d: kani::any() }, Varints, |x: &Varints, y: &Varints| x == y);
        kani::cover!(true);
    } }

    stubs! {
    //@ H name=msg_zigzags kind=complete tier=experimental timeout=7200 oblig="prototk_derive::zigzag+bool-fields::size+roundtrip"
    #[kani::proof]
    #[kani::unwind(12)]
    fn msg_zigzags() {
        let _ = roundtrip!(Zigzags { a: kani::any(), b: kani::any(), c: kani::any() }, Zigzags, |x: &Zigzags, y: &Zigzags| x == y);
        kani::cover!(true);
    } }

    stubs! {
    //@ H name=msg_fixeds kind=complete tier=quick timeout=1500 oblig="prototk_derive::fixed-fields::size+roundtrip"
    #[kani::proof]
    #[kani::unwind(12)]
    fn msg_fixeds() {
        let _ = roundtrip!(Fixeds { a: kani::any(), b: kani::any(), c: kani::any(), d: kani::any() }, Fixeds, |x: &Fixeds, y: &Fixeds| x == y);
        kani::cover!(true);
    } }

    stubs! {
    //@ H name=msg_floats kind=complete tier=experimental timeout=7200 oblig="prototk_derive::float-fields::size+roundtrip(bit patterns)"
    #[kani::proof]
    #[kani::unwind(12)]
    fn msg_floats() {
        let _ = roundtrip!(Floats { a: kani::any(), b: kani::any() }, Floats,
            |x: &Floats, y: &Floats| x.a.to_bits() == y.a.to_bits() && x.b.to_bits() == y.b.to_bits());
        kani::cover!(true);
    } }

    // standard wire encoding of a single uint64 field: tag byte (5<<3|0) then the varint; default
    // (zero) is omitted or encoded -- either way it must decode back
    stubs! {
    //@ H name=msg_one_wire_format kind=complete tier=experimental timeout=7200 oblig="prototk_derive::uint64-field::wire-format"
    #[kani::proof]
    #[kani::unwind(12)]
    fn msg_one_wire_format() {
        let d: u64 = kani::any();
        let (buf, blen) = roundtrip!(One { d }, One, |x: &One, y: &One| x == y);
        if blen > 0 {
            assert!(buf[0] == 40);
            let mut v = d; let mut i = 1usize;
            while i < 11 {
                let b = (v & 0x7f) as u8; v >>= 7;
                if v != 0 { assert!(buf[i] == b | 0x80); } else { assert!(buf[i] == b); assert!(blen == i + 1); break; }
                i += 1;
            }
        } else { assert!(d == 0); }
        kani::cover!(blen == 11);
    } }

    // unknown fields are skipped without disturbing known ones
    stubs! {
    //@ H name=msg_unknown_fields_skipped kind=complete tier=experimental timeout=7200 oblig="prototk_derive::unknown-fields-skipped"
    #[kani::proof]
    #[kani::unwind(12)]
    fn msg_unknown_fields_skipped() {
        let w = OnePlus { x: kani::any(), d: kani::any(), y: kani::any() };
        let mut storage: [u8; 48] = kani::any();
        let buf: &[u8] = stack_pack(&w).into_slice(&mut storage[..]);
        let mut up = Unpacker::new(buf);
        let got: Result<One, SError> = up.unpack();
        match got {
            Ok(g) => { assert!(g.d == w.d); }
            Err(e) => { core::mem::forget(e); assert!(false); }
        }
        kani::cover!(true);
    } }

    stubs! {
    //@ H name=msg_nested kind=complete tier=experimental timeout=7200 oblig="prototk_derive::nested-message::size+roundtrip"
    #[kani::proof]
    #[kani::unwind(12)]
    fn msg_nested() {
        let _ = roundtrip!(Nested { m: One { d: kani::any() }, t: kani::any() }, Nested, |x: &Nested, y: &Nested| x == y);
        kani::cover!(true);
    } }

    stubs! {
    //@ H name=msg_option_vec kind=bounded tier=experimental timeout=7200 bound="repeated field with <= 2 elements" oblig="prototk_derive::option+repeated::size+roundtrip"
    #[kani::proof]
    #[kani::unwind(12)]
    fn msg_option_vec() {
        let n: u8 = kani::any();
        kani::assume(n <= 2);
        let mut v: Vec<i32> = Vec::new();
        if n >= 1 { v.push(kani::any()); }
        if n >= 2 { v.push(kani::any()); }
        let o: Option<u64> = if kani::any() { Some(kani::any()) } else { None };
        let m = Opt { o, v };
        let mut storage: [u8; 48] = kani::any();
        let buf: &[u8] = stack_pack(&m).into_slice(&mut storage[..]);
        assert!(buf.len() == buffertk::Packable::pack_sz(&m));
        let mut up = Unpacker::new(buf);
        let got: Result<Opt, SError> = up.unpack();
        match got {
            Ok(g) => { assert!(g.o == m.o); assert!(g.v.len() == m.v.len());
                       if n >= 1 { assert!(g.v[0] == m.v[0]); } if n >= 2 { assert!(g.v[1] == m.v[1]); }
                       core::mem::forget(g); }
            Err(e) => { core::mem::forget(e); assert!(false); }
        }
        kani::cover!(n == 2);
    } }

    stubs! {
    //@ H name=msg_oneof kind=complete tier=experimental timeout=7200 oblig="prototk_derive::enum-with-payload::size+roundtrip"
    #[kani::proof]
    #[kani::unwind(12)]
    fn msg_oneof() {
        let k: u8 = kani::any();
        kani::assume(k < 3);
        let m = match k { 0 => OneOf::A(kani::any()), 1 => OneOf::B(One { d: kani::any() }), _ => OneOf::C };
        let _ = roundtrip!(m, OneOf, |x: &OneOf, y: &OneOf| x == y);
        kani::cover!(k == 1);
    } }

    stubs! {
    //@ H name=msg_bytes kind=bounded tier=experimental timeout=7200 bound="bytes payload length <= 2; bytes16 full domain" oblig="prototk_derive::bytes-fields::size+roundtrip"
    #[kani::proof]
    #[kani::unwind(20)]
    fn msg_bytes() {
        let data: [u8; 2] = kani::any();
        let n: usize = kani::any();
        kani::assume(n <= 2);
        let q: [u8; 16] = kani::any();
        let m = Bytes { p: &data[..n], q };
        let mut storage: [u8; 48] = kani::any();
        let buf: &[u8] = stack_pack(&m).into_slice(&mut storage[..]);
        assert!(buf.len() == buffertk::Packable::pack_sz(&m));
        let mut up = Unpacker::new(buf);
        let got: Result<Bytes, SError> = up.unpack();
        match got {
            Ok(g) => { assert!(g.p.len() == n); if n > 0 { assert!(g.p[0] == data[0]); } if n > 1 { assert!(g.p[1] == data[1]); }
                       let mut i = 0; while i < 16 { assert!(g.q[i] == q[i]); i += 1; } }
            Err(e) => { core::mem::forget(e); assert!(false); }
        }
        kani::cover!(n == 2);
    } }

    // arbitrary bytes into a derived decoder: never panics
    stubs! {
    //@ H name=msg_decode_total kind=bounded tier=experimental timeout=7200 bound="byte strings of length <= 10" oblig="prototk_derive::unpack::total"
    #[kani::proof]
    #[kani::unwind(13)]
    fn msg_decode_total() {
        let buf: [u8; 10] = kani::any();
        let len: usize = kani::any();
        kani::assume(len <= 10);
        let mut up = Unpacker::new(&buf[..len]);
        let got: Result<Nested, SError> = up.unpack();
        match got { Ok(g) => { core::mem::forget(g); } Err(e) => { core::mem::forget(e); } }
        kani::cover!(len == 10);
    } }
}
