//@ package tuple_key2
//@ modfile tuple_key2/src/lib.rs
//@ flags --lib

#[cfg(kani)]
pub(crate) mod __verif_tuple_key2 {
    use super::*;
    use core::cmp::Ordering;

    fn lex(a: &[u8], b: &[u8]) -> Ordering {
        let mut i = 0;
        while i < a.len() && i < b.len() {
            if a[i] < b[i] { return Ordering::Less; }
            if a[i] > b[i] { return Ordering::Greater; }
            i += 1;
        }
        if a.len() < b.len() { Ordering::Less } else if a.len() > b.len() { Ordering::Greater } else { Ordering::Equal }
    }
    fn is_proper_prefix(a: &[u8], b: &[u8]) -> bool {
        if a.len() >= b.len() { return false; }
        let mut i = 0; let mut ok = true;
        while i < a.len() { ok = ok & (a[i] == b[i]); i += 1; }
        ok
    }

    //@ H kind=complete tier=quick timeout=900 oblig="tuple_key2::encode_u64::order+prefix-free+roundtrip"
    #[kani::proof]
    #[kani::unwind(11)]
    fn u64_order_prefixfree_roundtrip() {
        let a: u64 = kani::any(); let b: u64 = kani::any();
        let mut ea: Vec<u8> = Vec::with_capacity(9); let mut eb: Vec<u8> = Vec::with_capacity(9);
        encode_u64(a, &mut ea); encode_u64(b, &mut eb);
        assert!(ea.len() >= 1 && ea.len() <= 9);
        assert!(lex(&ea, &eb) == a.cmp(&b));
        assert!(!is_proper_prefix(&ea, &eb));
        let mut p = TupleKeyParser::new(&ea);
        assert!(p.u64() == Ok(a));
        assert!(p.is_empty());
        kani::cover!(ea.len() == 9 && eb.len() == 1);
        core::mem::forget(ea); core::mem::forget(eb);
    }

    //@ H kind=complete tier=quick timeout=900 oblig="tuple_key2::encode_i64::order+prefix-free+roundtrip"
    #[kani::proof]
    #[kani::unwind(11)]
    fn i64_order_prefixfree_roundtrip() {
        let a: i64 = kani::any(); let b: i64 = kani::any();
        let mut ea: Vec<u8> = Vec::with_capacity(9); let mut eb: Vec<u8> = Vec::with_capacity(9);
        encode_i64(a, &mut ea); encode_i64(b, &mut eb);
        assert!(ea.len() >= 1 && ea.len() <= 9);
        assert!(lex(&ea, &eb) == a.cmp(&b));
        assert!(!is_proper_prefix(&ea, &eb));
        let mut p = TupleKeyParser::new(&ea);
        assert!(p.i64() == Ok(a));
        assert!(p.is_empty());
        kani::cover!(a < 0 && b >= 0);
        kani::cover!(a == i64::MIN);
        core::mem::forget(ea); core::mem::forget(eb);
    }

    // narrower integer builders agree with the 64-bit encoders and parse back with range checks
    //@ H kind=complete tier=quick timeout=900 oblig="tuple_key2::narrow-integers::roundtrip"
    #[kani::proof]
    #[kani::unwind(11)]
    fn narrow_integers_roundtrip() {
        let a: u32 = kani::any(); let b: i32 = kani::any(); let c: u8 = kani::any(); let d: i16 = kani::any();
        let k = TupleKey::builder().u32(a).i32(b).u8(c).i16(d).unit().build();
        let mut p = k.parser();
        assert!(p.u32() == Ok(a));
        assert!(p.i32() == Ok(b));
        assert!(p.u8() == Ok(c));
        assert!(p.i16() == Ok(d));
        assert!(p.unit() == Ok(()));
        assert!(p.is_empty());
        kani::cover!(true);
        core::mem::forget(k);
    }

    // bytes / strings (Anchor & Escape): bounded contents, every byte value incl. 0x00 and 0xff
    //@ H kind=bounded tier=quick timeout=1500 bound="byte strings of length <= 3 on each side" oblig="tuple_key2::encode_bytes::order+prefix-free+roundtrip"
    #[kani::proof]
    #[kani::unwind(10)]
    fn bytes_order_prefixfree_roundtrip() {
        let a: [u8; 3] = kani::any(); let b: [u8; 3] = kani::any();
        let na: usize = kani::any(); let nb: usize = kani::any();
        kani::assume(na <= 3 && nb <= 3);
        let mut ea: Vec<u8> = Vec::with_capacity(8); let mut eb: Vec<u8> = Vec::with_capacity(8);
        encode_bytes(&a[..na], &mut ea); encode_bytes(&b[..nb], &mut eb);
        assert!(lex(&ea, &eb) == lex(&a[..na], &b[..nb]));
        assert!(!is_proper_prefix(&ea, &eb));
        let mut p = TupleKeyParser::new(&ea);
        match p.bytes() {
            Ok(v) => { assert!(v.len() == na); let mut i = 0; while i < 3 { if i < na { assert!(v[i] == a[i]); } i += 1; }
                       core::mem::forget(v); }
            Err(_) => { assert!(false); }
        }
        assert!(p.is_empty());
        kani::cover!(na == 3 && nb == 2);
        kani::cover!(na > 0 && a[0] == 0);
        core::mem::forget(ea); core::mem::forget(eb);
    }

    // heterogeneous two-element tuples: (u64, bytes) compares element by element; an extension sorts
    // after the shorter tuple (prefix) -- exercised through the public builder
    //@ H kind=bounded tier=quick timeout=1500 bound="(u64, bytes<=2) tuples" oblig="tuple_key2::tuples::elementwise-order"
    #[kani::proof]
    #[kani::unwind(10)]
    fn tuple_elementwise_order() {
        let a: u64 = kani::any(); let b: u64 = kani::any();
        let x: [u8; 2] = kani::any(); let y: [u8; 2] = kani::any();
        let nx: usize = kani::any(); let ny: usize = kani::any();
        kani::assume(nx <= 2 && ny <= 2);
        let ka = TupleKey::builder().u64(a).bytes(&x[..nx]).build();
        let kb = TupleKey::builder().u64(b).bytes(&y[..ny]).build();
        let truth = match a.cmp(&b) { Ordering::Equal => lex(&x[..nx], &y[..ny]), o => o };
        assert!(lex(ka.as_bytes(), kb.as_bytes()) == truth);
        let short = TupleKey::builder().u64(a).build();
        assert!(is_proper_prefix(short.as_bytes(), ka.as_bytes()));
        kani::cover!(a == b && nx != ny);
        core::mem::forget(ka); core::mem::forget(kb); core::mem::forget(short);
    }

    // decoders on arbitrary bytes: never panic, never read past the end
    //@ H kind=bounded tier=quick timeout=1500 bound="byte strings of length <= 10" oblig="tuple_key2::parsers::total"
    #[kani::proof]
    #[kani::unwind(12)]
    fn parsers_total() {
        let buf: [u8; 10] = kani::any();
        let n: usize = kani::any();
        kani::assume(n <= 10);
        let s = &buf[..n];
        let mut p = TupleKeyParser::new(s); let _ = p.u64(); assert!(p.offset() <= n);
        let mut p = TupleKeyParser::new(s); let _ = p.i64(); assert!(p.offset() <= n);
        let mut p = TupleKeyParser::new(s); let _ = p.u32(); let _ = p.i8(); assert!(p.offset() <= n);
        let mut p = TupleKeyParser::new(s); let _ = p.unit(); assert!(p.offset() <= n);
        let mut p = TupleKeyParser::new(s);
        match p.bytes() { Ok(v) => { assert!(v.len() <= n); core::mem::forget(v); } Err(_) => {} }
        assert!(p.offset() <= n);
        kani::cover!(n == 10);
    }
}
