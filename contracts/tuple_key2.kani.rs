//@ package tuple_key2
//@ modfile tuple_key2/src/lib.rs
//@ flags --lib

#[cfg(kani)]
pub(crate) mod __verif_tuple_key2 {
    use super::*;
    use core::cmp::Ordering;

    fn lex(a: &[u8], b: &[u8]) -> Ordering {
        let mut i = 0;
        while i < a.len() && i < b.len() {
            if a[i] < b[i] { return Ordering::Less; }
            if a[i] > b[i] { return Ordering::Greater; }
            i += 1;
        }
        if a.len() < b.len() { Ordering::Less } else if a.len() > b.len() { Ordering::Greater } else { Ordering::Equal }
    }
    fn is_proper_prefix(a: &[u8], b: &[u8]) -> bool {
        if a.len() >= b.len() { return false; }
        let mut i = 0; let mut ok = true;
        while i < a.len() { ok = ok & (a[i] == b[i]); i += 1; }
        ok
    }

    //@ H kind=complete tier=quick timeout=900 oblig="tuple_key2::encode_u64::order+prefix-free+roundtrip"
    #[kani::proof]
    #[kani::unwind(11)]
    fn u64_order_prefixfree_roundtrip() {
        let a: u64 = kani::any(); let b: u64 = kani::any();
        let mut ea: Vec<u8> = Vec::with_capacity(9); let mut eb: Vec<u8> = Vec::with_capacity(9);
        encode_u64(a, &mut ea); encode_u64(b, &mut eb);
        assert!(ea.len() >= 1 && ea.len() <= 9);
        assert!(lex(&ea, &eb) == a.cmp(&b));
        assert!(!is_proper_prefix(&ea, &eb));
        let mut p = TupleKeyParser::new(&ea);
        assert!(p.u64() == Ok(a));
        assert!(p.is_empty());
        kani::cover!(ea.len() == 9 && eb.len() == 1);
        core::mem::forget(ea); core::mem::forget(eb);
    }

    //@ H kind=complete tier=quick timeout=900 oblig="tuple_key2::encode_i64::order+prefix-free+roundtrip"
    #[kani::proof]
    #[kani::unwind(11)]
    fn i64_order_prefixfree_roundtrip() {
        let a: i64 = kani::any(); let b: i64 = kani::any();
        let mut ea: Vec<u8> = Vec::with_capacity(9); let mut eb: Vec<u8> = Vec::with_capacity(9);
        encode_i64(a, &mut ea); encode_i64(b, &mut eb);
        assert!(ea.len() >= 1 && ea.len() <= 9);
        assert!(lex(&ea, &eb) == a.cmp(&b));
        assert!(!is_proper_prefix(&ea, &eb));
        let mut p = TupleKeyParser::new(&ea);
        assert!(p.i64() == Ok(a));
        assert!(p.is_empty());
        kani::cover!(a < 0 && b >= 0);
        kani::cover!(a == i64::MIN);
        core::mem::forget(ea); core::mem::forget(eb);
    }

    // narrower integer builders agree with the 64-bit encoders and parse back with range checks
    //@ H kind=complete tier=quick timeout=900 oblig="tuple_key2::narrow-integers::roundtrip"
    #[kani::proof]
    #[kani::unwind(11)]
    fn narrow_integers_roundtrip() {
        // range checks on the narrowing parsers
        let w: u64 = kani::any();
        let mut e: Vec<u8> = Vec::with_capacity(9);
        encode_u64(w, &mut e);
        let mut q = TupleKeyParser::new(&e);
        let r = q.u8();
        assert!(r.is_ok() == (w <= 255));
        match r { Ok(x) => { assert!(x as u64 == w); } Err(_) => {} }
        let s: i64 = kani::any();
        let mut e2: Vec<u8> = Vec::with_capacity(9);
        encode_i64(s, &mut e2);
        let mut q2 = TupleKeyParser::new(&e2);
        let r2 = q2.i16();
        assert!(r2.is_ok() == (s >= i16::MIN as i64 && s <= i16::MAX as i64));
        match r2 { Ok(x) => { assert!(x as i64 == s); } Err(_) => {} }
        kani::cover!(w > 255);
        core::mem::forget(e); core::mem::forget(e2);
    }

    // bytes / strings (Anchor & Escape): bounded contents, every byte value incl. 0x00 and 0xff
    fn enc_into(src: &[u8], out: &mut [u8; 8]) -> usize {
        let mut v: Vec<u8> = Vec::with_capacity(8);
        encode_bytes(src, &mut v);
        let n = v.len();
        let mut i = 0; while i < 8 { if i < n { out[i] = v[i]; } i += 1; }
        core::mem::forget(v);
        n
    }
    //@ H kind=bounded tier=experimental timeout=7200 bound="byte strings of length <= 2 on each side (all byte values)" oblig="tuple_key2::encode_bytes::order+prefix-free (compiled crate; unbounded proof is the Verus unit)"
    #[kani::proof]
    #[kani::unwind(10)]
    fn bytes_order_prefixfree() {
        let a: [u8; 2] = kani::any(); let b: [u8; 2] = kani::any();
        let na: usize = kani::any(); let nb: usize = kani::any();
        kani::assume(na <= 2 && nb <= 2);
        let mut ea = [0u8; 8]; let mut eb = [0u8; 8];
        let la = enc_into(&a[..na], &mut ea); let lb = enc_into(&b[..nb], &mut eb);
        assert!(la <= 6 && lb <= 6);
        assert!(lex(&ea[..la], &eb[..lb]) == lex(&a[..na], &b[..nb]));
        assert!(!is_proper_prefix(&ea[..la], &eb[..lb]));
        kani::cover!(na == 2 && nb == 1);
        kani::cover!(na > 0 && a[0] == 0);
    }

    //@ H kind=bounded tier=thorough timeout=7200 bound="byte strings of length <= 2 (all byte values)" oblig="tuple_key2::encode_bytes+TupleKeyParser::bytes::roundtrip (compiled crate; unbounded proof is the Verus unit)"
    #[kani::proof]
    #[kani::unwind(10)]
    fn bytes_roundtrip() {
        let a: [u8; 2] = kani::any();
        let na: usize = kani::any();
        kani::assume(na <= 2);
        let mut ea = [0u8; 8];
        let la = enc_into(&a[..na], &mut ea);
        let mut p = TupleKeyParser::new(&ea[..la]);
        match p.bytes() {
            Ok(v) => { assert!(v.len() == na); if na > 0 { assert!(v[0] == a[0]); } if na > 1 { assert!(v[1] == a[1]); } core::mem::forget(v); }
            Err(_) => { assert!(false); }
        }
        assert!(p.is_empty());
        kani::cover!(na == 2 && a[0] == 0);
    }

    // heterogeneous two-element tuples: (u64, bytes) compares element by element; an extension sorts
    // after the shorter tuple (prefix) -- exercised through the public builder
    //@ H kind=bounded tier=experimental timeout=3600 bound="(u64, bytes<=1) tuples" oblig="tuple_key2::tuples::elementwise-order"
    #[kani::proof]
    #[kani::unwind(10)]
    fn tuple_elementwise_order() {
        let a: u64 = kani::any(); let b: u64 = kani::any();
        let x: [u8; 2] = kani::any(); let y: [u8; 2] = kani::any();
        let nx: usize = kani::any(); let ny: usize = kani::any();
        kani::assume(nx <= 1 && ny <= 1);
        let ka = TupleKey::builder().u64(a).bytes(&x[..nx]).build();
        let kb = TupleKey::builder().u64(b).bytes(&y[..ny]).build();
        let truth = match a.cmp(&b) { Ordering::Equal => lex(&x[..nx], &y[..ny]), o => o };
        assert!(lex(ka.as_bytes(), kb.as_bytes()) == truth);
        let short = TupleKey::builder().u64(a).build();
        assert!(is_proper_prefix(short.as_bytes(), ka.as_bytes()));
        kani::cover!(a == b && nx != ny);
        core::mem::forget(ka); core::mem::forget(kb); core::mem::forget(short);
    }

    // decoders on arbitrary bytes: never panic, never read past the end
    //@ H kind=bounded tier=quick timeout=1500 bound="byte strings of length <= 10" oblig="tuple_key2::parsers::total"
    #[kani::proof]
    #[kani::unwind(12)]
    fn parsers_total() {
        let buf: [u8; 10] = kani::any();
        let n: usize = kani::any();
        kani::assume(n <= 10);
        let s = &buf[..n];
        let mut p = TupleKeyParser::new(s); let _ = p.u64(); assert!(p.offset() <= n);
        let mut p = TupleKeyParser::new(s); let _ = p.i64(); assert!(p.offset() <= n);
        let mut p = TupleKeyParser::new(s); let _ = p.u32(); let _ = p.i8(); assert!(p.offset() <= n);
        let mut p = TupleKeyParser::new(s); let _ = p.unit(); assert!(p.offset() <= n);
        let mut p = TupleKeyParser::new(s);
        match p.bytes() { Ok(v) => { assert!(v.len() <= n); core::mem::forget(v); } Err(_) => {} }
        assert!(p.offset() <= n);
        kani::cover!(n == 10);
    }
}
