// Unit lsmtk_mem (C03, memtable side of "every history": what a write batch puts into the memtable and what a point
// read takes out of it).  Extracted from lsmtk/src/kvs/mod.rs and lsmtk/src/kvs/memtable.rs:
//   * WriteBatch::retain_last_write_per_key and the statements of KeyValueStore::write that precede taking the lock:
//     when the lock is taken the batch holds at most one entry per key -- the LAST write to that key of the batch the
//     caller handed in -- and nothing the caller did not write;
//   * the stamping statements of KeyValueStore::write: every entry of the batch gets the same, fresh timestamp
//     (seq_no + 1), so the (key, timestamp) pairs of a stamped batch are pairwise distinct and newer than everything
//     written before;
//   * MemTable::write: exactly the precondition of the skiplist (skipfree::SkipList::insert asserts the key is absent)
//     at its call site, for such a batch; afterwards the memtable holds its old entries and the batch;
//   * KeyValueStore::log_and_apply (entire): the log batch holds exactly the batch's entries in order, and the memtable is
//     written only after the log acknowledged it (write-ahead);
//   * the flush thread's copy loop (region of _memtable_thread): the SST is given exactly the memtable's entries, in order;
//   * MemTable::load: the newest version of the key not newer than the read timestamp, or its tombstone -- the contract
//     unit lsmtk_load assumes of the memtable.
// ASSUMED: the skiplist is an ordered map under Key's order (key ascending, timestamp descending): insert adds the pair,
// an iterator's seek lands on the first pair not below the target (skipfree is raw-pointer code: C17, not applicable);
// interior mutability (`&self` methods that insert) is read as exclusive mutation (rule X20): sequential reasoning only;
// between stamping and MemTable::write the batch is only read (log append).
use vstd::prelude::*;
verus! {
global size_of usize == 8;

//@ include cursor_spec.inc.rs

//@ extract sst/src/lib.rs | struct KeyValuePair
//@ end
struct WriteBatch { entries: Vec<KeyValuePair> }

spec fn keys_distinct(s: Seq<KeyValuePair>) -> bool { forall|i: int, j: int| 0 <= i < j < s.len() ==> s[i].key@ != s[j].key@ }
// o[j] is the last write to its key in o
spec fn is_last(o: Seq<KeyValuePair>, j: int) -> bool { forall|j2: int| j < j2 < o.len() ==> o[j2].key@ != o[j].key@ }
// s is what remains of o when every write that is followed by another write to the same key is dropped
spec fn last_writes(s: Seq<KeyValuePair>, o: Seq<KeyValuePair>) -> bool {
    &&& keys_distinct(s)
    &&& forall|i: int| 0 <= i < s.len() ==> o.contains(#[trigger] s[i])
    &&& forall|j: int| 0 <= j < o.len() && #[trigger] is_last(o, j) ==> s.contains(o[j])
}
// m maps the positions of s to positions of o, order-preserving
spec fn embeds(s: Seq<KeyValuePair>, o: Seq<KeyValuePair>, m: Seq<int>) -> bool {
    &&& m.len() == s.len()
    &&& forall|i: int| 0 <= i < s.len() ==> 0 <= #[trigger] m[i] < o.len() && s[i] == o[m[i]]
    &&& forall|i: int, j: int| 0 <= i < j < s.len() ==> m[i] < m[j]
}
// every last write of o is still in s
spec fn lasts_kept(s: Seq<KeyValuePair>, o: Seq<KeyValuePair>, m: Seq<int>) -> bool {
    forall|j: int| 0 <= j < o.len() && #[trigger] is_last(o, j) ==> m.contains(j)
}

// std::collections::HashSet<Vec<u8>> as a set of byte strings (ASSUMED: std's contract; keys compare by content)
#[verifier::external_body]
struct KeySet { _p: u8 }
impl KeySet {
    uninterp spec fn view(&self) -> Set<Seq<u8>>;
    #[verifier::external_body]
    fn with_capacity(n: usize) -> (r: KeySet) ensures r@ == Set::<Seq<u8>>::empty() { unimplemented!() }
    // `seen.insert(key.clone())`: true iff the key was not yet in the set
    #[verifier::external_body]
    fn insert_key(&mut self, key: &Vec<u8>) -> (r: bool)
        ensures r == !old(self)@.contains(key@), final(self)@ == old(self)@.insert(key@),
    { unimplemented!() }
}

impl WriteBatch {
//@ extract lsmtk/src/kvs/mod.rs | impl WriteBatch :: fn retain_last_write_per_key
//@ optional
//@ rewrite X7 `let mut seen: HashSet<Vec<u8>> = HashSet::with_capacity(self.entries.len());` => `let mut seen = KeySet::with_capacity(self.entries.len());`
//@ rewrite-re X7 `seen\.insert\(self\.entries\[(\w+)\]\.key\.clone\(\)\)` => `seen.insert_key(&self.entries[\1].key)`
//@ post <<
        last_writes(final(self).entries@, old(self).entries@),
//@ >>
//@ bodystart <<
        let ghost o = self.entries@;
        let ghost mut m: Seq<int> = Seq::new(o.len(), |i: int| i);
        proof { assert(embeds(self.entries@, o, m)); assert forall|j: int| 0 <= j < o.len() && #[trigger] is_last(o, j) implies m.contains(j) by { assert(m[j] == j); } }
//@ >>
//@ loop 0 <<
            invariant
                idx <= self.entries@.len(), embeds(self.entries@, o, m), lasts_kept(self.entries@, o, m),
                // the keys seen so far are exactly the keys at idx and behind, and those are pairwise distinct
                /* contract-inv */ forall|k: Seq<u8>| #[trigger] seen@.contains(k) <==> exists|i: int| idx <= i < self.entries@.len() && (#[trigger] self.entries@[i]).key@ == k,
                /* contract-inv */ forall|i: int, j: int| idx <= i < j < self.entries@.len() ==> self.entries@[i].key@ != self.entries@[j].key@,
            decreases idx,
//@ >>
//@ before `seen.insert_key(&self.entries[idx].key)` <<
            let ghost s0 = self.entries@;
            let ghost m0 = m;
            let ghost seen0 = seen@;
//@ >>
//@ before `self.entries.remove(idx);` <<
                proof {
                    // the key at idx has been seen: some later entry writes it, so this one is not a last write of o
                    let w = choose|w: int| idx + 1 <= w < s0.len() && (#[trigger] s0[w]).key@ == s0[idx as int].key@;
                    m = m0.remove(idx as int);
                    assert(m0[idx as int] < m0[w]);
                    assert(!is_last(o, m0[idx as int])) by { assert(o[m0[w]].key@ == o[m0[idx as int]].key@); }
                    assert forall|j: int| 0 <= j < o.len() && #[trigger] is_last(o, j) implies m.contains(j) by {
                        let z = choose|z: int| 0 <= z < m0.len() && m0[z] == j;
                        if z < idx { assert(m[z] == j); } else { assert(z != idx); assert(m[z - 1] == j); }
                    }
                }
//@ >>
//@ after `self.entries.remove(idx);` <<
                proof {
                    assert(self.entries@ =~= s0.remove(idx as int));
                    assert(embeds(self.entries@, o, m));
                    // what lies at idx and behind is what lay behind idx before
                    assert forall|k: Seq<u8>| #[trigger] seen@.contains(k) <==> exists|i: int| idx <= i < self.entries@.len() && (#[trigger] self.entries@[i]).key@ == k by {
                        if seen@.contains(k) {
                            let i0 = choose|i: int| idx + 1 <= i < s0.len() && (#[trigger] s0[i]).key@ == k;
                            assert(self.entries@[i0 - 1] == s0[i0]);
                        }
                        if exists|i: int| idx <= i < self.entries@.len() && (#[trigger] self.entries@[i]).key@ == k {
                            let i1 = choose|i: int| idx <= i < self.entries@.len() && (#[trigger] self.entries@[i]).key@ == k;
                            assert(s0[i1 + 1] == self.entries@[i1]);
                        }
                    }
                }
//@ >>
//@ endloop 0 <<
            proof {
                if self.entries@ == s0 {
                    // kept: the key at idx was new
                    assert forall|k: Seq<u8>| #[trigger] seen@.contains(k) <==> exists|i: int| idx <= i < self.entries@.len() && (#[trigger] self.entries@[i]).key@ == k by {
                        if seen@.contains(k) && k != s0[idx as int].key@ { let i0 = choose|i: int| idx + 1 <= i < s0.len() && (#[trigger] s0[i]).key@ == k; }
                        if k == s0[idx as int].key@ { assert(s0[idx as int].key@ == k); }
                    }
                }
            }
//@ >>
//@ afterloop 0 <<
        proof {
            let s = self.entries@;
            assert(keys_distinct(s));
            assert forall|i: int| 0 <= i < s.len() implies o.contains(#[trigger] s[i]) by { assert(s[i] == o[m[i]]); }
            assert forall|j: int| 0 <= j < o.len() && #[trigger] is_last(o, j) implies s.contains(o[j]) by {
                let w = choose|w: int| 0 <= w < m.len() && m[w] == j;
                assert(s[w] == o[j]);
            }
        }
//@ >>
//@ end
}

// the statements of KeyValueStore::write before the lock is taken: whatever batch the caller hands in, the batch that
// goes on holds one entry per key, the caller's last write to it
//@ extract lsmtk/src/kvs/mod.rs | impl KeyValueStore :: fn write
//@ region ^ ..< `let (mut wait_guard, memtable, log`
//@ region-sig <<
fn write_prologue(batch: &mut WriteBatch)
//@ >>
//@ region-tail <<
//@ >>
//@ post <<
        last_writes(final(batch).entries@, old(batch).entries@),
//@ >>
//@ end

// the stamping statements (inside the lock): one fresh timestamp for the whole batch
struct KeyValueStoreState { seq_no: u64 }
spec fn stamped(s: Seq<KeyValuePair>, o: Seq<KeyValuePair>, ts: u64) -> bool {
    &&& s.len() == o.len()
    &&& forall|i: int| 0 <= i < s.len() ==> (#[trigger] s[i]).key == o[i].key && s[i].value == o[i].value && s[i].timestamp == ts
}
//@ extract lsmtk/src/kvs/mod.rs | impl KeyValueStore :: fn write
//@ region `let seq_no = state.seq_no` .. `for idx in 0..batch.entries.len() {`
//@ region-sig <<
fn write_stamp(state: &mut KeyValueStoreState, batch: &mut WriteBatch)
//@ >>
//@ region-tail <<
//@ >>
//@ rewrite X13 `for entry in batch.entries.iter_mut() {` => `for idx in 0..batch.entries.len() {`
//@ rewrite X13 `entry.timestamp = seq_no;` => `batch.entries[idx].timestamp = seq_no;`
//@ pre <<
        old(state).seq_no < 0xffff_ffff_ffff_ffff,
//@ >>
//@ post <<
        final(state).seq_no == old(state).seq_no + 1,
        stamped(final(batch).entries@, old(batch).entries@, final(state).seq_no),
//@ >>
//@ loop 0 <<
        invariant batch.entries@.len() == old(batch).entries@.len(),
            /* contract-inv */ seq_no == old(state).seq_no + 1 && state.seq_no == seq_no,
            forall|i: int| 0 <= i < batch.entries@.len() ==> (#[trigger] batch.entries@[i]).key == old(batch).entries@[i].key && batch.entries@[i].value == old(batch).entries@[i].value,
            forall|i: int| 0 <= i < idx ==> (#[trigger] batch.entries@[i]).timestamp == seq_no,
//@ >>
//@ end

// ---------------------------------------------------------------- the memtable
//@ include newest.inc.rs
pub assume_specification<T: Clone> [<[T]>::to_vec] (s: &[T]) -> (r: Vec<T>)
    ensures r@ == s@;
//@ extract sst/src/lib.rs | struct Key
//@ end
spec fn opt_view(v: Option<Vec<u8>>) -> Option<Seq<u8>> { match v { Some(x) => Some(x@), None => None } }
spec fn ent_of_pair(p: KeyValuePair) -> Ent { Ent { key: p.key@, ts: p.timestamp, val: opt_view(p.value) } }
spec fn has_kt(s: Seq<Ent>, k: Seq<u8>, t: u64) -> bool { exists|i: int| 0 <= i < s.len() && (#[trigger] s[i]).key == k && s[i].ts == t }

// skipfree::SkipList<Key, Option<Vec<u8>>> as an ordered map (sequential view; see the header)
#[verifier::external_body]
struct SkipList { _p: u8 }
#[verifier::external_body]
struct SkipListIterator { _p: u8 }
impl SkipList {
    uninterp spec fn ents(&self) -> Seq<Ent>;
    // `assert!(existing.is_null() || node_ptr::key(existing) != &key)`: the key must be absent
    #[verifier::external_body]
    fn insert(&mut self, key: Key, value: Option<Vec<u8>>)
        requires sorted(old(self).ents()), !has_kt(old(self).ents(), key.key@, key.timestamp),
        ensures sorted(final(self).ents()),
            forall|e: Ent| final(self).ents().contains(e) <==> (old(self).ents().contains(e) || e == (Ent { key: key.key@, ts: key.timestamp, val: opt_view(value) })),
    { unimplemented!() }
    #[verifier::external_body]
    fn iter(&self) -> (r: SkipListIterator)
        ensures r.ents() == self.ents(),
    { unimplemented!() }
}
impl SkipListIterator {
    uninterp spec fn ents(&self) -> Seq<Ent>;
    uninterp spec fn pos(&self) -> int;
    // lands on the first pair that is not below the target in Key's order
    #[verifier::external_body]
    fn seek(&mut self, key: &Key)
        ensures final(self).ents() == old(self).ents(), 0 <= final(self).pos() <= final(self).ents().len(),
            forall|i: int| 0 <= i < final(self).pos() ==> kt_lt(#[trigger] final(self).ents()[i].key, final(self).ents()[i].ts, key.key@, key.timestamp),
            final(self).pos() < final(self).ents().len() ==> !kt_lt(final(self).ents()[final(self).pos()].key, final(self).ents()[final(self).pos()].ts, key.key@, key.timestamp),
    { unimplemented!() }
    #[verifier::external_body]
    fn is_valid(&self) -> (r: bool) ensures r == (0 <= self.pos() < self.ents().len()) { unimplemented!() }
    #[verifier::external_body]
    fn key(&self) -> (r: &Key)
        requires 0 <= self.pos() < self.ents().len(),
        ensures r.key@ == self.ents()[self.pos()].key, r.timestamp == self.ents()[self.pos()].ts,
    { unimplemented!() }
    #[verifier::external_body]
    fn value(&self) -> (r: &Option<Vec<u8>>)
        requires 0 <= self.pos() < self.ents().len(),
        ensures opt_view(*r) == self.ents()[self.pos()].val,
    { unimplemented!() }
}
// `self.approximate_size.fetch_add(key len + value len + 16, Relaxed)`: bookkeeping only
#[verifier::external_body]
struct SizeCounter { _p: u8 }
impl SizeCounter {
    #[verifier::external_body]
    fn add_entry(&self, entry: &KeyValuePair) { unimplemented!() }
}
// `Key::from(entry)` / `entry.value.clone()` / `cursor.value().clone()`
#[verifier::external_body]
fn key_from(entry: &KeyValuePair) -> (r: Key) ensures r.key@ == entry.key@, r.timestamp == entry.timestamp { unimplemented!() }
#[verifier::external_body]
fn clone_value(v: &Option<Vec<u8>>) -> (r: Option<Vec<u8>>) ensures opt_view(r) == opt_view(*v), r is None <==> *v is None { unimplemented!() }

struct MemTable { skiplist: SkipList, approximate_size: SizeCounter }
// e is one of the first n pairs of the batch
spec fn in_batch(b: Seq<KeyValuePair>, n: int, e: Ent) -> bool { exists|i: int| 0 <= i < n && i < b.len() && e == ent_of_pair(#[trigger] b[i]) }
proof fn lemma_in_batch_step(b: Seq<KeyValuePair>, n: int)
    requires 0 <= n < b.len()
    ensures forall|e: Ent| #[trigger] in_batch(b, n + 1, e) <==> (in_batch(b, n, e) || e == ent_of_pair(b[n]))
{
    assert forall|e: Ent| #[trigger] in_batch(b, n + 1, e) <==> (in_batch(b, n, e) || e == ent_of_pair(b[n])) by {
        if in_batch(b, n + 1, e) {
            let i = choose|i: int| 0 <= i < n + 1 && i < b.len() && e == ent_of_pair(#[trigger] b[i]);
            if i < n { assert(in_batch(b, n, e)); }
        }
        if in_batch(b, n, e) {
            let i = choose|i: int| 0 <= i < n && i < b.len() && e == ent_of_pair(#[trigger] b[i]);
            assert(0 <= i < n + 1);
        }
        if e == ent_of_pair(b[n]) { assert(0 <= n < n + 1 && e == ent_of_pair(b[n])); }
    }
}

// the batch as MemTable::write must find it: pairs absent from the memtable and pairwise distinct
spec fn batch_fresh(b: Seq<KeyValuePair>, mem: Seq<Ent>) -> bool {
    &&& forall|i: int| 0 <= i < b.len() ==> !has_kt(mem, (#[trigger] b[i]).key@, b[i].timestamp)
    &&& forall|i: int, j: int| 0 <= i < j < b.len() ==> !(b[i].key@ == b[j].key@ && b[i].timestamp == b[j].timestamp)
}
// a batch of distinct keys stamped with one timestamp above everything in the memtable is fresh
proof fn lemma_stamped_fresh(b: Seq<KeyValuePair>, o: Seq<KeyValuePair>, ts: u64, mem: Seq<Ent>)
    requires keys_distinct(o), stamped(b, o, ts), forall|i: int| 0 <= i < mem.len() ==> (#[trigger] mem[i]).ts < ts
    ensures batch_fresh(b, mem)
{
    assert forall|i: int| 0 <= i < b.len() implies !has_kt(mem, (#[trigger] b[i]).key@, b[i].timestamp) by { }
    assert forall|i: int, j: int| 0 <= i < j < b.len() implies !(b[i].key@ == b[j].key@ && b[i].timestamp == b[j].timestamp) by {
        assert(b[i].key == o[i].key && b[j].key == o[j].key);
    }
}

impl MemTable {
    spec fn ents(&self) -> Seq<Ent> { self.skiplist.ents() }

//@ extract lsmtk/src/kvs/memtable.rs | impl MemTable :: fn write
//@ ret r
//@ rewrite X20 `fn write(&self, write_batch: &mut WriteBatch)` => `fn write(&mut self, write_batch: &mut WriteBatch)`
//@ rewrite X13 `for entry in write_batch.entries.iter() {` => `for idx in 0..write_batch.entries.len() { let entry = &write_batch.entries[idx];`
//@ rewrite-re X7 `(?s)self\.approximate_size\.fetch_add\(.*?\n            \);` => `self.approximate_size.add_entry(entry);`
//@ rewrite X7 `let key = Key::from(entry);` => `let key = key_from(entry);`
//@ rewrite X12 `let value = entry.value.clone();` => `let value = clone_value(&entry.value);`
//@ pre <<
        sorted(old(self).ents()), batch_fresh(old(write_batch).entries@, old(self).ents()),
//@ >>
//@ post <<
        final(write_batch).entries@ == old(write_batch).entries@,
        r is Ok, sorted(final(self).ents()),
        forall|e: Ent| #[trigger] final(self).ents().contains(e) <==> (old(self).ents().contains(e) || in_batch(old(write_batch).entries@, old(write_batch).entries@.len() as int, e)),
//@ >>
//@ bodystart <<
        let ghost b = write_batch.entries@;
        let ghost m0 = self.ents();
//@ >>
//@ loop 0 <<
            invariant write_batch.entries@ == b, sorted(self.ents()), batch_fresh(b, m0),
                /* contract-inv */ forall|e: Ent| #[trigger] self.ents().contains(e) <==> (m0.contains(e) || in_batch(b, idx as int, e)),
//@ >>
//@ before `self.skiplist.insert(key, value);` <<
            proof {
                // the pair about to be inserted is neither in the memtable as it was nor among the pairs inserted so far
                if has_kt(self.ents(), key.key@, key.timestamp) {
                    let w = choose|w: int| 0 <= w < self.ents().len() && (#[trigger] self.ents()[w]).key == key.key@ && self.ents()[w].ts == key.timestamp;
                    let e = self.ents()[w];
                    assert(self.ents().contains(e));
                    if m0.contains(e) {
                        let z = choose|z: int| 0 <= z < m0.len() && m0[z] == e;
                        assert(has_kt(m0, b[idx as int].key@, b[idx as int].timestamp));
                    } else {
                        let i = choose|i: int| 0 <= i < idx && i < b.len() && e == ent_of_pair(#[trigger] b[i]);
                        assert(b[i].key@ == b[idx as int].key@ && b[i].timestamp == b[idx as int].timestamp);
                    }
                }
                lemma_in_batch_step(b, idx as int);
            }
//@ >>
//@ end

//@ extract lsmtk/src/kvs/memtable.rs | impl MemTable :: fn load
//@ ret r
//@ rewrite-re? X9 `cursor\.key\(\)\.key\.as_slice\(\) == key\b` => `bytes_eq(cursor.key().key.as_slice(), key)`
//@ rewrite-re? X9 `cursor\.key\(\)\.key\.as_slice\(\) != key\b` => `!bytes_eq(cursor.key().key.as_slice(), key)`
//@ rewrite X12 `Ok(cursor.value().clone())` => `Ok(clone_value(cursor.value()))`
//@ before `if cursor.is_valid()` <<
        proof {
            let s = self.ents(); let p = cursor.pos();
            if (forall|i: int| 0 <= i < p ==> kt_lt(#[trigger] s[i].key, s[i].ts, key@, timestamp)) && (p < s.len() ==> !kt_lt(s[p].key, s[p].ts, key@, timestamp)) {
                lemma_first_ge_decides(s, key@, timestamp, p);
            }
        }
//@ >>
//@ pre <<
        sorted(self.ents()), !*old(is_tombstone),
//@ >>
//@ post <<
        r is Ok,
        (exists|i: int| is_newest_le(self.ents(), key@, timestamp, i)
            && *final(is_tombstone) == (self.ents()[i].val is None)
            && opt_view(r->Ok_0) == self.ents()[i].val)
        || (no_version_le(self.ents(), key@, timestamp) && r->Ok_0 is None && !*final(is_tombstone)),
//@ >>
//@ end
}

//@ contract-lemma lemma_stamped_fresh

// ---------------------------------------------------------------- KeyValueStore::log_and_apply: write-ahead
// The batch reaches the memtable only after the log acknowledged a batch holding exactly its entries, in order.
// ASSUMED: sst::log::WriteBatch::insert adds the entry (unit log_cores: put / del); ConcurrentLogBuilder::append returns Ok only
// for a batch that is written whole and covered by a completed fdatasync (unit log_cores: append); poison() hands the result on.
spec fn batch_items(b: Seq<KeyValuePair>) -> Seq<Ent> { Seq::new(b.len(), |i: int| ent_of_pair(b[i])) }
#[verifier::external_body]
struct LogBatch { _p: u8 }
#[verifier::external_body]
struct KvRef { _p: u8 }
impl KvRef { uninterp spec fn ent(&self) -> Ent; }
// `KeyValueRef::from(entry)`
#[verifier::external_body]
fn kvr_from(entry: &KeyValuePair) -> (r: KvRef) ensures r.ent() == ent_of_pair(*entry) { unimplemented!() }
impl LogBatch {
    uninterp spec fn items(&self) -> Seq<Ent>;
    #[verifier::external_body]
    fn default() -> (r: LogBatch) ensures r.items() == Seq::<Ent>::empty() { unimplemented!() }
    #[verifier::external_body]
    fn insert(&mut self, kvr: KvRef) -> (r: Result<(), SError>)
        ensures r is Ok ==> final(self).items() == old(self).items().push(kvr.ent()),
    { unimplemented!() }
}
#[verifier::external_body]
struct ConcurrentLog { _p: u8 }
impl ConcurrentLog {
    // a batch holding exactly these entries is in the log, whole, and covered by a completed fdatasync
    uninterp spec fn acked(&self, items: Seq<Ent>) -> bool;
    #[verifier::external_body]
    fn append(&self, b: LogBatch) -> (r: Result<(), SError>) ensures r is Ok ==> self.acked(b.items()) { unimplemented!() }
}
struct KeyValueStore { _p: u8 }
impl KeyValueStore {
    #[verifier::external_body]
    fn poison(&self, r: Result<(), SError>) -> (q: Result<(), SError>) ensures (q is Ok) == (r is Ok) { unimplemented!() }

//@ extract lsmtk/src/kvs/mod.rs | impl KeyValueStore :: fn log_and_apply
//@ ret r
//@ rewrite X20 `memtable: &MemTable,` => `memtable: &mut MemTable,`
//@ rewrite X18 `log: &ConcurrentLogBuilder<File>,` => `log: &ConcurrentLog,`
//@ rewrite X7 `sst::log::WriteBatch::default()` => `LogBatch::default()`
//@ rewrite X13 `for entry in batch.entries.iter() {` => `for idx in 0..batch.entries.len() { let entry = &batch.entries[idx];`
//@ rewrite-re X7 `KeyValueRef::from\((\w+)\)` => `kvr_from(\1)`
//@ pre <<
        sorted(old(memtable).ents()), batch_fresh(old(batch).entries@, old(memtable).ents()),
//@ >>
//@ post <<
        final(batch).entries@ == old(batch).entries@,
        // write-ahead: unless the log acknowledged exactly this batch, the memtable is untouched
        !log.acked(batch_items(old(batch).entries@)) ==> final(memtable).ents() == old(memtable).ents(),
        r is Err ==> final(memtable).ents() == old(memtable).ents(),
        // success: logged and applied
        r is Ok ==> log.acked(batch_items(old(batch).entries@)) && sorted(final(memtable).ents())
            && (forall|e: Ent| #[trigger] final(memtable).ents().contains(e) <==> (old(memtable).ents().contains(e) || in_batch(old(batch).entries@, old(batch).entries@.len() as int, e))),
//@ >>
//@ loop 0 <<
            invariant batch.entries@ == old(batch).entries@, *memtable == *old(memtable),
                /* contract-inv */ log_batch.items() == batch_items(batch.entries@).subrange(0, idx as int),
//@ >>
//@ endloop 0 <<
            proof {
                let bi = batch_items(batch.entries@);
                assert(bi.subrange(0, idx as int + 1) =~= bi.subrange(0, idx as int).push(bi[idx as int]));
            }
//@ >>
//@ afterloop 0 <<
        proof { let bi = batch_items(batch.entries@); assert(bi.subrange(0, bi.len() as int) =~= bi); }
//@ >>
//@ end
}


// ---------------------------------------------------------------- the flush thread's copy loop: memtable -> SST
// KeyValueStore::_memtable_thread, the region from `cursor.seek_to_first()?;` to the end of the `while let` loop: every
// entry of the immutable memtable is handed to the SST builder, once, in order -- a flush loses and invents nothing.
// The cursor here is the skiplist wrapper, whose seek_to_first lands ON the first entry (not before it, as the Cursor
// contract says: DESIGN 4, C11 not_covered) -- the loop relies on exactly that, so the wrapper is a stub with that contract.
// ASSUMED: SkipListIteratorWrapper as stated (skipfree is raw-pointer code: C17); SstBuilder::put / del append the entry
// (unit sst_builder, C10).
#[verifier::external_body]
struct SkipWrap { _p: u8 }
impl SkipWrap {
    uninterp spec fn ents(&self) -> Seq<Ent>;
    uninterp spec fn pos(&self) -> int;
    #[verifier::external_body]
    fn seek_to_first(&mut self) -> (r: Result<(), SError>) ensures final(self).ents() == old(self).ents(), r is Ok ==> final(self).pos() == 0 { unimplemented!() }
    #[verifier::external_body]
    fn next(&mut self) -> (r: Result<(), SError>)
        requires 0 <= old(self).pos() < old(self).ents().len(),
        ensures final(self).ents() == old(self).ents(), r is Ok ==> final(self).pos() == old(self).pos() + 1,
    { unimplemented!() }
    #[verifier::external_body]
    fn key_value(&self) -> (r: Option<KeyValueRef<'_>>)
        requires 0 <= self.pos() <= self.ents().len(),
        ensures kvref_is(r, self.ents(), self.pos()),
    { unimplemented!() }
}
#[verifier::external_body]
struct FlushBuilder { _p: u8 }
impl FlushBuilder {
    uninterp spec fn out(&self) -> Seq<Ent>;
    #[verifier::external_body]
    fn put(&mut self, key: &[u8], timestamp: u64, value: &[u8]) -> (r: Result<(), SError>)
        ensures r is Ok ==> final(self).out() == old(self).out().push(Ent { key: key@, ts: timestamp, val: Some(value@) }),
    { unimplemented!() }
    #[verifier::external_body]
    fn del(&mut self, key: &[u8], timestamp: u64) -> (r: Result<(), SError>)
        ensures r is Ok ==> final(self).out() == old(self).out().push(Ent { key: key@, ts: timestamp, val: None }),
    { unimplemented!() }
}
//@ extract lsmtk/src/kvs/mod.rs | impl KeyValueStore :: fn _memtable_thread
//@ region `cursor.seek_to_first()?;` .. `while let Some(kvr) = cursor.key_value() {`
//@ region-sig <<
fn flush_copy(cursor: &mut SkipWrap, builder: &mut FlushBuilder) -> (r: Result<(), SError>)
//@ >>
//@ region-tail <<
    Ok(())
//@ >>
//@ post <<
        r is Ok ==> final(builder).out() == old(builder).out() + old(cursor).ents(),
//@ >>
//@ bodystart <<
    let ghost ee = cursor.ents();
    let ghost out0 = builder.out();
    proof { assert(out0 + ee.subrange(0, 0) =~= out0); }
//@ >>
//@ loop 0 <<
                invariant cursor.ents() == ee, 0 <= cursor.pos() <= ee.len(),
                    /* contract-inv */ builder.out() == out0 + ee.subrange(0, cursor.pos()),
                ensures builder.out() == out0 + ee,
                decreases ee.len() - cursor.pos(),
//@ >>
//@ startloop 0 <<
                let ghost p = cursor.pos();
//@ >>
//@ endloop 0 <<
                proof { assert((out0 + ee.subrange(0, p)).push(ee[p]) =~= out0 + ee.subrange(0, p + 1)); }
//@ >>
//@ end

//@ min-verified 8
} // verus!
fn main() {}
