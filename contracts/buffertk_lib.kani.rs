//@ package buffertk
//@ modfile buffertk/src/lib.rs
//@ flags --lib

#[cfg(kani)]
pub(crate) mod __verif_buffertk {
    use super::*;

    fn mk() -> SError { SError::from(handled::SExpr::Atom(String::new())) }
    fn stub_u32(_a: u32) -> SError { mk() }
    fn stub_usize(_a: usize) -> SError { mk() }
    fn stub_2usize(_a: usize, _b: usize) -> SError { mk() }

    // fixed-width little-endian scalars: pack writes exactly pack_sz bytes = to_le_bytes, unpack inverts,
    // short buffers are rejected, trailing bytes are returned untouched.  Floats by bit pattern (NaN payloads).
    macro_rules! fixed {
        ($name:ident, $t:ty, $n:expr, $bits:expr, $eq:expr) => {
            #[kani::proof]
            #[kani::unwind(12)]
            #[kani::stub(crate::buffer_too_short, stub_2usize)]
            fn $name() {
                let x: $t = kani::any();
                assert!(x.pack_sz() == $n);
                let mut buf: [u8; 11] = kani::any();
                x.pack(&mut buf[..$n]);
                let le = ($bits)(x).to_le_bytes();
                let mut i = 0;
                while i < $n { assert!(buf[i] == le[i]); i += 1; }
                let len: usize = kani::any();
                kani::assume(len <= 11);
                match <$t as Unpackable>::unpack(&buf[..len]) {
                    Ok((y, rest)) => { assert!(len >= $n); assert!(($eq)(x, y)); assert!(rest.len() == len - $n); }
                    Err(e) => { core::mem::forget(e); assert!(len < $n); }
                }
                kani::cover!(len == 11);
                kani::cover!(len == 0);
            }
        };
    }
    //@ H name=fixed_u8 kind=complete tier=quick timeout=300 oblig="buffertk::u8::fixed-width-roundtrip"
    fixed!(fixed_u8, u8, 1, |v: u8| v, |a: u8, b: u8| a == b);
    //@ H name=fixed_i8 kind=complete tier=quick timeout=300 oblig="buffertk::i8::fixed-width-roundtrip"
    fixed!(fixed_i8, i8, 1, |v: i8| v, |a: i8, b: i8| a == b);
    //@ H name=fixed_u16 kind=complete tier=quick timeout=300 oblig="buffertk::u16::fixed-width-roundtrip"
    fixed!(fixed_u16, u16, 2, |v: u16| v, |a: u16, b: u16| a == b);
    //@ H name=fixed_i16 kind=complete tier=quick timeout=300 oblig="buffertk::i16::fixed-width-roundtrip"
    fixed!(fixed_i16, i16, 2, |v: i16| v, |a: i16, b: i16| a == b);
    //@ H name=fixed_u32 kind=complete tier=quick timeout=300 oblig="buffertk::u32::fixed-width-roundtrip"
    fixed!(fixed_u32, u32, 4, |v: u32| v, |a: u32, b: u32| a == b);
    //@ H name=fixed_i32 kind=complete tier=quick timeout=300 oblig="buffertk::i32::fixed-width-roundtrip"
    fixed!(fixed_i32, i32, 4, |v: i32| v, |a: i32, b: i32| a == b);
    //@ H name=fixed_u64 kind=complete tier=quick timeout=300 oblig="buffertk::u64::fixed-width-roundtrip"
    fixed!(fixed_u64, u64, 8, |v: u64| v, |a: u64, b: u64| a == b);
    //@ H name=fixed_i64 kind=complete tier=quick timeout=300 oblig="buffertk::i64::fixed-width-roundtrip"
    fixed!(fixed_i64, i64, 8, |v: i64| v, |a: i64, b: i64| a == b);
    //@ H name=fixed_f32 kind=complete tier=quick timeout=300 oblig="buffertk::f32::fixed-width-roundtrip"
    fixed!(fixed_f32, f32, 4, |v: f32| v.to_bits(), |a: f32, b: f32| a.to_bits() == b.to_bits());
    //@ H name=fixed_f64 kind=complete tier=quick timeout=300 oblig="buffertk::f64::fixed-width-roundtrip"
    fixed!(fixed_f64, f64, 8, |v: f64| v.to_bits(), |a: f64, b: f64| a.to_bits() == b.to_bits());

    //@ H kind=complete tier=quick timeout=300 oblig="buffertk::char::roundtrip"
    #[kani::proof]
    #[kani::unwind(8)]
    #[kani::stub(crate::buffer_too_short, stub_2usize)]
    #[kani::stub(crate::not_a_char, stub_u32)]
    fn char_roundtrip_and_reject() {
        let raw: u32 = kani::any();
        let b = raw.to_le_bytes();
        match <char as Unpackable>::unpack(&b[..]) {
            Ok((c, rest)) => {
                assert!(c as u32 == raw && rest.len() == 0);
                let mut out = [0u8; 4];
                assert!(c.pack_sz() == 4);
                c.pack(&mut out[..]);
                assert!(out[0] == b[0] && out[1] == b[1] && out[2] == b[2] && out[3] == b[3]);
            }
            Err(e) => { core::mem::forget(e); assert!(raw > 0x10FFFF || (raw >= 0xD800 && raw <= 0xDFFF)); }
        }
        kani::cover!(raw == 0x10FFFF);
    }

    // Unpacker::take / advance: frame conditions over every (buffer length, by)
    //@ H kind=bounded tier=quick timeout=300 bound="buffer length <= 8 (by: all usize)" oblig="buffertk::Unpacker::take+advance"
    #[kani::proof]
    #[kani::unwind(10)]
    #[kani::stub(crate::buffer_too_short, stub_2usize)]
    fn unpacker_take_advance() {
        let buf: [u8; 8] = kani::any();
        let len: usize = kani::any();
        kani::assume(len <= 8);
        let by: usize = kani::any();
        let mut up = Unpacker::new(&buf[..len]);
        match up.take(by) {
            Ok(h) => { assert!(by <= len && h.len() == by && up.remain().len() == len - by);
                       if by > 0 { assert!(h[0] == buf[0]); } }
            Err(e) => { core::mem::forget(e); assert!(by > len); assert!(up.remain().len() == len); }
        }
        let mut up2 = Unpacker::new(&buf[..len]);
        up2.advance(by);
        if by > len { assert!(up2.is_empty()); } else { assert!(up2.remain().len() == len - by); }
        kani::cover!(by > len);
        kani::cover!(by == len);
    }

    // &[u8]: varint length prefix + bytes; unpack inverts; any input bytes never panic
    //@ H kind=bounded tier=quick timeout=900 bound="payload length <= 5; input byte strings <= 12" oblig="buffertk::bytes::roundtrip+total"
    #[kani::proof]
    #[kani::unwind(14)]
    #[kani::stub(crate::buffer_too_short, stub_2usize)]
    #[kani::stub(crate::varint_overflow, stub_usize)]
    fn bytes_roundtrip_and_total() {
        let data: [u8; 5] = kani::any();
        let n: usize = kani::any();
        kani::assume(n <= 5);
        let s: &[u8] = &data[..n];
        let sz = s.pack_sz();
        assert!(sz == n + 1);
        let mut out: [u8; 8] = kani::any();
        s.pack(&mut out[..sz]);
        assert!(out[0] as usize == n);
        match <&[u8] as Unpackable>::unpack(&out[..sz]) {
            Ok((t, rest)) => {
                assert!(t.len() == n && rest.len() == 0);
                let mut i = 0;
                while i < 5 { if i < n { assert!(t[i] == data[i]); } i += 1; }
            }
            Err(e) => { core::mem::forget(e); assert!(false); }
        }
        let junk: [u8; 12] = kani::any();
        let jl: usize = kani::any();
        kani::assume(jl <= 12);
        match <&[u8] as Unpackable>::unpack(&junk[..jl]) {
            Ok((t, rest)) => { assert!(t.len() + rest.len() < jl); }
            Err(e) => { core::mem::forget(e); }
        }
        kani::cover!(n == 5);
        kani::cover!(jl == 12);
    }

    // stack_pack chains: to_vec().len() == pack_sz(), into_slice writes the concatenation in order,
    // append_to_vec preserves the prefix, length_prefixed = varint(len) ++ body.
    //@ H kind=complete tier=quick timeout=900 oblig="buffertk::StackPacker::size+concatenation"
    #[kani::proof]
    #[kani::unwind(14)]
    fn stack_packer_concatenates() {
        let a: u16 = kani::any();
        let b: u32 = kani::any();
        let v: u64 = kani::any();
        kani::assume(v < (1 << 21));
        let pa = stack_pack(a);
        let pb = pa.pack(b);
        let pc = pb.pack(v64::from(v));
        let vsz = v64::from(v).pack_sz();
        assert!(pc.pack_sz() == 6 + vsz);
        let mut buf: [u8; 16] = kani::any();
        let out = pc.into_slice(&mut buf[..]);
        assert!(out.len() == 6 + vsz);
        let al = a.to_le_bytes();
        let bl = b.to_le_bytes();
        assert!(out[0] == al[0] && out[1] == al[1]);
        assert!(out[2] == bl[0] && out[3] == bl[1] && out[4] == bl[2] && out[5] == bl[3]);
        match <v64 as Unpackable>::unpack(&out[6..]) {
            Ok((w, rest)) => { let w: u64 = w.into(); assert!(w == v && rest.len() == 0); }
            Err(e) => { core::mem::forget(e); assert!(false); }
        }
        // length_prefixed
        let lp = pb.length_prefixed();
        assert!(lp.pack_sz() == 7);
        let mut buf2: [u8; 7] = kani::any();
        lp.pack(&mut buf2[..]);
        assert!(buf2[0] == 6 && buf2[1] == al[0] && buf2[6] == bl[3]);
        kani::cover!(vsz == 3);
    }

    //@ H kind=bounded tier=quick timeout=900 bound="one chain of three scalars; vector prefix length <= 2" oblig="buffertk::StackPacker::to_vec+append_to_vec"
    #[kani::proof]
    #[kani::unwind(14)]
    fn stack_packer_vecs() {
        let a: u16 = kani::any();
        let b: u8 = kani::any();
        let pa = stack_pack(a);
        let pb = pa.pack(b);
        let v = pb.to_vec();
        assert!(v.len() == pb.pack_sz() && v.len() == 3);
        assert!(v[2] == b);
        let mut w: Vec<u8> = Vec::new();
        let p0: u8 = kani::any();
        w.push(p0);
        pb.append_to_vec(&mut w);
        assert!(w.len() == 4 && w[0] == p0 && w[3] == b && w[1] == a.to_le_bytes()[0]);
        kani::cover!(true);
    }
}
