// Unit lsmtk_wake (C20, NECESSARY conditions only): the wake-up protocol of the store, function by function.  C20 is a
// liveness property over all schedules and is not decided by contracts; what a function contract can decide is that the
// code which CREATES the event a sleeper waits for also DELIVERS the wake-up, on every path:
//   * KeyValueStore::write -- everything after the writer has linked itself into the wait list (region: from the end of
//     the locked block to the end of the function): on EVERY return path, error paths included, the writer's guard is
//     unlinked and the new head of the wait list is notified (at least once) (a writer that leaves without notifying parks
//     the writer queued behind it for good);
//   * LsmTree::apply_manifest_ingest (tail): the new version is installed and THEN the compaction threads are notified;
//   * LsmTree::apply_manifest_compaction / apply_moving_compaction (tails): the new version is installed and THEN the
//     stalled ingests are notified.
//   * LsmTree::compaction_thread (the statement after a compaction is picked): a compaction that fails is released before
//     the thread returns the error.
// Ghost counters on the stubs of the wait list and the condition variables carry the protocol.  `drop(wait_guard)` is
// read as WaitList::unlink(wait_guard) (what WaitGuard's Drop does); dropping an Arc clone has no modelled effect.
use vstd::prelude::*;
verus! {
global size_of usize == 8;

#[verifier::external_body]
struct SError { _p: u8 }
#[verifier::external_body]
struct WriteBatch { _p: u8 }
#[verifier::external_body]
struct MemTableArc { _p: u8 }
#[verifier::external_body]
struct LogArc { _p: u8 }
#[verifier::external_body]
struct LogBatch { _p: u8 }
#[verifier::external_body]
struct StateGuard { _p: u8 }
#[verifier::external_body]
struct StateMutex { _p: u8 }
impl StateMutex {
    // `self.state.lock().unwrap()`
    #[verifier::external_body]
    fn lock_unwrap(&self) -> (r: StateGuard) { unimplemented!() }
}
#[verifier::external_body]
struct WaitGuard { _p: u8 }
impl WaitGuard {
    #[verifier::external_body]
    fn is_head(&mut self) -> (r: bool) { unimplemented!() }
    #[verifier::external_body]
    fn naked_wait(&self, guard: StateGuard) -> (r: StateGuard) { unimplemented!() }
}
// sync42::wait_list::WaitList: how many guards are linked, how often the head has been notified
#[verifier::external_body]
struct WaitList { _p: u8 }
impl WaitList {
    uninterp spec fn linked(&self) -> nat;
    uninterp spec fn notified(&self) -> nat;
    // how many guards were linked when the head was last notified
    uninterp spec fn notified_with(&self) -> nat;
    // what WaitGuard's Drop does (`drop(wait_guard)`)
    #[verifier::external_body]
    fn unlink(&mut self, guard: WaitGuard)
        requires old(self).linked() >= 1,
        ensures final(self).linked() == old(self).linked() - 1, final(self).notified() == old(self).notified(), final(self).notified_with() == old(self).notified_with(),
    { unimplemented!() }
    #[verifier::external_body]
    fn notify_head(&mut self)
        ensures final(self).linked() == old(self).linked(), final(self).notified() == old(self).notified() + 1, final(self).notified_with() == old(self).linked(),
    { unimplemented!() }
}
// the fallible middle of a write, in either shape: any result
#[verifier::external_body]
fn build_log_batch(batch: &WriteBatch) -> (r: Result<LogBatch, SError>) { unimplemented!() }
impl LogArc {
    #[verifier::external_body]
    fn append(&self, b: LogBatch) -> (r: Result<(), SError>) { unimplemented!() }
}
impl MemTableArc {
    #[verifier::external_body]
    fn write(&self, b: &mut WriteBatch) -> (r: Result<(), SError>) { unimplemented!() }
}
struct KeyValueStore { wait_list: WaitList, state: StateMutex }
impl KeyValueStore {
    #[verifier::external_body]
    fn poison(&self, r: Result<(), SError>) -> (q: Result<(), SError>) ensures (q is Ok) == (r is Ok) { unimplemented!() }
    #[verifier::external_body]
    fn log_and_apply(&self, batch: &mut WriteBatch, memtable: &MemTableArc, log: &LogArc) -> (r: Result<(), SError>) { unimplemented!() }
}

//@ extract lsmtk/src/kvs/mod.rs | impl KeyValueStore :: fn write
//@ region >`let (mut wait_guard, memtable, log` ..$
//@ region-sig <<
#[verifier::exec_allows_no_decreases_clause]
fn write_after_link(kvs: &mut KeyValueStore, mut batch: WriteBatch, memtable: MemTableArc, log: LogArc, mut wait_guard: WaitGuard, seq_no: u64) -> (r: Result<(), SError>)
//@ >>
//@ region-tail <<
//@ >>
//@ rewrite-re X18 `\bself\.` => `kvs.`
//@ rewrite-re? X7 `(?s)let mut log_batch = sst::log::WriteBatch::default\(\);\s*for entry in batch\.entries\.iter\(\) \{\s*log_batch\.insert\(KeyValueRef::from\(entry\)\)\?;\s*\}` => `let log_batch = build_log_batch(&batch)?;`
//@ rewrite-re? X18 `drop\((memtable|log)\);` => ``
//@ rewrite X18 `drop(wait_guard);` => `kvs.wait_list.unlink(wait_guard);`
//@ rewrite-re? X7 `(?m)^\s*state\.visible_seq_no = .*;\n` => ``
//@ rewrite X7 `kvs.state.lock().unwrap()` => `kvs.state.lock_unwrap()`
//@ pre <<
        old(kvs).wait_list.linked() >= 1,
//@ >>
//@ post <<
        // whatever became of the batch: the guard is gone and the next head has been told
        final(kvs).wait_list.linked() == old(kvs).wait_list.linked() - 1,
        final(kvs).wait_list.notified() >= old(kvs).wait_list.notified() + 1,
        // ... AFTER the guard was unlinked (a notification sent while the writer is still head wakes the writer itself)
        final(kvs).wait_list.notified_with() == old(kvs).wait_list.linked() - 1,
//@ >>
//@ loop 0 <<
        invariant kvs.wait_list.linked() == old(kvs).wait_list.linked(), kvs.wait_list.notified() == old(kvs).wait_list.notified(), kvs.wait_list.notified_with() == old(kvs).wait_list.notified_with(),
//@ >>
//@ end

// ---------------------------------------------------------------- version installation and the two condition variables
#[verifier::external_body]
struct Version { _p: u8 }
#[verifier::external_body]
struct Condvar { _p: u8 }
impl Condvar {
    uninterp spec fn notified(&self) -> nat;
    // what has been installed when the last notification went out
    uninterp spec fn notified_at(&self) -> nat;
}
struct LsmTree { stall: Condvar, compact: Condvar, installs: Ghost<nat> }
impl LsmTree {
    // `self.install_version(v)`: one more version installed
    #[verifier::external_body]
    fn install_version(&mut self, v: Version)
        ensures final(self).installs@ == old(self).installs@ + 1, final(self).stall == old(self).stall, final(self).compact == old(self).compact,
    { unimplemented!() }
    #[verifier::external_body]
    fn notify_all_stall(&mut self)
        ensures final(self).installs@ == old(self).installs@, final(self).compact == old(self).compact,
            final(self).stall.notified() == old(self).stall.notified() + 1, final(self).stall.notified_at() == old(self).installs@,
    { unimplemented!() }
    #[verifier::external_body]
    fn notify_all_compact(&mut self)
        ensures final(self).installs@ == old(self).installs@, final(self).stall == old(self).stall,
            final(self).compact.notified() == old(self).compact.notified() + 1, final(self).compact.notified_at() == old(self).installs@,
    { unimplemented!() }
}

// an ingest creates work for the compaction threads: they are notified AFTER the version that holds the work is installed
//@ extract lsmtk/src/tree/mod.rs | impl LsmTree :: fn apply_manifest_ingest
//@ region `tree.install_version(new_version);` ..$
//@ region-sig <<
fn ingest_tail(tree: &mut LsmTree, new_version: Version) -> (r: Result<(), SError>)
//@ >>
//@ region-tail <<
//@ >>
//@ rewrite-re X18 `\bself\.` => `tree.`
//@ rewrite-re? X7 `tree\.compact\.notify_all\(\);` => `tree.notify_all_compact();`
//@ rewrite-re? X7 `tree\.stall\.notify_all\(\);` => `tree.notify_all_stall();`
//@ post <<
        r is Ok ==> final(tree).installs@ == old(tree).installs@ + 1
            && final(tree).compact.notified() >= old(tree).compact.notified() + 1 && final(tree).compact.notified_at() == final(tree).installs@,
//@ >>
//@ end

// an applied compaction (or trivial move) may relieve a stalled ingest: it is notified AFTER the new version is installed
//@ extract lsmtk/src/tree/mod.rs | impl LsmTree :: fn apply_manifest_compaction
//@ region `tree.install_version(new_version);` ..$
//@ region-sig <<
fn compaction_tail(tree: &mut LsmTree, new_version: Version) -> (r: Result<(), SError>)
//@ >>
//@ region-tail <<
//@ >>
//@ rewrite-re X18 `\bself\.` => `tree.`
//@ rewrite-re? X7 `tree\.compact\.notify_all\(\);` => `tree.notify_all_compact();`
//@ rewrite-re? X7 `tree\.stall\.notify_all\(\);` => `tree.notify_all_stall();`
//@ post <<
        r is Ok ==> final(tree).installs@ == old(tree).installs@ + 1
            && final(tree).stall.notified() >= old(tree).stall.notified() + 1 && final(tree).stall.notified_at() == final(tree).installs@,
//@ >>
//@ end
//@ extract lsmtk/src/tree/mod.rs | impl LsmTree :: fn apply_moving_compaction
//@ region `tree.install_version(new_version);` ..$
//@ region-sig <<
fn moving_compaction_tail(tree: &mut LsmTree, new_version: Version) -> (r: Result<(), SError>)
//@ >>
//@ region-tail <<
//@ >>
//@ rewrite-re X18 `\bself\.` => `tree.`
//@ rewrite-re? X7 `tree\.compact\.notify_all\(\);` => `tree.notify_all_compact();`
//@ rewrite-re? X7 `tree\.stall\.notify_all\(\);` => `tree.notify_all_stall();`
//@ post <<
        r is Ok ==> final(tree).installs@ == old(tree).installs@ + 1
            && final(tree).stall.notified() >= old(tree).stall.notified() + 1 && final(tree).stall.notified_at() == final(tree).installs@,
//@ >>
//@ end

// ---------------------------------------------------------------- memtable rollover wakes the flush thread
// the flush thread sleeps `while state.imm_trigger < state.mem_seq_no`; a rollover makes that condition false and notifies
struct RollState { imm_trigger: u64, mem_seq_no: u64 }
#[verifier::external_body]
struct FlushCondvar { _p: u8 }
impl FlushCondvar {
    uninterp spec fn notified(&self) -> nat;
    #[verifier::external_body]
    fn notify_one(&mut self) ensures final(self).notified() == old(self).notified() + 1 { unimplemented!() }
}
fn max_u64(a: u64, b: u64) -> (r: u64) ensures r == (if a >= b { a } else { b }) { if a >= b { a } else { b } }
fn min_u64(a: u64, b: u64) -> (r: u64) ensures r == (if a <= b { a } else { b }) { if a <= b { a } else { b } }
struct KvsRoll { cnd_needs_memtable_flush: FlushCondvar }
impl KvsRoll {
//@ extract lsmtk/src/kvs/mod.rs | impl KeyValueStore :: fn rollover_memtable
//@ ret r
//@ rewrite-re X20 `fn rollover_memtable<'a: 'b, 'b>\(\s*&'a self,\s*mut lock_guard: MutexGuard<'b, KeyValueStoreState>,\s*\) -> MutexGuard<'b, KeyValueStoreState>` => `fn rollover_memtable(&mut self, mut lock_guard: RollState) -> RollState`
//@ rewrite-re? X4 `std::cmp::max\(` => `max_u64(`
//@ rewrite-re? X4 `std::cmp::min\(` => `min_u64(`
//@ post <<
        // the flush thread's wait condition is false afterwards, and it has been told
        r.imm_trigger >= r.mem_seq_no, r.mem_seq_no == lock_guard.mem_seq_no, r.imm_trigger >= lock_guard.imm_trigger,
        final(self).cnd_needs_memtable_flush.notified() >= old(self).cnd_needs_memtable_flush.notified() + 1,
//@ >>
//@ end
}

// ---------------------------------------------------------------- a failed compaction is released
// LsmTree::compaction_thread, the statement after a compaction has been picked: when perform_compaction fails, the
// compaction is released (taken off the ongoing list, so its inputs can be picked again by another thread or after a
// restart of this one) BEFORE the thread returns the error; nothing else on the ongoing list is touched.  The
// compaction mutex, the snapshot through which the list is reached and the ignored result of release_compaction are
// dropped (X23); Compaction::clone keeps the identity (it clones an Arc).
#[verifier::external_body]
struct CompactionH { _p: u8 }
impl CompactionH {
    uninterp spec fn id(&self) -> int;
    #[verifier::external_body]
    fn clone(&self) -> (r: CompactionH) ensures r.id() == self.id() { unimplemented!() }
}
struct CThread { ongoing: Ghost<ISet<int>> }
impl CThread {
    #[verifier::external_body]
    fn perform_compaction(&mut self, c: CompactionH) -> (r: Result<(), SError>)
        ensures r is Err ==> final(self).ongoing@ == old(self).ongoing@,
    { unimplemented!() }
    // version.version.release_compaction(compaction): the entry with this identity leaves the list (Err if there was none)
    #[verifier::external_body]
    fn release_ongoing(&mut self, c: CompactionH) -> (r: Result<(), SError>)
        ensures final(self).ongoing@ == old(self).ongoing@.remove(c.id()),
    { unimplemented!() }
}
//@ extract lsmtk/src/tree/mod.rs | impl LsmTree :: fn compaction_thread
//@ region `if let Err(err) = tree.perform_compaction(`
//@ region-sig <<
fn compaction_attempt(tree: &mut CThread, compaction: CompactionH) -> (r: Result<(), SError>)
//@ >>
//@ region-tail <<
    Ok(())
//@ >>
//@ rewrite-re X18 `\bself\.perform_compaction\(` => `tree.perform_compaction(`
//@ rewrite-re? X23 `(?m)^\s*let _mutex = self\.compaction\.lock\(\)\.unwrap\(\);\n` => ``
//@ rewrite-re? X23 `(?m)^\s*let version = self\.take_snapshot\(\);\n` => ``
//@ rewrite-re? X23 `version\.version\.release_compaction\(` => `tree.release_ongoing(`
//@ post <<
        r is Err ==> !final(tree).ongoing@.contains(compaction.id())
            && forall|x: int| x != compaction.id() ==> (final(tree).ongoing@.contains(x) <==> old(tree).ongoing@.contains(x)),
//@ >>
//@ end

// Version::release_compaction, entire -- the function behind release_ongoing above: the entry of the ongoing list that IS
// this compaction (Arc::ptr_eq on the core) is removed, every other entry stays; Err, and nothing changes, when there is
// none.  The list mutex is read through (X23: `ongoing_list` is `self.ongoing`), `iter().enumerate()` as an index loop
// (X13), &self as &mut self (X20).  ASSUMED: an ongoing compaction is on the list once (identities on the list are
// pairwise distinct) -- then "the first match is removed" is "the compaction is removed".
#[verifier::external_body]
struct CoreArc { _p: u8 }
impl CoreArc { uninterp spec fn id(&self) -> int; }
#[verifier::external_body]
fn core_ptr_eq(a: &CoreArc, b: &CoreArc) -> (r: bool) ensures r == (a.id() == b.id()) { unimplemented!() }
#[verifier::external_body]
fn not_ongoing_error() -> (r: SError) { unimplemented!() }
struct CompactionC { core: CoreArc }
struct VersionO { ongoing: Vec<CoreArc> }
spec fn ids(l: Seq<CoreArc>) -> ISet<int> { ISet::new(|x: int| exists|k: int| 0 <= k < l.len() && (#[trigger] l[k]).id() == x) }
spec fn distinct(l: Seq<CoreArc>) -> bool { forall|a: int, b: int| 0 <= a < b < l.len() ==> (#[trigger] l[a]).id() != (#[trigger] l[b]).id() }
impl VersionO {
//@ extract lsmtk/src/tree/mod.rs | impl Version :: fn release_compaction
//@ ret r
//@ rewrite-re X20 `fn release_compaction\(&self, compaction: Compaction\)` => `fn release_compaction(&mut self, compaction: CompactionC)`
//@ rewrite-re X23 `(?m)^\s*let mut ongoing_list = self\.ongoing\.lock\(\)\.unwrap\(\);\n` => ``
//@ rewrite-re X13 `for \(idx, ongoing\) in ongoing_list\.iter\(\)\.enumerate\(\) \{` => `for idx in 0..self.ongoing.len() { let ongoing = &self.ongoing[idx];`
//@ rewrite-re? X23 `\bongoing_list\b` => `self.ongoing`
//@ rewrite-re X18 `Arc::ptr_eq\(ongoing, &compaction\.core\)` => `core_ptr_eq(ongoing, &compaction.core)`
//@ rewrite-re? X7 `Err\(logic_error\("Provided a compaction that is not ongoing"\)\)` => `Err(not_ongoing_error())`
//@ rewrite-re? X4 `self\.ongoing\.swap_remove\((\w+)\);` => `let _ = self.ongoing.swap_remove(\1);`
//@ pre <<
        distinct(old(self).ongoing@),
//@ >>
//@ post <<
        r is Ok ==> ids(old(self).ongoing@).contains(compaction.core.id()) && ids(final(self).ongoing@) =~= ids(old(self).ongoing@).remove(compaction.core.id())
            && distinct(final(self).ongoing@),
        r is Err ==> !ids(old(self).ongoing@).contains(compaction.core.id()) && final(self).ongoing@ == old(self).ongoing@,
//@ >>
//@ loop `for idx in` <<
            invariant self.ongoing@ == old(self).ongoing@, distinct(self.ongoing@),
                forall|k: int| 0 <= k < idx ==> (#[trigger] self.ongoing@[k]).id() != compaction.core.id(), /* contract-inv */
//@ >>
//@ after? `let _ = self.ongoing.swap_remove(` <<
                proof { if self.ongoing@ == old(self).ongoing@.update(idx as int, old(self).ongoing@.last()).drop_last() { lemma_swap_remove_ids(old(self).ongoing@, self.ongoing@, idx as int); } }
//@ >>
//@ end
}
// Version::apply_compaction, entire (the key-range surgery behind it, apply_compaction_inner, is unit lsmtk_surgery; here a
// stub): a compaction that is applied has left the ongoing list; when the surgery fails it has left it already or is
// still on it (nothing else happens to the list); one that is not on the list is refused without touching anything.
#[verifier::external_body]
struct OutputsV { _p: u8 }
impl VersionO {
    #[verifier::external_body]
    fn apply_compaction_inner(&self, core: CoreArc, outputs: OutputsV) -> (r: Result<VersionO, SError>) { unimplemented!() }
//@ extract lsmtk/src/tree/mod.rs | impl Version :: fn apply_compaction
//@ ret r
//@ rewrite-re X20 `(?s)fn apply_compaction\(\s*&self,\s*compaction: Compaction,\s*outputs: Vec<SstMetadata>,\s*\) -> Result<Self, SError>` => `fn apply_compaction(&mut self, compaction: CompactionC, outputs: OutputsV) -> Result<VersionO, SError>`
//@ rewrite-re X23 `(?m)^\s*let mut ongoing_list = self\.ongoing\.lock\(\)\.unwrap\(\);\n` => ``
//@ rewrite-re X13 `for \(idx, ongoing\) in ongoing_list\.iter\(\)\.enumerate\(\) \{` => `for idx in 0..self.ongoing.len() { let ongoing = &self.ongoing[idx];`
//@ rewrite-re? X23 `\bongoing_list\b` => `self.ongoing`
//@ rewrite-re X18 `Arc::ptr_eq\(ongoing, &compaction\.core\)` => `core_ptr_eq(ongoing, &compaction.core)`
//@ rewrite-re? X7 `Err\(logic_error\("Provided a compaction that is not ongoing"\)\)` => `Err(not_ongoing_error())`
//@ rewrite-re? X4 `self\.ongoing\.swap_remove\((\w+)\);` => `let _ = self.ongoing.swap_remove(\1);`
//@ pre <<
        distinct(old(self).ongoing@),
//@ >>
//@ post <<
        // applied: it was on the list and is off it now
        r is Ok ==> ids(old(self).ongoing@).contains(compaction.core.id())
            && ids(final(self).ongoing@) =~= ids(old(self).ongoing@).remove(compaction.core.id()) && distinct(final(self).ongoing@),
        // failed: off the list already, or still on it (the caller's error path releases it: region compaction_attempt)
        r is Err ==> final(self).ongoing@ == old(self).ongoing@
            || (ids(final(self).ongoing@) =~= ids(old(self).ongoing@).remove(compaction.core.id()) && distinct(final(self).ongoing@)),
        !ids(old(self).ongoing@).contains(compaction.core.id()) ==> r is Err && final(self).ongoing@ == old(self).ongoing@,
//@ >>
//@ loop `for idx in` <<
            invariant self.ongoing@ == old(self).ongoing@, distinct(self.ongoing@),
                forall|k: int| 0 <= k < idx ==> (#[trigger] self.ongoing@[k]).id() != compaction.core.id(), /* contract-inv */
//@ >>
//@ after? `let _ = self.ongoing.swap_remove(` <<
                proof { if self.ongoing@ == old(self).ongoing@.update(idx as int, old(self).ongoing@.last()).drop_last() { lemma_swap_remove_ids(old(self).ongoing@, self.ongoing@, idx as int); } }
//@ >>
//@ end
}
proof fn lemma_swap_remove_ids(l0: Seq<CoreArc>, l1: Seq<CoreArc>, i: int)
    requires 0 <= i < l0.len(), distinct(l0), l1 == l0.update(i, l0.last()).drop_last(),
    ensures ids(l1) =~= ids(l0).remove(l0[i].id()), distinct(l1), ids(l0).contains(l0[i].id()),
{
    let n = l0.len() as int;
    assert forall|x: int| ids(l1).contains(x) <==> (ids(l0).contains(x) && x != l0[i].id()) by {
        if ids(l1).contains(x) {
            let k = choose|k: int| 0 <= k < l1.len() && (#[trigger] l1[k]).id() == x;
            if k == i { assert(l1[k] == l0[n - 1]); assert(l0[n - 1].id() == x); assert(i < n - 1); }
            else { assert(l1[k] == l0[k]); assert(l0[k].id() == x); }
        }
        if ids(l0).contains(x) && x != l0[i].id() {
            let k = choose|k: int| 0 <= k < l0.len() && (#[trigger] l0[k]).id() == x;
            if k == n - 1 { assert(i < n - 1); assert(l1[i] == l0[n - 1]); assert(l1[i].id() == x); }
            else { assert(l1[k] == l0[k]); assert(l1[k].id() == x); }
        }
    }
    assert forall|a: int, b: int| 0 <= a < b < l1.len() implies (#[trigger] l1[a]).id() != (#[trigger] l1[b]).id() by {
        let a0 = if a == i { n - 1 } else { a }; let b0 = if b == i { n - 1 } else { b };
        assert(l1[a] == l0[a0] && l1[b] == l0[b0]);
        if a0 < b0 { assert(l0[a0].id() != l0[b0].id()); } else { assert(l0[b0].id() != l0[a0].id()); }
    }
    assert(l0[i].id() == l0[i].id());
}

//@ min-verified 9
} // verus!
fn main() {}
